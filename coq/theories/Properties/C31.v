(* C31 — Cherry-pick, revert and rebase obey their merge definitions.  Property theorems only. *)
From Coq Require Import NArith List Bool.
From Dolt Require Import C31.Model C31.Spec C31.Corr C31.Proofs.
Local Open Scope N_scope.

Theorem C31_merge3_pointwise :
  forall b o t k, get k (merge3 b o t) = mval (merge_row (get k b) (get k o) (get k t)).
Proof. exact get_merge3. Qed.
Print Assumptions C31_merge3_pointwise.

Theorem C31_merge3_is_the_merge :
  forall b o t, clean b o t = true -> is_merge3 b o t (merge3 b o t).
Proof. exact merge3_is_merge. Qed.
Print Assumptions C31_merge3_is_the_merge.

Theorem C31_merge3_base_left : forall b x, clean b b x = true /\ merge3 b b x = norm x.
Proof. exact (fun b x => conj (proj1 (merge3_base_left b x)) (merge3_base_left_eq b x)). Qed.
Print Assumptions C31_merge3_base_left.

Theorem C31_merge3_base_right : forall b x, clean b x b = true /\ merge3 b x b = norm x.
Proof. exact (fun b x => conj (proj1 (merge3_base_right b x)) (merge3_base_right_eq b x)). Qed.
Print Assumptions C31_merge3_base_right.

Theorem C31_merge3_same : forall b x, clean b x x = true /\ merge3 b x x = norm x.
Proof. exact (fun b x => conj (proj1 (merge3_same b x)) (merge3_same_eq b x)). Qed.
Print Assumptions C31_merge3_same.

Theorem C31_norm_canonical : forall m, canonical m = true -> norm m = m.
Proof. exact norm_canonical. Qed.
Print Assumptions C31_norm_canonical.

Theorem C31_cherry_pick_is_merge :
  forall head p c,
  match cherry_pick head p c with
  | POk d => is_merge3 p head c d
  | PNoChange => is_merge3 p head c head
  | PConflict => has_conflict p head c
  | PBad => False
  end.
Proof. exact cherry_pick_is_merge. Qed.
Print Assumptions C31_cherry_pick_is_merge.

Theorem C31_revert_is_merge :
  forall head p c,
  match revert head p c with
  | POk d => is_merge3 c head p d
  | PNoChange => is_merge3 c head p head
  | PConflict => has_conflict c head p
  | PBad => False
  end.
Proof. exact revert_is_merge. Qed.
Print Assumptions C31_revert_is_merge.

Theorem C31_revert_latest :
  forall p c, revert c p c = if content_eqb (norm p) (norm c) then PNoChange else POk (norm p).
Proof. exact revert_latest. Qed.
Print Assumptions C31_revert_latest.

Theorem C31_cherry_pick_on_parent :
  forall p c, cherry_pick p p c = if content_eqb (norm c) (norm p) then PNoChange else POk (norm c).
Proof. exact cherry_pick_on_parent. Qed.
Print Assumptions C31_cherry_pick_on_parent.

Theorem C31_rebase_is_fold :
  forall onto p,
  match run_plan onto p with
  | ROk s => valid_plan p = true /\ exists d, fold_picks onto (kept p) = Some d /\ ext_eq (r_head s) d
  | RConflict => valid_plan p = true /\ fold_picks onto (kept p) = None
  | RInvalid => valid_plan p = false
  end.
Proof. exact rebase_is_fold. Qed.
Print Assumptions C31_rebase_is_fold.

Theorem C31_squash_only_boundaries :
  forall onto p, valid_plan p = true ->
  match run_plan onto p, run_plan onto (as_picks p) with
  | ROk s, ROk s' => ext_eq (r_head s) (r_head s')
  | RConflict, RConflict => True
  | _, _ => False
  end.
Proof. exact squash_only_boundaries. Qed.
Print Assumptions C31_squash_only_boundaries.

Theorem C31_get_resolved :
  forall h b o t k,
  get k (resolved h b o t) = match merge_row (get k b) (get k o) (get k t) with
                             | MOk v => v
                             | MConflict => pick_side h (get k o) (get k t)
                             end.
Proof. exact get_resolved. Qed.
Print Assumptions C31_get_resolved.

Theorem C31_merge_proc_spec :
  forall m b o t,
  match merge_proc m b o t with
  | QOk d => is_merge3 b o t d
  | QNoChange => is_merge3 b o t o
  | QConflict => has_conflict b o t /\ m = Stop
  | QResolved d => has_conflict b o t /\ exists h, m = Resolve h /\ is_resolved h b o t d
  | QAborted d => has_conflict b o t /\ m = Abort /\ d = norm o
  end.
Proof. exact merge_proc_spec. Qed.
Print Assumptions C31_merge_proc_spec.

Theorem C31_abort_restores :
  forall b o t edits, abort_op (fold_left apply_uedit edits (start_paused b o t)) = Some (clean_state o).
Proof. exact abort_restores. Qed.
Print Assumptions C31_abort_restores.

Theorem C31_rebase2_is_fold :
  forall m orig onto p,
  match run_plan2 m orig onto p with
  | R2Ok s _ => valid_plan p = true /\ exists d, fold_picks2 m onto (kept p) = Some d /\ ext_eq (r_head s) d
  | R2Conflict => valid_plan p = true /\ m = Stop /\ fold_picks2 m onto (kept p) = None
  | R2Aborted d => valid_plan p = true /\ m = Abort /\ d = orig /\ fold_picks2 m onto (kept p) = None
  | R2Invalid => valid_plan p = false
  end.
Proof. exact rebase2_is_fold. Qed.
Print Assumptions C31_rebase2_is_fold.

Theorem C31_rebase_abort_restores :
  forall orig onto p d, run_plan2 Abort orig onto p = R2Aborted d -> d = orig.
Proof. exact rebase_abort_restores. Qed.
Print Assumptions C31_rebase_abort_restores.

Theorem C31_smerge_proc_same_schema :
  forall m s b o t, smerge_proc m s s s b o t = (s, merge_proc m b o t).
Proof. exact smerge_proc_same_schema. Qed.
Print Assumptions C31_smerge_proc_same_schema.

(* full statement: forall i, oracle i (model_obs i) = true; proved for commit trees of one schema
   (what is missing for schema-changing commits is listed in C31/Proofs.v) *)
Theorem C31_oracle_on_model_partial :
  forall cs ops, one_schema cs -> oracle (cs, ops) (model_obs (cs, ops)) = true.
Proof. exact oracle_on_model_partial. Qed.
Print Assumptions C31_oracle_on_model_partial.
