(* C16 — Large TEXT, BLOB and JSON values are stored faithfully.  Property theorems only. *)
From Coq Require Import NArith ZArith List Bool.
From Dolt Require C15.Proofs.
From Dolt Require Import Base.Str Gen.C15Consts C15.Model C16.Model C16.Spec C16.Corr C16.Proofs.
Import ListNotations.
Local Open Scope N_scope.

Theorem C16_vi_roundtrip :
  forall (n : N) (rest : bytes), n < 2 ^ 64 -> vi_dec (vi_enc n ++ rest) = (n, len (vi_enc n)).
Proof. exact C15.Proofs.vi_roundtrip. Qed.
Print Assumptions C16_vi_roundtrip.

Theorem C16_vi_first_byte_nonzero :
  forall n : N, 0 < n -> hd 0 (vi_enc n) <> 0.
Proof. exact C15.Proofs.vi_first_byte_nonzero. Qed.
Print Assumptions C16_vi_first_byte_nonzero.

Theorem C16_ad_roundtrip :
  forall v : aval, wf_aval v -> ad_dec (ad_enc v) = v.
Proof. exact ad_roundtrip. Qed.
Print Assumptions C16_ad_roundtrip.

Theorem C16_blob_roundtrip :
  forall (sizes : list nat) (b : bytes), concat (split_by sizes b) = b.
Proof. exact blob_roundtrip. Qed.
Print Assumptions C16_blob_roundtrip.

Theorem C16_blob_tree_roundtrip :
  forall (K F : N) (b : bytes), 0 < K -> 0 < F -> forest_bytes (blob_forest K F b) = b.
Proof. exact blob_tree_roundtrip. Qed.
Print Assumptions C16_blob_tree_roundtrip.

(* partial: contents that fit one chunk (every value that can be inline at all
   when the length target does not exceed the chunk size).  The full statement —
   the same for all contents — is refuted below. *)
Theorem C16_compare_adaptive_small_partial :
  forall (K F : N) (content : bytes -> bytes) (cl cr : bytes) (l r : aval),
    0 < K -> len cl <= K -> len cr <= K -> repr_of content cl l -> repr_of content cr r ->
    compare_adaptive K F content l r = bytes_compare cl cr.
Proof. exact compare_adaptive_small. Qed.
Print Assumptions C16_compare_adaptive_small_partial.

Theorem C16_compare_adaptive_repr_indep_partial :
  forall (K F : N) (content : bytes -> bytes) (cl cr : bytes) (l l' r r' : aval),
    0 < K -> len cl <= K -> len cr <= K ->
    repr_of content cl l -> repr_of content cl l' -> repr_of content cr r -> repr_of content cr r' ->
    compare_adaptive K F content l r = compare_adaptive K F content l' r'.
Proof. exact compare_adaptive_repr_indep. Qed.
Print Assumptions C16_compare_adaptive_repr_indep_partial.

Theorem C16_compare_adaptive_order_refuted :
  exists (content : bytes -> bytes) (l r : aval) (cl cr : bytes),
    repr_of content cl l /\ repr_of content cr r /\ cl <> cr
    /\ compare_adaptive c_blob_chunk_length (c_blob_chunk_length / c_hash_byte_len) content l r = Eq.
Proof. exact compare_adaptive_order_refuted. Qed.
Print Assumptions C16_compare_adaptive_order_refuted.

(* aligned leaf lists: the first differing pair of leaves decides, for every chunk size *)
Theorem C16_first_diff_chunks :
  forall (K : nat) (a b : bytes), (0 < K)%nat -> first_diff (chunks K a) (chunks K b) = bytes_compare a b.
Proof. exact first_diff_chunks. Qed.
Print Assumptions C16_first_diff_chunks.

(* all contents: the comparison is the byte order of the contents whenever the
   pair is outside the class of the finding (cmp_safe: two trees of the same
   height >= 1, or a side that cannot extend past the first leaf of the other).
   The statement without cmp_safe is refuted above. *)
Theorem C16_compare_adaptive_correct :
  forall (K F : N) (content : bytes -> bytes) (cl cr : bytes) (l r : aval),
    0 < K -> repr_of content cl l -> repr_of content cr r -> cmp_safe K F cl cr l r = true ->
    compare_adaptive K F content l r = bytes_compare cl cr.
Proof. exact compare_adaptive_correct. Qed.
Print Assumptions C16_compare_adaptive_correct.

Theorem C16_compare_adaptive_repr_indep :
  forall (K F : N) (content : bytes -> bytes) (cl cr : bytes) (l l' r r' : aval),
    0 < K -> repr_of content cl l -> repr_of content cl l' -> repr_of content cr r -> repr_of content cr r' ->
    cmp_safe K F cl cr l r = true -> cmp_safe K F cl cr l' r' = true ->
    compare_adaptive K F content l r = compare_adaptive K F content l' r'.
Proof. exact compare_adaptive_repr_indep_general. Qed.
Print Assumptions C16_compare_adaptive_repr_indep.

Theorem C16_compare_adaptive_same_height :
  forall (K F : N) (content : bytes -> bytes) (cl cr al ar : bytes),
    0 < K -> content al = cl -> content ar = cr ->
    top_level K F (len cl) = top_level K F (len cr) -> 0 < top_level K F (len cl) ->
    compare_adaptive K F content (AOut (len cl) al) (AOut (len cr) ar) = bytes_compare cl cr.
Proof. exact compare_adaptive_same_height. Qed.
Print Assumptions C16_compare_adaptive_same_height.

(* the executable statement of the property holds of the model on every
   well-formed input outside the class of the comparison finding *)
Theorem C16_oracle_on_model :
  forall i : input, wf_input i = true -> oracle i (model_obs i) = true.
Proof. exact oracle_on_model. Qed.
Print Assumptions C16_oracle_on_model.

(* BlobBuilder.Init's level count always yields exactly one root node, for
   every non-empty value (also at exact powers chunk * fanout^k) *)
Theorem C16_blob_forest_single_root :
  forall (K F : N) (b : bytes),
    0 < K -> 1 < F -> b <> [] -> len b < 2 ^ 64 -> length (blob_forest K F b) = 1%nat.
Proof. exact blob_forest_single_root. Qed.
Print Assumptions C16_blob_forest_single_root.

Theorem C16_compare_adaptive_antisym :
  forall (K F : N) (content : bytes -> bytes) (cl cr : bytes) (l r : aval),
    0 < K -> repr_of content cl l -> repr_of content cr r ->
    cmp_safe K F cl cr l r = true -> cmp_safe K F cr cl r l = true ->
    compare_adaptive K F content r l = CompOpp (compare_adaptive K F content l r).
Proof. exact compare_adaptive_antisym. Qed.
Print Assumptions C16_compare_adaptive_antisym.

(* collated text / JSON: a comparison that is a function of the contents only is
   antisymmetric and representation independent, given an antisymmetric order on contents *)
Theorem C16_content_compare_antisym :
  forall (content_of : aval -> bytes) (ord : bytes -> bytes -> Z),
    (forall a b, ord b a = (- ord a b)%Z) ->
    forall l r, content_compare content_of ord r l = (- content_compare content_of ord l r)%Z.
Proof. exact content_compare_antisym. Qed.
Print Assumptions C16_content_compare_antisym.

Theorem C16_content_compare_repr_indep :
  forall (content_of : aval -> bytes) (ord : bytes -> bytes -> Z) (l l' r r' : aval),
    content_of l = content_of l' -> content_of r = content_of r' ->
    content_compare content_of ord l r = content_compare content_of ord l' r'.
Proof. exact content_compare_repr_indep. Qed.
Print Assumptions C16_content_compare_repr_indep.
