(* C14 — Three-way tree merges follow key-wise merge semantics.  Property theorems only. *)
From Coq Require Import NArith List Bool.
From Dolt Require Import C14.Model C14.Spec C14.Corr C14.Proofs.
Import ListNotations.
Local Open Scope N_scope.

Theorem C14_three_way_differ_spec :
  forall (collide : collide_t) (base left right : dict N),
    sorted base -> sorted left -> sorted right ->
    forall k, lookup k (three_way collide (diff base left) (diff base right)) =
              classify collide (lookup k base) (lookup k left) (lookup k right).
Proof. exact three_way_differ_spec. Qed.
Print Assumptions C14_three_way_differ_spec.

Theorem C14_exactly_divergent_keys_reach_handler :
  forall (base left right : dict N),
    sorted base -> sorted left -> sorted right ->
    forall k, lookup k (tw_calls (diff base left) (diff base right)) =
              handler_call (lookup k base) (lookup k left) (lookup k right).
Proof. exact three_way_calls_spec. Qed.
Print Assumptions C14_exactly_divergent_keys_reach_handler.

Theorem C14_both_routes_same_handler_calls :
  forall (base left right : dict N),
    sorted base -> sorted left -> sorted right ->
    tw_calls (diff base left) (diff base right) = send_calls (diff base left) (diff base right).
Proof. exact calls_agree. Qed.
Print Assumptions C14_both_routes_same_handler_calls.

Theorem C14_merge_result_spec :
  forall (collide : collide_t) (base left right : dict N),
    sorted base -> sorted left -> sorted right ->
    sorted (merge_by_patches collide base left right) /\
    forall k, lookup k (merge_by_patches collide base left right) =
              merge3_key collide (lookup k base) (lookup k left) (lookup k right).
Proof. intros c b l r Hb Hl Hr. split; [apply patch_merge_sorted; assumption|apply patch_merge_spec; assumption]. Qed.
Print Assumptions C14_merge_result_spec.

Theorem C14_differ_merge_result_spec :
  forall (collide : collide_t) (base left right : dict N),
    sorted base -> sorted left -> sorted right ->
    delete_resolves_to_delete collide ->
    forall k, lookup k (merge_by_differ collide base left right) =
              merge3_key collide (lookup k base) (lookup k left) (lookup k right).
Proof. exact differ_merge_spec. Qed.
Print Assumptions C14_differ_merge_result_spec.

Theorem C14_patch_merge_eq_differ :
  forall (collide : collide_t) (base left right : dict N),
    sorted base -> sorted left -> sorted right ->
    delete_resolves_to_delete collide ->
    merge_by_patches collide base left right = merge_by_differ collide base left right.
Proof. exact patch_merge_eq_differ. Qed.
Print Assumptions C14_patch_merge_eq_differ.

Theorem C14_range_patches_stand_for_point_changes :
  forall (collide : collide_t) (base left right : dict N),
    sorted base -> sorted left -> sorted right ->
    forall ps : list patch,
      Forall (patch_ok collide base left right) ps ->
      (forall k to, lookup k (send_patches collide (diff base left) (diff base right)) = Some to -> covered ps k = true) ->
      apply_stream ps left = merge_by_patches collide base left right.
Proof. exact range_patches_sound. Qed.
Print Assumptions C14_range_patches_stand_for_point_changes.

Theorem C14_range_patch_is_its_points :
  forall (collide : collide_t) (base left right : dict N),
    sorted base -> sorted left -> sorted right ->
    forall lo hi c k,
      patch_ok collide base left right (PRange lo hi c) ->
      lookup k (apply_patch (PRange lo hi c) left) =
      if in_range lo hi k
      then lookup k (apply_patches (send_patches collide (diff base left) (diff base right)) left)
      else lookup k left.
Proof. exact range_patch_is_its_points. Qed.
Print Assumptions C14_range_patch_is_its_points.

Theorem C14_oracle_on_model :
  forall i, sorted (i_base i) -> sorted (i_left i) -> sorted (i_right i) -> oracle i (model_obs i) = true.
Proof. exact oracle_on_model_all_modes. Qed.
Print Assumptions C14_oracle_on_model.
