(* C15 — the property, stated independently of the byte layout:
   rows are lists of optional SQL values; a stored tuple must read back as the
   row (trailing NULLs dropped), rows that agree up to trailing NULLs must have
   one encoding, and the order of stored tuples must be the field-by-field SQL
   order with NULL first. *)
From Coq Require Import NArith ZArith List Bool.
From Dolt Require Import Base.Str C15.Model.
Import ListNotations.
Local Open Scope N_scope.

(* the values an encoding can hold (what the Go types / writeXxx accept) *)
Definition wf_decimal (d : decimal) : bool :=
  match d with
  | DNaN | DInf _ => true
  | DFin neg c e =>
    (* an apd.Decimal with a zero coefficient has Sign() = 0: its Negative flag is not stored *)
    negb (neg && (c =? 0)) && (- 2 ^ 31 <=? e)%Z && (e <? 2 ^ 31)%Z
  end.

Definition all_bytes (b : bytes) : bool := forallb (fun x => x <? 256) b.

Definition wf_val (e : enc) (v : sval) : bool :=
  match kind_of e, v with
  | KSigned w, VZ z => (- 2 ^ (Z.of_N (bits_of w) - 1) <=? z)%Z && (z <? 2 ^ (Z.of_N (bits_of w) - 1))%Z
  | KUnsigned w, VN n => n <? 2 ^ bits_of w
  | KFloat w, VN n => n <? 2 ^ bits_of w
  | KYear, VN y => (y =? 0) || ((min_year <=? y) && (y <=? max_year))
  | KDate, VDate y m d => (y <? 65536) && (m <? 256) && (d <? 256)
  | KStr, VB b => all_bytes b
  | KRaw n, VB b => all_bytes b && Nat.eqb (length b) n
  | KDecimal, VDec d => wf_decimal d
  | KAdaptive, VB b => all_bytes b
  | _, _ => false
  end.

Definition row := list (option sval).

Fixpoint trim_row (r : row) : row :=
  match r with
  | [] => []
  | v :: t =>
    match trim_row t, v with
    | [], None => []
    | t', _ => v :: t'
    end
  end.

Definition opt_compare (e : enc) (a b : option sval) : comparison :=
  match a, b with
  | None, None => Eq
  | None, Some _ => Lt
  | Some _, None => Gt
  | Some x, Some y => val_compare e x y
  end.

(* field-by-field, NULL first; a row shorter than the type list reads NULL *)
Fixpoint row_compare (types : list enc) (a b : row) : comparison :=
  match types with
  | [] => Eq
  | e :: ts =>
    match opt_compare e (hd None a) (hd None b) with
    | Eq => row_compare ts (tl a) (tl b)
    | c => c
    end
  end.

Definition wf_row (types : list enc) (r : row) : bool :=
  Nat.eqb (length types) (length r)
  && forallb (fun p => match snd p with None => true | Some v => wf_val (fst p) v end) (combine types r).

(* the fields of a row as the builder holds them (no adaptive normalisation) *)
Definition enc_row (types : list enc) (r : row) : list field :=
  map (fun p => match snd p with None => None | Some v => Some (encode (fst p) v) end) (combine types r).

Definition data_size (fs : list field) : N := sum_N (map (fun f => len (fbytes f)) fs).

(* tuple.go limits: NewTuple panics beyond them *)
Definition within_limits (fs : list field) : bool :=
  (N.of_nat (length fs) <=? max_tuple_fields) && (data_size fs <=? max_tuple_data_size).

Definition comparison_code (c : comparison) : Z :=
  match c with Lt => (-1)%Z | Eq => 0%Z | Gt => 1%Z end.

(* --- builder histories: every tuple a builder produces is NewTuple of
   exactly the fields put since the last Build / BuildPrefix / Recycle --- *)
(* [before] = the operations that precede the build, most recent first *)
Fixpoint since_reset (before : list bop) : list (nat * bcell) :=
  match before with
  | [] => []
  | OPut i c :: r => (i, c) :: since_reset r
  | OBuildPrefixNoRecycle _ :: r => since_reset r
  | _ :: _ => []
  end.

(* the most recent put on column i, NULL if there was none *)
Definition slot_of (log : list (nat * bcell)) (i : nat) : bcell :=
  match find (fun p => Nat.eqb (fst p) i) log with
  | Some p => snd p
  | None => BNull
  end.
Definition expected_slots (n : nat) (log : list (nat * bcell)) : list bcell := map (slot_of log) (seq 0 n).

Definition expected_out (target : N) (n : nat) (before : list bop) (op : bop) : list bytes :=
  let slots := expected_slots n (since_reset before) in
  match op with
  | OBuild => [build target slots]
  | OBuildPrefix k | OBuildPrefixNoRecycle k => [new_tuple (firstn k (map (held target) slots))]
  | _ => []
  end.

Fixpoint spec_outputs (target : N) (n : nat) (before ops : list bop) : list bytes :=
  match ops with
  | [] => []
  | op :: r => expected_out target n before op ++ spec_outputs target n (op :: before) r
  end.
