(* C15 — correspondence: model observation, comparison with the
   implementation's observation, and the executable statement of the property
   evaluated on what the implementation returned. *)
From Coq Require Import NArith ZArith List Bool.
From Dolt Require Import Base.Str C15.Model C15.Spec.
Import ListNotations.
Local Open Scope N_scope.

(* one SQL value of a case: NULL, a plain value, or the content of an adaptive
   column together with its content address as reported by the implementation's
   value store (an incidental choice: the hash function is not modelled) *)
Inductive cell :=
| CNull
| CVal (v : sval)
| CAd (content addr : bytes).

(* builder history operations (plain values only) *)
Inductive hop :=
| HPut (i : nat) (v : sval)
| HBuild                            (* Build or BuildPermissive *)
| HPrefix (k : nat)
| HPrefixNR (k : nat)
| HRecycle.

Record input := {
  i_types : list (enc * bool);      (* encoding, nullable *)
  i_target : N;                     (* tupleLengthTarget *)
  i_a : list cell;
  i_b : list cell;
  i_hist : list hop                 (* a history run on ONE reused builder over the same descriptor *)
}.

Record obs := {
  o_a : bytes;                      (* A built with Put calls in column order + Build *)
  o_same : bool;                    (* recycled builder / reverse Put order / BuildPermissive / fixed-access GetField all agree *)
  o_a_out : bytes;                  (* A built with every adaptive value supplied as (length, address) *)
  o_b : bytes;
  o_count : N;                      (* Tuple.Count of A *)
  o_fields : list field;            (* Tuple.GetField(i) of A for every column *)
  o_dec : list (option sval);       (* TupleDesc.GetXxx of A for every column *)
  o_cmp : Z;                        (* TupleDesc.Compare(A, B) *)
  o_cmp_ba : Z;                     (* TupleDesc.Compare(B, A) *)
  o_cmp_nofast : Z;                 (* Compare(A, B) without the fixed-access fast path *)
  o_hist : list bytes               (* the tuples the reused builder produced along i_hist *)
}.

Definition case := (input * obs)%type.

Definition to_bcell (outline : bool) (e : enc) (c : cell) : bcell :=
  match c with
  | CNull => BNull
  | CVal v => BPlain e v
  (* the harness supplies (length, address) only for contents longer than an address (20 bytes):
     adaptive_value.go documents that shorter values are never stored out of band *)
  | CAd content addr => BAdaptive (outline && (20 <? len content)) content addr
  end.

Definition bcells (outline : bool) (types : list enc) (cs : list cell) : list bcell :=
  map (fun p => to_bcell outline (fst p) (snd p)) (combine types cs).

Definition row_of (cs : list cell) : row :=
  map (fun c => match c with CNull => None | CVal v => Some v | CAd content _ => Some (VB content) end) cs.

(* the value store of a case: address -> content for every adaptive cell *)
Fixpoint store_of (cs : list cell) : list (bytes * bytes) :=
  match cs with
  | [] => []
  | CAd content addr :: r => (addr, content) :: store_of r
  | _ :: r => store_of r
  end.
Fixpoint lookup (st : list (bytes * bytes)) (addr : bytes) : bytes :=
  match st with
  | [] => []
  | (a, c) :: r => if beq_bytes a addr then c else lookup r addr
  end.

Definition to_bop (types : list enc) (h : hop) : bop :=
  match h with
  | HPut i v => OPut i (BPlain (nth i types EInt8) v)
  | HBuild => OBuild
  | HPrefix k => OBuildPrefix k
  | HPrefixNR k => OBuildPrefixNoRecycle k
  | HRecycle => ORecycle
  end.

Definition enum_N (n : nat) : list N := map N.of_nat (seq 0 n).

Definition model_obs (i : input) : obs :=
  let types := map fst (i_types i) in
  let rd := lookup (store_of (i_a i ++ i_b i)) in
  let ta := build (i_target i) (bcells false types (i_a i)) in
  let tb := build (i_target i) (bcells false types (i_b i)) in
  let fields := map (get_field ta) (enum_N (length types)) in
  {| o_a := ta;
     o_same := true;
     o_a_out := build (i_target i) (bcells true types (i_a i));
     o_b := tb;
     o_count := tcount ta;
     o_fields := fields;
     o_dec := map (fun p => match snd p with None => None | Some b => Some (decode rd (fst p) b) end) (combine types fields);
     o_cmp := comparison_code (tuple_compare rd types ta tb);
     o_cmp_ba := comparison_code (tuple_compare rd types tb ta);
     o_cmp_nofast := comparison_code (tuple_compare rd types ta tb);
     o_hist := bs_run (i_target i) (length types) (bs_init (length types)) (map (to_bop types) (i_hist i)) |}.

(* --- equality of observations --- *)
Definition field_eqb (a b : field) : bool :=
  match a, b with
  | None, None => true
  | Some x, Some y => beq_bytes x y
  | _, _ => false
  end.

Definition decimal_eqb (a b : decimal) : bool :=
  match a, b with
  | DNaN, DNaN => true
  | DInf x, DInf y => Bool.eqb x y
  | DFin n1 c1 e1, DFin n2 c2 e2 => Bool.eqb n1 n2 && (c1 =? c2) && (e1 =? e2)%Z
  | _, _ => false
  end.

Definition sval_eqb (a b : sval) : bool :=
  match a, b with
  | VZ x, VZ y => (x =? y)%Z
  | VN x, VN y => x =? y
  | VB x, VB y => beq_bytes x y
  | VDate y1 m1 d1, VDate y2 m2 d2 => (y1 =? y2) && (m1 =? m2) && (d1 =? d2)
  | VDec x, VDec y => decimal_eqb x y
  | _, _ => false
  end.

Definition osval_eqb (a b : option sval) : bool :=
  match a, b with
  | None, None => true
  | Some x, Some y => sval_eqb x y
  | _, _ => false
  end.

Fixpoint list_eqb {A} (eqb : A -> A -> bool) (a b : list A) : bool :=
  match a, b with
  | [], [] => true
  | x :: a', y :: b' => eqb x y && list_eqb eqb a' b'
  | _, _ => false
  end.

Definition obs_eqb (a b : obs) : bool :=
  beq_bytes (o_a a) (o_a b) && Bool.eqb (o_same a) (o_same b) && beq_bytes (o_a_out a) (o_a_out b)
  && beq_bytes (o_b a) (o_b b) && (o_count a =? o_count b)
  && list_eqb field_eqb (o_fields a) (o_fields b) && list_eqb osval_eqb (o_dec a) (o_dec b)
  && (o_cmp a =? o_cmp b)%Z && (o_cmp_ba a =? o_cmp_ba b)%Z && (o_cmp_nofast a =? o_cmp_nofast b)%Z
  && list_eqb beq_bytes (o_hist a) (o_hist b).

(* --- the property on what the implementation returned ---
   (1) however the tuple was built (builder reuse, order of Put calls, Build /
       BuildPermissive, adaptive values given inline or as length+address) the
       bytes are the same;
   (2) the field count is that of the row without its trailing NULLs and every
       column reads back as the value written (NULL for NULL);
   (3) comparing the two stored tuples gives the field-by-field SQL order of
       the rows with NULL first, in both directions, with and without the
       fixed-access fast path;
   (4) rows that agree after dropping trailing NULLs have identical bytes;
   (5) every tuple a reused builder produces along a history is NewTuple of
       exactly the fields put since the last Build / BuildPrefix / Recycle. *)
Definition oracle (i : input) (o : obs) : bool :=
  let types := map fst (i_types i) in
  let ra := row_of (i_a i) in
  let rb := row_of (i_b i) in
  o_same o && beq_bytes (o_a_out o) (o_a o)
  && (o_count o =? N.of_nat (length (trim_row ra)))
  && list_eqb osval_eqb (o_dec o) ra
  && (o_cmp o =? comparison_code (row_compare types ra rb))%Z
  && (o_cmp_ba o =? comparison_code (row_compare types rb ra))%Z
  && (o_cmp_nofast o =? o_cmp o)%Z
  && (negb (list_eqb osval_eqb (trim_row ra) (trim_row rb)) || beq_bytes (o_a o) (o_b o))
  && list_eqb beq_bytes (o_hist o) (spec_outputs (i_target i) (length types) [] (map (to_bop types) (i_hist i))).

Definition check_case (c : case) : N :=
  (if obs_eqb (model_obs (fst c)) (snd c) then 0 else 1)
  + (if oracle (fst c) (snd c) then 0 else 2).
