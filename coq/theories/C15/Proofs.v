(* C15 — proofs: codec round trips and order, tuple layout, canonical form,
   tuple comparison, builder; the F9 refutation. *)
From Coq Require Import NArith ZArith List Bool Lia ZifyN ZifyBool.
From Dolt Require Import Base.Str Gen.C15Consts C15.Model C15.Spec.
Import ListNotations.
Local Open Scope N_scope.
Ltac Zify.zify_post_hook ::= Z.div_mod_to_equations.

(* ---------------- little-endian ---------------- *)
Lemma le_enc_length w n : length (le_enc w n) = w.
Proof. revert n; induction w as [|w IH]; intros n; cbn [le_enc length]; [reflexivity | rewrite IH; reflexivity]. Qed.

Lemma pow256_S (w : nat) : 2 ^ (8 * N.of_nat (S w)) = 256 * 2 ^ (8 * N.of_nat w).
Proof.
  replace (8 * N.of_nat (S w)) with (8 + 8 * N.of_nat w) by lia.
  rewrite N.pow_add_r. reflexivity.
Qed.

Lemma le_dec_enc_mod w n : le_dec (le_enc w n) = n mod 2 ^ (8 * N.of_nat w).
Proof.
  revert n; induction w as [|w IH]; intros n.
  - cbn [le_enc le_dec]. change (8 * N.of_nat 0) with 0. rewrite N.pow_0_r, N.mod_1_r. reflexivity.
  - cbn [le_enc le_dec]. rewrite IH, pow256_S.
    rewrite N.mod_mul_r by (try lia; apply N.pow_nonzero; lia). reflexivity.
Qed.

Lemma le_dec_enc w n : n < 2 ^ (8 * N.of_nat w) -> le_dec (le_enc w n) = n.
Proof. intros H. rewrite le_dec_enc_mod. apply N.mod_small. exact H. Qed.

Lemma le_enc_bytes w n : Forall (fun x => x < 256) (le_enc w n).
Proof.
  revert n; induction w as [|w IH]; intros n; cbn [le_enc]; constructor.
  - apply N.mod_lt. lia.
  - apply IH.
Qed.

(* ---------------- two's complement ---------------- *)
Lemma pow2_split (bits : N) : 0 < bits -> (2 ^ Z.of_N bits = 2 * 2 ^ (Z.of_N bits - 1))%Z.
Proof.
  intros H. replace (Z.of_N bits) with (1 + (Z.of_N bits - 1))%Z at 1 by lia.
  rewrite Z.pow_add_r by lia. reflexivity.
Qed.

Lemma N_pow_Z (a : N) : Z.of_N (2 ^ a) = (2 ^ Z.of_N a)%Z.
Proof. rewrite N2Z.inj_pow. reflexivity. Qed.

Lemma wrap_lt bits z : wrap bits z < 2 ^ bits.
Proof.
  unfold wrap. pose proof (Z.pow_pos_nonneg 2 (Z.of_N bits) ltac:(lia) ltac:(lia)) as Hp.
  pose proof (Z.mod_pos_bound z _ Hp) as Hb.
  pose proof (N_pow_Z bits) as E. lia.
Qed.

Lemma unwrap_wrap bits z :
  0 < bits -> (- 2 ^ (Z.of_N bits - 1) <= z < 2 ^ (Z.of_N bits - 1))%Z -> unwrap bits (wrap bits z) = z.
Proof.
  intros Hb Hz. unfold unwrap, wrap.
  pose proof (pow2_split bits Hb) as E2.
  pose proof (Z.pow_pos_nonneg 2 (Z.of_N bits - 1) ltac:(lia) ltac:(lia)) as Hp.
  pose proof (N_pow_Z (bits - 1)) as E1. replace (Z.of_N (bits - 1)) with (Z.of_N bits - 1)%Z in E1 by lia.
  set (P := (2 ^ (Z.of_N bits - 1))%Z) in *.
  destruct (Z.lt_ge_cases z 0) as [Hneg | Hpos].
  - assert (Hm : (z mod (2 ^ Z.of_N bits) = z + 2 * P)%Z).
    { rewrite E2. symmetry. apply Z.mod_unique with (q := (-1)%Z); lia. }
    rewrite Hm. destruct (N.ltb_spec (Z.to_N (z + 2 * P)) (2 ^ (bits - 1))) as [Hlt | Hge]; lia.
  - assert (Hm : (z mod (2 ^ Z.of_N bits) = z)%Z) by (apply Z.mod_small; lia).
    rewrite Hm. destruct (N.ltb_spec (Z.to_N z) (2 ^ (bits - 1))) as [Hlt | Hge]; lia.
Qed.

(* ---------------- date: shifts and masks are div/mod ---------------- *)
Lemma date_pack_arith y m d : date_pack y m d = (y * 65536 + m * 256 + d) mod 2 ^ 32.
Proof. unfold date_pack. rewrite !N.shiftl_mul_pow2. reflexivity. Qed.

Lemma date_year_arith t : date_year t = t / 65536.
Proof. unfold date_year. rewrite N.shiftr_div_pow2. reflexivity. Qed.

Lemma date_day_arith t : date_day t = t mod 256.
Proof. unfold date_day. change 255 with (N.ones 8). rewrite N.land_ones. reflexivity. Qed.

Lemma date_month_arith t : date_month t = (t / 256) mod 256.
Proof.
  unfold date_month. rewrite N.shiftr_land.
  change (N.shiftr (N.shiftl 255 8) 8) with (N.ones 8).
  rewrite N.land_ones, N.shiftr_div_pow2. reflexivity.
Qed.

Lemma date_roundtrip y m d :
  y < 65536 -> m < 256 -> d < 256 ->
  date_year (date_pack y m d) = y /\ date_month (date_pack y m d) = m /\ date_day (date_pack y m d) = d
  /\ date_pack y m d < 2 ^ 32.
Proof.
  intros Hy Hm Hd.
  rewrite date_year_arith, date_month_arith, date_day_arith, date_pack_arith.
  change (2 ^ 32) with 4294967296.
  rewrite (N.mod_small (y * 65536 + m * 256 + d)) by lia.
  repeat split; lia.
Qed.

(* ---------------- year ---------------- *)
Lemma year_roundtrip y : (y =? 0) || ((min_year <=? y) && (y <=? max_year)) = true -> year_dec (year_enc y) = y.
Proof.
  unfold year_dec, year_enc, min_year, max_year, zero_token. intros H.
  destruct (N.eqb_spec y 0) as [E0 | Hne].
  - rewrite E0. reflexivity.
  - cbn [orb] in H. apply andb_true_iff in H as [H1 H2].
    apply N.leb_le in H1. apply N.leb_le in H2.
    cbn [le_dec]. rewrite N.mod_small by lia.
    destruct (N.eqb_spec (y - 1901 + 256 * 0) 255) as [E | E]; lia.
Qed.

(* ---------------- decimal ---------------- *)
Lemma be_dec_enc w n : n < 2 ^ (8 * N.of_nat w) -> be_dec (be_enc w n) = n.
Proof. intros H. unfold be_dec, be_enc. rewrite rev_involutive. apply le_dec_enc. exact H. Qed.

Lemma be_enc_length w n : length (be_enc w n) = w.
Proof. unfold be_enc. rewrite rev_length. apply le_enc_length. Qed.

Lemma coeff_fits c : c < 2 ^ (8 * N.of_nat (coeff_len c)).
Proof.
  unfold coeff_len.
  eapply N.lt_le_trans; [apply N.size_gt|].
  apply N.pow_le_mono_r; [lia|].
  rewrite Nat2N.inj_mul, N2Nat.id. change (N.of_nat 8) with 8.
  pose proof (N.div_mod (N.size c + 63) 64 ltac:(lia)) as E.
  pose proof (N.mod_lt (N.size c + 63) 64 ltac:(lia)). lia.
Qed.

Lemma coeff_len_mul8 c : exists k, coeff_len c = (8 * k)%nat.
Proof. unfold coeff_len. eexists. reflexivity. Qed.

Lemma len_app (a b : bytes) : len (a ++ b) = len a + len b.
Proof. unfold len. rewrite app_length. lia. Qed.

Lemma decimal_roundtrip d : wf_decimal d = true -> decimal_dec (decimal_enc d) = Some d.
Proof.
  destruct d as [| [|] | neg c e]; intros H; [vm_compute; reflexivity | vm_compute; reflexivity | vm_compute; reflexivity |].
  cbn [wf_decimal] in H. apply andb_true_iff in H as [H H3]. apply andb_true_iff in H as [H1 H2].
  apply Z.leb_le in H2. apply Z.ltb_lt in H3.
  unfold decimal_dec, decimal_enc.
  assert (Hlen : len (le_enc 4 (wrap 32 e) ++ le_enc 1 (wrap 8 (dec_sign neg c)) ++ be_enc (coeff_len c) c) =? 4 = false).
  { rewrite !len_app. unfold len. rewrite !le_enc_length, be_enc_length.
    destruct (coeff_len_mul8 c) as [k ->]. apply N.eqb_neq. lia. }
  rewrite Hlen.
  pose proof (le_dec_enc 4 (wrap 32 e) (wrap_lt 32 e)) as E4.
  pose proof (le_dec_enc 1 (wrap 8 (dec_sign neg c)) (wrap_lt 8 _)) as E1.
  cbn [le_enc app] in *. cbn [firstn skipn].
  rewrite E4, E1.
  rewrite (unwrap_wrap 32 e) by (change (Z.of_N 32 - 1)%Z with 31%Z; lia).
  rewrite be_dec_enc by apply coeff_fits.
  assert (Hsign : (unwrap 8 (wrap 8 (dec_sign neg c)) <? 0)%Z = neg).
  { rewrite (unwrap_wrap 8 (dec_sign neg c)); [| lia | change (Z.of_N 8 - 1)%Z with 7%Z; unfold dec_sign; destruct (c =? 0), neg; lia].
    unfold dec_sign. destruct (N.eqb_spec c 0) as [-> | Hc].
    - destruct neg; [discriminate H1 | reflexivity].
    - destruct neg; reflexivity. }
  rewrite Hsign. reflexivity.
Qed.

(* ================================================================== *)
(* dec_enc : decoding an encoded value yields the value, for every      *)
(* encoding and every value of its domain                              *)
Lemma bits_of_pos w : (0 < w)%nat -> 0 < bits_of w.
Proof. unfold bits_of. lia. Qed.

Lemma signed_roundtrip w z :
  (0 < w)%nat ->
  (- 2 ^ (Z.of_N (bits_of w) - 1) <=? z)%Z && (z <? 2 ^ (Z.of_N (bits_of w) - 1))%Z = true ->
  unwrap (bits_of w) (le_dec (le_enc w (wrap (bits_of w) z))) = z.
Proof.
  intros Hw H. apply andb_true_iff in H as [H1 H2]. apply Z.leb_le in H1. apply Z.ltb_lt in H2.
  rewrite le_dec_enc by apply wrap_lt.
  apply unwrap_wrap; [apply bits_of_pos; exact Hw | lia].
Qed.

Theorem dec_enc (read : bytes -> bytes) (e : enc) (v : sval) :
  wf_val e v = true -> decode read e (encode e v) = v.
Proof.
  unfold wf_val, decode, encode.
  destruct (kind_of e) as [w | w | w | | | | n | |] eqn:K; destruct v as [z | x | b | y m d | dd]; intros H; try discriminate H.
  - (* signed *)
    assert (Hw : (0 < w)%nat) by (destruct e; inversion K; subst; lia).
    rewrite signed_roundtrip by assumption. reflexivity.
  - apply N.ltb_lt in H. rewrite le_dec_enc by exact H. reflexivity.
  - apply N.ltb_lt in H. rewrite le_dec_enc by exact H. reflexivity.
  - rewrite year_roundtrip by exact H. reflexivity.
  - apply andb_true_iff in H as [H Hd]. apply andb_true_iff in H as [Hy Hm].
    apply N.ltb_lt in Hy, Hm, Hd.
    destruct (date_roundtrip y m d Hy Hm Hd) as (E1 & E2 & E3 & E4).
    rewrite le_dec_enc by exact E4. rewrite E1, E2, E3. reflexivity.
  - rewrite removelast_last. reflexivity.
  - reflexivity.
  - rewrite decimal_roundtrip by exact H. reflexivity.
  - unfold ad_content. rewrite N.eqb_refl. reflexivity.
Qed.

(* cmp_enc : comparing two encoded values (decode both, compare — what
   tuple_compare.go compare() does) is the SQL order of the values *)
Theorem cmp_enc (read : bytes -> bytes) (e : enc) (a b : sval) :
  wf_val e a = true -> wf_val e b = true ->
  cmp_field read e (encode e a) (encode e b) = val_compare e a b.
Proof. intros Ha Hb. unfold cmp_field. rewrite !dec_enc by assumption. reflexivity. Qed.

(* the SQL order is the numeric / lexicographic one *)
Lemma val_compare_signed e w x y : kind_of e = KSigned w -> val_compare e (VZ x) (VZ y) = (x ?= y)%Z.
Proof. intros K. unfold val_compare. rewrite K. reflexivity. Qed.
Lemma val_compare_unsigned e w x y : kind_of e = KUnsigned w -> val_compare e (VN x) (VN y) = (x ?= y).
Proof. intros K. unfold val_compare. rewrite K. reflexivity. Qed.

(* bytes.Compare is the lexicographic order: equal iff equal, antisymmetric *)
Lemma bytes_compare_eq a b : bytes_compare a b = Eq <-> a = b.
Proof.
  revert b; induction a as [|x a IH]; intros [|y b]; cbn [bytes_compare]; split; intro H; try discriminate; try reflexivity.
  - destruct (x ?= y) eqn:C; try discriminate. apply N.compare_eq in C. apply IH in H. congruence.
  - inversion H; subst. rewrite N.compare_refl. apply IH. reflexivity.
Qed.
Lemma bytes_compare_antisym a b : bytes_compare b a = CompOpp (bytes_compare a b).
Proof.
  revert b; induction a as [|x a IH]; intros [|y b]; cbn [bytes_compare]; try reflexivity.
  rewrite (N.compare_antisym x y). destruct (x ?= y); cbn [CompOpp]; [apply IH | reflexivity | reflexivity].
Qed.

(* every encoded value is non-empty: a zero-length field means NULL *)
Lemma encode_nonempty e v : wf_val e v = true -> encode e v <> [].
Proof.
  unfold wf_val, encode.
  destruct (kind_of e) as [w | w | w | | | | n | |] eqn:K; destruct v as [z | x | b | y m d | dd]; intros H; try discriminate H.
  - assert (Hw : (0 < w)%nat) by (destruct e; inversion K; subst; lia). destruct w; [lia | discriminate].
  - assert (Hw : (0 < w)%nat) by (destruct e; inversion K; subst; lia). destruct w; [lia | discriminate].
  - assert (Hw : (0 < w)%nat) by (destruct e; inversion K; subst; lia). destruct w; [lia | discriminate].
  - unfold year_enc. destruct (x =? 0); discriminate.
  - discriminate.
  - destruct b; discriminate.
  - apply andb_true_iff in H as [_ H]. apply Nat.eqb_eq in H.
    assert (Hn : (0 < n)%nat) by (destruct e; inversion K; subst; lia).
    destruct b; [cbn in H; lia | discriminate].
  - destruct dd as [| [|] |]; discriminate.
  - discriminate.
Qed.

(* ================================================================== *)
(* Tuple layout: NewTuple / Count / GetField                           *)
Definition rd16n (t : bytes) (p : nat) : N := nth p t 0 + 256 * nth (S p) t 0.

Lemma rd16_rd16n t pos : rd16 t pos = rd16n t (N.to_nat pos).
Proof.
  unfold rd16, rd16n, nth_byte. replace (N.to_nat (pos + 1)) with (S (N.to_nat pos)) by lia. reflexivity.
Qed.

Lemma rd16n_app_r pre l p : rd16n (pre ++ l) (length pre + p) = rd16n l p.
Proof.
  unfold rd16n. rewrite app_nth2_plus.
  replace (S (length pre + p)) with (length pre + S p)%nat by lia. rewrite app_nth2_plus. reflexivity.
Qed.

Lemma rd16n_le16 x r : rd16n (le16 x ++ r) 0 = x mod 65536.
Proof.
  unfold rd16n, le16. cbn [le_enc app nth].
  change 65536 with (256 * 256). rewrite N.mod_mul_r by lia. reflexivity.
Qed.

Lemma le16_length x : length (le16 x) = 2%nat.
Proof. reflexivity. Qed.

Lemma rd16n_offsets xs post k :
  (k < length xs)%nat -> rd16n (concat (map le16 xs) ++ post) (2 * k) = nth k xs 0 mod 65536.
Proof.
  revert k; induction xs as [|x xs IH]; intros k Hk; cbn [length] in Hk; [lia|].
  cbn [map concat]. rewrite <- app_assoc.
  destruct k as [|k].
  - cbn [Nat.mul nth]. apply rd16n_le16.
  - replace (2 * S k)%nat with (length (le16 x) + 2 * k)%nat by (rewrite le16_length; lia).
    rewrite rd16n_app_r. cbn [nth]. apply IH. lia.
Qed.

Lemma concat_le16_length xs : length (concat (map le16 xs)) = (2 * length xs)%nat.
Proof. induction xs as [|x xs IH]; cbn [map concat length]; [reflexivity|]. rewrite app_length, IH, le16_length. lia. Qed.

Lemma starts_length p t : length (starts p t) = length t.
Proof. revert p; induction t as [|f t IH]; intros p; cbn [starts length]; [reflexivity | rewrite IH; reflexivity]. Qed.

Lemma data_size_cons f t : data_size (f :: t) = len (fbytes f) + data_size t.
Proof. reflexivity. Qed.

Lemma starts_nth p t k : (k < length t)%nat -> nth k (starts p t) 0 = p + data_size (firstn k t).
Proof.
  revert p k; induction t as [|f t IH]; intros p k Hk; cbn [length] in Hk; [lia|].
  destruct k as [|k]; cbn [starts nth firstn].
  - unfold data_size. cbn. lia.
  - rewrite IH by lia. rewrite data_size_cons. lia.
Qed.

Lemma concat_fbytes_len t : len (concat (map fbytes t)) = data_size t.
Proof.
  induction t as [|f t IH]; [reflexivity|].
  cbn [map concat]. rewrite len_app, IH. reflexivity.
Qed.

Lemma data_size_app a b : data_size (a ++ b) = data_size a + data_size b.
Proof. induction a as [|f a IH]; [reflexivity|]. cbn [app]. rewrite !data_size_cons, IH. lia. Qed.

Lemma data_size_firstn_le k t : data_size (firstn k t) <= data_size t.
Proof.
  rewrite <- (firstn_skipn k t) at 2. rewrite data_size_app. lia.
Qed.

Lemma split_nth (t : list field) k : (k < length t)%nat -> t = firstn k t ++ nth k t None :: skipn (S k) t.
Proof.
  revert k; induction t as [|f t IH]; intros k Hk; cbn [length] in Hk; [lia|].
  destruct k as [|k]; cbn [firstn nth skipn app]; [reflexivity|].
  f_equal. apply IH. lia.
Qed.

Lemma data_size_firstn_S k t :
  (k < length t)%nat -> data_size (firstn (S k) t) = data_size (firstn k t) + len (fbytes (nth k t None)).
Proof.
  revert k; induction t as [|f t IH]; intros k Hk; cbn [length] in Hk; [lia|].
  destruct k as [|k].
  - cbn [firstn nth]. rewrite data_size_cons. unfold data_size. cbn. lia.
  - change (firstn (S (S k)) (f :: t)) with (f :: firstn (S k) t).
    change (firstn (S k) (f :: t)) with (f :: firstn k t). cbn [nth].
    rewrite !data_size_cons, IH by lia. lia.
Qed.

Lemma slice_mid (A B R : bytes) : slice (A ++ B ++ R) (len A) (len A + len B) = B.
Proof.
  unfold slice, len. rewrite Nat2N.id.
  replace (N.to_nat (N.of_nat (length A) + N.of_nat (length B) - N.of_nat (length A))) with (length B) by lia.
  rewrite skipn_app, skipn_all, Nat.sub_diag. cbn [skipn app].
  rewrite firstn_app, firstn_all, Nat.sub_diag. cbn [firstn]. apply app_nil_r.
Qed.

(* a non-NULL field always has at least one byte (Tuple doc: "all non-NULL
   values must be encoded with non-zero length") *)
Definition nonempty_fields (t : list field) : Prop := forall b, In (Some b) t -> b <> [].

(* the bytes of a tuple whose (already trimmed) field list is t *)
Definition tuple_of (t : list field) : bytes :=
  concat (map fbytes t) ++ concat (map le16 (tl (starts 0 t))) ++ le16 (N.of_nat (length t)).

Lemma new_tuple_tuple_of vs : new_tuple vs = tuple_of (trim_nulls vs).
Proof. reflexivity. Qed.

Lemma tl_length {A} (l : list A) : length (tl l) = (length l - 1)%nat.
Proof. destruct l; cbn; lia. Qed.

Lemma tuple_of_len t :
  len (tuple_of t) = data_size t + 2 * N.of_nat (length t - 1) + 2.
Proof.
  unfold tuple_of. rewrite !len_app, concat_fbytes_len. unfold len at 1 2.
  rewrite concat_le16_length, tl_length, starts_length, le16_length. lia.
Qed.

Lemma tcount_tuple_of t : N.of_nat (length t) < 65536 -> tcount (tuple_of t) = N.of_nat (length t).
Proof.
  intros Hc. unfold tcount. rewrite rd16_rd16n, tuple_of_len.
  unfold tuple_of.
  replace (N.to_nat (data_size t + 2 * N.of_nat (length t - 1) + 2 - 2))
    with (length (concat (map fbytes t)) + (length (concat (map le16 (tl (starts 0 t)))) + 0))%nat.
  2:{ rewrite concat_le16_length, tl_length, starts_length.
      pose proof (concat_fbytes_len t) as E. unfold len in E. lia. }
  rewrite rd16n_app_r, rd16n_app_r.
  rewrite <- (app_nil_r (le16 _)). rewrite rd16n_le16. apply N.mod_small. exact Hc.
Qed.

Lemma get_field_tuple_of t i :
  nonempty_fields t -> N.of_nat (length t) < 65536 -> data_size t < 65536 ->
  get_field (tuple_of t) (N.of_nat i) = nth i t None.
Proof.
  intros Hne Hc Hd. unfold get_field. rewrite tcount_tuple_of by exact Hc.
  destruct (N.leb_spec (N.of_nat (length t)) (N.of_nat i)) as [Hge | Hlt].
  - rewrite nth_overflow by lia. reflexivity.
  - assert (Hi : (i < length t)%nat) by lia.
    rewrite tuple_of_len.
    replace (data_size t + 2 * N.of_nat (length t - 1) + 2 - 2 * N.of_nat (length t)) with (data_size t) by lia.
    set (D := concat (map fbytes t)).
    set (O := concat (map le16 (tl (starts 0 t)))).
    assert (HD : length D = N.to_nat (data_size t)).
    { pose proof (concat_fbytes_len t) as E. unfold len in E. fold D in E. lia. }
    (* an offset read *)
    assert (Hoff : forall k, (S k < length t)%nat ->
              rd16 (tuple_of t) (data_size t + 2 * N.of_nat k) = data_size (firstn (S k) t)).
    { intros k Hk. rewrite rd16_rd16n. unfold tuple_of. fold D O.
      replace (N.to_nat (data_size t + 2 * N.of_nat k)) with (length D + 2 * k)%nat by lia.
      rewrite rd16n_app_r. unfold O. rewrite rd16n_offsets by (rewrite tl_length, starts_length; lia).
      assert (Hnth : nth k (tl (starts 0 t)) 0 = nth (S k) (starts 0 t) 0).
      { destruct (starts 0 t) eqn:S0; [destruct k; reflexivity | reflexivity]. }
      rewrite Hnth, starts_nth by lia. rewrite N.add_0_l.
      apply N.mod_small. pose proof (data_size_firstn_le (S k) t). lia. }
    assert (Hstop : (if N.of_nat i <? N.of_nat (length t) - 1
                     then rd16 (tuple_of t) (data_size t + 2 * N.of_nat i) else data_size t mod 65536)
                    = data_size (firstn (S i) t)).
    { destruct (N.ltb_spec (N.of_nat i) (N.of_nat (length t) - 1)) as [H1 | H1].
      - apply Hoff. lia.
      - rewrite N.mod_small by exact Hd. replace (S i) with (length t) by lia. rewrite firstn_all. reflexivity. }
    assert (Hstart : (if 0 <? N.of_nat i then rd16 (tuple_of t) (data_size t + 2 * (N.of_nat i - 1)) else 0)
                     = data_size (firstn i t)).
    { destruct (N.ltb_spec 0 (N.of_nat i)) as [H1 | H1].
      - destruct i as [|k]; [lia|]. replace (N.of_nat (S k) - 1) with (N.of_nat k) by lia. apply Hoff. lia.
      - replace i with 0%nat by lia. reflexivity. }
    rewrite Hstop, Hstart, data_size_firstn_S by exact Hi.
    pose proof (split_nth t i Hi) as Hsplit.
    destruct (nth i t None) as [b|] eqn:Hf.
    + assert (Hb : b <> []). { apply Hne. rewrite <- Hf. apply nth_In. exact Hi. }
      cbn [fbytes].
      destruct (N.eqb_spec (data_size (firstn i t)) (data_size (firstn i t) + len b)) as [E | E].
      { destruct b; [congruence | unfold len in E; cbn [length] in E; lia]. }
      f_equal. unfold tuple_of. fold D O.
      assert (HDs : D = concat (map fbytes (firstn i t)) ++ b ++ concat (map fbytes (skipn (S i) t))).
      { unfold D. rewrite Hsplit at 1. rewrite map_app, concat_app. cbn [map concat fbytes]. reflexivity. }
      rewrite HDs, <- (concat_fbytes_len (firstn i t)).
      rewrite <- !app_assoc. apply slice_mid.
    + cbn [fbytes]. unfold len. cbn [length]. rewrite N.add_0_r, N.eqb_refl. reflexivity.
Qed.

(* ---------------- trimNullSuffix ---------------- *)
Lemma trim_nulls_cons v r :
  trim_nulls (v :: r) = match trim_nulls r, v with [], None => [] | t, _ => v :: t end.
Proof. reflexivity. Qed.

Lemma nth_trim (vs : list field) i : nth i (trim_nulls vs) None = nth i vs None.
Proof.
  revert i; induction vs as [|v r IH]; intros i; [reflexivity|].
  rewrite trim_nulls_cons.
  destruct (trim_nulls r) as [|x t] eqn:T.
  - destruct v as [b|].
    + destruct i as [|i]; [reflexivity|]. cbn [nth]. rewrite <- IH. destruct i; reflexivity.
    + destruct i as [|i]; cbn [nth]; [reflexivity|]. rewrite <- IH. destruct i; reflexivity.
  - destruct i as [|i]; cbn [nth]; [destruct v; reflexivity|].
    destruct v; cbn [nth]; apply IH.
Qed.

Lemma In_trim (x : field) vs : In x (trim_nulls vs) -> In x vs.
Proof.
  induction vs as [|v r IH]; [intros []|].
  rewrite trim_nulls_cons. destruct (trim_nulls r) as [|y t] eqn:T.
  - destruct v as [b|]; [|intros []]. intros [H | []]. left. exact H.
  - intros H. assert (H' : In x (v :: y :: t)) by (destruct v; exact H).
    destruct H' as [H' | H']; [left; exact H' | right; apply IH; exact H'].
Qed.

Lemma trim_length_le (vs : list field) : (length (trim_nulls vs) <= length vs)%nat.
Proof.
  induction vs as [|v r IH]; [cbn; lia|].
  rewrite trim_nulls_cons. destruct (trim_nulls r) as [|y t] eqn:T; destruct v; cbn [length] in *; lia.
Qed.

Lemma trim_nulls_app_nones vs n : trim_nulls (vs ++ repeat None n) = trim_nulls vs.
Proof.
  induction vs as [|v r IH].
  - cbn [app]. induction n as [|n IHn]; [reflexivity|]. cbn [repeat]. rewrite trim_nulls_cons, IHn. reflexivity.
  - cbn [app]. rewrite !trim_nulls_cons, IH. reflexivity.
Qed.

(* ================================================================== *)
(* Headline theorems on the tuple layout                               *)
Definition fields_ok (values : list field) : Prop :=
  nonempty_fields values /\ within_limits (trim_nulls values) = true.

Lemma fields_ok_bounds values :
  fields_ok values ->
  nonempty_fields (trim_nulls values) /\ N.of_nat (length (trim_nulls values)) < 65536
  /\ data_size (trim_nulls values) < 65536.
Proof.
  intros [Hne Hl]. unfold within_limits in Hl. apply andb_true_iff in Hl as [H1 H2].
  apply N.leb_le in H1, H2. unfold max_tuple_fields in H1. unfold max_tuple_data_size in H2.
  split; [|split; lia].
  intros b Hin. apply Hne. apply In_trim. exact Hin.
Qed.

(* every field of a built tuple reads back, NULL for NULL, also beyond the stored count *)
Theorem tuple_roundtrip (values : list field) (i : nat) :
  fields_ok values -> get_field (new_tuple values) (N.of_nat i) = nth i values None.
Proof.
  intros H. destruct (fields_ok_bounds values H) as (Hne & Hc & Hd).
  rewrite new_tuple_tuple_of, get_field_tuple_of by assumption. apply nth_trim.
Qed.

(* the stored field count is that of the row without its trailing NULLs *)
Theorem tuple_count (values : list field) :
  fields_ok values -> tcount (new_tuple values) = N.of_nat (length (trim_nulls values)).
Proof.
  intros H. destruct (fields_ok_bounds values H) as (Hne & Hc & Hd).
  rewrite new_tuple_tuple_of. apply tcount_tuple_of. exact Hc.
Qed.

(* value lists that agree after dropping trailing NULLs give identical bytes *)
Theorem new_tuple_canonical (a b : list field) :
  trim_nulls a = trim_nulls b -> new_tuple a = new_tuple b.
Proof. intros H. rewrite !new_tuple_tuple_of, H. reflexivity. Qed.

Corollary new_tuple_drops_trailing_nulls (vs : list field) (n : nat) :
  new_tuple (vs ++ repeat None n) = new_tuple vs.
Proof. apply new_tuple_canonical. apply trim_nulls_app_nones. Qed.

(* … and conversely: identical bytes only for lists that agree up to trailing NULLs *)
Theorem new_tuple_injective (a b : list field) :
  fields_ok a -> fields_ok b -> new_tuple a = new_tuple b -> trim_nulls a = trim_nulls b.
Proof.
  intros Ha Hb E.
  pose proof (tuple_count a Ha) as Ca. pose proof (tuple_count b Hb) as Cb. rewrite E in Ca.
  assert (Hlen : length (trim_nulls a) = length (trim_nulls b)) by lia.
  apply (nth_ext _ _ None None Hlen). intros i _.
  rewrite !nth_trim. rewrite <- (tuple_roundtrip a i Ha), <- (tuple_roundtrip b i Hb), E. reflexivity.
Qed.

(* ================================================================== *)
(* Tuple comparison = field-by-field SQL order, NULL first             *)
Lemma wf_row_cons e ts (v : option sval) r :
  wf_row (e :: ts) (v :: r) = true ->
  match v with None => True | Some x => wf_val e x = true end /\ wf_row ts r = true.
Proof.
  unfold wf_row. cbn [length combine forallb fst snd Nat.eqb]. intros H.
  apply andb_true_iff in H as [H1 H2]. apply andb_true_iff in H2 as [H2 H3].
  split; [destruct v; [exact H2 | exact I] | rewrite H1, H3; reflexivity].
Qed.

Lemma wf_row_length types r : wf_row types r = true -> length types = length r.
Proof. unfold wf_row. intros H. apply andb_true_iff in H as [H _]. apply Nat.eqb_eq. exact H. Qed.

Lemma enc_row_cons e ts v r :
  enc_row (e :: ts) (v :: r) = match v with None => None | Some x => Some (encode e x) end :: enc_row ts r.
Proof. reflexivity. Qed.

Lemma enc_row_nonempty types r : wf_row types r = true -> nonempty_fields (enc_row types r).
Proof.
  revert r; induction types as [|e ts IH]; intros r H; pose proof (wf_row_length _ _ H) as L.
  - destruct r; [intros b []|discriminate L].
  - destruct r as [|v r]; [discriminate L|]. apply wf_row_cons in H as [Hv Hr].
    rewrite enc_row_cons. intros b [Hb | Hb].
    + destruct v as [x|]; [|discriminate Hb]. inversion Hb; subst. apply encode_nonempty. exact Hv.
    + apply (IH r Hr b Hb).
Qed.

Lemma field_compare_enc read types a b j :
  wf_row types a = true -> wf_row types b = true -> (j < length types)%nat ->
  field_compare read (nth j types EInt8) (nth j (enc_row types a) None) (nth j (enc_row types b) None)
  = opt_compare (nth j types EInt8) (nth j a None) (nth j b None).
Proof.
  revert a b j; induction types as [|e ts IH]; intros a b j Ha Hb Hj; cbn [length] in Hj; [lia|].
  pose proof (wf_row_length _ _ Ha) as La. pose proof (wf_row_length _ _ Hb) as Lb.
  destruct a as [|x a]; [discriminate La|]. destruct b as [|y b]; [discriminate Lb|].
  apply wf_row_cons in Ha as [Hx Ha]. apply wf_row_cons in Hb as [Hy Hb].
  rewrite !enc_row_cons. destruct j as [|j]; cbn [nth].
  - destruct x as [x|], y as [y|]; cbn [field_compare opt_compare]; try reflexivity.
    apply cmp_enc; assumption.
  - apply IH; [assumption | assumption | lia].
Qed.

Lemma nth_tl {A} (l : list A) j d : nth (S j) l d = nth j (tl l) d.
Proof. destruct l; [destruct j; reflexivity | reflexivity]. Qed.

Lemma tuple_compare_from_spec read ts : forall i L R (a b : row),
  (forall j, (j < length ts)%nat ->
     field_compare read (nth j ts EInt8) (get_field L (N.of_nat (i + j))) (get_field R (N.of_nat (i + j)))
     = opt_compare (nth j ts EInt8) (nth j a None) (nth j b None)) ->
  tuple_compare_from read (N.of_nat i) ts L R = row_compare ts a b.
Proof.
  induction ts as [|e ts IH]; intros i L R a b H; [reflexivity|].
  cbn [tuple_compare_from row_compare].
  pose proof (H 0%nat ltac:(cbn; lia)) as H0. cbn [nth] in H0. rewrite Nat.add_0_r in H0.
  assert (Ea : nth 0 a None = hd None a) by (destruct a; reflexivity).
  assert (Eb : nth 0 b None = hd None b) by (destruct b; reflexivity).
  rewrite H0, Ea, Eb.
  destruct (opt_compare e (hd None a) (hd None b)); try reflexivity.
  replace (N.of_nat i + 1) with (N.of_nat (S i)) by lia.
  apply IH. intros j Hj. specialize (H (S j) ltac:(cbn; lia)). cbn [nth] in H.
  replace (i + S j)%nat with (S i + j)%nat in H by lia. rewrite H, !nth_tl. reflexivity.
Qed.

Theorem tuple_compare_spec (read : bytes -> bytes) (types : list enc) (a b : row) :
  wf_row types a = true -> wf_row types b = true ->
  within_limits (trim_nulls (enc_row types a)) = true ->
  within_limits (trim_nulls (enc_row types b)) = true ->
  tuple_compare read types (new_tuple (enc_row types a)) (new_tuple (enc_row types b)) = row_compare types a b.
Proof.
  intros Ha Hb La Lb. unfold tuple_compare. change 0 with (N.of_nat 0).
  apply tuple_compare_from_spec. intros j Hj. cbn [Nat.add].
  rewrite !tuple_roundtrip by (split; [apply enc_row_nonempty; assumption | assumption]).
  apply field_compare_enc; assumption.
Qed.

(* ================================================================== *)
(* The builder                                                         *)
Definition plain_cell (c : bcell) : bool := match c with BAdaptive _ _ _ => false | _ => true end.

Lemma candidates_plain i cs : forallb plain_cell cs = true -> candidates i cs = [].
Proof.
  revert i; induction cs as [|c cs IH]; intros i H; [reflexivity|].
  cbn [forallb] in H. apply andb_true_iff in H as [Hc H]. cbn [candidates]. rewrite IH by exact H.
  destruct c; [reflexivity | reflexivity | discriminate Hc].
Qed.

Lemma normalise_plain i outs target cs : forallb plain_cell cs = true -> normalise i outs cs = map (held target) cs.
Proof.
  revert i; induction cs as [|c cs IH]; intros i H; [reflexivity|].
  cbn [forallb] in H. apply andb_true_iff in H as [Hc H]. cbn [normalise map]. rewrite IH by exact H.
  destruct c; [reflexivity | reflexivity | discriminate Hc].
Qed.

(* without adaptive values the builder is NewTuple of the encoded fields, whatever the target *)
Theorem build_plain_is_new_tuple (target : N) (cs : list bcell) :
  forallb plain_cell cs = true -> build target cs = new_tuple (map (held target) cs).
Proof.
  intros H. unfold build, build_fields.
  destruct (target <? sum_N (map inline_contrib cs)); [|reflexivity].
  rewrite candidates_plain by exact H. cbn [sort_desc fold_right pick_outline].
  rewrite (normalise_plain 0 [] target) by exact H. reflexivity.
Qed.

(* F9 — "tuples built from the same values are byte-identical no matter how
   they were built" is FALSE for the builder as written: below the length
   target BuildPermissive keeps an adaptive value in the form it was given.
   Witness: (int32 7, 30 x 'x') supplied inline vs as (length, address). *)
Definition f9_content : bytes := repeat 120 30.
Definition f9_addr : bytes := [241; 248; 203; 242; 219; 177; 26; 145; 67; 208; 166; 6; 243; 27; 99; 215; 81; 200; 15; 192].
Definition f9_inline : list bcell := [BPlain EInt32 (VZ 7); BAdaptive false f9_content f9_addr].
Definition f9_outline : list bcell := [BPlain EInt32 (VZ 7); BAdaptive true f9_content f9_addr].

Theorem build_repr_independent_refuted :
  exists target cs1 cs2,
    map cell_value cs1 = map cell_value cs2 /\ build target cs1 <> build target cs2.
Proof.
  exists 2048, f9_inline, f9_outline. split; [reflexivity|].
  vm_compute. discriminate.
Qed.

(* what does hold: once the all-inline size exceeds the target the result no
   longer depends on the form in which adaptive values were supplied *)
Definition forget_form (c : bcell) : bcell :=
  match c with BAdaptive _ content addr => BAdaptive false content addr | x => x end.

Lemma inline_contrib_forget cs : map inline_contrib (map forget_form cs) = map inline_contrib cs.
Proof. rewrite map_map. apply map_ext. intros [| e v | o c a]; reflexivity. Qed.

Lemma candidates_forget i cs : candidates i (map forget_form cs) = candidates i cs.
Proof.
  revert i; induction cs as [|c cs IH]; intros i; [reflexivity|].
  cbn [map candidates]. rewrite IH. destruct c; reflexivity.
Qed.

Lemma normalise_forget i outs cs : normalise i outs (map forget_form cs) = normalise i outs cs.
Proof.
  revert i; induction cs as [|c cs IH]; intros i; [reflexivity|].
  cbn [map normalise]. rewrite IH. destruct c; reflexivity.
Qed.

Theorem build_repr_independent_partial (target : N) (cs1 cs2 : list bcell) :
  map forget_form cs1 = map forget_form cs2 ->
  target < sum_N (map inline_contrib cs1) ->
  build target cs1 = build target cs2.
Proof.
  intros E H.
  assert (S12 : sum_N (map inline_contrib cs2) = sum_N (map inline_contrib cs1)).
  { rewrite <- (inline_contrib_forget cs2), <- E, inline_contrib_forget. reflexivity. }
  unfold build, build_fields. rewrite S12.
  apply N.ltb_lt in H. rewrite H.
  rewrite <- (candidates_forget 0 cs1), <- (candidates_forget 0 cs2), E.
  rewrite <- (normalise_forget 0 _ cs1), <- (normalise_forget 0 _ cs2), E. reflexivity.
Qed.

(* constants pinned to the Go source (regenerated on every run) *)
Lemma consts_pinned :
  c_int8_size = 1 /\ c_int16_size = 2 /\ c_int32_size = 4 /\ c_int64_size = 8
  /\ c_float32_size = 4 /\ c_float64_size = 8 /\ c_bit64_size = 8 /\ c_hash128_size = 16
  /\ c_year_size = 1 /\ c_date_size = 4 /\ c_time_size = 8 /\ c_datetime_size = 8
  /\ c_enum_size = 2 /\ c_set_size = 8 /\ c_cell_size = 17 /\ c_hash_byte_len = 20
  /\ c_min_year = min_year /\ c_max_year = max_year /\ c_zero_token = zero_token
  /\ c_year_shift = 16 /\ c_month_shift = 8 /\ c_month_mask = N.shiftl 255 8 /\ c_day_mask = 255
  /\ c_max_tuple_fields = max_tuple_fields /\ c_count_size = 2
  /\ max_tuple_data_size = 65535 - c_count_size - c_hash_byte_len - c_int64_size - c_int8_size.
Proof. repeat split; reflexivity. Qed.

(* the model's field widths are the code's sizes *)
Lemma widths_pinned :
  kind_of EInt8 = KSigned (N.to_nat c_int8_size) /\ kind_of EInt16 = KSigned (N.to_nat c_int16_size)
  /\ kind_of EInt32 = KSigned (N.to_nat c_int32_size) /\ kind_of EInt64 = KSigned (N.to_nat c_int64_size)
  /\ kind_of EFloat32 = KFloat (N.to_nat c_float32_size) /\ kind_of EFloat64 = KFloat (N.to_nat c_float64_size)
  /\ kind_of EBit64 = KUnsigned (N.to_nat c_bit64_size) /\ kind_of EEnum = KUnsigned (N.to_nat c_enum_size)
  /\ kind_of ESet = KUnsigned (N.to_nat c_set_size) /\ kind_of ETime = KSigned (N.to_nat c_time_size)
  /\ kind_of EDatetime = KSigned (N.to_nat c_datetime_size) /\ kind_of EHash128 = KRaw (N.to_nat c_hash128_size)
  /\ kind_of EAddr = KRaw (N.to_nat c_hash_byte_len) /\ kind_of ECell = KRaw (N.to_nat c_cell_size).
Proof. repeat split; reflexivity. Qed.

(* non-vacuity: the hypotheses of the theorems are satisfiable *)
Example fields_ok_example : fields_ok [Some [1; 0; 0; 0]; None; Some [104; 105; 0]; None].
Proof. split; [intros b [H | [H | [H | [H | []]]]]; inversion H; discriminate | reflexivity]. Qed.
Example wf_row_example : wf_row [EInt32; EString; EDecimal] [Some (VZ (-2)%Z); None; Some (VDec (DFin true 12345 (-2)%Z))] = true.
Proof. reflexivity. Qed.
