(* C15 — proofs: codec round trips and order, tuple layout, canonical form,
   tuple comparison, builder; the F9 refutation; varint; oracle_on_model;
   float and decimal orders. *)
From Coq Require Import NArith ZArith List Bool Lia ZifyN ZifyBool.
From Dolt Require Import Base.Str Gen.C15Consts C15.Model C15.Spec C15.Corr.
Import ListNotations.
Local Open Scope N_scope.
Ltac Zify.zify_post_hook ::= Z.div_mod_to_equations.

(* ---------------- little-endian ---------------- *)
Lemma le_enc_length w n : length (le_enc w n) = w.
Proof. revert n; induction w as [|w IH]; intros n; cbn [le_enc length]; [reflexivity | rewrite IH; reflexivity]. Qed.

Lemma pow256_S (w : nat) : 2 ^ (8 * N.of_nat (S w)) = 256 * 2 ^ (8 * N.of_nat w).
Proof.
  replace (8 * N.of_nat (S w)) with (8 + 8 * N.of_nat w) by lia.
  rewrite N.pow_add_r. reflexivity.
Qed.

Lemma le_dec_enc_mod w n : le_dec (le_enc w n) = n mod 2 ^ (8 * N.of_nat w).
Proof.
  revert n; induction w as [|w IH]; intros n.
  - cbn [le_enc le_dec]. change (8 * N.of_nat 0) with 0. rewrite N.pow_0_r, N.mod_1_r. reflexivity.
  - cbn [le_enc le_dec]. rewrite IH, pow256_S.
    rewrite N.mod_mul_r by (try lia; apply N.pow_nonzero; lia). reflexivity.
Qed.

Lemma le_dec_enc w n : n < 2 ^ (8 * N.of_nat w) -> le_dec (le_enc w n) = n.
Proof. intros H. rewrite le_dec_enc_mod. apply N.mod_small. exact H. Qed.

Lemma le_enc_bytes w n : Forall (fun x => x < 256) (le_enc w n).
Proof.
  revert n; induction w as [|w IH]; intros n; cbn [le_enc]; constructor.
  - apply N.mod_lt. lia.
  - apply IH.
Qed.

(* ---------------- two's complement ---------------- *)
Lemma pow2_split (bits : N) : 0 < bits -> (2 ^ Z.of_N bits = 2 * 2 ^ (Z.of_N bits - 1))%Z.
Proof.
  intros H. replace (Z.of_N bits) with (1 + (Z.of_N bits - 1))%Z at 1 by lia.
  rewrite Z.pow_add_r by lia. reflexivity.
Qed.

Lemma N_pow_Z (a : N) : Z.of_N (2 ^ a) = (2 ^ Z.of_N a)%Z.
Proof. rewrite N2Z.inj_pow. reflexivity. Qed.

Lemma wrap_lt bits z : wrap bits z < 2 ^ bits.
Proof.
  unfold wrap. pose proof (Z.pow_pos_nonneg 2 (Z.of_N bits) ltac:(lia) ltac:(lia)) as Hp.
  pose proof (Z.mod_pos_bound z _ Hp) as Hb.
  pose proof (N_pow_Z bits) as E. lia.
Qed.

Lemma unwrap_wrap bits z :
  0 < bits -> (- 2 ^ (Z.of_N bits - 1) <= z < 2 ^ (Z.of_N bits - 1))%Z -> unwrap bits (wrap bits z) = z.
Proof.
  intros Hb Hz. unfold unwrap, wrap.
  pose proof (pow2_split bits Hb) as E2.
  pose proof (Z.pow_pos_nonneg 2 (Z.of_N bits - 1) ltac:(lia) ltac:(lia)) as Hp.
  pose proof (N_pow_Z (bits - 1)) as E1. replace (Z.of_N (bits - 1)) with (Z.of_N bits - 1)%Z in E1 by lia.
  set (P := (2 ^ (Z.of_N bits - 1))%Z) in *.
  destruct (Z.lt_ge_cases z 0) as [Hneg | Hpos].
  - assert (Hm : (z mod (2 ^ Z.of_N bits) = z + 2 * P)%Z).
    { rewrite E2. symmetry. apply Z.mod_unique with (q := (-1)%Z); lia. }
    rewrite Hm. destruct (N.ltb_spec (Z.to_N (z + 2 * P)) (2 ^ (bits - 1))) as [Hlt | Hge]; lia.
  - assert (Hm : (z mod (2 ^ Z.of_N bits) = z)%Z) by (apply Z.mod_small; lia).
    rewrite Hm. destruct (N.ltb_spec (Z.to_N z) (2 ^ (bits - 1))) as [Hlt | Hge]; lia.
Qed.

(* ---------------- date: shifts and masks are div/mod ---------------- *)
Lemma date_pack_arith y m d : date_pack y m d = (y * 65536 + m * 256 + d) mod 2 ^ 32.
Proof. unfold date_pack. rewrite !N.shiftl_mul_pow2. reflexivity. Qed.

Lemma date_year_arith t : date_year t = t / 65536.
Proof. unfold date_year. rewrite N.shiftr_div_pow2. reflexivity. Qed.

Lemma date_day_arith t : date_day t = t mod 256.
Proof. unfold date_day. change 255 with (N.ones 8). rewrite N.land_ones. reflexivity. Qed.

Lemma date_month_arith t : date_month t = (t / 256) mod 256.
Proof.
  unfold date_month. rewrite N.shiftr_land.
  change (N.shiftr (N.shiftl 255 8) 8) with (N.ones 8).
  rewrite N.land_ones, N.shiftr_div_pow2. reflexivity.
Qed.

Lemma date_roundtrip y m d :
  y < 65536 -> m < 256 -> d < 256 ->
  date_year (date_pack y m d) = y /\ date_month (date_pack y m d) = m /\ date_day (date_pack y m d) = d
  /\ date_pack y m d < 2 ^ 32.
Proof.
  intros Hy Hm Hd.
  rewrite date_year_arith, date_month_arith, date_day_arith, date_pack_arith.
  change (2 ^ 32) with 4294967296.
  rewrite (N.mod_small (y * 65536 + m * 256 + d)) by lia.
  repeat split; lia.
Qed.

(* ---------------- year ---------------- *)
Lemma year_roundtrip y : (y =? 0) || ((min_year <=? y) && (y <=? max_year)) = true -> year_dec (year_enc y) = y.
Proof.
  unfold year_dec, year_enc, min_year, max_year, zero_token. intros H.
  destruct (N.eqb_spec y 0) as [E0 | Hne].
  - rewrite E0. reflexivity.
  - cbn [orb] in H. apply andb_true_iff in H as [H1 H2].
    apply N.leb_le in H1. apply N.leb_le in H2.
    cbn [le_dec]. rewrite N.mod_small by lia.
    destruct (N.eqb_spec (y - 1901 + 256 * 0) 255) as [E | E]; lia.
Qed.

(* ---------------- decimal ---------------- *)
Lemma be_dec_enc w n : n < 2 ^ (8 * N.of_nat w) -> be_dec (be_enc w n) = n.
Proof. intros H. unfold be_dec, be_enc. rewrite rev_involutive. apply le_dec_enc. exact H. Qed.

Lemma be_enc_length w n : length (be_enc w n) = w.
Proof. unfold be_enc. rewrite rev_length. apply le_enc_length. Qed.

Lemma coeff_fits c : c < 2 ^ (8 * N.of_nat (coeff_len c)).
Proof.
  unfold coeff_len.
  eapply N.lt_le_trans; [apply N.size_gt|].
  apply N.pow_le_mono_r; [lia|].
  rewrite Nat2N.inj_mul, N2Nat.id. change (N.of_nat 8) with 8.
  pose proof (N.div_mod (N.size c + 63) 64 ltac:(lia)) as E.
  pose proof (N.mod_lt (N.size c + 63) 64 ltac:(lia)). lia.
Qed.

Lemma coeff_len_mul8 c : exists k, coeff_len c = (8 * k)%nat.
Proof. unfold coeff_len. eexists. reflexivity. Qed.

Lemma len_app (a b : bytes) : len (a ++ b) = len a + len b.
Proof. unfold len. rewrite app_length. lia. Qed.

Lemma decimal_roundtrip d : wf_decimal d = true -> decimal_dec (decimal_enc d) = Some d.
Proof.
  destruct d as [| [|] | neg c e]; intros H; [vm_compute; reflexivity | vm_compute; reflexivity | vm_compute; reflexivity |].
  cbn [wf_decimal] in H. apply andb_true_iff in H as [H H3]. apply andb_true_iff in H as [H1 H2].
  apply Z.leb_le in H2. apply Z.ltb_lt in H3.
  unfold decimal_dec, decimal_enc.
  assert (Hlen : len (le_enc 4 (wrap 32 e) ++ le_enc 1 (wrap 8 (dec_sign neg c)) ++ be_enc (coeff_len c) c) =? 4 = false).
  { rewrite !len_app. unfold len. rewrite !le_enc_length, be_enc_length.
    destruct (coeff_len_mul8 c) as [k ->]. apply N.eqb_neq. lia. }
  rewrite Hlen.
  pose proof (le_dec_enc 4 (wrap 32 e) (wrap_lt 32 e)) as E4.
  pose proof (le_dec_enc 1 (wrap 8 (dec_sign neg c)) (wrap_lt 8 _)) as E1.
  cbn [le_enc app] in *. cbn [firstn skipn].
  rewrite E4, E1.
  rewrite (unwrap_wrap 32 e) by (change (Z.of_N 32 - 1)%Z with 31%Z; lia).
  rewrite be_dec_enc by apply coeff_fits.
  assert (Hsign : (unwrap 8 (wrap 8 (dec_sign neg c)) <? 0)%Z = neg).
  { rewrite (unwrap_wrap 8 (dec_sign neg c)); [| lia | change (Z.of_N 8 - 1)%Z with 7%Z; unfold dec_sign; destruct (c =? 0), neg; lia].
    unfold dec_sign. destruct (N.eqb_spec c 0) as [-> | Hc].
    - destruct neg; [discriminate H1 | reflexivity].
    - destruct neg; reflexivity. }
  rewrite Hsign. reflexivity.
Qed.

(* ================================================================== *)
(* dec_enc : decoding an encoded value yields the value, for every      *)
(* encoding and every value of its domain                              *)
Lemma bits_of_pos w : (0 < w)%nat -> 0 < bits_of w.
Proof. unfold bits_of. lia. Qed.

Lemma signed_roundtrip w z :
  (0 < w)%nat ->
  (- 2 ^ (Z.of_N (bits_of w) - 1) <=? z)%Z && (z <? 2 ^ (Z.of_N (bits_of w) - 1))%Z = true ->
  unwrap (bits_of w) (le_dec (le_enc w (wrap (bits_of w) z))) = z.
Proof.
  intros Hw H. apply andb_true_iff in H as [H1 H2]. apply Z.leb_le in H1. apply Z.ltb_lt in H2.
  rewrite le_dec_enc by apply wrap_lt.
  apply unwrap_wrap; [apply bits_of_pos; exact Hw | lia].
Qed.

Theorem dec_enc (read : bytes -> bytes) (e : enc) (v : sval) :
  wf_val e v = true -> decode read e (encode e v) = v.
Proof.
  unfold wf_val, decode, encode.
  destruct (kind_of e) as [w | w | w | | | | n | |] eqn:K; destruct v as [z | x | b | y m d | dd]; intros H; try discriminate H.
  - (* signed *)
    assert (Hw : (0 < w)%nat) by (destruct e; inversion K; subst; lia).
    rewrite signed_roundtrip by assumption. reflexivity.
  - apply N.ltb_lt in H. rewrite le_dec_enc by exact H. reflexivity.
  - apply N.ltb_lt in H. rewrite le_dec_enc by exact H. reflexivity.
  - rewrite year_roundtrip by exact H. reflexivity.
  - apply andb_true_iff in H as [H Hd]. apply andb_true_iff in H as [Hy Hm].
    apply N.ltb_lt in Hy, Hm, Hd.
    destruct (date_roundtrip y m d Hy Hm Hd) as (E1 & E2 & E3 & E4).
    rewrite le_dec_enc by exact E4. rewrite E1, E2, E3. reflexivity.
  - rewrite removelast_last. reflexivity.
  - reflexivity.
  - rewrite decimal_roundtrip by exact H. reflexivity.
  - unfold ad_content. rewrite N.eqb_refl. reflexivity.
Qed.

(* cmp_enc : comparing two encoded values (decode both, compare — what
   tuple_compare.go compare() does) is the SQL order of the values *)
Theorem cmp_enc (read : bytes -> bytes) (e : enc) (a b : sval) :
  wf_val e a = true -> wf_val e b = true ->
  cmp_field read e (encode e a) (encode e b) = val_compare e a b.
Proof. intros Ha Hb. unfold cmp_field. rewrite !dec_enc by assumption. reflexivity. Qed.

(* the SQL order is the numeric / lexicographic one *)
Lemma val_compare_signed e w x y : kind_of e = KSigned w -> val_compare e (VZ x) (VZ y) = (x ?= y)%Z.
Proof. intros K. unfold val_compare. rewrite K. reflexivity. Qed.
Lemma val_compare_unsigned e w x y : kind_of e = KUnsigned w -> val_compare e (VN x) (VN y) = (x ?= y).
Proof. intros K. unfold val_compare. rewrite K. reflexivity. Qed.

(* bytes.Compare is the lexicographic order: equal iff equal, antisymmetric *)
Lemma bytes_compare_eq a b : bytes_compare a b = Eq <-> a = b.
Proof.
  revert b; induction a as [|x a IH]; intros [|y b]; cbn [bytes_compare]; split; intro H; try discriminate; try reflexivity.
  - destruct (x ?= y) eqn:C; try discriminate. apply N.compare_eq in C. apply IH in H. congruence.
  - inversion H; subst. rewrite N.compare_refl. apply IH. reflexivity.
Qed.
Lemma bytes_compare_antisym a b : bytes_compare b a = CompOpp (bytes_compare a b).
Proof.
  revert b; induction a as [|x a IH]; intros [|y b]; cbn [bytes_compare]; try reflexivity.
  rewrite (N.compare_antisym x y). destruct (x ?= y); cbn [CompOpp]; [apply IH | reflexivity | reflexivity].
Qed.

(* every encoded value is non-empty: a zero-length field means NULL *)
Lemma encode_nonempty e v : wf_val e v = true -> encode e v <> [].
Proof.
  unfold wf_val, encode.
  destruct (kind_of e) as [w | w | w | | | | n | |] eqn:K; destruct v as [z | x | b | y m d | dd]; intros H; try discriminate H.
  - assert (Hw : (0 < w)%nat) by (destruct e; inversion K; subst; lia). destruct w; [lia | discriminate].
  - assert (Hw : (0 < w)%nat) by (destruct e; inversion K; subst; lia). destruct w; [lia | discriminate].
  - assert (Hw : (0 < w)%nat) by (destruct e; inversion K; subst; lia). destruct w; [lia | discriminate].
  - unfold year_enc. destruct (x =? 0); discriminate.
  - discriminate.
  - destruct b; discriminate.
  - apply andb_true_iff in H as [_ H]. apply Nat.eqb_eq in H.
    assert (Hn : (0 < n)%nat) by (destruct e; inversion K; subst; lia).
    destruct b; [cbn in H; lia | discriminate].
  - destruct dd as [| [|] |]; discriminate.
  - discriminate.
Qed.

(* ================================================================== *)
(* Tuple layout: NewTuple / Count / GetField                           *)
Definition rd16n (t : bytes) (p : nat) : N := nth p t 0 + 256 * nth (S p) t 0.

Lemma rd16_rd16n t pos : rd16 t pos = rd16n t (N.to_nat pos).
Proof.
  unfold rd16, rd16n, nth_byte. replace (N.to_nat (pos + 1)) with (S (N.to_nat pos)) by lia. reflexivity.
Qed.

Lemma rd16n_app_r pre l p : rd16n (pre ++ l) (length pre + p) = rd16n l p.
Proof.
  unfold rd16n. rewrite app_nth2_plus.
  replace (S (length pre + p)) with (length pre + S p)%nat by lia. rewrite app_nth2_plus. reflexivity.
Qed.

Lemma rd16n_le16 x r : rd16n (le16 x ++ r) 0 = x mod 65536.
Proof.
  unfold rd16n, le16. cbn [le_enc app nth].
  change 65536 with (256 * 256). rewrite N.mod_mul_r by lia. reflexivity.
Qed.

Lemma le16_length x : length (le16 x) = 2%nat.
Proof. reflexivity. Qed.

Lemma rd16n_offsets xs post k :
  (k < length xs)%nat -> rd16n (concat (map le16 xs) ++ post) (2 * k) = nth k xs 0 mod 65536.
Proof.
  revert k; induction xs as [|x xs IH]; intros k Hk; cbn [length] in Hk; [lia|].
  cbn [map concat]. rewrite <- app_assoc.
  destruct k as [|k].
  - cbn [Nat.mul nth]. apply rd16n_le16.
  - replace (2 * S k)%nat with (length (le16 x) + 2 * k)%nat by (rewrite le16_length; lia).
    rewrite rd16n_app_r. cbn [nth]. apply IH. lia.
Qed.

Lemma concat_le16_length xs : length (concat (map le16 xs)) = (2 * length xs)%nat.
Proof. induction xs as [|x xs IH]; cbn [map concat length]; [reflexivity|]. rewrite app_length, IH, le16_length. lia. Qed.

Lemma starts_length p t : length (starts p t) = length t.
Proof. revert p; induction t as [|f t IH]; intros p; cbn [starts length]; [reflexivity | rewrite IH; reflexivity]. Qed.

Lemma data_size_cons f t : data_size (f :: t) = len (fbytes f) + data_size t.
Proof. reflexivity. Qed.

Lemma starts_nth p t k : (k < length t)%nat -> nth k (starts p t) 0 = p + data_size (firstn k t).
Proof.
  revert p k; induction t as [|f t IH]; intros p k Hk; cbn [length] in Hk; [lia|].
  destruct k as [|k]; cbn [starts nth firstn].
  - unfold data_size. cbn. lia.
  - rewrite IH by lia. rewrite data_size_cons. lia.
Qed.

Lemma concat_fbytes_len t : len (concat (map fbytes t)) = data_size t.
Proof.
  induction t as [|f t IH]; [reflexivity|].
  cbn [map concat]. rewrite len_app, IH. reflexivity.
Qed.

Lemma data_size_app a b : data_size (a ++ b) = data_size a + data_size b.
Proof. induction a as [|f a IH]; [reflexivity|]. cbn [app]. rewrite !data_size_cons, IH. lia. Qed.

Lemma data_size_firstn_le k t : data_size (firstn k t) <= data_size t.
Proof.
  rewrite <- (firstn_skipn k t) at 2. rewrite data_size_app. lia.
Qed.

Lemma split_nth (t : list field) k : (k < length t)%nat -> t = firstn k t ++ nth k t None :: skipn (S k) t.
Proof.
  revert k; induction t as [|f t IH]; intros k Hk; cbn [length] in Hk; [lia|].
  destruct k as [|k]; cbn [firstn nth skipn app]; [reflexivity|].
  f_equal. apply IH. lia.
Qed.

Lemma data_size_firstn_S k t :
  (k < length t)%nat -> data_size (firstn (S k) t) = data_size (firstn k t) + len (fbytes (nth k t None)).
Proof.
  revert k; induction t as [|f t IH]; intros k Hk; cbn [length] in Hk; [lia|].
  destruct k as [|k].
  - cbn [firstn nth]. rewrite data_size_cons. unfold data_size. cbn. lia.
  - change (firstn (S (S k)) (f :: t)) with (f :: firstn (S k) t).
    change (firstn (S k) (f :: t)) with (f :: firstn k t). cbn [nth].
    rewrite !data_size_cons, IH by lia. lia.
Qed.

Lemma slice_mid (A B R : bytes) : slice (A ++ B ++ R) (len A) (len A + len B) = B.
Proof.
  unfold slice, len. rewrite Nat2N.id.
  replace (N.to_nat (N.of_nat (length A) + N.of_nat (length B) - N.of_nat (length A))) with (length B) by lia.
  rewrite skipn_app, skipn_all, Nat.sub_diag. cbn [skipn app].
  rewrite firstn_app, firstn_all, Nat.sub_diag. cbn [firstn]. apply app_nil_r.
Qed.

(* a non-NULL field always has at least one byte (Tuple doc: "all non-NULL
   values must be encoded with non-zero length") *)
Definition nonempty_fields (t : list field) : Prop := forall b, In (Some b) t -> b <> [].

(* the bytes of a tuple whose (already trimmed) field list is t *)
Definition tuple_of (t : list field) : bytes :=
  concat (map fbytes t) ++ concat (map le16 (tl (starts 0 t))) ++ le16 (N.of_nat (length t)).

Lemma new_tuple_tuple_of vs : new_tuple vs = tuple_of (trim_nulls vs).
Proof. reflexivity. Qed.

Lemma tl_length {A} (l : list A) : length (tl l) = (length l - 1)%nat.
Proof. destruct l; cbn; lia. Qed.

Lemma tuple_of_len t :
  len (tuple_of t) = data_size t + 2 * N.of_nat (length t - 1) + 2.
Proof.
  unfold tuple_of. rewrite !len_app, concat_fbytes_len. unfold len at 1 2.
  rewrite concat_le16_length, tl_length, starts_length, le16_length. lia.
Qed.

Lemma tcount_tuple_of t : N.of_nat (length t) < 65536 -> tcount (tuple_of t) = N.of_nat (length t).
Proof.
  intros Hc. unfold tcount. rewrite rd16_rd16n, tuple_of_len.
  unfold tuple_of.
  replace (N.to_nat (data_size t + 2 * N.of_nat (length t - 1) + 2 - 2))
    with (length (concat (map fbytes t)) + (length (concat (map le16 (tl (starts 0 t)))) + 0))%nat.
  2:{ rewrite concat_le16_length, tl_length, starts_length.
      pose proof (concat_fbytes_len t) as E. unfold len in E. lia. }
  rewrite rd16n_app_r, rd16n_app_r.
  rewrite <- (app_nil_r (le16 _)). rewrite rd16n_le16. apply N.mod_small. exact Hc.
Qed.

Lemma get_field_tuple_of t i :
  nonempty_fields t -> N.of_nat (length t) < 65536 -> data_size t < 65536 ->
  get_field (tuple_of t) (N.of_nat i) = nth i t None.
Proof.
  intros Hne Hc Hd. unfold get_field. rewrite tcount_tuple_of by exact Hc.
  destruct (N.leb_spec (N.of_nat (length t)) (N.of_nat i)) as [Hge | Hlt].
  - rewrite nth_overflow by lia. reflexivity.
  - assert (Hi : (i < length t)%nat) by lia.
    rewrite tuple_of_len.
    replace (data_size t + 2 * N.of_nat (length t - 1) + 2 - 2 * N.of_nat (length t)) with (data_size t) by lia.
    set (D := concat (map fbytes t)).
    set (O := concat (map le16 (tl (starts 0 t)))).
    assert (HD : length D = N.to_nat (data_size t)).
    { pose proof (concat_fbytes_len t) as E. unfold len in E. fold D in E. lia. }
    (* an offset read *)
    assert (Hoff : forall k, (S k < length t)%nat ->
              rd16 (tuple_of t) (data_size t + 2 * N.of_nat k) = data_size (firstn (S k) t)).
    { intros k Hk. rewrite rd16_rd16n. unfold tuple_of. fold D O.
      replace (N.to_nat (data_size t + 2 * N.of_nat k)) with (length D + 2 * k)%nat by lia.
      rewrite rd16n_app_r. unfold O. rewrite rd16n_offsets by (rewrite tl_length, starts_length; lia).
      assert (Hnth : nth k (tl (starts 0 t)) 0 = nth (S k) (starts 0 t) 0).
      { destruct (starts 0 t) eqn:S0; [destruct k; reflexivity | reflexivity]. }
      rewrite Hnth, starts_nth by lia. rewrite N.add_0_l.
      apply N.mod_small. pose proof (data_size_firstn_le (S k) t). lia. }
    assert (Hstop : (if N.of_nat i <? N.of_nat (length t) - 1
                     then rd16 (tuple_of t) (data_size t + 2 * N.of_nat i) else data_size t mod 65536)
                    = data_size (firstn (S i) t)).
    { destruct (N.ltb_spec (N.of_nat i) (N.of_nat (length t) - 1)) as [H1 | H1].
      - apply Hoff. lia.
      - rewrite N.mod_small by exact Hd. replace (S i) with (length t) by lia. rewrite firstn_all. reflexivity. }
    assert (Hstart : (if 0 <? N.of_nat i then rd16 (tuple_of t) (data_size t + 2 * (N.of_nat i - 1)) else 0)
                     = data_size (firstn i t)).
    { destruct (N.ltb_spec 0 (N.of_nat i)) as [H1 | H1].
      - destruct i as [|k]; [lia|]. replace (N.of_nat (S k) - 1) with (N.of_nat k) by lia. apply Hoff. lia.
      - replace i with 0%nat by lia. reflexivity. }
    rewrite Hstop, Hstart, data_size_firstn_S by exact Hi.
    pose proof (split_nth t i Hi) as Hsplit.
    destruct (nth i t None) as [b|] eqn:Hf.
    + assert (Hb : b <> []). { apply Hne. rewrite <- Hf. apply nth_In. exact Hi. }
      cbn [fbytes].
      destruct (N.eqb_spec (data_size (firstn i t)) (data_size (firstn i t) + len b)) as [E | E].
      { destruct b; [congruence | unfold len in E; cbn [length] in E; lia]. }
      f_equal. unfold tuple_of. fold D O.
      assert (HDs : D = concat (map fbytes (firstn i t)) ++ b ++ concat (map fbytes (skipn (S i) t))).
      { unfold D. rewrite Hsplit at 1. rewrite map_app, concat_app. cbn [map concat fbytes]. reflexivity. }
      rewrite HDs, <- (concat_fbytes_len (firstn i t)).
      rewrite <- !app_assoc. apply slice_mid.
    + cbn [fbytes]. unfold len. cbn [length]. rewrite N.add_0_r, N.eqb_refl. reflexivity.
Qed.

(* ---------------- trimNullSuffix ---------------- *)
Lemma trim_nulls_cons v r :
  trim_nulls (v :: r) = match trim_nulls r, v with [], None => [] | t, _ => v :: t end.
Proof. reflexivity. Qed.

Lemma nth_trim (vs : list field) i : nth i (trim_nulls vs) None = nth i vs None.
Proof.
  revert i; induction vs as [|v r IH]; intros i; [reflexivity|].
  rewrite trim_nulls_cons.
  destruct (trim_nulls r) as [|x t] eqn:T.
  - destruct v as [b|].
    + destruct i as [|i]; [reflexivity|]. cbn [nth]. rewrite <- IH. destruct i; reflexivity.
    + destruct i as [|i]; cbn [nth]; [reflexivity|]. rewrite <- IH. destruct i; reflexivity.
  - destruct i as [|i]; cbn [nth]; [destruct v; reflexivity|].
    destruct v; cbn [nth]; apply IH.
Qed.

Lemma In_trim (x : field) vs : In x (trim_nulls vs) -> In x vs.
Proof.
  induction vs as [|v r IH]; [intros []|].
  rewrite trim_nulls_cons. destruct (trim_nulls r) as [|y t] eqn:T.
  - destruct v as [b|]; [|intros []]. intros [H | []]. left. exact H.
  - intros H. assert (H' : In x (v :: y :: t)) by (destruct v; exact H).
    destruct H' as [H' | H']; [left; exact H' | right; apply IH; exact H'].
Qed.

Lemma trim_length_le (vs : list field) : (length (trim_nulls vs) <= length vs)%nat.
Proof.
  induction vs as [|v r IH]; [cbn; lia|].
  rewrite trim_nulls_cons. destruct (trim_nulls r) as [|y t] eqn:T; destruct v; cbn [length] in *; lia.
Qed.

Lemma trim_nulls_app_nones vs n : trim_nulls (vs ++ repeat None n) = trim_nulls vs.
Proof.
  induction vs as [|v r IH].
  - cbn [app]. induction n as [|n IHn]; [reflexivity|]. cbn [repeat]. rewrite trim_nulls_cons, IHn. reflexivity.
  - cbn [app]. rewrite !trim_nulls_cons, IH. reflexivity.
Qed.

(* ================================================================== *)
(* Headline theorems on the tuple layout                               *)
Definition fields_ok (values : list field) : Prop :=
  nonempty_fields values /\ within_limits (trim_nulls values) = true.

Lemma fields_ok_bounds values :
  fields_ok values ->
  nonempty_fields (trim_nulls values) /\ N.of_nat (length (trim_nulls values)) < 65536
  /\ data_size (trim_nulls values) < 65536.
Proof.
  intros [Hne Hl]. unfold within_limits in Hl. apply andb_true_iff in Hl as [H1 H2].
  apply N.leb_le in H1, H2. unfold max_tuple_fields in H1. unfold max_tuple_data_size in H2.
  split; [|split; lia].
  intros b Hin. apply Hne. apply In_trim. exact Hin.
Qed.

(* every field of a built tuple reads back, NULL for NULL, also beyond the stored count *)
Theorem tuple_roundtrip (values : list field) (i : nat) :
  fields_ok values -> get_field (new_tuple values) (N.of_nat i) = nth i values None.
Proof.
  intros H. destruct (fields_ok_bounds values H) as (Hne & Hc & Hd).
  rewrite new_tuple_tuple_of, get_field_tuple_of by assumption. apply nth_trim.
Qed.

(* the stored field count is that of the row without its trailing NULLs *)
Theorem tuple_count (values : list field) :
  fields_ok values -> tcount (new_tuple values) = N.of_nat (length (trim_nulls values)).
Proof.
  intros H. destruct (fields_ok_bounds values H) as (Hne & Hc & Hd).
  rewrite new_tuple_tuple_of. apply tcount_tuple_of. exact Hc.
Qed.

(* value lists that agree after dropping trailing NULLs give identical bytes *)
Theorem new_tuple_canonical (a b : list field) :
  trim_nulls a = trim_nulls b -> new_tuple a = new_tuple b.
Proof. intros H. rewrite !new_tuple_tuple_of, H. reflexivity. Qed.

Corollary new_tuple_drops_trailing_nulls (vs : list field) (n : nat) :
  new_tuple (vs ++ repeat None n) = new_tuple vs.
Proof. apply new_tuple_canonical. apply trim_nulls_app_nones. Qed.

(* … and conversely: identical bytes only for lists that agree up to trailing NULLs *)
Theorem new_tuple_injective (a b : list field) :
  fields_ok a -> fields_ok b -> new_tuple a = new_tuple b -> trim_nulls a = trim_nulls b.
Proof.
  intros Ha Hb E.
  pose proof (tuple_count a Ha) as Ca. pose proof (tuple_count b Hb) as Cb. rewrite E in Ca.
  assert (Hlen : length (trim_nulls a) = length (trim_nulls b)) by lia.
  apply (nth_ext _ _ None None Hlen). intros i _.
  rewrite !nth_trim. rewrite <- (tuple_roundtrip a i Ha), <- (tuple_roundtrip b i Hb), E. reflexivity.
Qed.

(* ================================================================== *)
(* Tuple comparison = field-by-field SQL order, NULL first             *)
Lemma wf_row_cons e ts (v : option sval) r :
  wf_row (e :: ts) (v :: r) = true ->
  match v with None => True | Some x => wf_val e x = true end /\ wf_row ts r = true.
Proof.
  unfold wf_row. cbn [length combine forallb fst snd Nat.eqb]. intros H.
  apply andb_true_iff in H as [H1 H2]. apply andb_true_iff in H2 as [H2 H3].
  split; [destruct v; [exact H2 | exact I] | rewrite H1, H3; reflexivity].
Qed.

Lemma wf_row_length types r : wf_row types r = true -> length types = length r.
Proof. unfold wf_row. intros H. apply andb_true_iff in H as [H _]. apply Nat.eqb_eq. exact H. Qed.

Lemma enc_row_cons e ts v r :
  enc_row (e :: ts) (v :: r) = match v with None => None | Some x => Some (encode e x) end :: enc_row ts r.
Proof. reflexivity. Qed.

Lemma enc_row_nonempty types r : wf_row types r = true -> nonempty_fields (enc_row types r).
Proof.
  revert r; induction types as [|e ts IH]; intros r H; pose proof (wf_row_length _ _ H) as L.
  - destruct r; [intros b []|discriminate L].
  - destruct r as [|v r]; [discriminate L|]. apply wf_row_cons in H as [Hv Hr].
    rewrite enc_row_cons. intros b [Hb | Hb].
    + destruct v as [x|]; [|discriminate Hb]. inversion Hb; subst. apply encode_nonempty. exact Hv.
    + apply (IH r Hr b Hb).
Qed.

Lemma field_compare_enc read types a b j :
  wf_row types a = true -> wf_row types b = true -> (j < length types)%nat ->
  field_compare read (nth j types EInt8) (nth j (enc_row types a) None) (nth j (enc_row types b) None)
  = opt_compare (nth j types EInt8) (nth j a None) (nth j b None).
Proof.
  revert a b j; induction types as [|e ts IH]; intros a b j Ha Hb Hj; cbn [length] in Hj; [lia|].
  pose proof (wf_row_length _ _ Ha) as La. pose proof (wf_row_length _ _ Hb) as Lb.
  destruct a as [|x a]; [discriminate La|]. destruct b as [|y b]; [discriminate Lb|].
  apply wf_row_cons in Ha as [Hx Ha]. apply wf_row_cons in Hb as [Hy Hb].
  rewrite !enc_row_cons. destruct j as [|j]; cbn [nth].
  - destruct x as [x|], y as [y|]; cbn [field_compare opt_compare]; try reflexivity.
    apply cmp_enc; assumption.
  - apply IH; [assumption | assumption | lia].
Qed.

Lemma nth_tl {A} (l : list A) j d : nth (S j) l d = nth j (tl l) d.
Proof. destruct l; [destruct j; reflexivity | reflexivity]. Qed.

Lemma tuple_compare_from_spec read ts : forall i L R (a b : row),
  (forall j, (j < length ts)%nat ->
     field_compare read (nth j ts EInt8) (get_field L (N.of_nat (i + j))) (get_field R (N.of_nat (i + j)))
     = opt_compare (nth j ts EInt8) (nth j a None) (nth j b None)) ->
  tuple_compare_from read (N.of_nat i) ts L R = row_compare ts a b.
Proof.
  induction ts as [|e ts IH]; intros i L R a b H; [reflexivity|].
  cbn [tuple_compare_from row_compare].
  pose proof (H 0%nat ltac:(cbn; lia)) as H0. cbn [nth] in H0. rewrite Nat.add_0_r in H0.
  assert (Ea : nth 0 a None = hd None a) by (destruct a; reflexivity).
  assert (Eb : nth 0 b None = hd None b) by (destruct b; reflexivity).
  rewrite H0, Ea, Eb.
  destruct (opt_compare e (hd None a) (hd None b)); try reflexivity.
  replace (N.of_nat i + 1) with (N.of_nat (S i)) by lia.
  apply IH. intros j Hj. specialize (H (S j) ltac:(cbn; lia)). cbn [nth] in H.
  replace (i + S j)%nat with (S i + j)%nat in H by lia. rewrite H, !nth_tl. reflexivity.
Qed.

Theorem tuple_compare_spec (read : bytes -> bytes) (types : list enc) (a b : row) :
  wf_row types a = true -> wf_row types b = true ->
  within_limits (trim_nulls (enc_row types a)) = true ->
  within_limits (trim_nulls (enc_row types b)) = true ->
  tuple_compare read types (new_tuple (enc_row types a)) (new_tuple (enc_row types b)) = row_compare types a b.
Proof.
  intros Ha Hb La Lb. unfold tuple_compare. change 0 with (N.of_nat 0).
  apply tuple_compare_from_spec. intros j Hj. cbn [Nat.add].
  rewrite !tuple_roundtrip by (split; [apply enc_row_nonempty; assumption | assumption]).
  apply field_compare_enc; assumption.
Qed.

(* ================================================================== *)
(* The builder                                                         *)
Definition plain_cell (c : bcell) : bool := match c with BAdaptive _ _ _ => false | _ => true end.

Lemma candidates_plain i cs : forallb plain_cell cs = true -> candidates i cs = [].
Proof.
  revert i; induction cs as [|c cs IH]; intros i H; [reflexivity|].
  cbn [forallb] in H. apply andb_true_iff in H as [Hc H]. cbn [candidates]. rewrite IH by exact H.
  destruct c; [reflexivity | reflexivity | discriminate Hc].
Qed.

Lemma normalise_plain i outs target cs : forallb plain_cell cs = true -> normalise i outs cs = map (held target) cs.
Proof.
  revert i; induction cs as [|c cs IH]; intros i H; [reflexivity|].
  cbn [forallb] in H. apply andb_true_iff in H as [Hc H]. cbn [normalise map]. rewrite IH by exact H.
  destruct c; [reflexivity | reflexivity | discriminate Hc].
Qed.

(* without adaptive values the builder is NewTuple of the encoded fields, whatever the target *)
Theorem build_plain_is_new_tuple (target : N) (cs : list bcell) :
  forallb plain_cell cs = true -> build target cs = new_tuple (map (held target) cs).
Proof.
  intros H. unfold build, build_fields.
  destruct (target <? sum_N (map inline_contrib cs)); [|reflexivity].
  rewrite candidates_plain by exact H. cbn [sort_desc fold_right pick_outline].
  rewrite (normalise_plain 0 [] target) by exact H. reflexivity.
Qed.

(* F9 — "tuples built from the same values are byte-identical no matter how
   they were built" is FALSE for the builder as written: below the length
   target BuildPermissive keeps an adaptive value in the form it was given.
   Witness: (int32 7, 30 x 'x') supplied inline vs as (length, address). *)
Definition f9_content : bytes := repeat 120 30.
Definition f9_addr : bytes := [241; 248; 203; 242; 219; 177; 26; 145; 67; 208; 166; 6; 243; 27; 99; 215; 81; 200; 15; 192].
Definition f9_inline : list bcell := [BPlain EInt32 (VZ 7); BAdaptive false f9_content f9_addr].
Definition f9_outline : list bcell := [BPlain EInt32 (VZ 7); BAdaptive true f9_content f9_addr].

Theorem build_repr_independent_refuted :
  exists target cs1 cs2,
    map cell_value cs1 = map cell_value cs2 /\ build target cs1 <> build target cs2.
Proof.
  exists 2048, f9_inline, f9_outline. split; [reflexivity|].
  vm_compute. discriminate.
Qed.

(* what does hold: once the all-inline size exceeds the target the result no
   longer depends on the form in which adaptive values were supplied *)
Definition forget_form (c : bcell) : bcell :=
  match c with BAdaptive _ content addr => BAdaptive false content addr | x => x end.

Lemma inline_contrib_forget cs : map inline_contrib (map forget_form cs) = map inline_contrib cs.
Proof. rewrite map_map. apply map_ext. intros [| e v | o c a]; reflexivity. Qed.

Lemma candidates_forget i cs : candidates i (map forget_form cs) = candidates i cs.
Proof.
  revert i; induction cs as [|c cs IH]; intros i; [reflexivity|].
  cbn [map candidates]. rewrite IH. destruct c; reflexivity.
Qed.

Lemma normalise_forget i outs cs : normalise i outs (map forget_form cs) = normalise i outs cs.
Proof.
  revert i; induction cs as [|c cs IH]; intros i; [reflexivity|].
  cbn [map normalise]. rewrite IH. destruct c; reflexivity.
Qed.

Theorem build_repr_independent_partial (target : N) (cs1 cs2 : list bcell) :
  map forget_form cs1 = map forget_form cs2 ->
  target < sum_N (map inline_contrib cs1) ->
  build target cs1 = build target cs2.
Proof.
  intros E H.
  assert (S12 : sum_N (map inline_contrib cs2) = sum_N (map inline_contrib cs1)).
  { rewrite <- (inline_contrib_forget cs2), <- E, inline_contrib_forget. reflexivity. }
  unfold build, build_fields. rewrite S12.
  apply N.ltb_lt in H. rewrite H.
  rewrite <- (candidates_forget 0 cs1), <- (candidates_forget 0 cs2), E.
  rewrite <- (normalise_forget 0 _ cs1), <- (normalise_forget 0 _ cs2), E. reflexivity.
Qed.

(* constants pinned to the Go source (regenerated on every run) *)
Lemma consts_pinned :
  c_int8_size = 1 /\ c_int16_size = 2 /\ c_int32_size = 4 /\ c_int64_size = 8
  /\ c_float32_size = 4 /\ c_float64_size = 8 /\ c_bit64_size = 8 /\ c_hash128_size = 16
  /\ c_year_size = 1 /\ c_date_size = 4 /\ c_time_size = 8 /\ c_datetime_size = 8
  /\ c_enum_size = 2 /\ c_set_size = 8 /\ c_cell_size = 17 /\ c_hash_byte_len = 20
  /\ c_min_year = min_year /\ c_max_year = max_year /\ c_zero_token = zero_token
  /\ c_year_shift = 16 /\ c_month_shift = 8 /\ c_month_mask = N.shiftl 255 8 /\ c_day_mask = 255
  /\ c_max_tuple_fields = max_tuple_fields /\ c_count_size = 2
  /\ max_tuple_data_size = 65535 - c_count_size - c_hash_byte_len - c_int64_size - c_int8_size.
Proof. repeat split; reflexivity. Qed.

(* the model's field widths are the code's sizes *)
Lemma widths_pinned :
  kind_of EInt8 = KSigned (N.to_nat c_int8_size) /\ kind_of EInt16 = KSigned (N.to_nat c_int16_size)
  /\ kind_of EInt32 = KSigned (N.to_nat c_int32_size) /\ kind_of EInt64 = KSigned (N.to_nat c_int64_size)
  /\ kind_of EFloat32 = KFloat (N.to_nat c_float32_size) /\ kind_of EFloat64 = KFloat (N.to_nat c_float64_size)
  /\ kind_of EBit64 = KUnsigned (N.to_nat c_bit64_size) /\ kind_of EEnum = KUnsigned (N.to_nat c_enum_size)
  /\ kind_of ESet = KUnsigned (N.to_nat c_set_size) /\ kind_of ETime = KSigned (N.to_nat c_time_size)
  /\ kind_of EDatetime = KSigned (N.to_nat c_datetime_size) /\ kind_of EHash128 = KRaw (N.to_nat c_hash128_size)
  /\ kind_of EAddr = KRaw (N.to_nat c_hash_byte_len) /\ kind_of ECell = KRaw (N.to_nat c_cell_size).
Proof. repeat split; reflexivity. Qed.

(* non-vacuity: the hypotheses of the theorems are satisfiable *)
Example fields_ok_example : fields_ok [Some [1; 0; 0; 0]; None; Some [104; 105; 0]; None].
Proof. split; [intros b [H | [H | [H | [H | []]]]]; inversion H; discriminate | reflexivity]. Qed.
Example wf_row_example : wf_row [EInt32; EString; EDecimal] [Some (VZ (-2)%Z); None; Some (VDec (DFin true 12345 (-2)%Z))] = true.
Proof. reflexivity. Qed.


(* ================================================================== *)
(* SQLite4 varint (used by the out-of-band form of adaptive values)    *)
Lemma be_dec_firstn k x rest :
  x < 2 ^ (8 * N.of_nat k) -> be_dec (firstn k (be_enc k x ++ rest)) = x.
Proof.
  intros H. rewrite <- (be_enc_length k x) at 1.
  rewrite firstn_app, firstn_all, Nat.sub_diag, firstn_O, app_nil_r.
  apply be_dec_enc. exact H.
Qed.

Theorem vi_roundtrip (n : N) (rest : bytes) :
  n < 2 ^ 64 -> vi_dec (vi_enc n ++ rest) = (n, len (vi_enc n)).
Proof.
  intros H. unfold vi_enc.
  destruct (N.ltb_spec n 241) as [H1 | H1].
  { cbn [app vi_dec]. destruct (N.leb_spec n 240); [reflexivity | lia]. }
  destruct (N.ltb_spec n 2288) as [H2 | H2].
  { cbn [app vi_dec nth].
    pose proof (N.div_mod (n - 240) 256 ltac:(lia)) as E.
    pose proof (N.mod_lt (n - 240) 256 ltac:(lia)) as Er.
    set (q := (n - 240) / 256) in *. set (r := (n - 240) mod 256) in *.
    destruct (N.leb_spec (q + 241) 240); [lia|].
    destruct (N.leb_spec (q + 241) 248); [|lia].
    unfold len. cbn [length]. f_equal. lia. }
  destruct (N.ltb_spec n 67824) as [H3 | H3].
  { cbn [app vi_dec nth].
    change (249 <=? 240) with false. change (249 <=? 248) with false. change (249 =? 249) with true. cbv iota.
    pose proof (N.div_mod (n - 2288) 256 ltac:(lia)) as E.
    pose proof (N.mod_lt (n - 2288) 256 ltac:(lia)) as Er.
    set (q := (n - 2288) / 256) in *. set (r := (n - 2288) mod 256) in *.
    unfold len. cbn [length]. f_equal. lia. }
  assert (Hbe : forall k tag, (tag = 247 + N.of_nat k) -> (3 <= k <= 8)%nat -> n < 2 ^ (8 * N.of_nat k) ->
            vi_dec ((tag :: be_enc k n) ++ rest) = (n, len (tag :: be_enc k n))).
  { intros k tag Ht Hk Hn. cbn [app vi_dec].
    destruct (N.leb_spec tag 240); [lia|]. destruct (N.leb_spec tag 248); [lia|].
    destruct (N.eqb_spec tag 249); [lia|].
    replace (N.to_nat (tag - 247)) with k by lia.
    rewrite be_dec_firstn by exact Hn. unfold len. cbn [length]. rewrite be_enc_length. f_equal. lia. }
  destruct (N.ltb_spec n (2 ^ 24)) as [H4 | H4]; [apply (Hbe 3%nat); [reflexivity | lia | exact H4]|].
  destruct (N.ltb_spec n (2 ^ 32)) as [H5 | H5]; [apply (Hbe 4%nat); [reflexivity | lia | exact H5]|].
  destruct (N.ltb_spec n (2 ^ 40)) as [H6 | H6]; [apply (Hbe 5%nat); [reflexivity | lia | exact H6]|].
  destruct (N.ltb_spec n (2 ^ 48)) as [H7 | H7]; [apply (Hbe 6%nat); [reflexivity | lia | exact H7]|].
  destruct (N.ltb_spec n (2 ^ 56)) as [H8 | H8]; [apply (Hbe 7%nat); [reflexivity | lia | exact H8]|].
  apply (Hbe 8%nat); [reflexivity | lia | exact H].
Qed.

Theorem vi_first_byte_nonzero (n : N) : 0 < n -> hd 0 (vi_enc n) <> 0.
Proof.
  intros H. unfold vi_enc.
  repeat match goal with |- context [if ?c then _ else _] => destruct c end; cbn [hd]; lia.
Qed.

Lemma vi_enc_nonempty n : vi_enc n <> [].
Proof. unfold vi_enc. repeat match goal with |- context [if ?c then _ else _] => destruct c end; discriminate. Qed.

(* reading the content behind an out-of-band adaptive value *)
Lemma ad_content_outline (read : bytes -> bytes) (content addr : bytes) :
  0 < len content -> len content < 2 ^ 64 -> ad_content read (ad_outline content addr) = read addr.
Proof.
  intros Hpos Hlt. unfold ad_outline, ad_content.
  pose proof (vi_first_byte_nonzero _ Hpos) as Hnz.
  pose proof (vi_roundtrip _ addr Hlt) as Hrt.
  destruct (vi_enc (len content)) as [|h t] eqn:E; [exfalso; apply (vi_enc_nonempty (len content)); exact E|].
  cbn [hd] in Hnz. change ((h :: t) ++ addr) with (h :: (t ++ addr)) in *.
  cbv beta iota.
  destruct (N.eqb_spec h 0) as [E0 | _]; [contradiction|].
  rewrite Hrt. cbn [snd]. unfold len. rewrite !Nat2N.id.
  change (h :: t ++ addr) with ((h :: t) ++ addr). rewrite skipn_app, skipn_all, Nat.sub_diag. reflexivity.
Qed.

(* ================================================================== *)
(* What the builder holds for each column                              *)
Definition form_ok (c : bcell) (f : field) : Prop :=
  match c with
  | BNull => f = None
  | BPlain e v => f = Some (encode e v)
  | BAdaptive _ content addr =>
    f = Some (ad_inline content) \/ (f = Some (ad_outline content addr) /\ 0 < len content)
  end.

Lemma vi_enc_len_pos n : 0 < len (vi_enc n).
Proof. pose proof (vi_enc_nonempty n). unfold len. destruct (vi_enc n); [congruence | cbn [length]; lia]. Qed.

Lemma savings_pos_len c : (0 < savings c)%Z ->
  match c with BAdaptive _ content _ => 0 < len content | _ => False end.
Proof. destruct c as [| e v | o content addr]; cbn [savings]; lia. Qed.

Definition given_inline (c : bcell) : bool := match c with BAdaptive true _ _ => false | _ => true end.

Lemma held_form target c : 0 < target -> given_inline c = true -> form_ok c (held target c).
Proof.
  intros Ht Hg. destruct c as [| e v | o content addr].
  - reflexivity.
  - reflexivity.
  - destruct o; [discriminate Hg|]. cbn [form_ok held].
    destruct (N.ltb_spec target (len content + 1)) as [H | H]; [right; split; [reflexivity | lia] | left; reflexivity].
Qed.

Lemma candidates_spec cs : forall i j s,
  In (j, s) (candidates i cs) -> i <= j /\ (0 < savings (nth (N.to_nat (j - i)) cs BNull))%Z.
Proof.
  induction cs as [|c cs IH]; intros i j s H; [destruct H|].
  cbn [candidates] in H.
  assert (Hrest : In (j, s) (candidates (i + 1) cs) -> i <= j /\ (0 < savings (nth (N.to_nat (j - i)) (c :: cs) BNull))%Z).
  { intros H'. apply IH in H' as [H1 H2]. split; [lia|].
    replace (N.to_nat (j - i)) with (S (N.to_nat (j - (i + 1)))) by lia. exact H2. }
  destruct c as [| e v | o content addr]; try (apply Hrest; exact H).
  destruct (Z.ltb_spec 0 (savings (BAdaptive o content addr))) as [Hs | Hs]; [|apply Hrest; exact H].
  destruct H as [H | H]; [|apply Hrest; exact H].
  inversion H; subst. split; [lia|]. rewrite N.sub_diag. exact Hs.
Qed.

Lemma insert_desc_in x l y : In y (insert_desc x l) -> y = x \/ In y l.
Proof.
  induction l as [|z l IH]; cbn [insert_desc]; [intros [H | []]; left; symmetry; exact H|].
  destruct (snd z <=? snd x)%Z; intros H.
  - destruct H as [H | H]; [left; symmetry; exact H | right; exact H].
  - destruct H as [H | H]; [right; left; exact H|]. apply IH in H as [H | H]; [left; exact H | right; right; exact H].
Qed.

Lemma sort_desc_in l y : In y (sort_desc l) -> In y l.
Proof.
  unfold sort_desc. induction l as [|x l IH]; cbn [fold_right]; [intros []|].
  intros H. apply insert_desc_in in H as [H | H]; [left; symmetry; exact H | right; apply IH; exact H].
Qed.

Lemma pick_outline_in total target cands j : In j (pick_outline total target cands) -> exists s, In (j, s) cands.
Proof.
  revert total; induction cands as [|[i s] r IH]; intros total H; [destruct H|].
  cbn [pick_outline] in H. destruct (total - s <=? target)%Z.
  - destruct H as [H | []]. exists s. left. rewrite H. reflexivity.
  - destruct H as [H | H]; [exists s; left; rewrite H; reflexivity|].
    apply IH in H as [s' H]. exists s'. right. exact H.
Qed.

Lemma normalise_form outs cs : forall i,
  (forall j, In j outs -> i <= j -> (0 < savings (nth (N.to_nat (j - i)) cs BNull))%Z) ->
  Forall2 form_ok cs (normalise i outs cs).
Proof.
  induction cs as [|c cs IH]; intros i H; cbn [normalise]; constructor.
  - destruct c as [| e v | o content addr]; cbn [form_ok normalise_cell]; try reflexivity.
    destruct (existsb (N.eqb i) outs) eqn:E; [|left; reflexivity].
    right. split; [reflexivity|].
    apply existsb_exists in E as [j [Hj Ej]]. apply N.eqb_eq in Ej. subst j.
    specialize (H i Hj ltac:(lia)). rewrite N.sub_diag in H. cbn [N.to_nat nth] in H.
    apply savings_pos_len in H. exact H.
  - apply IH. intros j Hj Hij. specialize (H j Hj ltac:(lia)).
    replace (N.to_nat (j - i)) with (S (N.to_nat (j - (i + 1)))) in H by lia. exact H.
Qed.

Lemma build_fields_form target cs :
  0 < target -> forallb given_inline cs = true -> Forall2 form_ok cs (build_fields target cs).
Proof.
  intros Ht Hg. unfold build_fields.
  destruct (target <? sum_N (map inline_contrib cs)).
  - apply normalise_form. intros j Hj _.
    apply pick_outline_in in Hj as [s Hj]. apply sort_desc_in in Hj.
    apply candidates_spec in Hj as [_ Hs]. rewrite N.sub_0_r in Hs |- *. exact Hs.
  - rewrite forallb_forall in Hg. induction cs as [|c cs IH]; cbn [map]; constructor.
    + apply held_form; [exact Ht | apply Hg; left; reflexivity].
    + apply IH. intros x Hx. apply Hg. right. exact Hx.
Qed.

(* ================================================================== *)
(* Builder histories                                                   *)
Definition is_reset (op : bop) : bool :=
  match op with OBuild | OBuildPrefix _ | ORecycle => true | _ => false end.

Lemma bs_run_app target n ops1 : forall st ops2,
  bs_run target n st (ops1 ++ ops2)
  = bs_run target n st ops1
    ++ bs_run target n (fold_left (fun s op => fst (bs_step target n s op)) ops1 st) ops2.
Proof.
  induction ops1 as [|op r IH]; intros st ops2; [reflexivity|].
  cbn [app bs_run fold_left]. destruct (bs_step target n st op) as [st' out] eqn:E. cbn [fst].
  rewrite IH, app_assoc. reflexivity.
Qed.

Lemma reset_restores_init target n st r : is_reset r = true -> fst (bs_step target n st r) = bs_init n.
Proof. destruct r; cbn [is_reset bs_step fst]; intros H; try discriminate H; reflexivity. Qed.

(* a reused builder behaves as a fresh one: whatever happened before a Build /
   BuildPrefix / Recycle has no influence on the tuples produced afterwards
   (all cell kinds, all operations) *)
Theorem builder_reuse_is_fresh (target : N) (n : nat) (ops1 : list bop) (r : bop) (ops2 : list bop) :
  is_reset r = true ->
  bs_run target n (bs_init n) (ops1 ++ r :: ops2)
  = bs_run target n (bs_init n) (ops1 ++ [r]) ++ bs_run target n (bs_init n) ops2.
Proof.
  intros Hr. change (r :: ops2) with ([r] ++ ops2). rewrite app_assoc, bs_run_app. f_equal.
  rewrite fold_left_app. cbn [fold_left]. rewrite reset_restores_init by exact Hr. reflexivity.
Qed.

(* --- the slots of the state machine are the declarative "fields put since the last reset" --- *)
Lemma slot_of_cons i c log j : slot_of ((i, c) :: log) j = if Nat.eqb i j then c else slot_of log j.
Proof. unfold slot_of. cbn [find fst snd]. destruct (Nat.eqb i j); reflexivity. Qed.

Lemma set_slot_map_seq i c (f : nat -> bcell) : forall n s,
  set_slot i c (map f (seq s n)) = map (fun j => if Nat.eqb (s + i) j then c else f j) (seq s n).
Proof.
  revert i. intros i n. revert i. induction n as [|n IH]; intros i s; [destruct i; reflexivity|].
  cbn [seq map]. destruct i as [|i]; cbn [set_slot].
  - rewrite Nat.add_0_r, Nat.eqb_refl. f_equal. apply map_ext_in. intros j Hj. apply in_seq in Hj.
    destruct (Nat.eqb_spec s j); [lia | reflexivity].
  - destruct (Nat.eqb_spec (s + S i) s); [lia|]. f_equal. rewrite IH.
    apply map_ext. intros j. replace (S s + i)%nat with (s + S i)%nat by lia. reflexivity.
Qed.

Lemma set_slot_expected n i c log : set_slot i c (expected_slots n log) = expected_slots n ((i, c) :: log).
Proof.
  unfold expected_slots. rewrite set_slot_map_seq. apply map_ext. intros j. cbn [Nat.add]. rewrite slot_of_cons. reflexivity.
Qed.

Lemma expected_slots_nil n : expected_slots n [] = repeat BNull n.
Proof.
  unfold expected_slots. generalize 0%nat. induction n as [|n IH]; intros s; [reflexivity|].
  cbn [seq map repeat]. rewrite IH. reflexivity.
Qed.

Definition plain_op (op : bop) : bool := match op with OPut _ c => plain_cell c | _ => true end.

Lemma build_fields_total_plain target total cs :
  forallb plain_cell cs = true -> build_fields_total target total cs = map (held target) cs.
Proof.
  intros H. unfold build_fields_total. destruct (target <? total); [|reflexivity].
  rewrite candidates_plain by exact H. cbn [sort_desc fold_right pick_outline].
  apply normalise_plain. exact H.
Qed.

Lemma since_reset_plain before p :
  forallb plain_op before = true -> In p (since_reset before) -> plain_cell (snd p) = true.
Proof.
  induction before as [|op r IH]; intros H Hin; [destruct Hin|].
  cbn [forallb] in H. apply andb_true_iff in H as [Hop H].
  destruct op as [i c | | k | k |]; cbn [since_reset] in Hin; try (destruct Hin; fail).
  - destruct Hin as [<- | Hin]; [exact Hop | apply IH; assumption].
  - apply IH; assumption.
Qed.

Lemma expected_slots_plain n log :
  (forall p, In p log -> plain_cell (snd p) = true) -> forallb plain_cell (expected_slots n log) = true.
Proof.
  intros H. unfold expected_slots. apply forallb_forall. intros c Hc. apply in_map_iff in Hc as [j [<- _]].
  unfold slot_of. destruct (find (fun p => Nat.eqb (fst p) j) log) as [p|] eqn:F; [|reflexivity].
  apply find_some in F as [F _]. apply H. exact F.
Qed.

(* Full statement: for every history (any cells) each produced tuple equals the
   fresh construction from the fields put since the last reset.  Proved here for
   histories of plain (non-adaptive) values, any operations, including repeated
   puts on a column; with adaptive values the running size counter of the builder
   also counts overwritten puts, so the statement needs "no column is put twice
   between resets" (not proved).  builder_reuse_is_fresh above covers all cells. *)
Theorem builder_history_canonical_partial (target : N) (n : nat) : forall ops st before,
  forallb plain_op ops = true -> forallb plain_op before = true ->
  bs_slots st = expected_slots n (since_reset before) ->
  bs_run target n st ops = spec_outputs target n before ops.
Proof.
  induction ops as [|op r IH]; intros st before Hops Hb Hs; [reflexivity|].
  cbn [forallb] in Hops. apply andb_true_iff in Hops as [Hop Hops].
  assert (Hb' : forallb plain_op (op :: before) = true) by (cbn [forallb]; rewrite Hop, Hb; reflexivity).
  assert (Hplain : forallb plain_cell (bs_slots st) = true).
  { rewrite Hs. apply expected_slots_plain. intros p Hp. exact (since_reset_plain before p Hb Hp). }
  assert (Hinit : bs_slots (bs_init n) = expected_slots n []) by (symmetry; apply expected_slots_nil).
  cbn [bs_run spec_outputs].
  destruct op as [i c | | k | k |]; cbn [bs_step expected_out app].
  - apply IH; [exact Hops | exact Hb' |]. cbn [bs_slots since_reset]. rewrite Hs. apply set_slot_expected.
  - rewrite build_fields_total_plain by exact Hplain.
    rewrite <- Hs, (build_plain_is_new_tuple target _ Hplain). f_equal.
    apply IH; [exact Hops | exact Hb' | exact Hinit].
  - rewrite <- Hs. f_equal. apply IH; [exact Hops | exact Hb' | exact Hinit].
  - rewrite <- Hs. f_equal. apply IH; [exact Hops | exact Hb' | exact Hs].
  - apply IH; [exact Hops | exact Hb' | exact Hinit].
Qed.

Corollary builder_history_canonical (target : N) (n : nat) (ops : list bop) :
  forallb plain_op ops = true ->
  bs_run target n (bs_init n) ops = spec_outputs target n [] ops.
Proof.
  intros H. apply builder_history_canonical_partial; [exact H | reflexivity |].
  symmetry. apply expected_slots_nil.
Qed.

(* ================================================================== *)
(* oracle_on_model: the property holds of the model on every           *)
(* well-formed input outside the F9 class                              *)
Definition is_adaptive (e : enc) : bool := match kind_of e with KAdaptive => true | _ => false end.

Definition cell_ok (e : enc) (c : cell) : bool :=
  match c with
  | CNull => true
  | CVal v => wf_val e v && negb (is_adaptive e)       (* adaptive columns take CAd cells *)
  | CAd content _ => is_adaptive e && (len content <? 2 ^ 64)
  end.

Definition cells_ok (types : list enc) (cs : list cell) : bool :=
  (length cs <=? length types)%nat && forallb (fun p => cell_ok (fst p) (snd p)) (combine types cs).

(* within one case the value store is a bijection between the contents and
   their addresses (content addressing, no collision among the case's values) *)
Definition pair_ok (p q : cell) : bool :=
  match p, q with
  | CAd c1 a1, CAd c2 a2 => Bool.eqb (beq_bytes c1 c2) (beq_bytes a1 a2)
  | _, _ => true
  end.
Definition store_ok (cs : list cell) : bool := forallb (fun p => forallb (pair_ok p) cs) cs.

(* F9 class: an adaptive value of more than 20 bytes supplied as (length,
   address) to a tuple whose all-inline size is within the target *)
Definition f9_free (i : input) : bool :=
  let types := map fst (i_types i) in
  (i_target i <? sum_N (map inline_contrib (bcells false types (i_a i))))
  || forallb (fun c => match c with CAd content _ => len content <=? 20 | _ => true end) (i_a i).

Definition wf_input (i : input) : bool :=
  let types := map fst (i_types i) in
  (0 <? i_target i)
  && Nat.eqb (length (i_a i)) (length types)
  && cells_ok types (i_a i) && cells_ok types (i_b i)
  && store_ok (i_a i ++ i_b i)
  && within_limits (trim_nulls (build_fields (i_target i) (bcells false types (i_a i))))
  && within_limits (trim_nulls (build_fields (i_target i) (bcells false types (i_b i)))).

Definition represents (rd : bytes -> bytes) (e : enc) (f : field) (v : option sval) : Prop :=
  match f, v with
  | None, None => True
  | Some b, Some x => decode rd e b = x
  | _, _ => False
  end.

Definition cell_val (c : cell) : option sval :=
  match c with CNull => None | CVal v => Some v | CAd content _ => Some (VB content) end.

Lemma row_of_map cs : row_of cs = map cell_val cs.
Proof. reflexivity. Qed.

Lemma decode_adaptive rd e b : is_adaptive e = true -> decode rd e b = VB (ad_content rd b).
Proof. unfold is_adaptive, decode. destruct (kind_of e); intros H; try discriminate H. reflexivity. Qed.

Lemma cell_represents rd e c f :
  cell_ok e c = true ->
  (forall content addr, c = CAd content addr -> rd addr = content) ->
  form_ok (to_bcell false e c) f -> represents rd e f (cell_val c).
Proof.
  intros Hok Hrd Hf. destruct c as [| v | content addr]; cbn [to_bcell form_ok cell_val andb] in *.
  - subst f. exact I.
  - subst f. cbn [represents]. apply andb_true_iff in Hok as [Hok _]. apply dec_enc. exact Hok.
  - apply andb_true_iff in Hok as [Ha Hl]. apply N.ltb_lt in Hl.
    destruct Hf as [-> | [-> Hpos]]; cbn [represents]; rewrite decode_adaptive by exact Ha; f_equal.
    all: try reflexivity.
    rewrite ad_content_outline by assumption. apply Hrd. reflexivity.
Qed.

Lemma cell_field_nonempty e c b : cell_ok e c = true -> form_ok (to_bcell false e c) (Some b) -> b <> [].
Proof.
  intros Hok Hf. destruct c as [| v | content addr]; cbn [to_bcell form_ok andb] in *.
  - discriminate Hf.
  - inversion Hf; subst. apply andb_true_iff in Hok as [Hok _]. apply encode_nonempty. exact Hok.
  - destruct Hf as [Hf | [Hf _]]; inversion Hf; subst; [discriminate|].
    unfold ad_outline. pose proof (vi_enc_nonempty (len content)). destruct (vi_enc (len content)); [congruence | discriminate].
Qed.

(* --- store lookups --- *)
Lemma store_ok_pair cs p q : store_ok cs = true -> In p cs -> In q cs -> pair_ok p q = true.
Proof.
  unfold store_ok. rewrite forallb_forall. intros H Hp Hq. specialize (H p Hp). rewrite forallb_forall in H. apply H. exact Hq.
Qed.

Lemma lookup_store cs l content addr :
  store_ok cs = true -> (forall x, In x l -> In x cs) -> In (CAd content addr) cs -> In (CAd content addr) l ->
  lookup (store_of l) addr = content.
Proof.
  intros Hs. induction l as [|x l IH]; intros Hsub Hcs Hin; [destruct Hin|].
  assert (Hrest : In (CAd content addr) l -> lookup (store_of l) addr = content).
  { intros H. apply IH; [intros y Hy; apply Hsub; right; exact Hy | exact Hcs | exact H]. }
  destruct x as [| v | c a]; cbn [store_of].
  - destruct Hin as [H | H]; [discriminate H | apply Hrest; exact H].
  - destruct Hin as [H | H]; [discriminate H | apply Hrest; exact H].
  - cbn [lookup]. destruct (beq_bytes a addr) eqn:E.
    + pose proof (store_ok_pair cs (CAd c a) (CAd content addr) Hs (Hsub _ (or_introl eq_refl)) Hcs) as P.
      cbn [pair_ok] in P. rewrite E in P. apply eqb_prop in P. apply beq_bytes_spec in P. exact P.
    + destruct Hin as [H | H]; [inversion H; subst; rewrite beq_bytes_refl in E; discriminate E | apply Hrest; exact H].
Qed.

(* --- per-column facts for a built tuple --- *)
Lemma bcells_cons e ts c cs : bcells false (e :: ts) (c :: cs) = to_bcell false e c :: bcells false ts cs.
Proof. reflexivity. Qed.

Lemma cells_ok_cons e ts c cs : cells_ok (e :: ts) (c :: cs) = true -> cell_ok e c = true /\ cells_ok ts cs = true.
Proof.
  unfold cells_ok. cbn [length combine forallb fst snd]. intros H.
  apply andb_true_iff in H as [H1 H2]. apply andb_true_iff in H2 as [H2 H3].
  split; [exact H2|]. rewrite H3, andb_true_r. apply Nat.leb_le in H1. apply Nat.leb_le. lia.
Qed.

Lemma cells_ok_length types cs : cells_ok types cs = true -> (length cs <= length types)%nat.
Proof. unfold cells_ok. intros H. apply andb_true_iff in H as [H _]. apply Nat.leb_le. exact H. Qed.

Lemma columns_represent rd types : forall cs fs,
  cells_ok types cs = true ->
  (forall content addr, In (CAd content addr) cs -> rd addr = content) ->
  Forall2 form_ok (bcells false types cs) fs ->
  nonempty_fields fs
  /\ length fs = length cs
  /\ (forall j, represents rd (nth j types EInt8) (nth j fs None) (nth j (row_of cs) None))
  /\ map (fun p => match snd p with None => None | Some b => Some (decode rd (fst p) b) end) (combine types fs) = row_of cs.
Proof.
  induction types as [|e ts IH]; intros cs fs Hok Hrd HF.
  - pose proof (cells_ok_length _ _ Hok) as L. destruct cs; [|cbn in L; lia].
    inversion HF; subst. repeat split; try reflexivity; [intros b [] | intros j; destruct j; exact I].
  - destruct cs as [|c cs].
    + inversion HF; subst. repeat split; try reflexivity; [intros b [] | intros j; destruct j; exact I].
    + rewrite bcells_cons in HF. inversion HF as [|x f l fs' Hf HF' E1 E2]; subst.
      apply cells_ok_cons in Hok as [Hc Hcs].
      destruct (IH cs fs' Hcs (fun content addr H => Hrd content addr (or_intror H)) HF') as (N1 & N2 & N3 & N4).
      assert (Hrep : represents rd e f (cell_val c)).
      { apply cell_represents; [exact Hc | intros content addr ->; apply Hrd; left; reflexivity | exact Hf]. }
      repeat split.
      * intros b [Hb | Hb]; [subst f; eapply cell_field_nonempty; eassumption | apply N1; exact Hb].
      * cbn [length]. rewrite N2. reflexivity.
      * intros [|j]; cbn [nth row_of map]; [exact Hrep | apply N3].
      * cbn [combine map fst snd row_of]. change (map _ cs) with (row_of cs). rewrite <- N4. f_equal.
        destruct f as [b|], c as [| v | content addr]; cbn [represents cell_val] in Hrep |- *; try contradiction; try reflexivity; rewrite Hrep; reflexivity.
Qed.

Lemma field_compare_represents rd e fa fb va vb :
  represents rd e fa va -> represents rd e fb vb -> field_compare rd e fa fb = opt_compare e va vb.
Proof.
  destruct fa as [a|], va as [x|], fb as [b|], vb as [y|]; cbn [represents field_compare opt_compare]; try contradiction; try reflexivity.
  intros <- <-. reflexivity.
Qed.

(* --- NULL patterns and trimming --- *)
Lemma trim_pattern (fs : list field) (r : row) :
  Forall2 (fun f v => f = None <-> v = None) fs r ->
  length (trim_nulls fs) = length (trim_row r) /\ (trim_nulls fs = [] <-> trim_row r = []).
Proof.
  induction 1 as [|f v fs r Hfv _ IH]; [split; [reflexivity | split; reflexivity]|].
  destruct IH as [IL IE]. rewrite trim_nulls_cons. cbn [trim_row].
  destruct (trim_nulls fs) as [|x t] eqn:T; destruct (trim_row r) as [|y u] eqn:U.
  - destruct f as [b|], v as [z|]; cbn [length].
    + split; [reflexivity | split; discriminate].
    + exfalso. destruct Hfv as [_ H]. discriminate (H eq_refl).
    + exfalso. destruct Hfv as [H _]. discriminate (H eq_refl).
    + split; [reflexivity | split; reflexivity].
  - exfalso. destruct IE as [H _]. discriminate (H eq_refl).
  - exfalso. destruct IE as [_ H]. discriminate (H eq_refl).
  - assert (E1 : match f with Some _ | _ => f :: x :: t end = f :: x :: t) by (destruct f; reflexivity).
    assert (E2 : match v with Some _ | _ => v :: y :: u end = v :: y :: u) by (destruct v; reflexivity).
    destruct f, v; cbn [length] in *; (split; [lia | split; discriminate]).
Qed.

(* --- canonical form: rows equal up to trailing NULLs build the same bytes --- *)
Lemma sum_N_app_zeros l n : sum_N (l ++ repeat 0 n) = sum_N l.
Proof.
  induction l as [|x l IH]; cbn [app sum_N fold_right].
  - induction n as [|n IHn]; [reflexivity|]. cbn [repeat fold_right]. unfold sum_N in IHn. rewrite IHn. reflexivity.
  - unfold sum_N in IH. rewrite IH. reflexivity.
Qed.

Lemma candidates_app_nulls cs n : forall i, candidates i (cs ++ repeat BNull n) = candidates i cs.
Proof.
  induction cs as [|c cs IH]; intros i; cbn [app].
  - revert i; induction n as [|n IHn]; intros i; [reflexivity|]. cbn [repeat candidates]. apply IHn.
  - cbn [candidates]. rewrite IH. reflexivity.
Qed.

Lemma normalise_app_nulls outs cs n : forall i,
  normalise i outs (cs ++ repeat BNull n) = normalise i outs cs ++ repeat None n.
Proof.
  induction cs as [|c cs IH]; intros i; cbn [app].
  - revert i; induction n as [|n IHn]; intros i; [reflexivity|]. cbn [repeat normalise normalise_cell]. rewrite IHn. reflexivity.
  - cbn [normalise]. rewrite IH. reflexivity.
Qed.

Lemma map_repeat' {A B} (f : A -> B) x n : map f (repeat x n) = repeat (f x) n.
Proof. induction n as [|n IH]; [reflexivity|]. cbn [repeat map]. rewrite IH. reflexivity. Qed.

Lemma build_fields_app_nulls target cs n :
  build_fields target (cs ++ repeat BNull n) = build_fields target cs ++ repeat None n.
Proof.
  unfold build_fields.
  assert (E : sum_N (map inline_contrib (cs ++ repeat BNull n)) = sum_N (map inline_contrib cs)).
  { rewrite map_app, map_repeat'. cbn [inline_contrib]. apply sum_N_app_zeros. }
  rewrite E, candidates_app_nulls.
  destruct (target <? sum_N (map inline_contrib cs)).
  - apply normalise_app_nulls.
  - rewrite map_app, map_repeat'. reflexivity.
Qed.

Lemma build_app_nulls target cs n : build target (cs ++ repeat BNull n) = build target cs.
Proof. unfold build. rewrite build_fields_app_nulls. apply new_tuple_drops_trailing_nulls. Qed.

Fixpoint trim_cells (cs : list cell) : list cell :=
  match cs with
  | [] => []
  | c :: r => match trim_cells r, c with [], CNull => [] | t, _ => c :: t end
  end.

Lemma trim_cells_decomp cs : exists k, cs = trim_cells cs ++ repeat CNull k.
Proof.
  induction cs as [|c cs [k IH]]; [exists 0%nat; reflexivity|].
  cbn [trim_cells]. destruct (trim_cells cs) as [|x t] eqn:T.
  - cbn [app] in IH. destruct c as [| v | content addr].
    + exists (S k). cbn [app repeat]. f_equal. exact IH.
    + exists k. cbn [app]. f_equal. exact IH.
    + exists k. cbn [app]. f_equal. exact IH.
  - exists k. destruct c; cbn [app]; f_equal; exact IH.
Qed.

Lemma row_of_trim_cells cs : row_of (trim_cells cs) = trim_row (row_of cs).
Proof.
  induction cs as [|c cs IH]; [reflexivity|].
  cbn [trim_cells row_of map trim_row]. change (map _ cs) with (row_of cs). rewrite <- IH.
  destruct (trim_cells cs) as [|x t]; destruct c; reflexivity.
Qed.

Lemma In_trim_cells x cs : In x (trim_cells cs) -> In x cs.
Proof.
  destruct (trim_cells_decomp cs) as [k E]. intros H. rewrite E. apply in_or_app. left. exact H.
Qed.

Lemma cells_ok_app types x y : cells_ok types (x ++ y) = true -> cells_ok types x = true.
Proof.
  revert x; induction types as [|e ts IH]; intros x H.
  - pose proof (cells_ok_length _ _ H) as L. destruct x; [reflexivity | cbn in L; lia].
  - destruct x as [|c x]; [reflexivity|]. cbn [app] in H. apply cells_ok_cons in H as [Hc Hx].
    apply IH in Hx. unfold cells_ok in *. cbn [length combine forallb fst snd].
    apply andb_true_iff in Hx as [H1 H2]. rewrite Hc, H2. apply Nat.leb_le in H1.
    rewrite andb_true_r. apply Nat.leb_le. lia.
Qed.

Lemma cells_inj cs types : forall x y,
  store_ok cs = true -> (forall c, In c x -> In c cs) -> (forall c, In c y -> In c cs) ->
  cells_ok types x = true -> cells_ok types y = true -> row_of x = row_of y -> x = y.
Proof.
  intros x y Hs. revert x y; induction types as [|e ts IH]; intros x y Hx Hy Ox Oy E.
  - pose proof (cells_ok_length _ _ Ox) as L1. pose proof (cells_ok_length _ _ Oy) as L2.
    destruct x; [|cbn in L1; lia]. destruct y; [reflexivity | cbn in L2; lia].
  - destruct x as [|c x], y as [|d y]; try discriminate E; [reflexivity|].
    cbn [row_of map] in E. inversion E as [[E1 E2]].
    apply cells_ok_cons in Ox as [Oc Ox]. apply cells_ok_cons in Oy as [Od Oy].
    f_equal.
    + destruct c as [| v | c1 a1], d as [| w | c2 a2]; try discriminate E1; try reflexivity.
      * inversion E1; subst. reflexivity.
      * cbn [cell_ok] in Oc, Od. apply andb_true_iff in Oc as [_ Oc]. apply andb_true_iff in Od as [Od _]. rewrite Od in Oc. discriminate Oc.
      * cbn [cell_ok] in Oc, Od. apply andb_true_iff in Od as [_ Od]. apply andb_true_iff in Oc as [Oc _]. rewrite Oc in Od. discriminate Od.
      * inversion E1; subst.
        pose proof (store_ok_pair cs _ _ Hs (Hx _ (or_introl eq_refl)) (Hy _ (or_introl eq_refl))) as P.
        cbn [pair_ok] in P. rewrite beq_bytes_refl in P. apply eqb_prop in P. symmetry in P. apply beq_bytes_spec in P. subst. reflexivity.
    + apply IH; [intros z Hz; apply Hx; right; exact Hz | intros z Hz; apply Hy; right; exact Hz | exact Ox | exact Oy | exact E2].
Qed.

Lemma bcells_app_nulls types : forall cs k,
  (length (cs ++ repeat CNull k) <= length types)%nat ->
  bcells false types (cs ++ repeat CNull k) = bcells false types cs ++ repeat BNull k.
Proof.
  induction types as [|e ts IH]; intros cs k L.
  - rewrite app_length, repeat_length in L. cbn [length] in L.
    destruct cs; [|cbn in L; lia]. destruct k; [reflexivity | cbn in L; lia].
  - destruct cs as [|c cs].
    + cbn [app]. destruct k as [|k]; [reflexivity|]. cbn [repeat]. rewrite bcells_cons.
      cbn [to_bcell]. cbn [app length repeat] in L. rewrite repeat_length in L.
      pose proof (IH [] k) as E. cbn [app] in E. rewrite E by (rewrite repeat_length; lia).
      destruct ts; reflexivity.
    + cbn [app]. rewrite !bcells_cons. cbn [app length] in L. rewrite IH by lia. reflexivity.
Qed.

(* sval equality test is sound *)
Lemma sval_eqb_eq a b : sval_eqb a b = true -> a = b.
Proof.
  destruct a as [x | x | x | y1 m1 d1 | x], b as [y | y | y | y2 m2 d2 | y]; cbn [sval_eqb]; intros H; try discriminate H.
  - apply Z.eqb_eq in H. congruence.
  - apply N.eqb_eq in H. congruence.
  - apply beq_bytes_spec in H. congruence.
  - apply andb_true_iff in H as [H H3]. apply andb_true_iff in H as [H1 H2].
    apply N.eqb_eq in H1, H2, H3. congruence.
  - destruct x as [| n1 | n1 c1 e1], y as [| n2 | n2 c2 e2]; cbn [decimal_eqb] in H; try discriminate H.
    + reflexivity.
    + apply eqb_prop in H. congruence.
    + apply andb_true_iff in H as [H H3]. apply andb_true_iff in H as [H1 H2].
      apply eqb_prop in H1. apply N.eqb_eq in H2. apply Z.eqb_eq in H3. congruence.
Qed.

Lemma sval_eqb_refl a : sval_eqb a a = true.
Proof.
  destruct a as [x | x | x | y m d | x]; cbn [sval_eqb].
  - apply Z.eqb_refl. - apply N.eqb_refl. - apply beq_bytes_refl.
  - rewrite !N.eqb_refl. reflexivity.
  - destruct x as [| n | n c e]; cbn [decimal_eqb]; [reflexivity | apply eqb_reflx |].
    rewrite eqb_reflx, N.eqb_refl, Z.eqb_refl. reflexivity.
Qed.

Lemma osval_list_eqb_eq (a b : list (option sval)) : list_eqb osval_eqb a b = true -> a = b.
Proof.
  revert b; induction a as [|x a IH]; intros [|y b] H; cbn [list_eqb] in H; try discriminate H; [reflexivity|].
  apply andb_true_iff in H as [H1 H2]. f_equal; [|apply IH; exact H2].
  destruct x, y; cbn [osval_eqb] in H1; try discriminate H1; [f_equal; apply sval_eqb_eq; exact H1 | reflexivity].
Qed.

Lemma osval_list_eqb_refl (a : list (option sval)) : list_eqb osval_eqb a a = true.
Proof.
  induction a as [|x a IH]; [reflexivity|]. cbn [list_eqb]. rewrite IH, andb_true_r.
  destruct x; [apply sval_eqb_refl | reflexivity].
Qed.

Lemma bcells_given_inline types : forall cs, forallb given_inline (bcells false types cs) = true.
Proof.
  induction types as [|e ts IH]; intros cs; [reflexivity|].
  destruct cs as [|c cs]; [reflexivity|]. rewrite bcells_cons. cbn [forallb]. rewrite IH, andb_true_r.
  destruct c; reflexivity.
Qed.

Lemma bcells_forget o types : forall cs,
  map forget_form (bcells o types cs) = map forget_form (bcells false types cs).
Proof.
  induction types as [|e ts IH]; intros cs; [reflexivity|].
  destruct cs as [|c cs]; [reflexivity|].
  change (bcells o (e :: ts) (c :: cs)) with (to_bcell o e c :: bcells o ts cs).
  rewrite bcells_cons. cbn [map]. rewrite IH. f_equal. destruct c; reflexivity.
Qed.

Lemma bcells_small_same types : forall cs,
  forallb (fun c => match c with CAd content _ => len content <=? 20 | _ => true end) cs = true ->
  bcells true types cs = bcells false types cs.
Proof.
  induction types as [|e ts IH]; intros cs H; [reflexivity|].
  destruct cs as [|c cs]; [reflexivity|]. cbn [forallb] in H. apply andb_true_iff in H as [Hc H].
  change (bcells true (e :: ts) (c :: cs)) with (to_bcell true e c :: bcells true ts cs).
  rewrite bcells_cons, IH by exact H. f_equal.
  destruct c as [| v | content addr]; try reflexivity. cbn [to_bcell].
  apply N.leb_le in Hc. destruct (N.ltb_spec 20 (len content)); [lia | reflexivity].
Qed.

Lemma form_pattern types : forall cs fs,
  Forall2 form_ok (bcells false types cs) fs -> (length cs <= length types)%nat ->
  Forall2 (fun (f : field) (v : option sval) => f = None <-> v = None) fs (row_of cs).
Proof.
  induction types as [|e ts IH]; intros cs fs HF L.
  - destruct cs; [|cbn in L; lia]. inversion HF; subst. constructor.
  - destruct cs as [|c cs]; [inversion HF; subst; constructor|].
    rewrite bcells_cons in HF. inversion HF as [|x f l fs' Hf HF' E1 E2]; subst.
    cbn [row_of map]. constructor; [|apply IH; [exact HF' | cbn [length] in L; lia]].
    destruct c as [| v | content addr]; cbn [to_bcell form_ok cell_val andb] in *.
    + subst f. split; reflexivity.
    + subst f. split; discriminate.
    + destruct Hf as [-> | [-> _]]; split; discriminate.
Qed.

Lemma map_nth_seq {A} (l : list A) d : map (fun j => nth j l d) (seq 0 (length l)) = l.
Proof.
  induction l as [|x l IH]; [reflexivity|].
  cbn [length seq map nth]. f_equal. rewrite <- seq_shift, map_map. cbn [nth]. exact IH.
Qed.

Lemma fields_read_back (fs : list field) :
  fields_ok fs -> map (get_field (new_tuple fs)) (enum_N (length fs)) = fs.
Proof.
  intros H. unfold enum_N. rewrite map_map.
  rewrite (map_ext _ (fun j => nth j fs None)) by (intros j; apply tuple_roundtrip; exact H).
  apply map_nth_seq.
Qed.

Theorem oracle_on_model (i : input) :
  wf_input i = true -> f9_free i = true -> oracle i (model_obs i) = true.
Proof.
  unfold wf_input, f9_free. intros W F9.
  set (types := map fst (i_types i)) in *. set (tg := i_target i) in *.
  apply andb_true_iff in W as [W WLb]. apply andb_true_iff in W as [W WLa].
  apply andb_true_iff in W as [W WS]. apply andb_true_iff in W as [W WB].
  apply andb_true_iff in W as [W WA]. apply andb_true_iff in W as [WT WN].
  apply N.ltb_lt in WT. apply Nat.eqb_eq in WN.
  set (rd := lookup (store_of (i_a i ++ i_b i))).
  set (ca := bcells false types (i_a i)) in *. set (cb := bcells false types (i_b i)) in *.
  set (fa := build_fields tg ca) in *. set (fb := build_fields tg cb) in *.
  assert (FA : Forall2 form_ok ca fa) by (apply build_fields_form; [exact WT | apply bcells_given_inline]).
  assert (FB : Forall2 form_ok cb fb) by (apply build_fields_form; [exact WT | apply bcells_given_inline]).
  assert (RA : forall content addr, In (CAd content addr) (i_a i) -> rd addr = content).
  { intros content addr H. apply (lookup_store (i_a i ++ i_b i)); [exact WS | auto | |]; apply in_or_app; left; exact H. }
  assert (RB : forall content addr, In (CAd content addr) (i_b i) -> rd addr = content).
  { intros content addr H. apply (lookup_store (i_a i ++ i_b i)); [exact WS | auto | |]; apply in_or_app; right; exact H. }
  destruct (columns_represent rd types (i_a i) fa WA RA FA) as (NA & LA & PA & DA).
  destruct (columns_represent rd types (i_b i) fb WB RB FB) as (NB & LB & PB & DB).
  assert (OKA : fields_ok fa) by (split; assumption).
  assert (OKB : fields_ok fb) by (split; assumption).
  assert (CMP : forall L R (fl fr : list field) (rl rr : list cell),
            fields_ok fl -> fields_ok fr ->
            (forall j, represents rd (nth j types EInt8) (nth j fl None) (nth j (row_of rl) None)) ->
            (forall j, represents rd (nth j types EInt8) (nth j fr None) (nth j (row_of rr) None)) ->
            L = new_tuple fl -> R = new_tuple fr ->
            tuple_compare rd types L R = row_compare types (row_of rl) (row_of rr)).
  { intros L R fl fr rl rr Ol Or Pl Pr -> ->. unfold tuple_compare. change 0 with (N.of_nat 0).
    apply tuple_compare_from_spec. intros j _. cbn [Nat.add].
    rewrite !tuple_roundtrip by assumption. apply field_compare_represents; [apply Pl | apply Pr]. }
  unfold oracle, model_obs.
  cbn [o_a o_same o_a_out o_b o_count o_fields o_dec o_cmp o_cmp_ba o_cmp_nofast o_hist i_types i_target i_a i_b i_hist].
  fold types tg rd ca cb.
  change (build tg ca) with (new_tuple fa). change (build tg cb) with (new_tuple fb).
  repeat (apply andb_true_iff; split).
  - reflexivity.
  - apply beq_bytes_spec. apply orb_true_iff in F9 as [F | F].
    + apply N.ltb_lt in F. apply build_repr_independent_partial.
      * apply bcells_forget.
      * rewrite <- (inline_contrib_forget (bcells true types (i_a i))), bcells_forget, inline_contrib_forget. exact F.
    + unfold ca. rewrite (bcells_small_same types _ F). reflexivity.
  - rewrite tuple_count by exact OKA.
    destruct (trim_pattern fa (row_of (i_a i)) (form_pattern types _ _ FA (cells_ok_length _ _ WA))) as [E _].
    rewrite E. apply N.eqb_refl.
  - rewrite <- LA in WN. rewrite <- WN, fields_read_back by exact OKA. rewrite DA. apply osval_list_eqb_refl.
  - rewrite (CMP _ _ fa fb (i_a i) (i_b i)) by (try assumption; reflexivity). apply Z.eqb_refl.
  - rewrite (CMP _ _ fb fa (i_b i) (i_a i)) by (try assumption; reflexivity). apply Z.eqb_refl.
  - apply Z.eqb_refl.
  - destruct (list_eqb osval_eqb (trim_row (row_of (i_a i))) (trim_row (row_of (i_b i)))) eqn:E; [|reflexivity].
    cbn [negb orb]. apply beq_bytes_spec. apply osval_list_eqb_eq in E.
    rewrite <- !row_of_trim_cells in E.
    destruct (trim_cells_decomp (i_a i)) as [k1 E1]. destruct (trim_cells_decomp (i_b i)) as [k2 E2].
    assert (Eq0 : trim_cells (i_a i) = trim_cells (i_b i)).
    { apply (cells_inj (i_a i ++ i_b i) types); [exact WS | | | | | exact E].
      - intros c Hc. apply in_or_app. left. apply In_trim_cells. exact Hc.
      - intros c Hc. apply in_or_app. right. apply In_trim_cells. exact Hc.
      - apply (cells_ok_app types _ (repeat CNull k1)). rewrite <- E1. exact WA.
      - apply (cells_ok_app types _ (repeat CNull k2)). rewrite <- E2. exact WB. }
    change (new_tuple fa) with (build tg ca). change (new_tuple fb) with (build tg cb).
    assert (Ha : ca = bcells false types (trim_cells (i_a i)) ++ repeat BNull k1).
    { unfold ca. rewrite E1 at 1. apply bcells_app_nulls. rewrite <- E1. apply cells_ok_length. exact WA. }
    assert (Hb : cb = bcells false types (trim_cells (i_b i)) ++ repeat BNull k2).
    { unfold cb. rewrite E2 at 1. apply bcells_app_nulls. rewrite <- E2. apply cells_ok_length. exact WB. }
    rewrite Ha, Hb, !build_app_nulls, Eq0. reflexivity.
  - rewrite builder_history_canonical.
    + clear. induction (spec_outputs _ _ _ _) as [|x l IHl]; [reflexivity|]. cbn [list_eqb]. rewrite beq_bytes_refl, IHl. reflexivity.
    + apply forallb_forall. intros op Hop. apply in_map_iff in Hop as [h [<- _]]. destruct h; reflexivity.
Qed.


(* ================================================================== *)
(* Floats: the comparison on bit patterns is the order of the values    *)
(* value of a magnitude (sign bit cleared) with p fraction bits, scaled by
   2^(bias + p - 1) so that it is an integer: subnormals f, normals (2^p + f) * 2^(e-1);
   infinity (e = all ones, f = 0) lands above every finite value *)
Definition mag_value (p mag : N) : N :=
  let e := mag / 2 ^ p in
  let f := mag mod 2 ^ p in
  (if e =? 0 then f else 2 ^ p + f) * 2 ^ (N.max e 1 - 1).

Definition float_value (fbits ebits n : N) : Z :=
  let v := Z.of_N (mag_value (fbits - 1 - ebits) (n mod 2 ^ (fbits - 1))) in
  if n <? 2 ^ (fbits - 1) then v else (- v)%Z.

Lemma mag_value_mono p m1 m2 : m1 < m2 -> mag_value p m1 < mag_value p m2.
Proof.
  intros H. unfold mag_value.
  assert (HP : 0 < 2 ^ p) by (apply N.neq_0_lt_0, N.pow_nonzero; lia).
  set (P := 2 ^ p) in *.
  pose proof (N.div_mod m1 P ltac:(lia)) as D1. pose proof (N.div_mod m2 P ltac:(lia)) as D2.
  pose proof (N.mod_lt m1 P ltac:(lia)) as R1. pose proof (N.mod_lt m2 P ltac:(lia)) as R2.
  set (e1 := m1 / P) in *. set (f1 := m1 mod P) in *. set (e2 := m2 / P) in *. set (f2 := m2 mod P) in *.
  assert (He : e1 <= e2) by nia.
  destruct (N.eq_dec e1 e2) as [Ee | Ne].
  - rewrite <- Ee in *. assert (Hf : f1 < f2) by nia.
    assert (Hs : 0 < 2 ^ (N.max e1 1 - 1)) by (apply N.neq_0_lt_0, N.pow_nonzero; lia).
    destruct (e1 =? 0); apply N.mul_lt_mono_pos_r; try exact Hs; [exact Hf | apply N.add_lt_mono_l; exact Hf].
  - assert (Hlt : e1 < e2) by lia.
    assert (E2 : (e2 =? 0) = false) by (apply N.eqb_neq; lia). rewrite E2.
    replace (N.max e2 1 - 1) with (e2 - 1) by lia.
    assert (Hs2 : 1 <= 2 ^ (e2 - 1)) by (apply N.neq_0_lt_0 in HP; pose proof (N.pow_nonzero 2 (e2 - 1) ltac:(lia)); lia).
    destruct (N.eqb_spec e1 0) as [Z1 | Z1].
    + rewrite Z1. change (2 ^ (N.max 0 1 - 1)) with 1.
      set (X := 2 ^ (e2 - 1)) in *. clearbody X. nia.
    + replace (N.max e1 1 - 1) with (e1 - 1) by lia.
      assert (Hpow : 2 * 2 ^ (e1 - 1) <= 2 ^ (e2 - 1)).
      { replace (2 * 2 ^ (e1 - 1)) with (2 ^ e1).
        - apply N.pow_le_mono_r; lia.
        - replace e1 with (1 + (e1 - 1)) at 1 by lia. rewrite N.pow_add_r. reflexivity. }
      set (X := 2 ^ (e2 - 1)) in *. set (Y := 2 ^ (e1 - 1)) in *. clearbody X Y. nia.
Qed.

Lemma mono_compare (g : N -> N) :
  (forall x y, x < y -> g x < g y) -> forall x y, (g x ?= g y) = (x ?= y).
Proof.
  intros M x y. destruct (N.compare_spec x y) as [E | L | G].
  - subst. apply N.compare_refl.
  - apply N.compare_lt_iff. apply M. exact L.
  - apply N.compare_gt_iff. apply M. exact G.
Qed.

Lemma mag_value_0 p : mag_value p 0 = 0.
Proof.
  unfold mag_value. rewrite N.div_0_l, N.mod_0_l by (apply N.pow_nonzero; lia). reflexivity.
Qed.

(* for every pair of bit patterns neither of which is a NaN, the comparison
   the code makes (Go's == and < on the decoded floats, modelled on bit
   patterns) is the order of the numeric values; -0 and +0 are equal *)
Theorem float_compare_value (fbits ebits a b : N) :
  float_is_nan fbits ebits a = false -> float_is_nan fbits ebits b = false ->
  float_compare fbits ebits a b = (float_value fbits ebits a ?= float_value fbits ebits b)%Z.
Proof.
  intros Na Nb. unfold float_compare. rewrite Na, Nb. cbn [orb].
  unfold float_key, float_value. cbv zeta.
  set (p := fbits - 1 - ebits). set (ma := a mod 2 ^ (fbits - 1)). set (mb := b mod 2 ^ (fbits - 1)).
  pose proof (mono_compare (mag_value p) (mag_value_mono p)) as MC.
  pose proof (mag_value_0 p) as V0.
  assert (Hpos : forall m, 0 < m -> 0 < mag_value p m).
  { intros m Hm. rewrite <- V0. apply mag_value_mono. exact Hm. }
  destruct (a <? 2 ^ (fbits - 1)), (b <? 2 ^ (fbits - 1)).
  - rewrite !N2Z.inj_compare. symmetry. apply MC.
  - destruct (N.eq_dec ma 0) as [Ea | Ea], (N.eq_dec mb 0) as [Eb | Eb].
    + rewrite Ea, Eb, V0. reflexivity.
    + rewrite Ea, V0. pose proof (Hpos mb ltac:(lia)). transitivity Gt; [|symmetry]; apply Z.compare_gt_iff; lia.
    + rewrite Eb, V0. pose proof (Hpos ma ltac:(lia)). transitivity Gt; [|symmetry]; apply Z.compare_gt_iff; lia.
    + pose proof (Hpos ma ltac:(lia)). pose proof (Hpos mb ltac:(lia)). transitivity Gt; [|symmetry]; apply Z.compare_gt_iff; lia.
  - destruct (N.eq_dec ma 0) as [Ea | Ea], (N.eq_dec mb 0) as [Eb | Eb].
    + rewrite Ea, Eb, V0. reflexivity.
    + rewrite Ea, V0. pose proof (Hpos mb ltac:(lia)). transitivity Lt; [|symmetry]; apply Z.compare_lt_iff; lia.
    + rewrite Eb, V0. pose proof (Hpos ma ltac:(lia)). transitivity Lt; [|symmetry]; apply Z.compare_lt_iff; lia.
    + pose proof (Hpos ma ltac:(lia)). pose proof (Hpos mb ltac:(lia)). transitivity Lt; [|symmetry]; apply Z.compare_lt_iff; lia.
  - rewrite !Z.compare_opp, !N2Z.inj_compare. symmetry. apply MC.
Qed.

(* NaN as implemented: compareFloatNN answers 1 whenever either side is a NaN
   (l == r and l < r are both false) — not an order; SQL never stores NaN *)
Lemma float_compare_nan (fbits ebits a b : N) :
  float_is_nan fbits ebits a || float_is_nan fbits ebits b = true -> float_compare fbits ebits a b = Gt.
Proof. intros H. unfold float_compare. rewrite H. reflexivity. Qed.

Theorem cmp_enc_float32 (read : bytes -> bytes) (a b : N) :
  a < 2 ^ 32 -> b < 2 ^ 32 -> float_is_nan 32 8 a = false -> float_is_nan 32 8 b = false ->
  cmp_field read EFloat32 (encode EFloat32 (VN a)) (encode EFloat32 (VN b)) = (float_value 32 8 a ?= float_value 32 8 b)%Z.
Proof.
  intros Ha Hb Na Nb. rewrite cmp_enc by (apply N.ltb_lt; assumption).
  apply (float_compare_value 32 8); assumption.
Qed.

Theorem cmp_enc_float64 (read : bytes -> bytes) (a b : N) :
  a < 2 ^ 64 -> b < 2 ^ 64 -> float_is_nan 64 11 a = false -> float_is_nan 64 11 b = false ->
  cmp_field read EFloat64 (encode EFloat64 (VN a)) (encode EFloat64 (VN b)) = (float_value 64 11 a ?= float_value 64 11 b)%Z.
Proof.
  intros Ha Hb Na Nb. rewrite cmp_enc by (apply N.ltb_lt; assumption).
  apply (float_compare_value 64 11); assumption.
Qed.

(* sanity: 1.0 < 2.0, -1.0 < 1.0, -0.0 = +0.0, max finite < +Inf, subnormal < min normal *)
Example float_value_examples :
  (float_value 32 8 1065353216 ?= float_value 32 8 1073741824)%Z = Lt
  /\ (float_value 32 8 3212836864 ?= float_value 32 8 1065353216)%Z = Lt
  /\ (float_value 32 8 2147483648 ?= float_value 32 8 0)%Z = Eq
  /\ (float_value 32 8 2139095039 ?= float_value 32 8 2139095040)%Z = Lt
  /\ (float_value 32 8 8388607 ?= float_value 32 8 8388608)%Z = Lt.
Proof. vm_compute. repeat split. Qed.


(* ================================================================== *)
(* Decimals: the comparison is that of the exact values c * 10^e — it   *)
(* does not depend on the common power of ten both sides are scaled by  *)
Lemma dec_scaled_shift neg c e m m' :
  (m' <= m)%Z -> (m <= e)%Z -> dec_scaled neg c e m' = (dec_scaled neg c e m * 10 ^ (m - m'))%Z.
Proof.
  intros H1 H2. unfold dec_scaled.
  replace (e - m')%Z with ((e - m) + (m - m'))%Z by lia.
  rewrite Z.pow_add_r by lia. ring.
Qed.

Theorem decimal_compare_scale_invariant na ca ea nb cb eb m' :
  (m' <= Z.min ea eb)%Z ->
  (dec_scaled na ca ea m' ?= dec_scaled nb cb eb m')%Z = decimal_compare (DFin na ca ea) (DFin nb cb eb).
Proof.
  intros H. cbn [decimal_compare]. set (m := Z.min ea eb) in *.
  rewrite (dec_scaled_shift na ca ea m m'), (dec_scaled_shift nb cb eb m m') by (subst m; lia).
  symmetry. apply Zmult_compare_compat_r. apply Z.lt_gt. apply Z.pow_pos_nonneg; lia.
Qed.

(* non-vacuity of oracle_on_model's hypotheses *)
Example wf_input_example :
  let i := {| i_types := [(EInt32, false); (EString, true); (EStrAdaptive, true)]; i_target := 2048;
              i_a := [CVal (VZ 7%Z); CNull; CAd [104; 105] [1; 2; 3]];
              i_b := [CVal (VZ (-1)%Z); CVal (VB [120])];
              i_hist := [HPut 0 (VZ 1%Z); HPut 2 (VB [115]); HPrefix 1; HPut 0 (VZ 7%Z); HBuild] |} in
  wf_input i = true /\ f9_free i = true.
Proof. vm_compute. split; reflexivity. Qed.
