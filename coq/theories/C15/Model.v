(* C15 — model of dolt's field codecs, tuple layout, tuple builder and tuple
   comparison (go/store/val).  Bytes are N (< 256 in well-formed data), byte
   strings are [list N].  No proofs in this file. *)
From Coq Require Import NArith ZArith List Bool.
From Dolt Require Import Base.Str.
Import ListNotations.
Local Open Scope N_scope.

Definition len (b : bytes) : N := N.of_nat (length b).

(* ------------------------------------------------------------------ *)
(* 1. Fixed-width integers: encoding/binary.LittleEndian.PutUintNN /    *)
(*    UintNN (codec.go: writeUint16 … readUint64).                      *)
Fixpoint le_enc (w : nat) (n : N) : bytes :=
  match w with
  | O => []
  | S w' => (n mod 256) :: le_enc w' (n / 256)
  end.

Fixpoint le_dec (b : bytes) : N :=
  match b with
  | [] => 0
  | x :: r => x + 256 * le_dec r
  end.

(* big-endian, used by the decimal coefficient (big.Int FillBytes/SetBytes)
   and by the SQLite4 varint *)
Definition be_enc (w : nat) (n : N) : bytes := rev (le_enc w n).
Definition be_dec (b : bytes) : N := le_dec (rev b).

(* Go's conversions intNN(uintNN(x)) / uintNN(intNN(x)): two's complement on
   [bits] bits.  codec.go: writeInt32 = PutUint32(uint32(val)),
   readInt32 = int32(Uint32(val)). *)
Definition wrap (bits : N) (z : Z) : N := Z.to_N (z mod (2 ^ Z.of_N bits))%Z.
Definition unwrap (bits : N) (n : N) : Z :=
  if n <? 2 ^ (bits - 1) then Z.of_N n else (Z.of_N n - 2 ^ Z.of_N bits)%Z.

(* bytes.Compare *)
Fixpoint bytes_compare (a b : bytes) : comparison :=
  match a, b with
  | [], [] => Eq
  | [], _ :: _ => Lt
  | _ :: _, [] => Gt
  | x :: a', y :: b' =>
    match x ?= y with
    | Eq => bytes_compare a' b'
    | c => c
    end
  end.

(* ------------------------------------------------------------------ *)
(* 2. Encodings (codec.go: Encoding constants) and SQL-level values.    *)
Inductive enc :=
| EInt8 | EUint8 | EInt16 | EUint16 | EInt32 | EUint32 | EInt64 | EUint64
| EFloat32 | EFloat64 | EBit64 | EDecimal | EYear | EDate | ETime | EDatetime
| EEnum | ESet | EString | EBytes | EHash128 | EAddr | ECell
| EStrAdaptive | EBytesAdaptive.

(* apd.Decimal as stored: Form (NaN / Infinite / Finite), Negative, Coeff, Exponent *)
Inductive decimal :=
| DNaN
| DInf (neg : bool)
| DFin (neg : bool) (coeff : N) (exp : Z).

Inductive sval :=
| VZ (z : Z)                 (* signed integers, TIME (microseconds), DATETIME (Unix microseconds) *)
| VN (n : N)                 (* unsigned integers, bit64, enum, set, year, float bit patterns *)
| VB (b : bytes)             (* string, bytes, hash128, addresses, cell; content of an adaptive value *)
| VDate (y m d : N)          (* DATE as year / month / day; (0,0,0) is types.ZeroTime *)
| VDec (d : decimal).

Inductive kind :=
| KSigned (w : nat)          (* w bytes, two's complement little-endian *)
| KUnsigned (w : nat)
| KFloat (w : nat)           (* IEEE-754 bit pattern, little-endian *)
| KYear
| KDate
| KStr                       (* bytes followed by a NUL terminator *)
| KRaw (n : nat)             (* exactly n raw bytes *)
| KDecimal
| KAdaptive.

Definition kind_of (e : enc) : kind :=
  match e with
  | EInt8 => KSigned 1 | EInt16 => KSigned 2 | EInt32 => KSigned 4 | EInt64 => KSigned 8
  | EUint8 => KUnsigned 1 | EUint16 => KUnsigned 2 | EUint32 => KUnsigned 4 | EUint64 => KUnsigned 8
  | EFloat32 => KFloat 4 | EFloat64 => KFloat 8
  | EBit64 => KUnsigned 8 | EEnum => KUnsigned 2 | ESet => KUnsigned 8
  | ETime => KSigned 8 | EDatetime => KSigned 8
  | EYear => KYear | EDate => KDate | EDecimal => KDecimal
  | EString => KStr | EBytes => KStr
  | EHash128 => KRaw 16 | EAddr => KRaw 20 | ECell => KRaw 17
  | EStrAdaptive => KAdaptive | EBytesAdaptive => KAdaptive
  end.

Definition bits_of (w : nat) : N := 8 * N.of_nat w.

(* --- year: codec.go writeYear / readYear (minYear 1901, zeroToken 255) --- *)
Definition min_year : N := 1901.
Definition max_year : N := 2155.
Definition zero_token : N := 255.
Definition year_enc (y : N) : bytes := if y =? 0 then [zero_token] else [(y - min_year) mod 256].
Definition year_dec (b : bytes) : N :=
  let v := le_dec b in if v =? zero_token then 0 else v + min_year.

(* --- date: codec.go writeDate / readDate.  yearShift 16, monthShift 8.
   Shifts and masks as written in the Go code; Proofs.v shows they are the
   div/mod forms. --- *)
Definition date_pack (y m d : N) : N := (N.shiftl y 16 + N.shiftl m 8 + d) mod 2 ^ 32.
Definition date_year (t : N) : N := N.shiftr t 16.
Definition date_month (t : N) : N := N.shiftr (N.land t (N.shiftl 255 8)) 8.
Definition date_day (t : N) : N := N.land t 255.

(* --- decimal: codec.go writeDecimal / readDecimal / sizeOfDecimal.
   Tokens from go-mysql-server sql/types/decimal.go. --- *)
Definition decimal_nan_token : N := 49152.      (* 0xc000 *)
Definition decimal_posinf_token : N := 53248.   (* 0xd000 *)
Definition decimal_neginf_token : N := 61440.   (* 0xf000 *)
(* len(Coeff.Bits()) * 8: number of 64-bit words of the coefficient *)
Definition coeff_len (c : N) : nat := (8 * N.to_nat ((N.size c + 63) / 64))%nat.
Definition dec_sign (neg : bool) (c : N) : Z :=      (* apd.Decimal.Sign() *)
  if c =? 0 then 0%Z else if neg then (-1)%Z else 1%Z.
Definition decimal_enc (d : decimal) : bytes :=
  match d with
  | DNaN => le_enc 4 decimal_nan_token
  | DInf false => le_enc 4 decimal_posinf_token
  | DInf true => le_enc 4 decimal_neginf_token
  | DFin neg c e => le_enc 4 (wrap 32 e) ++ le_enc 1 (wrap 8 (dec_sign neg c)) ++ be_enc (coeff_len c) c
  end.
Definition decimal_dec (b : bytes) : option decimal :=
  if len b =? 4 then
    let v := unwrap 32 (le_dec b) in
    if (v =? Z.of_N decimal_nan_token)%Z then Some DNaN
    else if (v =? Z.of_N decimal_posinf_token)%Z then Some (DInf false)
    else if (v =? Z.of_N decimal_neginf_token)%Z then Some (DInf true)
    else None                                           (* Go: panic("unable to read decimal value") *)
  else
    let e := unwrap 32 (le_dec (firstn 4 b)) in
    let s := unwrap 8 (le_dec (firstn 1 (skipn 4 b))) in
    Some (DFin (s <? 0)%Z (be_dec (skipn 5 b)) e).

(* ------------------------------------------------------------------ *)
(* 2b. SQLite4 varint (github.com/mohae/uvarint PutUvarint / Uvarint), used *)
(*    by the out-of-band form of adaptive values (adaptive_value.go).   *)
Definition vi_enc (x : N) : bytes :=
  if x <? 241 then [x]
  else if x <? 2288 then [(x - 240) / 256 + 241; (x - 240) mod 256]
  else if x <? 67824 then [249; (x - 2288) / 256; (x - 2288) mod 256]
  else if x <? 2 ^ 24 then 250 :: be_enc 3 x
  else if x <? 2 ^ 32 then 251 :: be_enc 4 x
  else if x <? 2 ^ 40 then 252 :: be_enc 5 x
  else if x <? 2 ^ 48 then 253 :: be_enc 6 x
  else if x <? 2 ^ 56 then 254 :: be_enc 7 x
  else 255 :: be_enc 8 x.

(* returns (value, bytes used) *)
Definition vi_dec (b : bytes) : N * N :=
  match b with
  | [] => (0, 0)
  | a0 :: r =>
    if a0 <=? 240 then (a0, 1)
    else if a0 <=? 248 then (240 + 256 * (a0 - 241) + nth 0 r 0, 2)
    else if a0 =? 249 then (2288 + 256 * nth 0 r 0 + nth 1 r 0, 3)
    else let k := N.to_nat (a0 - 247) in (be_dec (firstn k r), N.of_nat k + 1)
  end.


(* --- encode one non-NULL value (TupleBuilder.PutXxx → writeXxx) --- *)
Definition encode (e : enc) (v : sval) : bytes :=
  match kind_of e, v with
  | KSigned w, VZ z => le_enc w (wrap (bits_of w) z)
  | KUnsigned w, VN n => le_enc w n
  | KFloat w, VN n => le_enc w n
  | KYear, VN y => year_enc y
  | KDate, VDate y m d => le_enc 4 (date_pack y m d)
  | KStr, VB b => b ++ [0]
  | KRaw _, VB b => b
  | KDecimal, VDec d => decimal_enc d
  | KAdaptive, VB b => 0 :: b              (* inline form; see the builder below *)
  | _, _ => []
  end.

(* [read] stands for ValueStore.ReadBytes (address -> content), the
   content-addressed store behind out-of-band adaptive values. *)
Section WithStore.
Variable read : bytes -> bytes.

(* AdaptiveValue.getUnderlyingBytes: first byte 0 = inline, else varint length + address *)
Definition ad_content (b : bytes) : bytes :=
  match b with
  | [] => []
  | h :: c => if h =? 0 then c else read (skipn (N.to_nat (snd (vi_dec b))) b)
  end.

(* --- decode (TupleDesc.GetXxx → readXxx) --- *)
Definition decode (e : enc) (b : bytes) : sval :=
  match kind_of e with
  | KSigned w => VZ (unwrap (bits_of w) (le_dec b))
  | KUnsigned w => VN (le_dec b)
  | KFloat w => VN (le_dec b)
  | KYear => VN (year_dec b)
  | KDate => let t := le_dec b in VDate (date_year t) (date_month t) (date_day t)
  | KStr => VB (removelast b)
  | KRaw _ => VB b
  | KDecimal => match decimal_dec b with Some d => VDec d | None => VB [] end
  | KAdaptive => VB (ad_content b)
  end.

(* --- comparison of decoded values (codec.go compareXxx) --- *)
(* floats: Go's == and < on the decoded float; on bit patterns: NaN is
   unordered (the code then answers 1), otherwise sign-magnitude order with
   -0 = +0.  [fbits] = total bits, [ebits] = exponent bits. *)
Definition float_is_nan (fbits ebits n : N) : bool :=
  let frac_bits := fbits - 1 - ebits in
  let mag := n mod 2 ^ (fbits - 1) in
  (2 ^ ebits - 1) * 2 ^ frac_bits <? mag.
Definition float_key (fbits : N) (n : N) : Z :=
  let mag := n mod 2 ^ (fbits - 1) in
  if n <? 2 ^ (fbits - 1) then Z.of_N mag else (- Z.of_N mag)%Z.
Definition float_compare (fbits ebits a b : N) : comparison :=
  if float_is_nan fbits ebits a || float_is_nan fbits ebits b then Gt
  else (float_key fbits a ?= float_key fbits b)%Z.

(* decimal: apd Cmp = numeric comparison of (-1)^neg * coeff * 10^exp;
   compareDecimal: NaN = NaN, NaN greater than everything else, equal-signed
   infinities equal. *)
Definition dec_scaled (neg : bool) (c : N) (e m : Z) : Z :=
  ((if neg then -1 else 1) * Z.of_N c * 10 ^ (e - m))%Z.
Definition decimal_compare (a b : decimal) : comparison :=
  match a, b with
  | DNaN, DNaN => Eq
  | DNaN, _ => Gt
  | _, DNaN => Lt
  | DInf na, DInf nb => if Bool.eqb na nb then Eq else if na then Lt else Gt
  | DInf na, DFin _ _ _ => if na then Lt else Gt
  | DFin _ _ _, DInf nb => if nb then Gt else Lt
  | DFin na ca ea, DFin nb cb eb =>
    let m := Z.min ea eb in (dec_scaled na ca ea m ?= dec_scaled nb cb eb m)%Z
  end.

Definition date_compare (a b : N * N * N) : comparison :=
  let '(y1, m1, d1) := a in let '(y2, m2, d2) := b in
  match y1 ?= y2 with
  | Eq => match m1 ?= m2 with Eq => d1 ?= d2 | c => c end
  | c => c
  end.

(* the SQL order of two values of encoding e *)
Definition val_compare (e : enc) (a b : sval) : comparison :=
  match kind_of e, a, b with
  | KSigned _, VZ x, VZ y => (x ?= y)%Z
  | KUnsigned _, VN x, VN y => x ?= y
  | KYear, VN x, VN y => x ?= y
  | KFloat w, VN x, VN y => float_compare (bits_of w) (if Nat.eqb w 4 then 8 else 11) x y
  | KDate, VDate y1 m1 d1, VDate y2 m2 d2 => date_compare (y1, m1, d1) (y2, m2, d2)
  | KStr, VB x, VB y => bytes_compare x y
  | KRaw _, VB x, VB y => bytes_compare x y
  | KAdaptive, VB x, VB y => bytes_compare x y
  | KDecimal, VDec x, VDec y => decimal_compare x y
  | _, _, _ => Eq
  end.

(* tuple_compare.go compare(): decode both sides, compare the decoded values *)
Definition cmp_field (e : enc) (l r : bytes) : comparison :=
  val_compare e (decode e l) (decode e r).

(* ------------------------------------------------------------------ *)
(* 3. Tuple layout (tuple.go).  A field is None (nil = NULL) or bytes.  *)
Definition field := option bytes.
Definition fbytes (f : field) : bytes := match f with None => [] | Some b => b end.

(* trimNullSuffix *)
Fixpoint trim_nulls (vs : list field) : list field :=
  match vs with
  | [] => []
  | v :: r =>
    match trim_nulls r, v with
    | [], None => []
    | t, _ => v :: t
    end
  end.

Definition le16 (n : N) : bytes := le_enc 2 n.     (* WriteUint16(uint16(x)) *)

(* start position of every field: the running [pos] of NewTuple *)
Fixpoint starts (pos : N) (vs : list field) : list N :=
  match vs with
  | [] => []
  | v :: r => pos :: starts (pos + len (fbytes v)) r
  end.

(* NewTuple: values, then offsets of fields 1..k-1, then the field count *)
Definition new_tuple (values : list field) : bytes :=
  let vs := trim_nulls values in
  concat (map fbytes vs) ++ concat (map le16 (tl (starts 0 vs))) ++ le16 (N.of_nat (length vs)).

(* Tuple.Count *)
Definition nth_byte (t : bytes) (i : N) : N := nth (N.to_nat i) t 0.
Definition rd16 (t : bytes) (pos : N) : N := nth_byte t pos + 256 * nth_byte t (pos + 1).
Definition tcount (t : bytes) : N := rd16 t (len t - 2).

Definition slice (t : bytes) (start stop : N) : bytes :=
  firstn (N.to_nat (stop - start)) (skipn (N.to_nat start) t).

(* Tuple.GetField (uint16 start/stop) *)
Definition get_field (t : bytes) (i : N) : field :=
  let cnt := tcount t in
  if cnt <=? i then None
  else
    let sz := len t in
    let split := sz - 2 * cnt in
    let stop := if i <? cnt - 1 then rd16 t (split + 2 * i) else split mod 65536 in
    let start := if 0 <? i then rd16 t (split + 2 * (i - 1)) else 0 in
    if start =? stop then None else Some (slice t start stop).

(* limits of tuple.go *)
Definition max_tuple_fields : N := 4096.
Definition max_tuple_data_size : N := 65535 - 2 - 20 - 8 - 1.

(* ------------------------------------------------------------------ *)
(* 4. Tuple comparison (tuple_compare.go DefaultTupleComparator.Compare, *)
(*    generic path through GetField; NULLs first).                      *)
Definition field_compare (e : enc) (l r : field) : comparison :=
  match l, r with
  | None, None => Eq
  | None, Some _ => Lt
  | Some _, None => Gt
  | Some a, Some b => cmp_field e a b
  end.

Fixpoint tuple_compare_from (i : N) (types : list enc) (l r : bytes) : comparison :=
  match types with
  | [] => Eq
  | e :: ts =>
    match field_compare e (get_field l i) (get_field r i) with
    | Eq => tuple_compare_from (i + 1) ts l r
    | c => c
    end
  end.
Definition tuple_compare (types : list enc) (l r : bytes) : comparison :=
  tuple_compare_from 0 types l r.
End WithStore.

(* ------------------------------------------------------------------ *)
(* 6. TupleBuilder with adaptive values (tuple_builder.go).             *)
(* What was put into the builder for one column. *)
Inductive bcell :=
| BNull
| BPlain (e : enc) (v : sval)                           (* PutInt32, PutString, … *)
| BAdaptive (outline : bool) (content addr : bytes).    (* PutAdaptive…FromInline / …FromOutline(len content, addr);
                                                           addr = content address of [content] in the value store *)

Definition ad_inline (content : bytes) : bytes := 0 :: content.
Definition ad_outline (content addr : bytes) : bytes := vi_enc (len content) ++ addr.

(* the bytes the builder holds for a column right after the Put call.
   PutAdaptiveFromInline stores out of band at once when len+1 > target. *)
Definition held (target : N) (c : bcell) : field :=
  match c with
  | BNull => None
  | BPlain e v => Some (encode e v)
  | BAdaptive false content addr =>
    if target <? len content + 1 then Some (ad_outline content addr) else Some (ad_inline content)
  | BAdaptive true content addr => Some (ad_outline content addr)
  end.

(* contribution to tb.inlineSize.  PutYear adds int16Size (2) for a 1-byte field. *)
Definition inline_contrib (c : bcell) : N :=
  match c with
  | BNull => 0
  | BPlain EYear _ => 2
  | BPlain e v => len (encode e v)
  | BAdaptive _ content _ => len content + 1
  end.

(* AdaptiveValue.inlineSize - outOfBandSize *)
Definition savings (c : bcell) : Z :=
  match c with
  | BAdaptive _ content addr => (Z.of_N (len content + 1) - Z.of_N (len (vi_enc (len content)) + 20))%Z
  | _ => 0%Z
  end.

(* candidates: adaptive, non-NULL, savings > 0, as (column index, savings);
   sort.SliceStable by savings descending = stable insertion sort (elements are
   inserted from the last to the first, each one before its equals) *)
Fixpoint candidates (i : N) (cs : list bcell) : list (N * Z) :=
  match cs with
  | [] => []
  | c :: r =>
    let rest := candidates (i + 1) r in
    match c with
    | BAdaptive _ _ _ => if (0 <? savings c)%Z then (i, savings c) :: rest else rest
    | _ => rest
    end
  end.
Fixpoint insert_desc (x : N * Z) (l : list (N * Z)) : list (N * Z) :=
  match l with
  | [] => [x]
  | y :: r => if (snd y <=? snd x)%Z then x :: l else y :: insert_desc x r
  end.
Definition sort_desc (l : list (N * Z)) : list (N * Z) := fold_right insert_desc [] l.

(* move the largest savers out of band until the total is within the target *)
Fixpoint pick_outline (total target : Z) (cands : list (N * Z)) : list N :=
  match cands with
  | [] => []
  | (i, s) :: r =>
    let total' := (total - s)%Z in
    if (total' <=? target)%Z then [i] else i :: pick_outline total' target r
  end.

Definition normalise_cell (out : bool) (c : bcell) : field :=
  match c with
  | BNull => None
  | BPlain e v => Some (encode e v)
  | BAdaptive _ content addr => Some (if out then ad_outline content addr else ad_inline content)
  end.

Fixpoint normalise (i : N) (outs : list N) (cs : list bcell) : list field :=
  match cs with
  | [] => []
  | c :: r => normalise_cell (existsb (N.eqb i) outs) c :: normalise (i + 1) outs r
  end.

Definition sum_N (l : list N) : N := fold_right N.add 0 l.

(* TupleBuilder.BuildPermissive *)
Definition build_fields (target : N) (cs : list bcell) : list field :=
  let total := sum_N (map inline_contrib cs) in
  if target <? total then
    normalise 0 (pick_outline (Z.of_N total) (Z.of_N target) (sort_desc (candidates 0 cs))) cs
  else map (held target) cs.

Definition build (target : N) (cs : list bcell) : bytes := new_tuple (build_fields target cs).

(* the logical row a list of cells stands for *)
Definition cell_value (c : bcell) : option sval :=
  match c with
  | BNull => None
  | BPlain _ v => Some v
  | BAdaptive _ content _ => Some (VB content)
  end.

(* ------------------------------------------------------------------ *)
(* 7. TupleBuilder histories (tuple_builder.go: Put*, Build,            *)
(*    BuildPermissive, BuildPrefix, BuildPrefixNoRecycle, Recycle).     *)
Inductive bop :=
| OPut (i : nat) (c : bcell)              (* any PutXxx on column i *)
| OBuild                                  (* Build / BuildPermissive: normalise, NewTuple(fields[:n]), Recycle *)
| OBuildPrefix (k : nat)                  (* NewTuple(fields[:k]), Recycle *)
| OBuildPrefixNoRecycle (k : nat)         (* NewTuple(fields[:k]) *)
| ORecycle.

Fixpoint set_slot (i : nat) (c : bcell) (s : list bcell) : list bcell :=
  match s, i with
  | [], _ => []
  | _ :: r, O => c :: r
  | x :: r, S i' => x :: set_slot i' c r
  end.

(* tb.fields (one slot per column, BNull = nil) and tb.inlineSize *)
Record bstate := { bs_slots : list bcell; bs_total : N }.

(* NewTupleBuilder / Recycle: every slot nil, counters 0 *)
Definition bs_init (n : nat) : bstate := {| bs_slots := repeat BNull n; bs_total := 0 |}.

(* BuildPermissive with the running size counter (every Put adds to it) *)
Definition build_fields_total (target total : N) (cs : list bcell) : list field :=
  if target <? total then
    normalise 0 (pick_outline (Z.of_N total) (Z.of_N target) (sort_desc (candidates 0 cs))) cs
  else map (held target) cs.

Definition bs_step (target : N) (n : nat) (st : bstate) (op : bop) : bstate * list bytes :=
  match op with
  | OPut i c => ({| bs_slots := set_slot i c (bs_slots st); bs_total := bs_total st + inline_contrib c |}, [])
  | OBuild => (bs_init n, [new_tuple (build_fields_total target (bs_total st) (bs_slots st))])
  | OBuildPrefix k => (bs_init n, [new_tuple (firstn k (map (held target) (bs_slots st)))])
  | OBuildPrefixNoRecycle k => (st, [new_tuple (firstn k (map (held target) (bs_slots st)))])
  | ORecycle => (bs_init n, [])
  end.

(* the tuples a builder produces along a history *)
Fixpoint bs_run (target : N) (n : nat) (st : bstate) (ops : list bop) : list bytes :=
  match ops with
  | [] => []
  | op :: r => let '(st', out) := bs_step target n st op in out ++ bs_run target n st' r
  end.
