(* C02 — Root commit is an atomic compare-and-swap and acknowledged commits persist.

   Executable model of go/store/nbs: NomsBlockStore.{Put,Rebase,Commit} over a
   directory store (fileManifest under the LOCK file).  No proofs here.

   Numbers: a chunk is identified by a positive id (N); the address of chunk k
   is the root value k; root value 0 is the empty hash (hash.Hash{}).

   Table files are content addressed (table_writer.go writeIndex/finish: the
   name is the SHA-512 of the address suffixes of the written chunks laid out
   in insertion order).  The model name of a table is therefore the list of
   chunk ids it was written with, in insertion order: two clients flushing the
   same chunks in the same order produce the SAME name, and the name determines
   the contents.

   Manifest lock (manifest.go generateLockHash(root, specs, appendix)): specs
   come from tableSet.toSpecs, which sorts by name, so the lock is a function
   of (root, SET of table names); SHA-512 collision-freeness makes it
   injective.  The model lock of a manifest IS the pair (root, set of names):
   lock equality = [lock_eqb] = equal roots and mutually included name lists.
   nbfVers and gcGen are constant in this model (GC / prune belong to C05),
   appendix specs are absent (local stores never have them). *)
From Coq Require Import NArith List Bool.
From Dolt Require Import Base.Str.
Import ListNotations.
Local Open Scope N_scope.

Definition chunk := N.
Definition root := N.
Definition tname := bytes.            (* list of chunk ids, insertion order *)

Record manifest := { m_root : root; m_specs : list tname }.

Definition mem_t (t : tname) (l : list tname) : bool := existsb (beq_bytes t) l.
Definition subset_t (a b : list tname) : bool := forallb (fun t => mem_t t b) a.

(* manifestContents.lock equality *)
Definition lock_eqb (a b : manifest) : bool :=
  (m_root a =? m_root b) && subset_t (m_specs a) (m_specs b) && subset_t (m_specs b) (m_specs a).

Definition in_table (x : chunk) (t : tname) : bool := existsb (N.eqb x) t.
Definition chunk_in (x : chunk) (ts : list tname) : bool := existsb (in_table x) ts.

(* fileManifest.Update / updateWithChecker (file_manifest.go:187,482) and
   ChunkJournal.Update (journal.go:406), as ONE atomic step under the lock:
   compare lastLock with the persisted lock; equal -> replace and return the
   new contents; different -> return the persisted contents unchanged.
   The checker (gcGen unchanged, checkNewSpecsPresent) never fires in this
   model: gcGen is constant and Proofs.v shows every named table is a file. *)
Definition manifest_update (disk last_lock new : manifest) : manifest * manifest :=
  if lock_eqb last_lock disk then (new, new) else (disk, disk).

(* NomsBlockStore client state: upstream manifestContents, tables.novel,
   whether tables.novel also holds an emptyChunkSource (a flush that wrote
   nothing still makes len(novel) > 0), the memtable (nil / insertion-ordered
   chunk ids), the in-flight Commit(current,last) if any, and — ghost — every
   chunk this client ever Put. *)
Record client := {
  c_up : manifest; c_novel : list tname; c_nempty : bool;
  c_mem : option (list chunk); c_pend : option (root * root); c_puts : list chunk }.

Record config := { g_disk : manifest; g_files : list tname; g_clients : list client }.

Definition empty_manifest : manifest := {| m_root := 0; m_specs := [] |}.
Definition new_client (m : manifest) : client :=
  {| c_up := m; c_novel := []; c_nempty := false; c_mem := None; c_pend := None; c_puts := [] |}.
(* n clients that opened an empty directory (newNomsBlockStore: upstream = {}, rebase finds no manifest) *)
Definition init (n : nat) : config :=
  {| g_disk := empty_manifest; g_files := []; g_clients := repeat (new_client empty_manifest) n |}.

Definition c_tables (cl : client) : list tname := c_novel cl ++ m_specs (c_up cl).

(* tableSet.toSpecs (table_set.go:568): novel tables not already upstream, then upstream *)
Definition specs_of (cl : client) : list tname :=
  filter (fun t => negb (mem_t t (m_specs (c_up cl)))) (c_novel cl) ++ m_specs (c_up cl).

(* tableSet.append -> fsTablePersister.Persist -> memTable.write(haver = the
   client's tableSet): chunks the client's tables already have are omitted;
   nothing left -> emptyChunkSource in novel, no file.  The memtable becomes nil. *)
Definition flush (cl : client) (files : list tname) : client * list tname :=
  match c_mem cl with
  | None => (cl, files)
  | Some [] => (cl, files)                       (* memtable.count() == 0: not flushed *)
  | Some l =>
    let w := filter (fun x => negb (chunk_in x (c_tables cl))) l in
    match w with
    | [] => ({| c_up := c_up cl; c_novel := c_novel cl; c_nempty := true; c_mem := None;
                c_pend := c_pend cl; c_puts := c_puts cl |}, files)
    | _ => ({| c_up := c_up cl; c_novel := w :: c_novel cl; c_nempty := c_nempty cl; c_mem := None;
               c_pend := c_pend cl; c_puts := c_puts cl |}, w :: files)
    end
  end.

Definition set_mem (cl : client) (m : option (list chunk)) (puts : list chunk) : client :=
  {| c_up := c_up cl; c_novel := c_novel cl; c_nempty := c_nempty cl; c_mem := m;
     c_pend := c_pend cl; c_puts := puts |}.

(* NomsBlockStore.addChunk (store.go:1034) + memTable.addChunk: chunkExists,
   chunkAdded while fewer than [cap] chunks are buffered (all chunks of the
   harness have the same byte length L and memTableSize = cap*L), otherwise
   flush and start a new memtable. cap = 0 is rejected by the real code
   (memTable.write on zero chunks); the generator never produces it. *)
Definition put (cap : N) (x : chunk) (cl : client) (files : list tname) : client * list tname :=
  let puts := x :: c_puts cl in
  match c_mem cl with
  | None => (set_mem cl (Some [x]) puts, files)
  | Some l =>
    if existsb (N.eqb x) l then (set_mem cl (Some l) puts, files)
    else if N.of_nat (length l) <? cap then (set_mem cl (Some (l ++ [x])) puts, files)
    else let '(cl1, files1) := flush cl files in (set_mem cl1 (Some [x]) puts, files1)
  end.

(* tableSet.rebase (keeps novel, drops empty sources, upstream := specs) + nbs.upstream = contents *)
Definition rebase_to (m : manifest) (cl : client) : client :=
  {| c_up := m; c_novel := c_novel cl; c_nempty := false; c_mem := c_mem cl;
     c_pend := c_pend cl; c_puts := c_puts cl |}.

(* NomsBlockStore.rebase (store.go:1524) *)
Definition rebase (disk : manifest) (cl : client) : client :=
  if lock_eqb disk (c_up cl) then cl else rebase_to disk cl.

Definition set_pend (cl : client) (p : option (root * root)) : client :=
  {| c_up := c_up cl; c_novel := c_novel cl; c_nempty := c_nempty cl; c_mem := c_mem cl;
     c_pend := p; c_puts := c_puts cl |}.

Definition any_novel (cl : client) : bool :=
  match c_mem cl with Some _ => true | None => false end
  || match c_novel cl with [] => false | _ => true end || c_nempty cl.

Inductive result := RNone | RBlocked | ROk | RFalse | RDangling | RPending.

(* NomsBlockStore.commit (store.go:1570), the part before the loop:
   no memtable, no novel tables and current == last => rebase, return true. *)
Definition commit_begin (disk : manifest) (cur last : root) (cl : client) : client * result :=
  if negb (any_novel cl) && (cur =? last) then (rebase disk cl, ROk)
  else (set_pend cl (Some (cur, last)), RPending).

Definition installed (cl : client) (new : manifest) : client :=
  {| c_up := new; c_novel := []; c_nempty := false; c_mem := c_mem cl; c_pend := None; c_puts := c_puts cl |}.

(* What one call of updateManifest tries to install. *)
Definition intended (cur : root) (cl : client) (files : list tname) : manifest :=
  {| m_root := cur; m_specs := specs_of (fst (flush cl files)) |}.

(* One call of NomsBlockStore.updateManifest (store.go:1615) for the pending
   Commit — one iteration of the loop in commit.  It is one atomic step of the
   model: everything before manifest.Update reads only the client's own state
   and writes content-addressed table files nobody reads before they are
   named by a manifest; manifest.Update is atomic under the LOCK file; what
   follows is local.  errorIfDangling's hasCache is not modelled: the set of
   chunks a client can see never shrinks here, so a cached answer is the
   computed one.  Conjoin (startConjoinIfRequired) needs > 256 tables. *)
Definition commit_try (disk : manifest) (files : list tname) (cl : client)
  : manifest * list tname * client * result :=
  match c_pend cl with
  | None => (disk, files, cl, RNone)
  | Some (cur, last) =>
    if negb (m_root (c_up cl) =? last) then (disk, files, set_pend cl None, RFalse)   (* errLastRootMismatch *)
    else
      let '(cl1, files1) := flush cl files in
      if negb (cur =? 0) && negb (chunk_in cur (c_tables cl1))
      then (disk, files1, set_pend cl1 None, RDangling)                              (* errorIfDangling *)
      else
        let new := {| m_root := cur; m_specs := specs_of cl1 |} in
        let '(disk', ret) := manifest_update disk (c_up cl1) new in
        if lock_eqb new ret then (disk', files1, installed cl1 new, ROk)             (* newContents.lock == upstream.lock *)
        else
          let cl2 := rebase_to ret cl1 in                                            (* handleOptimisticLockFailure *)
          if negb (last =? m_root ret) then (disk', files1, set_pend cl2 None, RFalse) (* root moved *)
          else (disk', files1, cl2, RPending)                                        (* tables changed: retry *)
  end.

Inductive step :=
| SPut (x : chunk)                 (* Put *)
| SRebase                          (* Rebase *)
| SCommit (cur last : root)        (* Commit(current,last) up to the loop *)
| STry.                            (* one updateManifest call of the pending Commit *)

Fixpoint upd (i : nat) (c : client) (l : list client) : list client :=
  match l, i with
  | [], _ => []
  | _ :: t, O => c :: t
  | h :: t, S j => h :: upd j c t
  end.

Definition get (i : nat) (s : config) : option client := nth_error (g_clients s) i.

Definition is_try (st : step) : bool := match st with STry => true | _ => false end.

(* One step of client i. A client inside Commit holds nbs.mu: its other API
   calls cannot start (RBlocked, no change). *)
Definition step_cfg (cap : N) (s : config) (i : nat) (st : step) : config * result :=
  match get i s with
  | None => (s, RNone)
  | Some cl =>
    match c_pend cl, is_try st with
    | Some _, false => (s, RBlocked)
    | _, _ =>
      match st with
      | SPut x =>
        let '(cl', files') := put cap x cl (g_files s) in
        ({| g_disk := g_disk s; g_files := files'; g_clients := upd i cl' (g_clients s) |}, ROk)
      | SRebase =>
        ({| g_disk := g_disk s; g_files := g_files s; g_clients := upd i (rebase (g_disk s) cl) (g_clients s) |}, ROk)
      | SCommit cur last =>
        let '(cl', r) := commit_begin (g_disk s) cur last cl in
        ({| g_disk := g_disk s; g_files := g_files s; g_clients := upd i cl' (g_clients s) |}, r)
      | STry =>
        let '(d, f, cl', r) := commit_try (g_disk s) (g_files s) cl in
        ({| g_disk := d; g_files := f; g_clients := upd i cl' (g_clients s) |}, r)
      end
    end
  end.

Record event := { e_actor : nat; e_step : step; e_res : result; e_before : config; e_after : config }.

Definition sched := list (nat * step).

Fixpoint trace (cap : N) (s : config) (sc : sched) : list event :=
  match sc with
  | [] => []
  | (i, st) :: rest =>
    let '(s', r) := step_cfg cap s i st in
    {| e_actor := i; e_step := st; e_res := r; e_before := s; e_after := s' |} :: trace cap s' rest
  end.

Fixpoint final (cap : N) (s : config) (sc : sched) : config :=
  match sc with
  | [] => s
  | (i, st) :: rest => final cap (fst (step_cfg cap s i st)) rest
  end.

(* A fresh open (newLocalStore: read the persisted manifest, open the tables it names). *)
Definition fresh_root (s : config) : root := m_root (g_disk s).
Definition fresh_has (s : config) (x : chunk) : bool :=
  existsb (fun t => mem_t t (g_files s) && in_table x t) (m_specs (g_disk s)).
Definition fresh_opens (s : config) : bool := subset_t (m_specs (g_disk s)) (g_files s).

(* ====================================================================== *)
(* Journaling store (NewLocalJournalingStore): the SAME NomsBlockStore
   commit / updateManifest code over ChunkJournal as persister and manifest.
   The store holds the exclusive LOCK for its whole lifetime (newJournalLock):
   there is exactly one writer; a second handle opens read-only and every
   Persist / Update of it answers errReadOnlyManifest.

   ChunkJournal.Persist appends the memtable's chunks (those the client's
   tables do not have) to the journal and returns the journalChunkSource,
   whose name is the constant journalAddr and which shows EVERY chunk of the
   journal.  ChunkJournal.Update (journal.go:406): gcGen must be unchanged
   (constant here), j.contents.lock <> lastLock -> return j.contents; else, if
   the spec set changed, flushToBackingManifest; commitRootHash(next.root)
   (appends the root record, flushes and syncs the journal); j.contents = next.
   The lock is (root, journal-table-named?). The backing manifest file lags
   (it is trued-up on Close / bootstrap) and is not part of this model: the
   persisted root of a journaling store is the journal's last root record. *)
Record jstate := {
  j_root : root; j_spec : bool;          (* j.contents: root, "specs name the journal" *)
  j_wr : bool;                           (* journal file / writer exists *)
  j_chunks : list chunk;                 (* chunk records of the journal *)
  j_up : root * bool;                    (* the writer's nbs.upstream (root, names journal) *)
  j_novel : bool;                        (* tables.novel holds the journalChunkSource *)
  j_mem : option (list chunk);
  j_puts : list chunk }.                 (* ghost: chunks Put since the store was opened *)

Definition jinit : jstate :=
  {| j_root := 0; j_spec := false; j_wr := false; j_chunks := []; j_up := (0, false);
     j_novel := false; j_mem := None; j_puts := [] |}.

Definition mem_n (x : N) (l : list N) : bool := existsb (N.eqb x) l.
Definition jtables_have (s : jstate) (x : chunk) : bool := (j_novel s || snd (j_up s)) && mem_n x (j_chunks s).

Inductive jstep :=
| JPut (x : chunk) | JRebase | JCommit (cur last : root)
| JReopen                (* graceful Close, then NewLocalJournalingStore again *)
| JProbe.                (* a second handle while the writer is open *)

(* results: RNone here = "manifest.Update found a foreign lock", impossible with one writer (Proofs.j_never_stale) *)
Definition jflush (s : jstate) : jstate :=
  match j_mem s with
  | None | Some [] => s
  | Some l =>
    let w := filter (fun x => negb (jtables_have s x)) l in
    {| j_root := j_root s; j_spec := j_spec s; j_wr := true; j_chunks := j_chunks s ++ w; j_up := j_up s;
       j_novel := true; j_mem := None; j_puts := j_puts s |}
  end.

Definition jput (x : chunk) (s : jstate) : jstate :=
  let m := match j_mem s with
           | None => [x]
           | Some l => if mem_n x l then l else l ++ [x]
           end in
  {| j_root := j_root s; j_spec := j_spec s; j_wr := j_wr s; j_chunks := j_chunks s; j_up := j_up s;
     j_novel := j_novel s; j_mem := Some m; j_puts := x :: j_puts s |}.

Definition jset_up (s : jstate) (u : root * bool) (novel : bool) : jstate :=
  {| j_root := j_root s; j_spec := j_spec s; j_wr := j_wr s; j_chunks := j_chunks s; j_up := u;
     j_novel := novel; j_mem := j_mem s; j_puts := j_puts s |}.

Definition lockb (a b : root * bool) : bool := (fst a =? fst b) && Bool.eqb (snd a) (snd b).

Definition jany_novel (s : jstate) : bool :=
  match j_mem s with Some _ => true | None => false end || j_novel s.

(* Commit(cur,last) as one step (nobody else can act on a journaling store) *)
Definition jcommit (cur last : root) (s : jstate) : jstate * result :=
  if negb (jany_novel s) && (cur =? last) then (jset_up s (j_root s, j_spec s) (j_novel s), ROk)    (* shortcut: rebase, true *)
  else if negb (fst (j_up s) =? last) then (s, RFalse)
  else
    let s1 := jflush s in
    if negb (cur =? 0) && negb (jtables_have s1 cur) then (s1, RDangling)
    else
      let new := (cur, j_novel s1 || snd (j_up s1)) in
      if negb (lockb (j_root s1, j_spec s1) (j_up s1)) then (s1, RNone)
      else ({| j_root := cur; j_spec := snd new; j_wr := j_wr s1; j_chunks := j_chunks s1; j_up := new;
               j_novel := false; j_mem := j_mem s1; j_puts := j_puts s1 |}, ROk).

(* Close (flushes the journal; flushToBackingManifest(j.contents) fails with
   "Lock hash cannot be empty" when the journal exists but nothing was ever
   committed) and reopen: the memtable is gone, the journal's chunks and last
   root record are what the new writer starts from. *)
Definition jreopen (s : jstate) : jstate * result :=
  ({| j_root := j_root s; j_spec := j_spec s; j_wr := j_wr s; j_chunks := j_chunks s;
      j_up := (j_root s, j_spec s); j_novel := false; j_mem := None; j_puts := [] |},
   if j_wr s && negb (j_spec s) then RDangling (* stands for "close error" in this position *) else ROk).

Definition jstep_fn (s : jstate) (st : jstep) : jstate * result :=
  match st with
  | JPut x => (jput x s, ROk)
  | JRebase => (jset_up s (j_root s, j_spec s) (j_novel s), ROk)
  | JCommit cur last => jcommit cur last s
  | JReopen => jreopen s
  | JProbe => (s, RBlocked)            (* read-only handle: its Commit answers errReadOnlyManifest, nothing changes *)
  end.

Fixpoint jfinal (s : jstate) (sc : list jstep) : jstate :=
  match sc with [] => s | st :: rest => jfinal (fst (jstep_fn s st)) rest end.

Record jevent := { je_step : jstep; je_res : result; je_before : jstate; je_after : jstate }.
Fixpoint jtrace (s : jstate) (sc : list jstep) : list jevent :=
  match sc with
  | [] => []
  | st :: rest => let '(s', r) := jstep_fn s st in
                  {| je_step := st; je_res := r; je_before := s; je_after := s' |} :: jtrace s' rest
  end.

(* what a fresh journaling open sees *)
Definition jfresh_has (s : jstate) (x : chunk) : bool := j_spec s && mem_n x (j_chunks s).
