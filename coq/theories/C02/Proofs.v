(* C02 — proofs: invariants over all schedules, the compare-and-swap theorems,
   the refutation witnesses of the full CAS statement, non-vacuity examples. *)
From Coq Require Import NArith List Bool Lia.
From Dolt Require Import Base.Str C02.Model C02.Spec C02.Corr.
Import ListNotations.
Local Open Scope N_scope.

(* ------------------------------------------------------------------ *)
(* 1. Sets of table names, locks.                                       *)
Lemma mem_t_In t l : mem_t t l = true <-> In t l.
Proof.
  unfold mem_t. rewrite existsb_exists. split.
  - intros [u [Hu E]]. apply beq_bytes_spec in E. subst. exact Hu.
  - intros H. exists t. split; [exact H | apply beq_bytes_refl].
Qed.

Lemma subset_t_incl a b : subset_t a b = true <-> incl a b.
Proof.
  unfold subset_t. rewrite forallb_forall. unfold incl.
  split; intros H x Hx; apply mem_t_In; apply H; exact Hx.
Qed.

Lemma lock_eqb_spec a b :
  lock_eqb a b = true <->
  m_root a = m_root b /\ incl (m_specs a) (m_specs b) /\ incl (m_specs b) (m_specs a).
Proof.
  unfold lock_eqb. rewrite !andb_true_iff, N.eqb_eq, !subset_t_incl. tauto.
Qed.

Lemma lock_eqb_refl a : lock_eqb a a = true.
Proof. apply lock_eqb_spec. repeat split; apply incl_refl. Qed.

Lemma in_table_In x t : in_table x t = true <-> In x t.
Proof.
  unfold in_table. rewrite existsb_exists. split.
  - intros [y [Hy E]]. apply N.eqb_eq in E. subst. exact Hy.
  - intros H. exists x. split; [exact H | apply N.eqb_refl].
Qed.

Lemma chunk_in_spec x ts : chunk_in x ts = true <-> exists t, In t ts /\ In x t.
Proof.
  unfold chunk_in. rewrite existsb_exists. split.
  - intros [t [Ht E]]. exists t. split; [exact Ht | apply in_table_In; exact E].
  - intros [t [Ht E]]. exists t. split; [exact Ht | apply in_table_In; exact E].
Qed.

Lemma chunk_in_incl x a b : incl a b -> chunk_in x a = true -> chunk_in x b = true.
Proof.
  intros I H. apply chunk_in_spec in H. destruct H as [t [Ht Hx]].
  apply chunk_in_spec. exists t. split; [apply I; exact Ht | exact Hx].
Qed.

Lemma specs_of_In t cl : In t (specs_of cl) <-> In t (c_tables cl).
Proof.
  unfold specs_of, c_tables. rewrite !in_app_iff, filter_In. split.
  - intros [[H _] | H]; auto.
  - intros [H | H]; [| auto].
    destruct (mem_t t (m_specs (c_up cl))) eqn:E.
    + right. apply mem_t_In. exact E.
    + left. split; [exact H | reflexivity].
Qed.

Lemma specs_of_incl cl : incl (c_tables cl) (specs_of cl).
Proof. intros t H. apply specs_of_In. exact H. Qed.
Lemma specs_of_incl' cl : incl (specs_of cl) (c_tables cl).
Proof. intros t H. apply specs_of_In. exact H. Qed.

(* ------------------------------------------------------------------ *)
(* 2. Client invariant.                                                 *)
Definition vis (cl : client) (x : chunk) : Prop :=
  (exists l, c_mem cl = Some l /\ In x l) \/ chunk_in x (c_tables cl) = true.

(* novel tables are files; the client's upstream names only persisted tables;
   every chunk the client Put is in its memtable or in one of its tables *)
Definition CI (d : manifest) (f : list tname) (cl : client) : Prop :=
  incl (c_novel cl) f /\ incl (m_specs (c_up cl)) (m_specs d)
  /\ forall x, In x (c_puts cl) -> vis cl x.

Lemma CI_mono d f d' f' cl :
  incl f f' -> incl (m_specs d) (m_specs d') -> CI d f cl -> CI d' f' cl.
Proof.
  intros If Id [A [B C]]. repeat split.
  - eapply incl_tran; eauto.
  - eapply incl_tran; eauto.
  - exact C.
Qed.

Lemma flush_spec cl f cl1 f1 : flush cl f = (cl1, f1) ->
  c_up cl1 = c_up cl /\ c_pend cl1 = c_pend cl /\ c_puts cl1 = c_puts cl
  /\ incl f f1 /\ (incl (c_novel cl) f -> incl (c_novel cl1) f1)
  /\ (forall x, vis cl x -> chunk_in x (c_tables cl1) = true).
Proof.
  unfold flush. destruct (c_mem cl) as [[|a l]|] eqn:M.
  - intros E. inversion E; subst; clear E. repeat split; auto using incl_refl.
    intros x [[l [Hl Hx]] | H]; [| exact H].
    rewrite M in Hl. inversion Hl; subst. contradiction.
  - destruct (filter (fun x => negb (chunk_in x (c_tables cl))) (a :: l)) as [|w0 w] eqn:W;
      intros E; inversion E; subst; clear E; unfold c_tables; cbn [c_up c_pend c_puts c_novel].
    + repeat split; auto using incl_refl.
      intros x [[l' [Hl Hx]] | H]; [| exact H].
      rewrite M in Hl. inversion Hl; subst l'.
      destruct (chunk_in x (c_novel cl ++ m_specs (c_up cl))) eqn:C; [reflexivity |].
      assert (Hf : In x (filter (fun x => negb (chunk_in x (c_tables cl))) (a :: l))).
      { apply filter_In. split; [exact Hx |]. unfold c_tables. rewrite C. reflexivity. }
      rewrite W in Hf. contradiction.
    + repeat split.
      * apply incl_tl, incl_refl.
      * intros I t [Ht | Ht]; [left; exact Ht | right; apply I; exact Ht].
      * intros x Hv.
        assert (Hc : chunk_in x (c_novel cl ++ m_specs (c_up cl)) = true \/ In x (w0 :: w)).
        { destruct Hv as [[l' [Hl Hx]] | H]; [| left; exact H].
          rewrite M in Hl. inversion Hl; subst l'.
          destruct (chunk_in x (c_novel cl ++ m_specs (c_up cl))) eqn:C; [left; reflexivity |].
          right. rewrite <- W. apply filter_In. split; [exact Hx |]. unfold c_tables. rewrite C. reflexivity. }
        apply chunk_in_spec. destruct Hc as [Hc | Hc].
        -- apply chunk_in_spec in Hc. destruct Hc as [t [Ht Hx]]. exists t. split; [right; exact Ht | exact Hx].
        -- exists (w0 :: w). split; [left; reflexivity | exact Hc].
  - intros E. inversion E; subst; clear E. repeat split; auto using incl_refl.
    intros x [[l [Hl Hx]] | H]; [| exact H].
    rewrite M in Hl. discriminate.
Qed.

Lemma flush_CI d f cl cl1 f1 : flush cl f = (cl1, f1) -> CI d f cl ->
  CI d f1 cl1 /\ incl f f1 /\ forall x, In x (c_puts cl1) -> chunk_in x (c_tables cl1) = true.
Proof.
  intros F [A [B C]]. destruct (flush_spec _ _ _ _ F) as [U [_ [Pu [If [In' V]]]]].
  assert (T : forall x, In x (c_puts cl1) -> chunk_in x (c_tables cl1) = true).
  { intros x Hx. apply V, C. rewrite <- Pu. exact Hx. }
  repeat split.
  - apply In'. exact A.
  - rewrite U. exact B.
  - intros x Hx. right. apply T. exact Hx.
  - exact If.
  - exact T.
Qed.

Lemma put_CI cap x d f cl cl' f' : put cap x cl f = (cl', f') -> CI d f cl ->
  CI d f' cl' /\ incl f f' /\ c_pend cl' = c_pend cl.
Proof.
  unfold put. intros E [A [B C]]. destruct (c_mem cl) as [l|] eqn:M.
  - destruct (existsb (N.eqb x) l) eqn:Ex.
    + inversion E; subst; clear E. repeat split; auto using incl_refl.
      cbn [c_puts set_mem]. intros y [Hy | Hy].
      * subst y. left. exists l. split; [reflexivity |].
        apply existsb_exists in Ex. destruct Ex as [z [Hz Ez]]. apply N.eqb_eq in Ez. subst. exact Hz.
      * destruct (C y Hy) as [[l' [Hl Hin]] | H].
        -- left. exists l. split; [reflexivity |]. rewrite M in Hl. inversion Hl; subst. exact Hin.
        -- right. exact H.
    + destruct (N.of_nat (length l) <? cap).
      * inversion E; subst; clear E. repeat split; auto using incl_refl.
        cbn [c_puts set_mem]. intros y [Hy | Hy].
        -- subst y. left. exists (l ++ [x]). split; [reflexivity | apply in_or_app; right; left; reflexivity].
        -- destruct (C y Hy) as [[l' [Hl Hin]] | H].
           ++ left. exists (l ++ [x]). split; [reflexivity |]. rewrite M in Hl. inversion Hl; subst.
              apply in_or_app. left. exact Hin.
           ++ right. exact H.
      * destruct (flush cl f) as [cl1 f1] eqn:F. inversion E; subst; clear E.
        assert (CIcl : CI d f cl) by (repeat split; assumption).
        destruct (flush_CI _ _ _ _ _ F CIcl) as [[A1 [B1 _]] [If T]].
        destruct (flush_spec _ _ _ _ F) as [_ [Pe [Pu _]]].
        repeat split; auto.
        cbn [c_puts set_mem]. intros y [Hy | Hy].
        -- subst y. left. exists [x]. split; [reflexivity | left; reflexivity].
        -- right. apply T. rewrite Pu. exact Hy.
  - inversion E; subst; clear E. repeat split; auto using incl_refl.
    cbn [c_puts set_mem]. intros y [Hy | Hy].
    + subst y. left. exists [x]. split; [reflexivity | left; reflexivity].
    + destruct (C y Hy) as [[l' [Hl Hin]] | H]; [rewrite M in Hl; discriminate | right; exact H].
Qed.

Lemma rebase_to_CI d f cl : CI d f cl -> CI d f (rebase_to d cl).
Proof.
  intros [A [B C]]. repeat split; cbn [rebase_to c_novel c_up c_puts]; auto using incl_refl.
  intros x Hx. destruct (C x Hx) as [H | H]; [left; exact H | right].
  revert H. apply chunk_in_incl. unfold c_tables. cbn [c_novel c_up].
  apply incl_app; [apply incl_appl, incl_refl | apply incl_appr; exact B].
Qed.

Lemma rebase_CI d f cl : CI d f cl -> CI d f (rebase d cl).
Proof. intros H. unfold rebase. destruct (lock_eqb d (c_up cl)); [exact H | apply rebase_to_CI; exact H]. Qed.

Lemma set_pend_CI d f cl p : CI d f cl -> CI d f (set_pend cl p).
Proof. intros H. exact H. Qed.

(* ------------------------------------------------------------------ *)
(* 3. Case analysis of one updateManifest call.                         *)
Definition new_of (cur : root) (cl1 : client) : manifest := {| m_root := cur; m_specs := specs_of cl1 |}.

Lemma commit_try_inv d f cl d' f' cl' r : commit_try d f cl = (d', f', cl', r) ->
  (c_pend cl = None /\ d' = d /\ f' = f /\ cl' = cl /\ r = RNone)
  \/ exists cur last, c_pend cl = Some (cur, last) /\
     ((m_root (c_up cl) <> last /\ d' = d /\ f' = f /\ cl' = set_pend cl None /\ r = RFalse)
      \/ exists cl1, flush cl f = (cl1, f') /\ m_root (c_up cl) = last /\
         ((d' = d /\ cl' = set_pend cl1 None /\ r = RDangling)
          \/ (lock_eqb (c_up cl1) d = true /\ d' = new_of cur cl1 /\ cl' = installed cl1 (new_of cur cl1) /\ r = ROk)
          \/ (lock_eqb (c_up cl1) d = false /\ lock_eqb (new_of cur cl1) d = true /\ d' = d
              /\ cl' = installed cl1 (new_of cur cl1) /\ r = ROk)
          \/ (lock_eqb (c_up cl1) d = false /\ lock_eqb (new_of cur cl1) d = false /\ d' = d
              /\ ((cl' = set_pend (rebase_to d cl1) None /\ r = RFalse)
                  \/ (cl' = rebase_to d cl1 /\ r = RPending /\ last = m_root d))))).
Proof.
  unfold commit_try. destruct (c_pend cl) as [[cur last]|] eqn:P.
  2:{ intros E. inversion E; subst. left. auto. }
  intros E. right. exists cur, last. split; [reflexivity |].
  destruct (m_root (c_up cl) =? last) eqn:R; cbn [negb] in E.
  2:{ inversion E; subst. left. apply N.eqb_neq in R. auto. }
  apply N.eqb_eq in R. right.
  destruct (flush cl f) as [cl1 f1] eqn:F.
  destruct (negb (cur =? 0) && negb (chunk_in cur (c_tables cl1))) eqn:Dg.
  { inversion E; subst. exists cl1. split; [reflexivity |]. split; [reflexivity |]. left. auto. }
  unfold manifest_update in E. fold (new_of cur cl1) in E.
  destruct (lock_eqb (c_up cl1) d) eqn:L.
  - rewrite lock_eqb_refl in E. inversion E; subst. exists cl1. split; [reflexivity |]. split; [reflexivity |].
    right. left. auto.
  - destruct (lock_eqb (new_of cur cl1) d) eqn:L2.
    + inversion E; subst. exists cl1. split; [reflexivity |]. split; [reflexivity |]. right. right. left. auto.
    + destruct (last =? m_root d) eqn:R2; cbn [negb] in E; inversion E; subst;
        exists cl1; (split; [reflexivity |]); (split; [reflexivity |]); right; right; right.
      * apply N.eqb_eq in R2. repeat split; auto.
      * repeat split; auto.
Qed.

Lemma commit_try_CI d f cl d' f' cl' r :
  commit_try d f cl = (d', f', cl', r) -> incl (m_specs d) f -> CI d f cl ->
  CI d' f' cl' /\ incl f f' /\ incl (m_specs d) (m_specs d') /\ incl (m_specs d') f'.
Proof.
  intros E Id C. apply commit_try_inv in E.
  destruct E as [[_ [-> [-> [-> _]]]] | [cur [last [P E]]]].
  { repeat split; auto using incl_refl; apply C. }
  destruct E as [[_ [-> [-> [-> _]]]] | [cl1 [F [_ E]]]].
  { repeat split; auto using incl_refl; apply C. }
  destruct (flush_CI _ _ _ _ _ F C) as [C1 [If T]].
  destruct (flush_spec _ _ _ _ F) as [U _].
  assert (Id' : incl (m_specs d) f') by (eapply incl_tran; eauto).
  destruct E as [[-> [-> _]] | [[L [-> [-> _]]] | [[L [L2 [-> [-> _]]]] | [L [L2 [-> E]]]]]].
  - repeat split; auto using incl_refl; apply C1.
  - (* swap *)
    apply lock_eqb_spec in L. destruct L as [_ [Lud Ldu]].
    destruct C1 as [A1 [B1 _]].
    assert (Inew : incl (m_specs (new_of cur cl1)) f').
    { cbn [new_of m_specs]. eapply incl_tran; [apply specs_of_incl' |].
      unfold c_tables. apply incl_app; [exact A1 | eapply incl_tran; eauto]. }
    split; [split; [| split] | split; [| split]].
    + cbn [installed c_novel]. intros t [].
    + cbn [installed c_up]. apply incl_refl.
    + cbn [installed c_puts]. intros x Hx. right. unfold c_tables. cbn [installed c_novel c_up app new_of m_specs].
      eapply chunk_in_incl; [apply specs_of_incl | apply T; exact Hx].
    + exact If.
    + cbn [new_of m_specs]. eapply incl_tran; [exact Ldu |].
      eapply incl_tran; [| apply specs_of_incl]. unfold c_tables. apply incl_appr, incl_refl.
    + exact Inew.
  - (* idempotent success *)
    apply lock_eqb_spec in L2. destruct L2 as [_ [Lnd _]].
    split; [| split; [exact If | split; [apply incl_refl | exact Id']]].
    split; [| split].
    + cbn [installed c_novel]. intros t [].
    + cbn [installed c_up]. exact Lnd.
    + cbn [installed c_puts]. intros x Hx. right. unfold c_tables. cbn [installed c_novel c_up app new_of m_specs].
      eapply chunk_in_incl; [apply specs_of_incl | apply T; exact Hx].
  - destruct E as [[-> _] | [-> _]]; repeat split; auto using incl_refl; apply (rebase_to_CI _ _ _ C1).
Qed.

(* ------------------------------------------------------------------ *)
(* 4. One step of a configuration.                                      *)
Definition mk (d : manifest) (f : list tname) (cs : list client) : config :=
  {| g_disk := d; g_files := f; g_clients := cs |}.

Lemma step_inv cap s i st s' r : step_cfg cap s i st = (s', r) ->
  (s' = s /\ (r = RNone \/ r = RBlocked)) \/
  exists cl, get i s = Some cl /\
    ((exists x cl' f', st = SPut x /\ put cap x cl (g_files s) = (cl', f')
        /\ s' = mk (g_disk s) f' (upd i cl' (g_clients s)) /\ r = ROk)
     \/ (st = SRebase /\ s' = mk (g_disk s) (g_files s) (upd i (rebase (g_disk s) cl) (g_clients s)) /\ r = ROk)
     \/ (exists cur last cl', st = SCommit cur last /\ commit_begin (g_disk s) cur last cl = (cl', r)
        /\ s' = mk (g_disk s) (g_files s) (upd i cl' (g_clients s)))
     \/ (exists d f cl', st = STry /\ commit_try (g_disk s) (g_files s) cl = (d, f, cl', r)
        /\ s' = mk d f (upd i cl' (g_clients s)))).
Proof.
  unfold step_cfg. destruct (get i s) as [cl|] eqn:G.
  2:{ intros E. inversion E; subst. left. auto. }
  intros E.
  assert (Body :
    match st with
      | SPut x =>
        let '(cl', files') := put cap x cl (g_files s) in
        ({| g_disk := g_disk s; g_files := files'; g_clients := upd i cl' (g_clients s) |}, ROk)
      | SRebase =>
        ({| g_disk := g_disk s; g_files := g_files s; g_clients := upd i (rebase (g_disk s) cl) (g_clients s) |}, ROk)
      | SCommit cur last =>
        let '(cl', r) := commit_begin (g_disk s) cur last cl in
        ({| g_disk := g_disk s; g_files := g_files s; g_clients := upd i cl' (g_clients s) |}, r)
      | STry =>
        let '(d, f, cl', r) := commit_try (g_disk s) (g_files s) cl in
        ({| g_disk := d; g_files := f; g_clients := upd i cl' (g_clients s) |}, r)
      end = (s', r) \/ (s' = s /\ r = RBlocked)).
  { destruct (c_pend cl); [destruct (is_try st) |]; auto. inversion E; subst. right. auto. }
  clear E. destruct Body as [E | [-> ->]]; [| left; auto].
  right. exists cl. split; [reflexivity |].
  destruct st as [x | | cur last |].
  - destruct (put cap x cl (g_files s)) as [cl' f'] eqn:Pt. inversion E; subst.
    left. exists x, cl', f'. auto.
  - inversion E; subst. right. left. auto.
  - destruct (commit_begin (g_disk s) cur last cl) as [cl' r0] eqn:Cb. inversion E; subst.
    right. right. left. exists cur, last, cl'. auto.
  - destruct (commit_try (g_disk s) (g_files s) cl) as [[[d f] cl'] r0] eqn:Ct. inversion E; subst.
    right. right. right. exists d, f, cl'. auto.
Qed.

Lemma Forall_upd (P : client -> Prop) i c l : Forall P l -> P c -> Forall P (upd i c l).
Proof.
  intros H Hc. revert i. induction H as [|h t Hh Ht IH]; intros i; destruct i; cbn [upd];
    constructor; auto.
Qed.

Lemma get_Forall (P : client -> Prop) i s cl : get i s = Some cl -> Forall P (g_clients s) -> P cl.
Proof.
  unfold get. intros G F. rewrite Forall_forall in F. apply F. eapply nth_error_In. exact G.
Qed.

(* The invariant of reachable configurations. *)
Definition Inv (s : config) : Prop :=
  incl (m_specs (g_disk s)) (g_files s) /\ Forall (CI (g_disk s) (g_files s)) (g_clients s).

Lemma Inv_init n : Inv (init n).
Proof.
  split; [intros t [] |]. cbn [init g_clients g_disk g_files].
  apply Forall_forall. intros cl H. apply repeat_spec in H. subst cl.
  repeat split; intros t [].
Qed.

Lemma Forall_CI_mono d f d' f' l :
  incl f f' -> incl (m_specs d) (m_specs d') -> Forall (CI d f) l -> Forall (CI d' f') l.
Proof. intros A B. apply Forall_impl. intros cl. apply CI_mono; assumption. Qed.

(* every step keeps the invariant, never removes a file, never un-names a table *)
Lemma step_Inv cap s i st s' r : step_cfg cap s i st = (s', r) -> Inv s ->
  Inv s' /\ incl (g_files s) (g_files s') /\ incl (m_specs (g_disk s)) (m_specs (g_disk s')).
Proof.
  intros E [I1 I2]. apply step_inv in E.
  destruct E as [[-> _] | [cl [G E]]].
  { repeat split; auto using incl_refl. }
  pose proof (get_Forall _ _ _ _ G I2) as Ccl.
  destruct E as [[x [cl' [f' [_ [Pt [-> _]]]]]] | [[_ [-> _]] | [[cur [last [cl' [_ [Cb ->]]]]] | [d [f [cl' [_ [Ct ->]]]]]]]];
    unfold mk; cbn [g_disk g_files g_clients].
  - destruct (put_CI _ _ _ _ _ _ _ Pt Ccl) as [C' [If _]].
    repeat split; auto using incl_refl.
    + eapply incl_tran; eauto.
    + apply Forall_upd; [| exact C']. exact (Forall_CI_mono _ _ _ _ _ If (incl_refl _) I2).
  - repeat split; auto using incl_refl. apply Forall_upd; [exact I2 | apply rebase_CI; exact Ccl].
  - repeat split; auto using incl_refl. apply Forall_upd; [exact I2 |].
    unfold commit_begin in Cb.
    destruct (negb (any_novel cl) && (cur =? last)); inversion Cb; subst;
      [apply rebase_CI; exact Ccl | exact Ccl].
  - destruct (commit_try_CI _ _ _ _ _ _ _ Ct I1 Ccl) as [C' [If [Id If']]].
    repeat split; auto.
    apply Forall_upd; [| exact C']. exact (Forall_CI_mono _ _ _ _ _ If Id I2).
Qed.

Lemma final_Inv cap sc : forall s, Inv s ->
  Inv (final cap s sc) /\ incl (g_files s) (g_files (final cap s sc))
  /\ incl (m_specs (g_disk s)) (m_specs (g_disk (final cap s sc))).
Proof.
  induction sc as [| [i st] rest IH]; intros s I; cbn [final].
  - repeat split; auto using incl_refl; apply I.
  - destruct (step_cfg cap s i st) as [s' r] eqn:E. cbn [fst].
    destruct (step_Inv _ _ _ _ _ _ E I) as [I' [A B]].
    destruct (IH s' I') as [I'' [A' B']].
    repeat split; try apply I''; eapply incl_tran; eauto.
Qed.

(* every event of a trace is a step taken from an invariant-satisfying configuration *)
Lemma trace_event cap sc : forall s ev, Inv s -> In ev (trace cap s sc) ->
  Inv (e_before ev) /\ step_cfg cap (e_before ev) (e_actor ev) (e_step ev) = (e_after ev, e_res ev).
Proof.
  induction sc as [| [i st] rest IH]; intros s ev I H; cbn [trace] in H.
  - contradiction.
  - destruct (step_cfg cap s i st) as [s' r] eqn:E. destruct H as [H | H].
    + subst ev. cbn [e_before e_actor e_step e_after e_res]. split; [exact I | exact E].
    + apply (IH s'); [| exact H]. apply (step_Inv _ _ _ _ _ _ E I).
Qed.

(* ------------------------------------------------------------------ *)
(* 5. The persisted manifest changes only by a compare-and-swap.        *)
Lemma flush_up cl f : c_up (fst (flush cl f)) = c_up cl.
Proof. destruct (flush cl f) as [cl1 f1] eqn:F. apply (flush_spec _ _ _ _ F). Qed.

Definition mk_event i st r s s' : event :=
  {| e_actor := i; e_step := st; e_res := r; e_before := s; e_after := s' |}.

(* STATE-INDEPENDENT: whatever the configuration, a step either leaves the
   persisted manifest alone or is the swap of a successful Commit whose [last]
   is the persisted root. *)
Lemma step_disk cap s i st s' r : step_cfg cap s i st = (s', r) ->
  (swapped (mk_event i st r s s') = false /\ g_disk s' = g_disk s)
  \/ (swapped (mk_event i st r s s') = true /\ exists cur last cl,
        get i s = Some cl /\ c_pend cl = Some (cur, last) /\ st = STry /\ r = ROk
        /\ lock_eqb (c_up cl) (g_disk s) = true
        /\ m_root (g_disk s) = last /\ g_disk s' = intended cur cl (g_files s)).
Proof.
  intros E. pose proof E as E0. apply step_inv in E.
  unfold swapped, commit_ok, actor_client. cbn [mk_event e_res e_step e_actor e_before].
  destruct E as [[-> [-> | ->]] | [cl [G E]]].
  { left. split; reflexivity. }
  { left. split; reflexivity. }
  rewrite G.
  destruct E as [[x [cl' [f' [-> [_ [-> ->]]]]]] | [[-> [-> ->]] | [[cur [last [cl' [-> [_ ->]]]]] | [d [f [cl' [-> [Ct ->]]]]]]]];
    unfold mk; cbn [g_disk is_try is_commit_step].
  - left. split; [rewrite andb_false_r; reflexivity | reflexivity].
  - left. split; [rewrite andb_false_r; reflexivity | reflexivity].
  - left. split; [rewrite andb_false_r; reflexivity | reflexivity].
  - apply commit_try_inv in Ct.
    destruct Ct as [[_ [-> [_ [_ ->]]]] | [cur [last [P Ct]]]].
    { left. split; reflexivity. }
    destruct Ct as [[_ [-> [_ [_ ->]]]] | [cl1 [F [Rt Ct]]]].
    { left. split; reflexivity. }
    assert (U : c_up cl1 = c_up cl) by (apply (flush_spec _ _ _ _ F)).
    destruct Ct as [[-> [_ ->]] | [[L [-> [_ ->]]] | [[L [L2 [-> [_ ->]]]] | [L [L2 [-> Ct]]]]]].
    + left. split; reflexivity.
    + right. rewrite U in L. split; [cbn; exact L |].
      exists cur, last, cl. repeat split; auto.
      * apply lock_eqb_spec in L. destruct L as [Lr _]. rewrite <- Lr. exact Rt.
      * unfold intended, new_of. rewrite F. reflexivity.
    + left. rewrite U in L. rewrite L. split; [cbn; reflexivity | reflexivity].
    + left. destruct Ct as [[_ ->] | [_ [-> _]]]; split; reflexivity.
Qed.

(* "A failed commit changes nothing" — in full, for every event that is not a
   successful Commit (failed Commit, pending retry, Put, Rebase, blocked). *)
Theorem failure_changes_nothing cap n sc ev :
  In ev (trace cap (init n) sc) -> commit_ok ev = false -> g_disk (e_after ev) = g_disk (e_before ev).
Proof.
  intros H Nok. destruct (trace_event cap sc _ _ (Inv_init n) H) as [_ E].
  destruct (step_disk _ _ _ _ _ _ E) as [[_ D] | [Sw _]]; [exact D |].
  destruct ev as [i st r s s']. cbn [e_before e_after e_actor e_step e_res] in *.
  unfold swapped, mk_event in Sw. cbn [e_res e_step] in Sw. unfold commit_ok in *.
  cbn [e_res e_step] in *. rewrite Nok in Sw. discriminate.
Qed.

(* ------------------------------------------------------------------ *)
(* 6. commit_is_cas: the strongest true version.                        *)
Lemma puts_persist s cl : Inv s ->
  (forall x, In x (c_puts cl) -> chunk_in x (m_specs (g_disk s)) = true) ->
  persisted_chunks s (c_puts cl).
Proof.
  intros [I1 _] H. split.
  - unfold fresh_opens. apply subset_t_incl. exact I1.
  - intros x Hx. specialize (H x Hx). apply chunk_in_spec in H. destruct H as [t [Ht Hxt]].
    unfold fresh_has. apply existsb_exists. exists t. split; [exact Ht |].
    apply andb_true_iff. split; [apply mem_t_In, I1; exact Ht | apply in_table_In; exact Hxt].
Qed.

Lemma step_success cap s i st s' r : Inv s -> step_cfg cap s i st = (s', r) ->
  commit_ok (mk_event i st r s s') = true ->
  exists cur last, commit_args (mk_event i st r s s') = Some (cur, last)
    /\ success_kind (mk_event i st r s s') cur last
    /\ persisted_chunks s' (puts_of (mk_event i st r s s')).
Proof.
  intros I E Ok. pose proof (step_Inv _ _ _ _ _ _ E I) as [I' _].
  pose proof E as E0. apply step_inv in E.
  unfold commit_ok, commit_args, puts_of, actor_client in *. cbn [mk_event e_res e_step e_actor e_before] in *.
  destruct E as [[-> [-> | ->]] | [cl [G E]]]; try discriminate.
  rewrite G. destruct I as [I1 I2]. pose proof (get_Forall _ _ _ _ G I2) as Ccl.
  destruct E as [[x [cl' [f' [-> _]]]] | [[-> _] | [[cur [last [cl' [-> [Cb ->]]]]] | [d [f [cl' [-> [Ct ->]]]]]]]];
    try (rewrite andb_false_r in Ok; discriminate).
  - (* SCommit: only the shortcut answers true *)
    unfold commit_begin in Cb. destruct (negb (any_novel cl) && (cur =? last)) eqn:Sh.
    2:{ inversion Cb; subst. discriminate. }
    inversion Cb; subst cl' r. apply andb_true_iff in Sh. destruct Sh as [Nv Eq].
    apply N.eqb_eq in Eq. apply negb_true_iff in Nv.
    exists cur, last. split; [reflexivity |]. split.
    + eapply KNoop; unfold actor_client; cbn [mk_event e_step e_actor e_before e_after]; eauto.
    + apply puts_persist; [exact I' |]. unfold mk. cbn [g_disk].
      intros x Hx. destruct Ccl as [_ [B C]]. destruct (C x Hx) as [[l [Hl _]] | H].
      * unfold any_novel in Nv. rewrite Hl in Nv. discriminate.
      * unfold any_novel in Nv. destruct (c_mem cl); [discriminate |].
        destruct (c_novel cl) eqn:Nov; [| discriminate].
        unfold c_tables in H. rewrite Nov in H. cbn [app] in H. eapply chunk_in_incl; eauto.
  - (* STry *)
    apply commit_try_inv in Ct.
    destruct Ct as [[_ [_ [_ [_ ->]]]] | [cur [last [P Ct]]]]; [discriminate |].
    destruct Ct as [[_ [_ [_ [_ ->]]]] | [cl1 [F [Rt Ct]]]]; [discriminate |].
    destruct (flush_CI _ _ _ _ _ F Ccl) as [_ [_ T]].
    destruct (flush_spec _ _ _ _ F) as [U [_ [Pu _]]].
    assert (Int : intended cur cl (g_files s) = new_of cur cl1) by (unfold intended, new_of; rewrite F; reflexivity).
    assert (Tn : forall x, In x (c_puts cl) -> chunk_in x (m_specs (new_of cur cl1)) = true).
    { intros x Hx. cbn [new_of m_specs]. eapply chunk_in_incl; [apply specs_of_incl | apply T; rewrite Pu; exact Hx]. }
    destruct Ct as [[_ [_ ->]] | [[L [-> [_ ->]]] | [[L [L2 [-> [_ ->]]]] | [_ [_ [_ Ct]]]]]].
    + discriminate.
    + exists cur, last. split; [exact P |]. rewrite U in L. split.
      * eapply KSwap; unfold actor_client, disk_root; cbn [mk_event e_step e_actor e_before e_after mk g_disk g_files]; eauto.
        apply lock_eqb_spec in L. destruct L as [Lr _]. rewrite <- Lr. exact Rt.
      * apply puts_persist; [exact I' |]. unfold mk. cbn [g_disk]. exact Tn.
    + exists cur, last. split; [exact P |]. rewrite U in L. split.
      * eapply KIdem; unfold actor_client; cbn [mk_event e_step e_actor e_before e_after mk g_disk g_files]; eauto.
        rewrite Int. exact L2.
      * apply puts_persist; [exact I' |]. unfold mk. cbn [g_disk].
        intros x Hx. apply lock_eqb_spec in L2. destruct L2 as [_ [Lnd _]].
        eapply chunk_in_incl; [exact Lnd | apply Tn; exact Hx].
    + destruct Ct as [[_ ->] | [_ [-> _]]]; discriminate.
Qed.

(* commit_is_cas, strongest true version.  Every Commit that returns true is
   one of: (KSwap) the compare-and-swap proper — persisted root = last at that
   step and the step installs (cur, every table of the client); (KIdem) no
   swap, and the persisted manifest at that step already is exactly the
   manifest being installed (same root cur, same table set); (KNoop) the
   shortcut: cur = last, the client has nothing novel, nothing is written.  In
   all three every chunk the client had Put is in a table named by the
   persisted manifest and present as a file.  Every other event leaves the
   persisted manifest unchanged. *)
Theorem commit_is_cas_partial cap n sc ev : In ev (trace cap (init n) sc) ->
  (commit_ok ev = true ->
     exists cur last, commit_args ev = Some (cur, last) /\ success_kind ev cur last
       /\ persisted_chunks (e_after ev) (puts_of ev))
  /\ (commit_ok ev = false -> g_disk (e_after ev) = g_disk (e_before ev)).
Proof.
  intros H. split; [| apply (failure_changes_nothing cap n sc ev H)].
  destruct (trace_event cap sc _ _ (Inv_init n) H) as [I E].
  destruct ev as [i st r s s']. cbn [e_before e_after e_actor e_step e_res] in *.
  apply (step_success cap s i st s' r I E).
Qed.

(* KSwap and KIdem install / find root cur; KSwap sees root last. *)
Lemma success_kind_root ev cur last : success_kind ev cur last ->
  (e_step ev = STry -> disk_root (e_after ev) = cur)
  /\ (swapped ev = true -> disk_root (e_before ev) = last).
Proof.
  intros K. destruct K as [cl St A P L R D | cl St A P L D L2 | cl St Eq A Nv D].
  - split; [intros _; unfold disk_root; rewrite D; reflexivity | intros _; exact R].
  - split.
    + intros _. unfold disk_root. rewrite D. apply lock_eqb_spec in L2. destruct L2 as [Lr _].
      rewrite <- Lr. reflexivity.
    + unfold swapped. rewrite A, L, andb_false_r. discriminate.
  - split; [rewrite St; discriminate |]. unfold swapped. rewrite St. cbn [is_try].
    rewrite andb_false_r. discriminate.
Qed.

(* ------------------------------------------------------------------ *)
(* 7. The full statement is false of the faithful model.                *)

(* Witness 1 (idempotent double success): clients 0 and 1 opened the empty
   store; both Put chunk 1 and call Commit(current = 1, last = 0).  Client 0
   swaps.  Client 1's manifest.Update finds another lock and returns client 0's
   contents, whose lock EQUALS the lock of what client 1 wanted to write, so
   updateManifest reports success: Commit = true although the persisted root
   was 1 <> last = 0 at that step and client 1 swapped nothing. *)
Definition witness_double : sched :=
  [(0%nat, SPut 1); (1%nat, SPut 1);
   (0%nat, SCommit 1 0); (0%nat, STry);
   (1%nat, SCommit 1 0); (1%nat, STry)].

(* Witness 2 (shortcut ignores last): client 0 commits root 1; client 1, which
   still sees root 0 and has nothing novel, calls Commit(5,5): true. *)
Definition witness_noop : sched :=
  [(0%nat, SPut 1); (0%nat, SCommit 1 0); (0%nat, STry); (1%nat, SCommit 5 5)].

Theorem commit_is_cas_refuted :
  exists sc, existsb cas_viol_b (trace 4 (init 2) sc) = true.
Proof. exists witness_double. vm_compute. reflexivity. Qed.

Theorem commit_is_cas_refuted_noop :
  exists sc, existsb cas_viol_b (trace 4 (init 2) sc) = true.
Proof. exists witness_noop. vm_compute. reflexivity. Qed.

Lemma cas_viol_b_sound ev : cas_viol_b ev = true -> ~ cas_success ev /\ commit_ok ev = true.
Proof.
  unfold cas_viol_b. intros H. apply andb_true_iff in H. destruct H as [Ok V]. split; [| exact Ok].
  intros [cur [last [A [R _]]]]. rewrite A in V. apply negb_true_iff, N.eqb_neq in V. contradiction.
Qed.

Theorem commit_is_cas_statement_false : ~ commit_is_cas_statement 4 2.
Proof.
  intros S. destruct commit_is_cas_refuted as [sc H].
  apply existsb_exists in H. destruct H as [ev [Hin V]].
  apply cas_viol_b_sound in V. destruct V as [N Ok].
  destruct (S sc ev Hin) as [S1 _]. exact (N (S1 Ok)).
Qed.

(* ------------------------------------------------------------------ *)
(* 8. root_history_linear.                                              *)

(* From ANY configuration: the swaps of a schedule, in order, are a chain
   leading from the initial persisted root to the final one; so every change
   of the persisted root is a successful Commit whose last is the previous
   persisted root (step_disk says non-swap events change nothing). *)
Theorem root_history_linear cap sc : forall s,
  linked (disk_root s) (swaps (trace cap s sc)) (disk_root (final cap s sc)).
Proof.
  induction sc as [| [i st] rest IH]; intros s; cbn [trace final swaps flat_map linked].
  - reflexivity.
  - destruct (step_cfg cap s i st) as [s' r] eqn:E. cbn [fst flat_map].
    fold (swaps (trace cap s' rest)). fold (mk_event i st r s s').
    destruct (step_disk _ _ _ _ _ _ E) as [[Sw D] | [Sw [cur [last [cl [G [P [-> [-> [L [R D]]]]]]]]]]].
    + unfold swap_of. rewrite Sw. cbn [app]. unfold disk_root at 1. rewrite <- D. apply IH.
    + unfold swap_of. rewrite Sw. unfold commit_args, actor_client. cbn [mk_event e_step e_actor e_before].
      rewrite G, P. cbn [app linked]. split; [symmetry; exact R |].
      replace cur with (disk_root s'); [apply IH |]. unfold disk_root. rewrite D. reflexivity.
Qed.

Theorem root_changes_are_swaps cap n sc ev : In ev (trace cap (init n) sc) ->
  disk_root (e_after ev) <> disk_root (e_before ev) ->
  exists cur last, commit_ok ev = true /\ commit_args ev = Some (cur, last)
    /\ disk_root (e_before ev) = last /\ disk_root (e_after ev) = cur.
Proof.
  intros H Ch. destruct (trace_event cap sc _ _ (Inv_init n) H) as [_ E].
  destruct ev as [i st r s s']. cbn [e_before e_after e_actor e_step e_res] in *.
  destruct (step_disk _ _ _ _ _ _ E) as [[_ D] | [Sw [cur [last [cl [G [P [-> [-> [L [R D]]]]]]]]]]].
  - unfold disk_root in Ch. rewrite D in Ch. contradiction.
  - exists cur, last. unfold commit_ok, commit_args, actor_client, disk_root.
    cbn [e_res e_step e_actor e_before e_after]. rewrite G, D. repeat split; auto.
Qed.

(* ------------------------------------------------------------------ *)
(* 9. ack_persist.                                                      *)

(* After a Commit of client i answered true in a reachable configuration,
   whatever anybody does afterwards (sc2), a fresh open of the directory
   (a) opens (every named table is a file), (b) has every chunk client i had
   Put before that Commit, and (c) if the success came through the manifest
   (STry: KSwap or KIdem), sees root cur or a root linked to cur by the chain
   of later swaps.  Table files are never deleted in this model: GC and prune
   are C05's.  For the shortcut (KNoop) (c) is false when last is stale — that
   is witness_noop. *)
Theorem ack_persist cap n sc1 i st sc2 s2 r :
  step_cfg cap (final cap (init n) sc1) i st = (s2, r) ->
  commit_ok (mk_event i st r (final cap (init n) sc1) s2) = true ->
  let ev := mk_event i st r (final cap (init n) sc1) s2 in
  let s3 := final cap s2 sc2 in
  persisted_chunks s3 (puts_of ev)
  /\ (st = STry -> exists cur last, commit_args ev = Some (cur, last)
                   /\ linked cur (swaps (trace cap s2 sc2)) (fresh_root s3)).
Proof.
  intros E Ok ev s3.
  destruct (final_Inv cap sc1 _ (Inv_init n)) as [I1 _].
  destruct (step_Inv _ _ _ _ _ _ E I1) as [I2 _].
  destruct (final_Inv cap sc2 _ I2) as [I3 [_ Mono]].
  destruct (step_success _ _ _ _ _ _ I1 E Ok) as [cur [last [A [K [_ Pc]]]]].
  fold ev in A, K, Pc. split.
  - unfold puts_of in *. destruct (actor_client ev) as [cl|].
    + apply puts_persist; [exact I3 |]. intros x Hx. specialize (Pc x Hx).
      unfold fresh_has in Pc. apply existsb_exists in Pc. destruct Pc as [t [Ht Hb]].
      apply andb_true_iff in Hb. destruct Hb as [_ Hxt].
      apply chunk_in_spec. exists t. split; [apply Mono; exact Ht | apply in_table_In; exact Hxt].
    + split; [| intros x []]. unfold fresh_opens. apply subset_t_incl. apply I3.
  - intros St. exists cur, last. split; [exact A |].
    destruct (success_kind_root _ _ _ K) as [Rc _]. specialize (Rc St).
    cbn [ev mk_event e_after] in Rc. unfold fresh_root. fold (disk_root s3).
    rewrite <- Rc. apply root_history_linear.
Qed.

Theorem ack_persist_refuted :
  exists sc, let s := final 4 (init 2) sc in
    existsb (fun ev => commit_ok ev && match commit_args ev with
                                       | Some (cur, _) => negb (fresh_root s =? cur) && negb (existsb (fun p => fst p =? cur) (swaps (trace 4 (init 2) sc)) )
                                       | None => false end) (trace 4 (init 2) sc) = true.
Proof. exists witness_noop. vm_compute. reflexivity. Qed.

(* ------------------------------------------------------------------ *)
(* 10. Non-vacuity.                                                     *)
Definition sample : sched :=
  [(0%nat, SPut 1); (0%nat, SPut 2); (0%nat, SCommit 2 0); (0%nat, STry);      (* swap: root 0 -> 2 *)
   (1%nat, SPut 3); (1%nat, SCommit 3 0); (1%nat, STry);                       (* stale view: root moved -> false *)
   (0%nat, SPut 5); (0%nat, SCommit 2 2); (0%nat, STry);                       (* flush commit: swap 2 -> 2, new table *)
   (1%nat, SPut 4); (1%nat, SCommit 2 2); (1%nat, STry); (1%nat, STry);        (* tables changed -> retry -> swap *)
   (0%nat, SRebase); (0%nat, SCommit 2 2)].                                     (* shortcut *)

Example sample_results :
  map e_res (trace 4 (init 2) sample)
  = [ROk; ROk; RPending; ROk; ROk; RPending; RFalse; ROk; RPending; ROk;
     ROk; RPending; RPending; ROk; ROk; ROk].
Proof. vm_compute. reflexivity. Qed.

Example sample_swaps : swaps (trace 4 (init 2) sample) = [(2, 0); (2, 2); (2, 2)].
Proof. vm_compute. reflexivity. Qed.

Example sample_final :
  let s := final 4 (init 2) sample in
  fresh_root s = 2 /\ fresh_opens s = true
  /\ map (fresh_has s) [1; 2; 3; 4; 5; 6] = [true; true; true; true; true; false].
Proof. vm_compute. repeat split. Qed.

(* the three success kinds all occur *)
Example kinds_occur :
  existsb swapped (trace 4 (init 2) sample) = true
  /\ existsb (fun ev => commit_ok ev && negb (swapped ev) && is_try (e_step ev)) (trace 4 (init 2) witness_double) = true
  /\ existsb (fun ev => commit_ok ev && negb (is_try (e_step ev))) (trace 4 (init 2) sample) = true.
Proof. vm_compute. repeat split. Qed.

(* ------------------------------------------------------------------ *)
(* 11. The executable oracle (exact CAS register) on the model's own runs:
   true on an ordinary history, FALSE on the two witnesses — the witnesses are
   replayed on the real code by the check on every run. *)
Definition witness_double_api : input :=
  {| i_n := 2; i_cap := 4; i_univ := [1; 2; 5];
     i_ops := [(0%nat, APut 1); (1%nat, APut 1);
               (0%nat, ACommit (RId 1) (RId 0)); (1%nat, ACommit (RId 1) (RId 0))] |}.
Definition witness_noop_api : input :=
  {| i_n := 2; i_cap := 4; i_univ := [1; 2; 5];
     i_ops := [(0%nat, APut 1); (0%nat, ACommit (RId 1) (RId 0)); (1%nat, ACommit (RId 5) (RId 5))] |}.
Definition sample_api : input :=
  {| i_n := 2; i_cap := 2; i_univ := [1; 2; 3; 4; 5; 6];
     i_ops := [(0%nat, APut 1); (0%nat, APut 2); (0%nat, ACommit (RId 2) RSelf);
               (1%nat, APut 3); (1%nat, ACommit (RId 3) RSelf);
               (0%nat, APut 5); (0%nat, ACommit RSelf RSelf);
               (1%nat, APut 4); (1%nat, ACommit RSelf RSelf);
               (0%nat, ARebase); (0%nat, ACommit RSelf RSelf);
               (1%nat, ACommit (RId 6) (RId 2))] |}.

Example oracle_rejects_double : check_obs witness_double_api (model_obs witness_double_api) = 2.
Proof. vm_compute. reflexivity. Qed.
Example oracle_rejects_noop : check_obs witness_noop_api (model_obs witness_noop_api) = 2.
Proof. vm_compute. reflexivity. Qed.
Example oracle_accepts_sample :
  check_obs sample_api (model_obs sample_api) = 0
  /\ map o_res (model_obs sample_api) = [0; 0; 0; 0; 1; 0; 0; 0; 0; 0; 0; 2].
Proof. vm_compute. split; reflexivity. Qed.

(* ------------------------------------------------------------------ *)
(* 12. Journaling store: the same theorems for the single-writer instance
   (ChunkJournal.Update as the manifest step).                          *)
Lemma mem_n_In x l : mem_n x l = true <-> In x l.
Proof.
  unfold mem_n. rewrite existsb_exists. split.
  - intros [y [Hy E]]. apply N.eqb_eq in E. subst. exact Hy.
  - intros H. exists x. split; [exact H | apply N.eqb_refl].
Qed.

Definition jvis (s : jstate) (x : chunk) : Prop :=
  (exists l, j_mem s = Some l /\ In x l) \/ jtables_have s x = true.

(* the writer's view is the journal's contents (one writer); every chunk Put since open is visible *)
Definition JInv (s : jstate) : Prop :=
  j_up s = (j_root s, j_spec s) /\ forall x, In x (j_puts s) -> jvis s x.

Lemma JInv_init : JInv jinit.
Proof. split; [reflexivity | intros x []]. Qed.

Lemma jflush_spec s :
  j_root (jflush s) = j_root s /\ j_spec (jflush s) = j_spec s /\ j_up (jflush s) = j_up s
  /\ j_puts (jflush s) = j_puts s /\ incl (j_chunks s) (j_chunks (jflush s))
  /\ (forall x, jvis s x -> jtables_have (jflush s) x = true).
Proof.
  unfold jflush. destruct (j_mem s) as [[|a l]|] eqn:M.
  - repeat split; auto using incl_refl. intros x [[l [Hl Hx]] | H]; [| exact H].
    rewrite M in Hl. inversion Hl; subst. contradiction.
  - cbn [j_root j_spec j_up j_puts j_chunks]. repeat split; auto.
    + apply incl_appl, incl_refl.
    + intros x Hv.
      assert (Hm : In x (j_chunks s ++ filter (fun x0 => negb (jtables_have s x0)) (a :: l))).
      { apply in_or_app. destruct (jtables_have s x) eqn:T.
        - left. unfold jtables_have in T. apply andb_true_iff in T. apply mem_n_In, T.
        - right. apply filter_In. destruct Hv as [[l' [Hl Hx]] | H]; [| congruence].
          rewrite M in Hl. inversion Hl; subst l'. split; [exact Hx | rewrite T; reflexivity]. }
      unfold jtables_have at 1. cbn [j_novel j_up j_chunks orb andb]. apply mem_n_In. exact Hm.
  - repeat split; auto using incl_refl. intros x [[l [Hl Hx]] | H]; [| exact H].
    rewrite M in Hl. discriminate.
Qed.

(* One step: either the journal's root/spec are untouched, or it is a Commit
   through ChunkJournal.Update that found root = last and installed cur with
   every chunk Put since open in the journal. *)
Lemma jstep_spec s st s' r : JInv s -> jstep_fn s st = (s', r) ->
  JInv s' /\ incl (j_chunks s) (j_chunks s') /\ (j_spec s = true -> j_spec s' = true)
  /\ r <> RNone
  /\ ((j_root s' = j_root s /\ j_spec s' = j_spec s
       /\ jswapped {| je_step := st; je_res := r; je_before := s; je_after := s' |} = false)
      \/ (exists cur last, st = JCommit cur last /\ r = ROk
          /\ jswapped {| je_step := st; je_res := r; je_before := s; je_after := s' |} = true
          /\ j_root s = last /\ j_root s' = cur
          /\ forall x, In x (j_puts s) -> jfresh_has s' x = true)).
Proof.
  intros [Iu Ip] E. unfold jswapped, jcommit_ok. cbn [je_step je_res je_before].
  assert (SetUp : JInv (jset_up s (j_root s, j_spec s) (j_novel s))).
  { split; [reflexivity |]. cbn [jset_up j_puts]. intros y Hy. destruct (Ip y Hy) as [H | H]; [left; exact H | right].
    unfold jtables_have in *. cbn [jset_up j_novel j_up j_chunks snd]. rewrite Iu in H. exact H. }
  destruct st as [x | | cur last | |]; cbn [jstep_fn] in E.
  - inversion E; subst; clear E.
    split; [| split; [apply incl_refl | split; [auto | split; [discriminate | left; repeat split]]]].
    split; [exact Iu |]. cbn [jput j_puts]. intros y [Hy | Hy].
    + subst y. left. cbn [jput j_mem]. destruct (j_mem s) as [l|].
      * destruct (mem_n x l) eqn:Mx.
        -- exists l. split; [reflexivity | apply mem_n_In; exact Mx].
        -- exists (l ++ [x]). split; [reflexivity | apply in_or_app; right; left; reflexivity].
      * exists [x]. split; [reflexivity | left; reflexivity].
    + destruct (Ip y Hy) as [[l [Hl Hin]] | H].
      * left. cbn [jput j_mem]. rewrite Hl. destruct (mem_n x l).
        -- exists l. split; [reflexivity | exact Hin].
        -- exists (l ++ [x]). split; [reflexivity | apply in_or_app; left; exact Hin].
      * right. exact H.
  - inversion E; subst; clear E.
    split; [exact SetUp | split; [apply incl_refl | split; [auto | split; [discriminate | left; repeat split]]]].
  - unfold jcommit in E. cbn [jis_commit].
    destruct (negb (jany_novel s) && (cur =? last)) eqn:Sh.
    { inversion E; subst; clear E.
      split; [exact SetUp | split; [apply incl_refl | split; [auto | split; [discriminate | left; repeat split]]]]. }
    destruct (fst (j_up s) =? last) eqn:R; cbn [negb] in E.
    2:{ inversion E; subst; clear E.
        split; [split; [exact Iu | exact Ip] | split; [apply incl_refl | split; [auto | split; [discriminate | left; repeat split]]]]. }
    apply N.eqb_eq in R.
    destruct (jflush_spec s) as [Fr [Fs [Fu [Fp [Fc Fv]]]]].
    assert (JI1 : JInv (jflush s)).
    { split; [rewrite Fr, Fs, Fu; exact Iu |]. intros y Hy. right. apply Fv, Ip. rewrite <- Fp. exact Hy. }
    destruct (negb (cur =? 0) && negb (jtables_have (jflush s) cur)) eqn:Dg.
    { inversion E; subst; clear E.
      split; [exact JI1 | split; [exact Fc | split; [rewrite Fs; auto | split; [discriminate | left]]]].
      rewrite Fr, Fs. repeat split. }
    assert (Lk : lockb (j_root (jflush s), j_spec (jflush s)) (j_up (jflush s)) = true).
    { rewrite Fr, Fs, Fu, Iu. unfold lockb. cbn [fst snd]. rewrite N.eqb_refl, eqb_reflx. reflexivity. }
    rewrite Lk in E. cbn [negb] in E. inversion E; subst s' r; clear E.
    cbn [j_root j_spec j_chunks j_up j_puts j_mem j_novel snd].
    split; [| split; [exact Fc | split; [| split; [discriminate | right]]]].
    + split; [reflexivity |]. cbn [j_puts]. intros y Hy. right. unfold jtables_have. cbn [j_novel j_up j_chunks snd orb].
      rewrite Fp in Hy. specialize (Fv y (Ip y Hy)). unfold jtables_have in Fv. exact Fv.
    + intros Sp. rewrite Fu, Iu. cbn [snd]. rewrite Sp. apply orb_true_r.
    + exists cur, last. split; [reflexivity |]. split; [reflexivity |]. split; [reflexivity |].
      split; [rewrite Iu in R; exact R |]. split; [reflexivity |].
      intros y Hy. specialize (Fv y (Ip y Hy)). unfold jfresh_has, jtables_have in *.
      cbn [j_spec j_chunks snd]. exact Fv.
  - unfold jreopen in E. inversion E; subst; clear E. cbn [j_root j_spec j_chunks jis_commit].
    split; [| split; [apply incl_refl | split; [auto | split; [| left; repeat split; apply andb_false_r]]]].
    + split; [reflexivity | intros x []].
    + destruct (j_wr s && negb (j_spec s)); discriminate.
  - inversion E; subst; clear E.
    split; [split; [exact Iu | exact Ip] | split; [apply incl_refl | split; [auto | split; [discriminate | left; repeat split]]]].
Qed.

Lemma jfinal_spec sc : forall s, JInv s ->
  JInv (jfinal s sc) /\ incl (j_chunks s) (j_chunks (jfinal s sc)) /\ (j_spec s = true -> j_spec (jfinal s sc) = true).
Proof.
  induction sc as [| st rest IH]; intros s I; cbn [jfinal].
  - repeat split; auto using incl_refl; apply I.
  - destruct (jstep_fn s st) as [s' r] eqn:E. cbn [fst].
    destruct (jstep_spec _ _ _ _ I E) as [I' [C [Sp _]]].
    destruct (IH s' I') as [I'' [C' Sp']]. repeat split; try apply I''; auto.
    eapply incl_tran; eauto.
Qed.

Lemma jtrace_event sc : forall s ev, JInv s -> In ev (jtrace s sc) ->
  JInv (je_before ev) /\ jstep_fn (je_before ev) (je_step ev) = (je_after ev, je_res ev).
Proof.
  induction sc as [| st rest IH]; intros s ev I H; cbn [jtrace] in H; [contradiction |].
  destruct (jstep_fn s st) as [s' r] eqn:E. destruct H as [H | H].
  - subst ev. split; [exact I | exact E].
  - apply (IH s'); [| exact H]. apply (jstep_spec _ _ _ _ I E).
Qed.

(* with one writer manifest.Update never finds a foreign lock *)
Theorem j_never_stale sc ev : In ev (jtrace jinit sc) -> je_res ev <> RNone.
Proof.
  intros H. destruct (jtrace_event sc _ _ JInv_init H) as [I E].
  destruct ev as [st r s s']. cbn [je_before je_step je_after je_res] in *.
  apply (jstep_spec _ _ _ _ I E).
Qed.

Theorem j_failure_changes_nothing sc ev : In ev (jtrace jinit sc) -> jcommit_ok ev = false ->
  j_root (je_after ev) = j_root (je_before ev) /\ j_spec (je_after ev) = j_spec (je_before ev).
Proof.
  intros H Nok. destruct (jtrace_event sc _ _ JInv_init H) as [I E].
  destruct ev as [st r s s']. cbn [je_before je_step je_after je_res] in *.
  destruct (jstep_spec _ _ _ _ I E) as [_ [_ [_ [_ [[A [B _]] | [cur [last [-> [-> _]]]]]]]]]; [auto |].
  unfold jcommit_ok in Nok. cbn in Nok. discriminate.
Qed.

(* commit_is_cas for the journaling store: a Commit that answers true either
   went through ChunkJournal.Update with journal root = last, installing cur
   and every chunk Put since open, or is the nothing-novel cur = last shortcut
   (which changes nothing — and ignores last: j_commit_is_cas_refuted). *)
Theorem j_commit_is_cas_partial sc ev : In ev (jtrace jinit sc) -> jcommit_ok ev = true ->
  exists cur last, jcommit_args ev = Some (cur, last) /\
    ((jswapped ev = true /\ j_root (je_before ev) = last /\ j_root (je_after ev) = cur
      /\ forall x, In x (j_puts (je_before ev)) -> jfresh_has (je_after ev) x = true)
     \/ (jswapped ev = false /\ cur = last /\ jany_novel (je_before ev) = false
         /\ j_root (je_after ev) = j_root (je_before ev) /\ j_spec (je_after ev) = j_spec (je_before ev))).
Proof.
  intros H Ok. destruct (jtrace_event sc _ _ JInv_init H) as [I E].
  destruct ev as [st r s s']. cbn [je_before je_step je_after je_res] in *.
  destruct (jstep_spec _ _ _ _ I E) as [_ [_ [_ [_ [[A [B Sw]] | [cur [last [-> [-> [Sw [R [R' P]]]]]]]]]]]].
  - unfold jcommit_ok in Ok. cbn [je_res je_step] in Ok. apply andb_true_iff in Ok. destruct Ok as [Ok1 Ok2].
    destruct st as [| | cur last | |]; try discriminate. exists cur, last. split; [reflexivity |]. right.
    unfold jswapped, jcommit_ok in Sw. cbn [je_res je_step je_before jis_commit] in Sw.
    rewrite Ok1 in Sw. cbn [andb] in Sw. apply negb_false_iff, andb_true_iff in Sw. destruct Sw as [Nv Eq].
    apply N.eqb_eq in Eq. apply negb_true_iff in Nv.
    repeat split; auto. unfold jswapped, jcommit_ok. cbn [je_res je_step je_before jis_commit].
    rewrite Ok1, Nv, Eq, N.eqb_refl. reflexivity.
  - exists cur, last. split; [reflexivity |]. left. repeat split; auto.
Qed.

Theorem j_commit_is_cas_refuted : exists sc, existsb jcas_viol_b (jtrace jinit sc) = true.
Proof. exists [JCommit 3 3]. vm_compute. reflexivity. Qed.

Theorem j_root_history_linear sc : forall s, JInv s ->
  linked (j_root s) (jswaps (jtrace s sc)) (j_root (jfinal s sc)).
Proof.
  induction sc as [| st rest IH]; intros s I; cbn [jtrace jfinal jswaps flat_map linked]; [reflexivity |].
  destruct (jstep_fn s st) as [s' r] eqn:E. cbn [fst flat_map]. fold (jswaps (jtrace s' rest)).
  destruct (jstep_spec _ _ _ _ I E) as [I' [_ [_ [_ [[A [_ Sw]] | [cur [last [-> [-> [Sw [R [R' _]]]]]]]]]]]].
  - unfold jswap_of. rewrite Sw. cbn [app]. rewrite <- A. apply IH. exact I'.
  - unfold jswap_of. rewrite Sw. cbn [jcommit_args je_step app linked]. split; [symmetry; exact R |].
    rewrite <- R'. apply IH. exact I'.
Qed.

(* ack_persist for the journaling store: after a Commit answered true through
   ChunkJournal.Update, whatever happens later (including close + reopen), a
   fresh journaling open has every chunk Put before that Commit since the
   writer was opened, and its root is cur or linked to cur by later swaps. *)
Theorem j_ack_persist sc1 cur last s2 sc2 :
  jstep_fn (jfinal jinit sc1) (JCommit cur last) = (s2, ROk) ->
  jswapped {| je_step := JCommit cur last; je_res := ROk; je_before := jfinal jinit sc1; je_after := s2 |} = true ->
  let s3 := jfinal s2 sc2 in
  (forall x, In x (j_puts (jfinal jinit sc1)) -> jfresh_has s3 x = true)
  /\ linked cur (jswaps (jtrace s2 sc2)) (j_root s3).
Proof.
  intros E Sw s3.
  destruct (jfinal_spec sc1 _ JInv_init) as [I1 _].
  destruct (jstep_spec _ _ _ _ I1 E) as [I2 [_ [_ [_ [[_ [_ Sw']] | [c [l [Eq [_ [_ [_ [R' P]]]]]]]]]]]].
  { rewrite Sw in Sw'. discriminate. }
  injection Eq as Hc Hl. rewrite <- Hc in R'. destruct (jfinal_spec sc2 _ I2) as [_ [C Sp]]. split.
  - intros x Hx. specialize (P x Hx). unfold jfresh_has in *. apply andb_true_iff in P. destruct P as [P1 P2].
    fold s3 in C, Sp. rewrite (Sp P1). cbn [andb]. apply mem_n_In, C, mem_n_In. exact P2.
  - rewrite <- R'. apply j_root_history_linear. exact I2.
Qed.

Example j_sample :
  map je_res (jtrace jinit [JPut 1; JCommit 1 0; JPut 2; JCommit 3 1; JReopen; JPut 3; JReopen; JCommit 2 0; JPut 1; JCommit 1 1; JCommit 2 1; JProbe])
  = [ROk; ROk; ROk; RDangling; ROk; ROk; ROk; RFalse; ROk; ROk; ROk; RBlocked]
  /\ map (jfresh_has (jfinal jinit [JPut 1; JCommit 1 0; JPut 2; JCommit 3 1; JReopen; JPut 3; JReopen])) [1; 2; 3] = [true; true; false].
Proof. vm_compute. split; reflexivity. Qed.

Definition j_sample_api : jinput :=
  {| ji_univ := [1; 2; 3; 4; 5];
     ji_ops := [JAProbe; JAPut 1; JACommit (RId 1) RSelf; JAPut 2; JAProbe; JACommit (RId 3) RSelf; JAReopen;
                JAPut 3; JAReopen; JACommit (RId 2) (RId 0); JAPut 1; JACommit RSelf RSelf; JARebase;
                JACommit (RId 2) RSelf; JAReopen; JAProbe] |}.
Definition j_witness_noop_api : jinput := {| ji_univ := [1; 2; 3]; ji_ops := [JAPut 1; JAReopen; JACommit (RId 3) (RId 3)] |}.

Example j_oracle_accepts_sample :
  jcheck_obs j_sample_api (jmodel_obs j_sample_api) = 0
  /\ map jo_res (jmodel_obs j_sample_api) = [4; 0; 0; 0; 4; 2; 0; 0; 0; 1; 0; 0; 0; 0; 0; 4].
Proof. vm_compute. split; reflexivity. Qed.
Example j_oracle_rejects_noop : jcheck_obs j_witness_noop_api (jmodel_obs j_witness_noop_api) = 2.
Proof. vm_compute. reflexivity. Qed.
