(* C02 — correspondence: API-granularity schedules run through the model,
   comparison with what the real NomsBlockStore clients did, and the executable
   statement of the property (exact compare-and-swap register + acknowledged
   persistence) evaluated on the implementation's observations. *)
From Coq Require Import NArith List Bool.
From Dolt Require Import Base.Str C02.Model C02.Spec.
Import ListNotations.
Local Open Scope N_scope.

(* a root argument: the client's own Root() at the time of the call, or the address of chunk k (0 = empty hash) *)
Inductive rref := RSelf | RId (k : N).
Inductive aop := APut (x : N) | ARebase | ACommit (cur last : rref).

Record input := { i_n : nat; i_cap : N; i_univ : list N; i_ops : list (nat * aop) }.

(* after every API call: result (0 ok/true, 1 false, 2 dangling-ref error, 3 other error, 9 no answer),
   the caller's Root(), the persisted manifest (root, table names as chunk-id lists),
   and a fresh open of the directory: its Root() and which chunks of the universe it Has. *)
Record sobs := { o_res : N; o_croot : N; o_droot : N; o_dspecs : list tname; o_froot : N; o_fhas : list N }.
Definition obs := list sobs.

Definition croot_of (s : config) (i : nat) : N :=
  match get i s with Some cl => m_root (c_up cl) | None => 0 end.
Definition resolve (self : N) (r : rref) : N := match r with RSelf => self | RId k => k end.

(* the loop of NomsBlockStore.commit around updateManifest, run without interleaving *)
Fixpoint try_loop (fuel : nat) (cap : N) (s : config) (i : nat) : config * result :=
  match fuel with
  | O => (s, RPending)
  | S f => let '(s', r) := step_cfg cap s i STry in
           match r with RPending => try_loop f cap s' i | _ => (s', r) end
  end.

Definition api_step (cap : N) (s : config) (i : nat) (op : aop) : config * result :=
  match op with
  | APut x => step_cfg cap s i (SPut x)
  | ARebase => step_cfg cap s i SRebase
  | ACommit cur last =>
    let self := croot_of s i in
    let '(s1, r) := step_cfg cap s i (SCommit (resolve self cur) (resolve self last)) in
    match r with RPending => try_loop 8 cap s1 i | _ => (s1, r) end
  end.

Definition res_code (r : result) : N :=
  match r with ROk => 0 | RFalse => 1 | RDangling => 2 | _ => 9 end.

Definition observe (univ : list N) (s : config) (i : nat) (r : result) : sobs :=
  {| o_res := res_code r; o_croot := croot_of s i; o_droot := m_root (g_disk s);
     o_dspecs := m_specs (g_disk s); o_froot := fresh_root s;
     o_fhas := filter (fresh_has s) univ |}.

Fixpoint run_api (cap : N) (univ : list N) (s : config) (ops : list (nat * aop)) : obs :=
  match ops with
  | [] => []
  | (i, op) :: rest =>
    let '(s', r) := api_step cap s i op in
    observe univ s' i r :: run_api cap univ s' rest
  end.

Definition model_obs (inp : input) : obs := run_api (i_cap inp) (i_univ inp) (init (i_n inp)) (i_ops inp).

Definition seteq_t (a b : list tname) : bool := subset_t a b && subset_t b a.

Definition sobs_eqb (a b : sobs) : bool :=
  (o_res a =? o_res b) && (o_croot a =? o_croot b) && (o_droot a =? o_droot b)
  && seteq_t (o_dspecs a) (o_dspecs b) && (o_froot a =? o_froot b) && beq_bytes (o_fhas a) (o_fhas b).

Fixpoint obs_eqb (a b : obs) : bool :=
  match a, b with
  | [], [] => true
  | x :: a', y :: b' => sobs_eqb x y && obs_eqb a' b'
  | _, _ => false
  end.

(* ------------------------------------------------------------------ *)
(* The property as a predicate on an observed history.  The persisted root is
   a compare-and-swap register (Spec.reg_cas): a Commit(cur,last) that answers
   true must find the persisted root equal to last and leave it equal to cur,
   with every chunk the caller had Put in a table named by the persisted
   manifest; every other call (failed Commit, Put, Rebase) leaves the persisted
   manifest as it was.  After every call a fresh open sees the persisted root
   and has every chunk acknowledged by an earlier successful Commit. *)
Record ostate := { os_root : N; os_specs : list tname; os_croots : list N;
                   os_puts : list (list N); os_acked : list N }.

Fixpoint set_nth {A} (i : nat) (x : A) (l : list A) : list A :=
  match l, i with
  | [], _ => []
  | _ :: t, O => x :: t
  | h :: t, S j => h :: set_nth j x t
  end.

Definition same_disk (st : ostate) (o : sobs) : bool :=
  (o_droot o =? os_root st) && seteq_t (o_dspecs o) (os_specs st).


Definition oracle_step (st : ostate) (i : nat) (op : aop) (o : sobs) : bool * ostate :=
  let self := nth i (os_croots st) 0 in
  let puts := nth i (os_puts st) [] in
  let '(ok, puts', acked') :=
    match op with
    | APut x => (same_disk st o, if o_res o =? 0 then x :: puts else puts, os_acked st)
    | ARebase => (same_disk st o, puts, os_acked st)
    | ACommit cur last =>
      let cur := resolve self cur in
      let last := resolve self last in
      if o_res o =? 0 then
        (* exact CAS: reg_cas (persisted root) cur last = (root afterwards, true) *)
        (match reg_cas (os_root st) cur last with
         | (v, true) => (o_droot o =? v) | (_, false) => false end
         && forallb (fun x => chunk_in x (o_dspecs o)) puts
         && (o_croot o =? cur),
         puts, puts ++ os_acked st)
      else (same_disk st o, puts, os_acked st)
    end in
  (ok && (o_froot o =? o_droot o) && forallb (fun x => mem_n x (o_fhas o)) acked',
   {| os_root := o_droot o; os_specs := o_dspecs o; os_croots := set_nth i (o_croot o) (os_croots st);
      os_puts := set_nth i puts' (os_puts st); os_acked := acked' |}).

Fixpoint oracle_run (st : ostate) (ops : list (nat * aop)) (os : obs) : bool :=
  match ops, os with
  | [], [] => true
  | (i, op) :: ops', o :: os' =>
    let '(ok, st') := oracle_step st i op o in ok && oracle_run st' ops' os'
  | _, _ => false
  end.

Definition oracle (inp : input) (os : obs) : bool :=
  oracle_run {| os_root := 0; os_specs := []; os_croots := repeat 0 (i_n inp);
                os_puts := repeat [] (i_n inp); os_acked := [] |} (i_ops inp) os.

(* Compact transport form of an observed history (keeps cases.v small): the
   persisted table set and the fresh-open Has set are given only when they
   differ from the previous step's (None = unchanged; initially both empty). *)
Record csobs := K { k_res : N; k_croot : N; k_droot : N; k_froot : N;
                    k_dspecs : option (list tname); k_fhas : option (list N) }.

Fixpoint expand (specs : list tname) (has : list N) (l : list csobs) : obs :=
  match l with
  | [] => []
  | k :: rest =>
    let specs' := match k_dspecs k with Some x => x | None => specs end in
    let has' := match k_fhas k with Some x => x | None => has end in
    {| o_res := k_res k; o_croot := k_croot k; o_droot := k_droot k; o_dspecs := specs';
       o_froot := k_froot k; o_fhas := has' |} :: expand specs' has' rest
  end.

Definition check_obs (inp : input) (os : obs) : N :=
  (if obs_eqb (model_obs inp) os then 0 else 1)
  + (if oracle inp os then 0 else 2).

(* ---------------------------------------------------------------------- *)
(* Journaling store: one writer; histories of Put / Rebase / Commit / Reopen
   (graceful close + fresh journaling open, which becomes the writer) / Probe
   (a second handle opened while the writer is open, which then tries
   Put + Commit). *)
Inductive jaop := JAPut (x : N) | JARebase | JACommit (cur last : rref) | JAReopen | JAProbe.
Record jinput := { ji_univ : list N; ji_ops : list jaop }.

(* result (0 ok/true, 1 false, 2 dangling, 3 other error (reopen: Close failed), 4 read-only error),
   Root() of the writer (probe: of the second handle), chunks of the universe the writer Has,
   probe: the second handle is read-only *)
Record jsobs := JK { jo_res : N; jo_croot : N; jo_has : list N; jo_ro : bool;
                     jo_phas : list N }.   (* probe only: chunks the second handle Has — checked by the oracle,
                                             not compared with the model (unacknowledged chunks may still sit in the
                                             writer's buffer) *)

Definition jres_code (st : jstep) (r : result) : N :=
  match st, r with
  | JProbe, _ => 4
  | JReopen, RDangling => 3
  | _, ROk => 0
  | _, RFalse => 1
  | _, RDangling => 2
  | _, _ => 9
  end.

Definition jwriter_has (s : jstate) (x : chunk) : bool :=
  match j_mem s with Some l => mem_n x l | None => false end || jtables_have s x.

Definition jto_step (s : jstate) (op : jaop) : jstep :=
  match op with
  | JAPut x => JPut x
  | JARebase => JRebase
  | JACommit cur last => JCommit (resolve (fst (j_up s)) cur) (resolve (fst (j_up s)) last)
  | JAReopen => JReopen
  | JAProbe => JProbe
  end.

Fixpoint jrun (univ : list N) (s : jstate) (ops : list jaop) : list jsobs :=
  match ops with
  | [] => []
  | op :: rest =>
    let st := jto_step s op in
    let '(s', r) := jstep_fn s st in
    {| jo_res := jres_code st r;
       jo_croot := match op with JAProbe => j_root s' | _ => fst (j_up s') end;
       jo_has := filter (jwriter_has s') univ;
       jo_ro := match op with JAProbe => true | _ => false end;
       jo_phas := match op with JAProbe => filter (jfresh_has s') univ | _ => [] end |} :: jrun univ s' rest
  end.

Definition jmodel_obs (inp : jinput) : list jsobs := jrun (ji_univ inp) jinit (ji_ops inp).

Definition jsobs_eqb (a b : jsobs) : bool :=
  (jo_res a =? jo_res b) && (jo_croot a =? jo_croot b) && beq_bytes (jo_has a) (jo_has b)
  && Bool.eqb (jo_ro a) (jo_ro b).

Fixpoint jobs_eqb (a b : list jsobs) : bool :=
  match a, b with
  | [], [] => true
  | x :: a', y :: b' => jsobs_eqb x y && jobs_eqb a' b'
  | _, _ => false
  end.

(* The property on an observed journaling history: the journal's root is a
   CAS register driven by the single writer; a Commit that answers true must
   find it equal to last and leave it equal to cur; nothing else moves it; the
   writer can always read every acknowledged chunk; a reopen sees exactly the
   register and every acknowledged chunk; a second handle is read-only, sees
   the register and every acknowledged chunk, and cannot commit. *)
Record jostate := { jos_reg : N; jos_self : N; jos_puts : list N; jos_acked : list N }.

Definition joracle_step (st : jostate) (op : jaop) (o : jsobs) : bool * jostate :=
  let '(ok, st') :=
    match op with
    | JAPut x =>
      (jo_croot o =? jos_self st,
       {| jos_reg := jos_reg st; jos_self := jos_self st;
          jos_puts := if jo_res o =? 0 then x :: jos_puts st else jos_puts st; jos_acked := jos_acked st |})
    | JARebase => (jo_croot o =? jos_self st, st)
    | JACommit cur last =>
      let cur := resolve (jos_self st) cur in
      let last := resolve (jos_self st) last in
      if jo_res o =? 0 then
        (match reg_cas (jos_reg st) cur last with (v, true) => (jo_croot o =? v) | (_, false) => false end,
         {| jos_reg := cur; jos_self := jo_croot o; jos_puts := jos_puts st; jos_acked := jos_puts st ++ jos_acked st |})
      else (jo_croot o =? jos_self st, st)
    | JAReopen =>
      (jo_croot o =? jos_reg st,
       {| jos_reg := jos_reg st; jos_self := jo_croot o; jos_puts := []; jos_acked := jos_acked st |})
    | JAProbe => (jo_ro o && negb (jo_res o =? 0) && (jo_croot o =? jos_reg st)
                  && forallb (fun x => mem_n x (jo_phas o)) (jos_acked st), st)
    end in
  (ok && forallb (fun x => mem_n x (jo_has o)) (jos_acked st'), st').

Fixpoint joracle_run (st : jostate) (ops : list jaop) (os : list jsobs) : bool :=
  match ops, os with
  | [], [] => true
  | op :: ops', o :: os' => let '(ok, st') := joracle_step st op o in ok && joracle_run st' ops' os'
  | _, _ => false
  end.

Definition joracle (inp : jinput) (os : list jsobs) : bool :=
  joracle_run {| jos_reg := 0; jos_self := 0; jos_puts := []; jos_acked := [] |} (ji_ops inp) os.

Definition jcheck_obs (inp : jinput) (os : list jsobs) : N :=
  (if jobs_eqb (jmodel_obs inp) os then 0 else 1) + (if joracle inp os then 0 else 2).

Inductive case := CDir (i : input) (o : list csobs) | CJrn (i : jinput) (o : list jsobs).

Definition check_case (c : case) : N :=
  match c with
  | CDir i o => check_obs i (expand [] [] o)
  | CJrn i o => jcheck_obs i o
  end.

Definition model_obs_any (c : case) : obs + list jsobs :=
  match c with CDir i _ => inl (model_obs i) | CJrn i _ => inr (jmodel_obs i) end.
