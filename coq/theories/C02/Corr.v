(* C02 — correspondence: API-granularity schedules run through the model,
   comparison with what the real NomsBlockStore clients did, and the executable
   statement of the property (exact compare-and-swap register + acknowledged
   persistence) evaluated on the implementation's observations. *)
From Coq Require Import NArith List Bool.
From Dolt Require Import Base.Str C02.Model C02.Spec.
Import ListNotations.
Local Open Scope N_scope.

(* a root argument: the client's own Root() at the time of the call, or the address of chunk k (0 = empty hash) *)
Inductive rref := RSelf | RId (k : N).
Inductive aop := APut (x : N) | ARebase | ACommit (cur last : rref).

Record input := { i_n : nat; i_cap : N; i_univ : list N; i_ops : list (nat * aop) }.

(* after every API call: result (0 ok/true, 1 false, 2 dangling-ref error, 3 other error, 9 no answer),
   the caller's Root(), the persisted manifest (root, table names as chunk-id lists),
   and a fresh open of the directory: its Root() and which chunks of the universe it Has. *)
Record sobs := { o_res : N; o_croot : N; o_droot : N; o_dspecs : list tname; o_froot : N; o_fhas : list N }.
Definition obs := list sobs.

Definition croot_of (s : config) (i : nat) : N :=
  match get i s with Some cl => m_root (c_up cl) | None => 0 end.
Definition resolve (self : N) (r : rref) : N := match r with RSelf => self | RId k => k end.

(* the loop of NomsBlockStore.commit around updateManifest, run without interleaving *)
Fixpoint try_loop (fuel : nat) (cap : N) (s : config) (i : nat) : config * result :=
  match fuel with
  | O => (s, RPending)
  | S f => let '(s', r) := step_cfg cap s i STry in
           match r with RPending => try_loop f cap s' i | _ => (s', r) end
  end.

Definition api_step (cap : N) (s : config) (i : nat) (op : aop) : config * result :=
  match op with
  | APut x => step_cfg cap s i (SPut x)
  | ARebase => step_cfg cap s i SRebase
  | ACommit cur last =>
    let self := croot_of s i in
    let '(s1, r) := step_cfg cap s i (SCommit (resolve self cur) (resolve self last)) in
    match r with RPending => try_loop 8 cap s1 i | _ => (s1, r) end
  end.

Definition res_code (r : result) : N :=
  match r with ROk => 0 | RFalse => 1 | RDangling => 2 | _ => 9 end.

Definition observe (univ : list N) (s : config) (i : nat) (r : result) : sobs :=
  {| o_res := res_code r; o_croot := croot_of s i; o_droot := m_root (g_disk s);
     o_dspecs := m_specs (g_disk s); o_froot := fresh_root s;
     o_fhas := filter (fresh_has s) univ |}.

Fixpoint run_api (cap : N) (univ : list N) (s : config) (ops : list (nat * aop)) : obs :=
  match ops with
  | [] => []
  | (i, op) :: rest =>
    let '(s', r) := api_step cap s i op in
    observe univ s' i r :: run_api cap univ s' rest
  end.

Definition model_obs (inp : input) : obs := run_api (i_cap inp) (i_univ inp) (init (i_n inp)) (i_ops inp).

Definition seteq_t (a b : list tname) : bool := subset_t a b && subset_t b a.

Definition sobs_eqb (a b : sobs) : bool :=
  (o_res a =? o_res b) && (o_croot a =? o_croot b) && (o_droot a =? o_droot b)
  && seteq_t (o_dspecs a) (o_dspecs b) && (o_froot a =? o_froot b) && beq_bytes (o_fhas a) (o_fhas b).

Fixpoint obs_eqb (a b : obs) : bool :=
  match a, b with
  | [], [] => true
  | x :: a', y :: b' => sobs_eqb x y && obs_eqb a' b'
  | _, _ => false
  end.

(* ------------------------------------------------------------------ *)
(* The property as a predicate on an observed history.  The persisted root is
   a compare-and-swap register (Spec.reg_cas): a Commit(cur,last) that answers
   true must find the persisted root equal to last and leave it equal to cur,
   with every chunk the caller had Put in a table named by the persisted
   manifest; every other call (failed Commit, Put, Rebase) leaves the persisted
   manifest as it was.  After every call a fresh open sees the persisted root
   and has every chunk acknowledged by an earlier successful Commit. *)
Record ostate := { os_root : N; os_specs : list tname; os_croots : list N;
                   os_puts : list (list N); os_acked : list N }.

Fixpoint set_nth {A} (i : nat) (x : A) (l : list A) : list A :=
  match l, i with
  | [], _ => []
  | _ :: t, O => x :: t
  | h :: t, S j => h :: set_nth j x t
  end.

Definition same_disk (st : ostate) (o : sobs) : bool :=
  (o_droot o =? os_root st) && seteq_t (o_dspecs o) (os_specs st).

Definition mem_n (x : N) (l : list N) : bool := existsb (N.eqb x) l.

Definition oracle_step (st : ostate) (i : nat) (op : aop) (o : sobs) : bool * ostate :=
  let self := nth i (os_croots st) 0 in
  let puts := nth i (os_puts st) [] in
  let '(ok, puts', acked') :=
    match op with
    | APut x => (same_disk st o, if o_res o =? 0 then x :: puts else puts, os_acked st)
    | ARebase => (same_disk st o, puts, os_acked st)
    | ACommit cur last =>
      let cur := resolve self cur in
      let last := resolve self last in
      if o_res o =? 0 then
        (* exact CAS: reg_cas (persisted root) cur last = (root afterwards, true) *)
        (match reg_cas (os_root st) cur last with
         | (v, true) => (o_droot o =? v) | (_, false) => false end
         && forallb (fun x => chunk_in x (o_dspecs o)) puts
         && (o_croot o =? cur),
         puts, puts ++ os_acked st)
      else (same_disk st o, puts, os_acked st)
    end in
  (ok && (o_froot o =? o_droot o) && forallb (fun x => mem_n x (o_fhas o)) acked',
   {| os_root := o_droot o; os_specs := o_dspecs o; os_croots := set_nth i (o_croot o) (os_croots st);
      os_puts := set_nth i puts' (os_puts st); os_acked := acked' |}).

Fixpoint oracle_run (st : ostate) (ops : list (nat * aop)) (os : obs) : bool :=
  match ops, os with
  | [], [] => true
  | (i, op) :: ops', o :: os' =>
    let '(ok, st') := oracle_step st i op o in ok && oracle_run st' ops' os'
  | _, _ => false
  end.

Definition oracle (inp : input) (os : obs) : bool :=
  oracle_run {| os_root := 0; os_specs := []; os_croots := repeat 0 (i_n inp);
                os_puts := repeat [] (i_n inp); os_acked := [] |} (i_ops inp) os.

(* Compact transport form of an observed history (keeps cases.v small): the
   persisted table set and the fresh-open Has set are given only when they
   differ from the previous step's (None = unchanged; initially both empty). *)
Record csobs := K { k_res : N; k_croot : N; k_droot : N; k_froot : N;
                    k_dspecs : option (list tname); k_fhas : option (list N) }.

Fixpoint expand (specs : list tname) (has : list N) (l : list csobs) : obs :=
  match l with
  | [] => []
  | k :: rest =>
    let specs' := match k_dspecs k with Some x => x | None => specs end in
    let has' := match k_fhas k with Some x => x | None => has end in
    {| o_res := k_res k; o_croot := k_croot k; o_droot := k_droot k; o_dspecs := specs';
       o_froot := k_froot k; o_fhas := has' |} :: expand specs' has' rest
  end.

Definition case := (input * list csobs)%type.

Definition check_obs (inp : input) (os : obs) : N :=
  (if obs_eqb (model_obs inp) os then 0 else 1)
  + (if oracle inp os then 0 else 2).

Definition check_case (c : case) : N := check_obs (fst c) (expand [] [] (snd c)).
