(* C02 — the property, stated independently of the algorithm: the persisted
   root is a compare-and-swap register, a failed commit changes nothing, the
   successive persisted roots form one chain, acknowledged commits persist. *)
From Coq Require Import NArith List Bool.
From Dolt Require Import Base.Str C02.Model.
Import ListNotations.
Local Open Scope N_scope.

(* The abstract object: a (weak) compare-and-swap register holding the root.
   A CAS may fail spuriously (a client whose view is stale answers false
   without looking at the register); it may succeed only on a match. *)
Definition reg_cas (v cur last : root) : root * bool := if v =? last then (cur, true) else (v, false).

Definition is_ok (r : result) : bool := match r with ROk => true | _ => false end.
Definition is_commit_step (st : step) : bool := match st with SCommit _ _ | STry => true | _ => false end.

Definition disk_root (s : config) : root := m_root (g_disk s).
Definition actor_client (ev : event) : option client := get (e_actor ev) (e_before ev).

(* the (current,last) of the Commit call an event belongs to *)
Definition commit_args (ev : event) : option (root * root) :=
  match e_step ev with
  | SCommit c l => Some (c, l)
  | STry => match actor_client ev with Some cl => c_pend cl | None => None end
  | _ => None
  end.

(* the event is "Commit returned true" *)
Definition commit_ok (ev : event) : bool := is_ok (e_res ev) && is_commit_step (e_step ev).

Definition puts_of (ev : event) : list chunk :=
  match actor_client ev with Some cl => c_puts cl | None => [] end.

Definition persisted_chunks (s : config) (l : list chunk) : Prop :=
  fresh_opens s = true /\ forall x, In x l -> fresh_has s x = true.

(* FULL statement of commit_is_cas (false of the faithful model, see
   Proofs.commit_is_cas_refuted): a Commit returns true only if the persisted
   root equalled [last] at that step, the step installs [cur] and tables
   holding every chunk the client had Put; anything else leaves the persisted
   manifest unchanged. *)
Definition cas_success (ev : event) : Prop :=
  exists cur last, commit_args ev = Some (cur, last)
    /\ disk_root (e_before ev) = last /\ disk_root (e_after ev) = cur
    /\ persisted_chunks (e_after ev) (puts_of ev).

Definition commit_is_cas_statement (cap : N) (n : nat) : Prop :=
  forall sc ev, In ev (trace cap (init n) sc) ->
    (commit_ok ev = true -> cas_success ev)
    /\ (commit_ok ev = false -> g_disk (e_after ev) = g_disk (e_before ev)).

(* executable: a successful Commit whose [last] was not the persisted root *)
Definition cas_viol_b (ev : event) : bool :=
  commit_ok ev && match commit_args ev with
                  | Some (_, last) => negb (disk_root (e_before ev) =? last)
                  | None => true
                  end.

(* The three ways a Commit returns true in the code. *)
Inductive success_kind (ev : event) (cur last : root) : Prop :=
| KSwap (cl : client) :          (* compare-and-swap proper *)
    e_step ev = STry -> actor_client ev = Some cl -> c_pend cl = Some (cur, last) ->
    lock_eqb (c_up cl) (g_disk (e_before ev)) = true ->
    disk_root (e_before ev) = last ->
    g_disk (e_after ev) = intended cur cl (g_files (e_before ev)) ->
    success_kind ev cur last
| KIdem (cl : client) :          (* no swap: the persisted manifest already IS the one being installed *)
    e_step ev = STry -> actor_client ev = Some cl -> c_pend cl = Some (cur, last) ->
    lock_eqb (c_up cl) (g_disk (e_before ev)) = false ->
    g_disk (e_after ev) = g_disk (e_before ev) ->
    lock_eqb (intended cur cl (g_files (e_before ev))) (g_disk (e_before ev)) = true ->
    success_kind ev cur last
| KNoop (cl : client) :          (* shortcut of commit: nothing novel and current == last *)
    e_step ev = SCommit cur last -> cur = last -> actor_client ev = Some cl ->
    any_novel cl = false ->
    g_disk (e_after ev) = g_disk (e_before ev) ->
    success_kind ev cur last.

(* The event performed the swap inside manifest.Update. *)
Definition swapped (ev : event) : bool :=
  commit_ok ev && is_try (e_step ev)
  && match actor_client ev with Some cl => lock_eqb (c_up cl) (g_disk (e_before ev)) | None => false end.

Definition swap_of (ev : event) : list (root * root) :=
  if swapped ev then match commit_args ev with Some a => [a] | None => [] end else [].

Definition swaps (tr : list event) : list (root * root) := flat_map swap_of tr.

(* a chain of (cur,last) pairs leading from root a to root b *)
Fixpoint linked (a : root) (l : list (root * root)) (b : root) : Prop :=
  match l with
  | [] => a = b
  | (cur, last) :: t => last = a /\ linked cur t b
  end.

Fixpoint linked_b (a : root) (l : list (root * root)) (b : root) : bool :=
  match l with
  | [] => a =? b
  | (cur, last) :: t => (last =? a) && linked_b cur t b
  end.

(* ---------------------------------------------------------------------- *)
(* Journaling store. *)
Definition jis_commit (st : jstep) : bool := match st with JCommit _ _ => true | _ => false end.
Definition jcommit_ok (ev : jevent) : bool := is_ok (je_res ev) && jis_commit (je_step ev).
Definition jcommit_args (ev : jevent) : option (root * root) :=
  match je_step ev with JCommit c l => Some (c, l) | _ => None end.
(* the Commit went through ChunkJournal.Update (not the nothing-novel shortcut) *)
Definition jswapped (ev : jevent) : bool :=
  jcommit_ok ev && match je_step ev with
                   | JCommit c l => negb (negb (jany_novel (je_before ev)) && (c =? l))
                   | _ => false end.
Definition jswap_of (ev : jevent) : list (root * root) :=
  if jswapped ev then match jcommit_args ev with Some a => [a] | None => [] end else [].
Definition jswaps (tr : list jevent) : list (root * root) := flat_map jswap_of tr.

Definition jcas_viol_b (ev : jevent) : bool :=
  jcommit_ok ev && match jcommit_args ev with
                   | Some (_, last) => negb (j_root (je_before ev) =? last)
                   | None => true end.
