(* C21 — proofs. *)
From Coq Require Import NArith List Bool Lia.
From Dolt Require Import Base.Str C20.Model C20.Spec C20.Proofs C21.Model C21.Spec.
Import ListNotations.
Local Open Scope N_scope.

(* ---- what one step can do to the root and to the pending calls ---- *)
Ltac step_cases cfg c0 lbl :=
  unfold step; destruct lbl;
  destruct (c_todo (g_clients cfg c0)) as [|o0 rest0] eqn:Htodo;
  destruct (c_pc (g_clients cfg c0)) as [| |seen0 new0] eqn:Epc;
  cbn [g_clients g_log g_refs].

Lemma step_log w cfg e :
  (g_log (step w cfg e) = g_log cfg /\ g_refs (step w cfg e) = g_refs cfg)
  \/ (exists c o, g_log (step w cfg e) = g_log cfg ++ [(c, o)] /\ In o (c_todo (g_clients cfg c))).
Proof.
  destruct e as [c0 lbl]. step_cases cfg c0 lbl; auto.
  destruct (refs_eqb seen0 (g_refs cfg)); cbn [g_log g_refs]; auto.
  right. exists c0, o0. rewrite Htodo. split; [reflexivity | left; reflexivity].
Qed.

Lemma step_todo w cfg e c o :
  In o (c_todo (g_clients (step w cfg e) c)) -> In o (c_todo (g_clients cfg c)).
Proof.
  destruct e as [c0 lbl]. step_cases cfg c0 lbl; auto;
    repeat match goal with
           | |- context [if precheck ?a ?b then _ else _] => destruct (precheck a b)
           | |- context [match attempt ?a ?b ?c ?d with _ => _ end] => destruct (attempt a b c d) as [[?|?] ?]
           | |- context [if refs_eqb ?a ?b then _ else _] => destruct (refs_eqb a b)
           end;
    cbn [g_clients]; unfold upd; destruct (c =? c0) eqn:E; auto;
    apply N.eqb_eq in E; subst c0; unfold finish; cbn [c_todo]; rewrite ?Htodo; auto;
    intros H; right; exact H.
Qed.

Section Sub.
  Variable w : world.
  Variable progs : cid -> list op.

  Definition Sub (cfg : config) : Prop :=
    (forall c o, In (c, o) (g_log cfg) -> In o (progs c))
    /\ (forall c o, In o (c_todo (g_clients cfg c)) -> In o (progs c)).

  Lemma step_sub cfg e : Sub cfg -> Sub (step w cfg e).
  Proof.
    intros [H1 H2]. split.
    - intros c o Hin. destruct (step_log w cfg e) as [[Hl _] | [c' [o' [Hl Ht]]]]; rewrite Hl in Hin.
      + apply H1; exact Hin.
      + apply in_app_or in Hin as [Hin | [Heq | []]]; [apply H1; exact Hin|].
        inversion Heq; subst. apply H2. exact Ht.
    - intros c o Hin. apply H2. eapply step_todo. exact Hin.
  Qed.

  Lemma run_sub sched cfg : Sub cfg -> Sub (run w sched cfg).
  Proof.
    revert cfg. induction sched as [|e sched IH]; intros cfg H; [exact H|].
    cbn [run fold_left]. apply IH. apply step_sub. exact H.
  Qed.

  Lemma init_sub m0 : Sub (init m0 progs).
  Proof. split; [intros c o [] | intros c o H; exact H]. Qed.
End Sub.

(* ---- the pair under one-at-a-time application ---- *)
Lemma installed_pair m r wn o :
  r <> wn -> is_cws r wn o = true -> pair_of (effect m o) r wn = installed o.
Proof.
  intros Hne H. destruct o; try discriminate. cbn [is_cws] in H.
  apply andb_true_iff in H as [H1 H2]. apply N.eqb_eq in H1. apply N.eqb_eq in H2. subst.
  cbn [effect installed]. unfold pair_of.
  rewrite get_set_same. rewrite get_set_other by exact Hne. rewrite get_set_same. reflexivity.
Qed.

Lemma replay_pair w m0 r wn log :
  r <> wn ->
  (forall c o, In (c, o) log -> touches o r = true \/ touches o wn = true -> is_cws r wn o = true) ->
  pair_from m0 log r wn (pair_of (replay w m0 log) r wn).
Proof.
  intros Hne. induction log as [|[c o] log IH] using rev_ind; intros Hall.
  - left. reflexivity.
  - rewrite replay_snoc.
    assert (IH' : pair_from m0 log r wn (pair_of (replay w m0 log) r wn)).
    { apply IH. intros c' o' Hin. apply (Hall c'). apply in_or_app. left. exact Hin. }
    assert (Hmono : forall p, pair_from m0 log r wn p -> pair_from m0 (log ++ [(c, o)]) r wn p).
    { intros p [Hp | [c' [o' [Hin Hp]]]]; [left; exact Hp|].
      right. exists c', o'. split; [apply in_or_app; left; exact Hin | exact Hp]. }
    unfold apply_op. destruct (guard w (replay w m0 log) o) eqn:Hg; cbn [fst]; try (apply Hmono; exact IH').
    destruct (is_cws r wn o) eqn:Hc.
    + right. exists c, o. split; [apply in_or_app; right; left; reflexivity|].
      split; [exact Hc | apply installed_pair; assumption].
    + destruct (touches o r) eqn:T1.
      { rewrite (Hall c) in Hc; [discriminate | apply in_or_app; right; left; reflexivity | left; exact T1]. }
      destruct (touches o wn) eqn:T2.
      { rewrite (Hall c) in Hc; [discriminate | apply in_or_app; right; left; reflexivity | right; exact T2]. }
      apply Hmono. unfold pair_of. rewrite !effect_frame by assumption. exact IH'.
Qed.

(* Headline: for every interleaving with other writers and every crash point, the
   (head, working set) pair of a branch that is only written through
   CommitWithWorkingSet is the initial pair or the pair installed by ONE successful
   call — never the head of one call and the working set of another, and a failed
   call changes neither. *)
Theorem pair_atomic :
  forall (w : world) (m0 : refs) (progs : cid -> list op) (sched : list (cid * label)) (r wn : name),
    r <> wn -> only_cws r wn progs ->
    forall k : nat,
      let cfg := run w (firstn k sched) (init m0 progs) in
      pair_from m0 (g_log cfg) r wn (pair_of (crash_image w sched k (init m0 progs)) r wn).
Proof.
  intros w m0 progs sched r wn Hne Honly k cfg. unfold crash_image. fold cfg.
  destruct (update_linearizable w m0 progs (firstn k sched)) as [Hrefs _].
  fold cfg in Hrefs. cbn zeta in Hrefs. rewrite Hrefs. fold (replay w m0 (g_log cfg)).
  apply replay_pair; [exact Hne|].
  intros c o Hin Ht. apply (Honly c); [|exact Ht].
  destruct (run_sub w progs (firstn k sched) _ (init_sub progs m0)) as [H1 _].
  apply H1. exact Hin.
Qed.

(* Without any restriction on the other writers: every step of every schedule leaves the
   root unchanged or replaces it by the effect of exactly one operation whose condition
   held; for CommitWithWorkingSet that effect sets the head and the working set at once. *)
Lemma firstn_S_nth {A} (l : list A) k :
  firstn (S k) l = firstn k l ++ match nth_error l k with Some x => [x] | None => [] end.
Proof.
  revert k. induction l as [|a l IH]; intros [|k]; cbn; try reflexivity.
  f_equal. apply IH.
Qed.

Theorem root_changes_by_one_op :
  forall (w : world) (m0 : refs) (progs : cid -> list op) (sched : list (cid * label)) (k : nat),
    let a := crash_image w sched k (init m0 progs) in
    let b := crash_image w sched (S k) (init m0 progs) in
    b = a \/ exists o, guard w a o = ROk /\ b = effect a o.
Proof.
  intros w m0 progs sched k a b. subst a b. unfold crash_image.
  rewrite firstn_S_nth. unfold run. rewrite fold_left_app.
  fold (run w (firstn k sched) (init m0 progs)).
  set (cfg := run w (firstn k sched) (init m0 progs)).
  destruct (nth_error sched k) as [e|]; [|left; reflexivity].
  cbn [fold_left].
  destruct (step_log w cfg e) as [[_ Hr] | [c [o [Hl _]]]]; [left; exact Hr|].
  right. exists o.
  assert (HI0 : Inv w m0 cfg) by (apply run_inv; apply init_inv).
  assert (HI : Inv w m0 (step w cfg e)) by (apply step_inv; exact HI0).
  destruct HI as [Hrefs [Hok _]]. destruct HI0 as [Hrefs0 _].
  assert (Hg : guard w (g_refs cfg) o = ROk).
  { rewrite Hrefs0. apply (Hok (g_log cfg) c o []). exact Hl. }
  split; [exact Hg|].
  rewrite Hrefs, Hl, replay_snoc, <- Hrefs0. unfold apply_op. rewrite Hg. reflexivity.
Qed.

Corollary cws_sets_both :
  forall m r wn exp prevws new newws force,
    r <> wn ->
    pair_of (effect m (OCommitWS r wn exp prevws new newws force)) r wn = (new, newws).
Proof.
  intros. apply (installed_pair m r wn (OCommitWS r wn exp prevws new newws force)); [assumption|].
  cbn [is_cws]. rewrite !N.eqb_refl. reflexivity.
Qed.

(* non-vacuity: a CommitWithWorkingSet racing with a stale one; crash images at every prefix *)
Example ex_pairs :
  let w := {| w_parents := [(1, []); (2, [1]); (3, [1])]; w_root := []; w_ws := [] |} in
  let progs := fun c : cid => if c =? 0 then [OCommitWS 10 20 1 101 2 102 false]
                              else if c =? 1 then [OCommitWS 10 20 1 101 3 103 false] else [] in
  let sched := [(0, SBegin); (1, SBegin); (0, SAttempt); (1, SAttempt); (1, SCas); (0, SCas); (0, SAttempt)] in
  map (fun k => pair_of (crash_image w sched k (init [(10, 1); (20, 101)] progs)) 10 20) (seq 0 8)
  = [(1, 101); (1, 101); (1, 101); (1, 101); (1, 101); (3, 103); (3, 103); (3, 103)].
Proof. vm_compute. reflexivity. Qed.

(* ------------------------------------------------------------------ *)
(* The executable statement of the property (Corr.oracle) holds on the model's own
   observations of every sequential history. *)
From Dolt Require Import C20.Corr C21.Corr.

Lemma pair_eqb_refl p : pair_eqb p p = true.
Proof. unfold pair_eqb. rewrite !N.eqb_refl. reflexivity. Qed.

Lemma report_cws r wn e p n nw f g : report (OCommitWS r wn e p n nw f) g = g.
Proof. destruct g; reflexivity. Qed.

Lemma seq_walk_model w : forall acts cfg m hist,
  J acts cfg m hist ->
  seq_walk acts (snd (run_acts w acts cfg)) (roots_of w acts cfg) m = true.
Proof.
  induction acts as [|a t IH]; intros cfg m hist HJ; [reflexivity|].
  destruct a as [c|c o].
  - cbn [run_acts roots_of seq_walk]. destruct (rebase_summary w c t cfg m hist HJ) as [G HJ'].
    rewrite G, refs_eqb_refl. cbn [andb]. apply (IH _ m hist). exact HJ'.
  - cbn [run_acts roots_of].
    remember (run w (call_steps c) cfg) as cfg' eqn:Hcfg'.
    destruct (run_acts w t cfg') as [cf rs] eqn:R. cbn [fst snd seq_walk].
    destruct (call_summary w c o t cfg m hist HJ cfg' _ Hcfg' eq_refl) as [[T [G J']]|[T [G [E J']]]].
    + apply andb_true_iff in T as [T _]. rewrite T.
      pose proof (IH cfg' _ _ J') as IH'. rewrite R in IH'. cbn [snd] in IH'. rewrite G. rewrite IH', andb_true_r.
      destruct o; cbn [cws_names]; try reflexivity.
      destruct (r =? wn) eqn:En; [reflexivity|]. apply N.eqb_neq in En. cbn [orb].
      rewrite (installed_pair m r wn _ En); [apply pair_eqb_refl|]. cbn [is_cws]. rewrite !N.eqb_refl. reflexivity.
    + pose proof (IH cfg' _ _ J') as IH'. rewrite R in IH'. cbn [snd] in IH'. rewrite G, IH', andb_true_r.
      destruct (result_eqb (last_res (c_done (g_clients cfg' c))) ROk) eqn:Er; [|apply refs_eqb_refl].
      apply result_eqb_eq in Er. rewrite Er in E.
      destruct o; cbn [cws_names]; try reflexivity.
      rewrite seq_explained_not_ok in E; [discriminate|]. intros g. apply report_cws.
Qed.

Lemma pair_in_app_l p a b : pair_in p a = true -> pair_in p (a ++ b) = true.
Proof. unfold pair_in. rewrite existsb_app. intros ->. reflexivity. Qed.

Lemma pair_in_app_r p a b : pair_in p b = true -> pair_in p (a ++ b) = true.
Proof. unfold pair_in. rewrite existsb_app. intros ->. apply orb_true_r. Qed.

Lemma pairs_model w r wn : r <> wn -> forall acts cfg m hist allowed,
  J acts cfg m hist ->
  only_cws_b r wn (ops_of acts) = true ->
  pair_in (pair_of m r wn) allowed = true ->
  let all := allowed ++ installed_ok r wn (ops_of acts) (snd (run_acts w acts cfg)) in
  forallb (fun x => pair_in (pair_of x r wn) all) (roots_of w acts cfg) = true
  /\ pair_in (pair_of (g_refs (fst (run_acts w acts cfg))) r wn) all = true.
Proof.
  intros Hne. induction acts as [|a t IH]; intros cfg m hist allowed HJ Honly Hin; cbn zeta.
  - cbn. rewrite app_nil_r. destruct HJ as [Hm _]. rewrite Hm. auto.
  - destruct a as [c|c o].
    + cbn [run_acts roots_of ops_of forallb]. destruct (rebase_summary w c t cfg m hist HJ) as [G HJ'].
      destruct (IH _ m hist allowed HJ' Honly Hin) as [I1 I2]. rewrite G.
      rewrite I1, I2, andb_true_r. split; [|reflexivity]. apply pair_in_app_l. exact Hin.
    + cbn [run_acts roots_of ops_of forallb].
      remember (run w (call_steps c) cfg) as cfg' eqn:Hcfg'.
      destruct (run_acts w t cfg') as [cf rs] eqn:R. cbn [fst snd installed_ok].
      cbn [only_cws_b ops_of forallb] in Honly. apply andb_true_iff in Honly as [Ho Honly].
      set (piece := if is_cws r wn o && result_eqb (last_res (c_done (g_clients cfg' c))) ROk then [installed o] else []).
      assert (Hnext : pair_in (pair_of (g_refs cfg') r wn) (allowed ++ piece) = true
                      /\ exists m' hist', J t cfg' m' hist' /\ g_refs cfg' = m').
      { destruct (call_summary w c o t cfg m hist HJ cfg' _ Hcfg' eq_refl) as [[T [G J']]|[T [G [E J']]]].
        - split; [|eauto]. apply andb_true_iff in T as [T _]. rewrite G.
          destruct (is_cws r wn o) eqn:Ec.
          + apply pair_in_app_r. unfold piece. rewrite T. cbn [andb]. unfold pair_in. cbn [existsb].
            rewrite (installed_pair m r wn o Hne Ec), pair_eqb_refl. reflexivity.
          + apply pair_in_app_l. unfold pair_of.
            destruct (touches o r) eqn:T1; [rewrite ?Ec in Ho; cbn in Ho; discriminate|].
            destruct (touches o wn) eqn:T2; [rewrite ?Ec in Ho; cbn in Ho; discriminate|].
            rewrite !effect_frame by assumption. exact Hin.
        - split; [|eauto]. rewrite G. apply pair_in_app_l. exact Hin. }
      destruct Hnext as [Hp [m' [hist' [J' G']]]].
      rewrite <- G' in *.
      destruct (IH cfg' _ hist' (allowed ++ piece) J' Honly Hp) as [I1 I2].
      rewrite R in I1, I2. cbn [fst snd] in I1, I2. rewrite <- app_assoc in I1, I2.
      fold piece. rewrite I1, I2, andb_true_r. split; [|reflexivity].
      rewrite app_assoc. apply pair_in_app_l. exact Hp.
Qed.

Lemma pairs_ok_model (i : input) (r wn : name) :
  i_conc i = false -> pairs_ok i (model_obs i) r wn = true.
Proof.
  intros Hc. unfold pairs_ok.
  destruct (negb (r =? wn) && only_cws_b r wn (ops_of (i_acts i))) eqn:E; [|reflexivity].
  apply andb_true_iff in E as [E1 E2]. apply negb_true_iff in E1. apply N.eqb_neq in E1.
  unfold model_obs, C20.Corr.model_obs. rewrite Hc. cbn [o_base o_roots].
  pose proof (pairs_model (i_world i) r wn E1 (i_acts i) (init (i_m0 i) (progs_of (i_acts i))) (i_m0 i) []
                [pair_of (i_m0 i) r wn] (init_J _ _) E2) as H.
  destruct (run_acts (i_world i) (i_acts i) (init (i_m0 i) (progs_of (i_acts i)))) as [cfg rs].
  cbn [o_results o_final fst snd] in *.
  destruct H as [H1 H2]; [unfold pair_in; cbn [existsb]; rewrite pair_eqb_refl; reflexivity|].
  cbn [forallb]. cbn [app] in H1, H2. rewrite H1, H2. reflexivity.
Qed.

(* Excluded class: none for sequential histories (the registered finding needs two concurrent
   byte-identical calls); concurrent batches have no single model observation. *)
Theorem oracle_model_obs :
  forall i : input, i_conc i = false -> oracle i (model_obs i) = true.
Proof.
  intros i Hc. unfold oracle.
  rewrite !pairs_ok_model by exact Hc.
  assert (Hb : C20.Corr.oracle i (o_base (model_obs i)) = true).
  { unfold model_obs. cbn [o_base]. apply C20.Proofs.oracle_model_obs. exact Hc. }
  rewrite Hb, Hc. cbn [andb].
  unfold model_obs, C20.Corr.model_obs. rewrite Hc. cbn [o_base o_roots].
  pose proof (seq_walk_model (i_world i) (i_acts i) (init (i_m0 i) (progs_of (i_acts i))) (i_m0 i) [] (init_J _ _)) as H.
  destruct (run_acts (i_world i) (i_acts i) (init (i_m0 i) (progs_of (i_acts i)))) as [cfg rs].
  cbn [o_results snd] in *. exact H.
Qed.

(* ------------------------------------------------------------------ *)
(* Bridge to the byte-level crash theorems (C02 manifest rename / C03 journal recovery).
   Those theorems say: what recovery returns after a crash at ANY byte of the root write is
   the root written by a prefix of the sequence of root writes (C03_crash_recovery: the image
   parses as the longest fitting prefix of the records, the recovered root is its last root
   record; C02: the manifest is the old or the new file).  Root writes are the successful
   CASes, so "a prefix of the root writes" is [replay w m0 (firstn j log)].  The C03/C02
   statement enters here as the hypothesis [Hrec] (the two developments use byte-level
   models of their own and are not Required); with it, pair atomicity holds at every
   byte-level crash point, not only between steps. *)
Lemma In_firstn {A} (x : A) n l : In x (firstn n l) -> In x l.
Proof. intros H. rewrite <- (firstn_skipn n l). apply in_or_app. left. exact H. Qed.

Theorem crash_recovered_pair_atomic :
  forall (w : world) (m0 : refs) (progs : cid -> list op) (sched : list (cid * label)) (r wn : name),
    r <> wn -> only_cws r wn progs ->
    forall (k : nat) (recovered : refs),
      let cfg := run w (firstn k sched) (init m0 progs) in
      forall Hrec : exists j : nat, recovered = replay w m0 (firstn j (g_log cfg)),
      pair_from m0 (g_log cfg) r wn (pair_of recovered r wn).
Proof.
  intros w m0 progs sched r wn Hne Honly k recovered cfg [j Hj]. subst recovered.
  destruct (run_sub w progs (firstn k sched) _ (init_sub progs m0)) as [H1 _]. fold cfg in H1.
  assert (Hp : pair_from m0 (firstn j (g_log cfg)) r wn (pair_of (replay w m0 (firstn j (g_log cfg))) r wn)).
  { apply replay_pair; [exact Hne|]. intros c o Hin Ht. apply (Honly c); [|exact Ht].
    apply H1. eapply In_firstn. exact Hin. }
  destruct Hp as [Hp | [c [o [Hin Hp]]]]; [left; exact Hp|].
  right. exists c, o. split; [eapply In_firstn; exact Hin | exact Hp].
Qed.

(* the hypothesis is satisfiable: the root persisted at a step boundary is the replay of the whole log *)
Lemma crash_image_is_replay w m0 progs sched k :
  let cfg := run w (firstn k sched) (init m0 progs) in
  crash_image w sched k (init m0 progs) = replay w m0 (firstn (length (g_log cfg)) (g_log cfg)).
Proof.
  cbn zeta. rewrite firstn_all. unfold crash_image.
  destruct (update_linearizable w m0 progs (firstn k sched)) as [H _]. exact H.
Qed.
