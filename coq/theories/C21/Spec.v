(* C21 — statement: head and working set change together or not at all. *)
From Coq Require Import NArith List Bool.
From Dolt Require Import Base.Str C20.Model C20.Spec C21.Model.
Import ListNotations.
Local Open Scope N_scope.

(* every call that names the branch or its working set is a CommitWithWorkingSet on that pair *)
Definition only_cws (r wn : name) (progs : cid -> list op) : Prop :=
  forall c o, In o (progs c) -> touches o r = true \/ touches o wn = true -> is_cws r wn o = true.

(* the pair read from a root is the initial one or the pair installed by one successful call *)
Definition pair_from (m0 : refs) (log : list (cid * op)) (r wn : name) (p : addr * addr) : Prop :=
  p = pair_of m0 r wn
  \/ exists c o, In (c, o) log /\ is_cws r wn o = true /\ p = installed o.

(* boolean form for the oracle: [p] is the initial pair or one of the candidate pairs *)
Definition pair_eqb (a b : addr * addr) : bool := (fst a =? fst b) && (snd a =? snd b).
Definition pair_in (p : addr * addr) (l : list (addr * addr)) : bool := existsb (pair_eqb p) l.
