(* C21 — correspondence: C20's histories with, in addition, the persisted dataset map
   read back (fresh reader, one store root) after every action of a sequential history,
   or sampled repeatedly by a concurrent reader during a goroutine batch. *)
From Coq Require Import NArith List Bool.
From Dolt Require Import Base.Str C20.Model C20.Spec C20.Corr C21.Model C21.Spec.
Import ListNotations.
Local Open Scope N_scope.

Definition input := C20.Corr.input.

Record obs := {
  o_base : C20.Corr.obs;
  o_roots : list refs      (* seq: after every ARebase / AOp; conc: samples taken during the batch *)
}.

Definition case := (input * obs)%type.

Fixpoint roots_of (w : world) (acts : list action) (cfg : config) : list refs :=
  match acts with
  | [] => []
  | ARebase c :: t => let cfg' := step w cfg (c, SRebase) in g_refs cfg' :: roots_of w t cfg'
  | AOp c o :: t => let cfg' := run w (call_steps c) cfg in g_refs cfg' :: roots_of w t cfg'
  end.

Definition model_obs (i : input) : obs :=
  {| o_base := C20.Corr.model_obs i;
     o_roots := if i_conc i then []
                else roots_of (i_world i) (i_acts i) (init (i_m0 i) (progs_of (i_acts i))) |}.

Fixpoint roots_eqb (a b : list refs) : bool :=
  match a, b with
  | [], [] => true
  | x :: a', y :: b' => refs_eqb x y && roots_eqb a' b'
  | _, _ => false
  end.

(* ---- the property on the implementation's observation ---- *)
Definition cws_names (o : op) : option (name * name) :=
  match o with OCommitWS r wn _ _ _ _ _ => Some (r, wn) | _ => None end.

Definition only_cws_b (r wn : name) (ops : list op) : bool :=
  forallb (fun o => implb (touches o r || touches o wn) (is_cws r wn o)) ops.

(* pairs installed by the CommitWithWorkingSet calls on (r, wn) that reported success *)
Fixpoint installed_ok (r wn : name) (ops : list op) (res : list result) : list (addr * addr) :=
  match ops, res with
  | o :: ops', x :: res' =>
    (if is_cws r wn o && result_eqb x ROk then [installed o] else []) ++ installed_ok r wn ops' res'
  | _, _ => []
  end.

Definition pairs_ok (i : input) (o : obs) (r wn : name) : bool :=
  let ops := ops_of (i_acts i) in
  if negb (r =? wn) && only_cws_b r wn ops then
    let allowed := pair_of (i_m0 i) r wn :: installed_ok r wn ops (o_results (o_base o)) in
    forallb (fun m => pair_in (pair_of m r wn) allowed) (o_final (o_base o) :: o_roots o)
  else true.

(* sequential histories: a call that did not report success changes nothing; a successful
   CommitWithWorkingSet leaves exactly its (head, working set) in the root read right after it *)
Fixpoint seq_walk (acts : list action) (res : list result) (roots : list refs) (prev : refs) : bool :=
  match acts with
  | [] => true
  | ARebase _ :: t =>
    match roots with
    | rt :: roots' => refs_eqb rt prev && seq_walk t res roots' rt
    | [] => false
    end
  | AOp _ o :: t =>
    match res, roots with
    | x :: res', rt :: roots' =>
      (if result_eqb x ROk
       then match cws_names o with
            | Some (r, wn) => (r =? wn) || pair_eqb (pair_of rt r wn) (installed o)
            | None => true
            end
       else refs_eqb rt prev)
      && seq_walk t res' roots' rt
    | _, _ => false
    end
  end.

Definition oracle (i : input) (o : obs) : bool :=
  C20.Corr.oracle i (o_base o)
  && pairs_ok i o 10 20 && pairs_ok i o 11 21
  && (if i_conc i then true else seq_walk (i_acts i) (o_results (o_base o)) (o_roots o) (i_m0 i)).

Definition agrees (i : input) (o : obs) : bool :=
  if i_conc i then oracle i o
  else C20.Corr.obs_eqb (C20.Corr.model_obs i) (o_base o) && roots_eqb (o_roots (model_obs i)) (o_roots o).

Definition check_case (c : case) : N :=
  (if agrees (fst c) (snd c) then 0 else 1)
  + (if oracle (fst c) (snd c) then 0 else 2).
