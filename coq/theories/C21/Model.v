(* C21 — CommitWithWorkingSet: the model is C20's machine (database.update with the
   CommitWithWorkingSet closure: ONE map edit — Update(head) and Update(working set) on
   the same AddressMap editor — followed by ONE root compare-and-swap;
   go/store/datas/database_common.go:749-835) plus crash points: the persisted store
   root is a single word replaced by the CAS (C02), so stopping the system after any
   step leaves the root of that prefix of the schedule.  No proofs here. *)
From Coq Require Import NArith List Bool.
From Dolt Require Import Base.Str C20.Model.
Import ListNotations.
Local Open Scope N_scope.

(* the persisted root after a crash that stops the system after k steps of the schedule *)
Definition crash_image (w : world) (sched : list (cid * label)) (k : nat) (cfg0 : config) : refs :=
  g_refs (run w (firstn k sched) cfg0).

(* (branch head, working set) as read from one store root *)
Definition pair_of (m : refs) (r wn : name) : addr * addr := (get m r, get m wn).

Definition is_cws (r wn : name) (o : op) : bool :=
  match o with
  | OCommitWS r' wn' _ _ _ _ _ => (r' =? r) && (wn' =? wn)
  | _ => false
  end.

Definition installed (o : op) : addr * addr :=
  match o with
  | OCommitWS _ _ _ _ new newws _ => (new, newws)
  | _ => (0, 0)
  end.
