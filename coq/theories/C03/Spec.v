(* C03 — what recovery must show, stated from the list of records that were written,
   independently of the scanning algorithm. *)
From Coq Require Import NArith List Bool.
From Dolt Require Import Base.Str C03.Model.
Import ListNotations.
Local Open Scope N_scope.

Definition total_len (rs : list wrec) : N := fold_right (fun r n => wrec_len r + n) 0 rs.

(* the longest prefix of whole records that fits in k bytes *)
Fixpoint fit_prefix (rs : list wrec) (k : N) : list wrec :=
  match rs with
  | [] => []
  | r :: rs' => if wrec_len r <=? k then r :: fit_prefix rs' (k - wrec_len r) else []
  end.

(* number of records that fit *)
Fixpoint fit_count (rs : list wrec) (k : N) : nat :=
  match rs with
  | [] => O
  | r :: rs' => if wrec_len r <=? k then S (fit_count rs' (k - wrec_len r)) else O
  end.

Definition is_boundary (rs : list wrec) (k : N) : bool := total_len (fit_prefix rs k) =? k.

(* root of the last root record (the zero hash when there is none) *)
Definition last_root (rs : list wrec) : bytes :=
  fold_left (fun acc r => match r with WRoot _ a => a | WChunk _ _ => acc end) rs zero_hash.

(* chunk address -> (payload offset, payload length), most recent record first *)
Fixpoint spec_ranges (off : N) (rs : list wrec) (acc : rmap) : rmap :=
  match rs with
  | [] => acc
  | WChunk a p :: rs' => spec_ranges (off + chunk_rec_len (lenN p)) rs' ((a, (off + chunk_payload_off, lenN p)) :: acc)
  | WRoot _ _ :: rs' => spec_ranges (off + root_rec_len) rs' acc
  end.

(* payload of the most recent chunk record with address h *)
Definition spec_payload (rs : list wrec) (h : bytes) : option bytes :=
  fold_left (fun acc r => match r with WChunk a p => if beq_bytes a h then Some p else acc | WRoot _ _ => acc end) rs None.

(* index of the record that contains byte position p *)
Fixpoint rec_index_at (rs : list wrec) (p : N) : nat :=
  match rs with
  | [] => O
  | r :: rs' => if p <? wrec_len r then O else S (rec_index_at rs' (p - wrec_len r))
  end.

(* possibleDataLossCheck's criterion on a list of intact records: a root record followed by another record *)
Fixpoint root_then_another (rs : list wrec) : bool :=
  match rs with
  | WRoot _ _ :: _ :: _ => true
  | _ :: rs' => root_then_another rs'
  | [] => false
  end.

(* damage applied to the journal file after the history *)
Inductive mut :=
| MTrunc (k : N)                                   (* keep the first k bytes *)
| MZero (k n : N)                                  (* first k bytes, then n zero bytes *)
| MTail (k : N) (garbage : bytes) (recs : list wrec)   (* first k bytes, garbage, then intact records *)
| MXor (p : N) (masks : bytes)                     (* bytes p.. xor-ed with non-zero masks *)
| MCrash (i : nat) (k : N).                        (* power loss after op number i returned: k bytes of the file survive
                                                      (k between the fsync'ed and the written length observed then) *)

Inductive expect :=
| ESilent (rs : list wrec)      (* opens without error and shows exactly the recovery of rs *)
| EDataLoss.                    (* refuses with ErrJournalDataLoss, file untouched *)

(* The property: a torn / zero-filled / garbage tail is discarded silently and recovery shows the
   longest prefix of whole records; damage followed by a later intact root record and a further
   intact record is reported.  (Garbage is assumed not to validate — CRC detection.) *)
Definition expected (rs : list wrec) (m : mut) : expect :=
  match m with
  | MTrunc k => ESilent (fit_prefix rs k)
  | MZero k _ => ESilent (fit_prefix rs k)
  | MCrash _ k => ESilent (fit_prefix rs k)
  | MTail k g recs =>
    if match g with [] => is_boundary rs k | _ => false end then ESilent (fit_prefix rs k ++ recs)
    else if root_then_another recs then EDataLoss
    else ESilent (fit_prefix rs k)
  | MXor p masks =>
    match masks with
    | [] => ESilent rs
    | _ =>
      if total_len rs <=? p then ESilent rs
      else
        let i := rec_index_at rs p in
        let j := rec_index_at rs (N.min (p + lenN masks) (total_len rs) - 1) in
        if root_then_another (skipn (S j) rs) then EDataLoss else ESilent (firstn i rs)
    end
  end.


(* ---- vocabulary of the theorems ---- *)

(* a record the writer can produce: 20-byte address, fits the writer's buffer and the uint32 length field *)
Definition wf_rec (bufsz : N) (r : wrec) : Prop :=
  match r with
  | WChunk a p => lenN a = 20 /\ chunk_rec_len (lenN p) <= bufsz /\ chunk_rec_len (lenN p) < 4294967296
  | WRoot ts a => lenN a = 20 /\ root_rec_len <= bufsz /\ ts < 18446744073709551616
  end.

(* what readJournalRecord must return for a written record *)
Definition prec_of (r : wrec) : prec :=
  match r with
  | WChunk a p => {| p_len := chunk_rec_len (lenN p); p_kind := kind_chunk; p_addr := a; p_payload := p; p_ts := 0 |}
  | WRoot ts a => {| p_len := root_rec_len; p_kind := kind_root; p_addr := a; p_payload := []; p_ts := ts |}
  end.

(* the records with their file offsets *)
Fixpoint items_of (off : N) (rs : list wrec) : list (N * prec) :=
  match rs with
  | [] => []
  | r :: rs' => (off, prec_of r) :: items_of (off + wrec_len r) rs'
  end.

(* "no complete CRC-valid record image starts anywhere in t": the F10 hypothesis on a torn tail *)
Definition no_valid_window (crc : bytes -> N) (t : bytes) : Prop :=
  forall (i : nat) cand rest, splitN (rd32 (skipn i t)) (skipn i t) = Some (cand, rest) -> validate crc cand = false.

(* ---- vocabulary of the crash theorems ---- *)

(* an operation the callers can issue: 20-byte addresses, uint64 timestamps *)
Definition op_ok (o : op) : Prop :=
  match o with
  | OChunk a _ ts => lenN a = 20 /\ ts < 18446744073709551616
  | OCommit ts root => lenN root = 20 /\ ts < 18446744073709551616
  end.

(* the roots of the root records of a list of records *)
Definition roots_of (rs : list wrec) : list bytes :=
  concat (map (fun r => match r with WRoot _ a => [a] | WChunk _ _ => [] end) rs).

(* the range table recovery must show for the records rs (before any flatten) *)
Definition spec_table (rs : list wrec) : ranges := {| novel := spec_ranges 0 rs []; cached := [] |}.

(* ---- the journal index stream the writer produces ---- *)

(* the lookups of an index stream, in order *)
Definition ilookups (l : list irec) : list (bytes * N * N) :=
  concat (map (fun r => match r with ILookup a o n => [(a, o, n)] | IMeta _ _ _ => [] end) l).

(* the lookups the chunk records of a journal are entitled to: (address prefix, payload offset, payload length) *)
Fixpoint rlookups (off : N) (rs : list wrec) : list (bytes * N * N) :=
  match rs with
  | [] => []
  | WChunk a p :: rs' => (addr16 a, off + chunk_payload_off, lenN p) :: rlookups (off + chunk_rec_len (lenN p)) rs'
  | WRoot _ _ :: rs' => rlookups (off + root_rec_len) rs'
  end.

(* every meta record of the stream: its end is the offset of a root record holding the meta's root, and the
   lookups written before the meta are exactly those of the chunk records below that offset *)
Definition metas_ok (idx : list irec) (recs : list wrec) : Prop :=
  forall pre st e r post, idx = pre ++ IMeta st e r :: post ->
    exists before ts after, recs = before ++ WRoot ts r :: after /\ e = total_len before /\ ilookups pre = rlookups 0 before.
