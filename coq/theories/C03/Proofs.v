(* C03 — proofs. *)
From Coq Require Import NArith Arith List Bool Lia ZifyN ZifyNat ZifyBool.
From Dolt Require Import Base.Str Gen.C03Consts C03.Model C03.Spec.
Import ListNotations.
Local Open Scope N_scope.

(* ---- the hand-written layout is the regenerated one ---- *)
Lemma layout_pinned :
  tag_kind = kind_journal_rec_tag /\ tag_addr = addr_journal_rec_tag /\ tag_payload = payload_journal_rec_tag
  /\ tag_ts = timestamp_journal_rec_tag /\ kind_root = root_hash_journal_rec_kind /\ kind_chunk = chunk_journal_rec_kind
  /\ addr_sz = journal_rec_addr_sz /\ cksum_sz = journal_rec_checksum_sz
  /\ chunk_payload_off = journal_rec_len_sz + (journal_rec_tag_sz + journal_rec_kind_sz) + (journal_rec_tag_sz + journal_rec_addr_sz) + journal_rec_tag_sz
  /\ (forall n, chunk_rec_len n = chunk_payload_off + n + journal_rec_checksum_sz)
  /\ root_rec_len = journal_rec_len_sz + (journal_rec_tag_sz + journal_rec_kind_sz) + (journal_rec_tag_sz + journal_rec_addr_sz)
                    + (journal_rec_tag_sz + journal_rec_timestamp_sz) + journal_rec_checksum_sz
  /\ journal_rec_len_sz = uint32_size
  /\ root_rec_len = root_hash_record_size.
Proof. repeat split; reflexivity. Qed.

(* ------------------------------------------------------------------ *)
(* lists and fixed-width integers *)

Lemma lenN_nil : lenN [] = 0. Proof. reflexivity. Qed.
Lemma lenN_cons x l : lenN (x :: l) = 1 + lenN l.
Proof. unfold lenN. cbn [length]. lia. Qed.
Lemma lenN_app a b : lenN (a ++ b) = lenN a + lenN b.
Proof. unfold lenN. rewrite app_length. lia. Qed.

Lemma splitN_app a b : splitN (lenN a) (a ++ b) = Some (a, b).
Proof.
  induction a as [|x a IH]; cbn [app].
  - rewrite lenN_nil. destruct b; reflexivity.
  - cbn [splitN]. rewrite lenN_cons.
    destruct (1 + lenN a =? 0) eqn:E; [apply N.eqb_eq in E; lia|].
    replace (N.pred (1 + lenN a)) with (lenN a) by lia. rewrite IH. reflexivity.
Qed.

Lemma splitN_some n l a b : splitN n l = Some (a, b) -> l = a ++ b /\ lenN a = n.
Proof.
  revert n a b. induction l as [|x l IH]; intros n a b H; cbn [splitN] in H.
  - destruct (n =? 0) eqn:E; [|discriminate]. inversion H; subst. apply N.eqb_eq in E. split; [reflexivity|rewrite lenN_nil; lia].
  - destruct (n =? 0) eqn:E.
    + inversion H; subst. apply N.eqb_eq in E. split; [reflexivity|rewrite lenN_nil; lia].
    + destruct (splitN (N.pred n) l) as [[a' b']|] eqn:S; [|discriminate]. inversion H; subst.
      apply IH in S as [-> L]. apply N.eqb_neq in E. split; [reflexivity|]. rewrite lenN_cons. lia.
Qed.

Lemma splitN_none n l : lenN l < n -> splitN n l = None.
Proof.
  revert n. induction l as [|x l IH]; intros n H; cbn [splitN].
  - rewrite lenN_nil in H. destruct (n =? 0) eqn:E; [apply N.eqb_eq in E; lia|reflexivity].
  - rewrite lenN_cons in H. destruct (n =? 0) eqn:E; [apply N.eqb_eq in E; lia|].
    rewrite IH by lia. reflexivity.
Qed.

Lemma splitN_ge n l : n <= lenN l -> exists a b, splitN n l = Some (a, b).
Proof.
  revert n. induction l as [|x l IH]; intros n H; cbn [splitN].
  - rewrite lenN_nil in H. destruct (n =? 0) eqn:E; [eauto|apply N.eqb_neq in E; lia].
  - rewrite lenN_cons in H. destruct (n =? 0) eqn:E; [eauto|]. apply N.eqb_neq in E.
    destruct (IH (N.pred n)) as [a [b ->]]; [lia|eauto].
Qed.

Lemma be32_len n : lenN (be32 n) = 4. Proof. reflexivity. Qed.
Lemma be64_len n : lenN (be64 n) = 8. Proof. reflexivity. Qed.

Lemma rd32_be32 n r : n < 4294967296 -> rd32 (be32 n ++ r) = n.
Proof.
  intros H. unfold be32, rd32. cbn [app].
  assert (E2 : n / 65536 = n / 256 / 256) by (rewrite N.div_div by lia; reflexivity).
  assert (E3 : n / 16777216 = n / 256 / 256 / 256) by (rewrite !N.div_div by lia; reflexivity).
  rewrite E2, E3.
  assert (Q3 : n / 256 / 256 / 256 < 256) by (rewrite !N.div_div by lia; apply N.div_lt_upper_bound; lia).
  set (q1 := n / 256) in *. set (q2 := q1 / 256) in *. set (q3 := q2 / 256) in *.
  pose proof (N.div_mod n 256 ltac:(lia)) as D0. fold q1 in D0.
  pose proof (N.div_mod q1 256 ltac:(lia)) as D1. fold q2 in D1.
  pose proof (N.div_mod q2 256 ltac:(lia)) as D2. fold q3 in D2.
  pose proof (N.mod_lt n 256 ltac:(lia)) as L0.
  pose proof (N.mod_lt q1 256 ltac:(lia)) as L1.
  pose proof (N.mod_lt q2 256 ltac:(lia)) as L2.
  rewrite (N.mod_small q3 256) by lia. lia.
Qed.

Lemma rd32_firstn4 a b c d r : rd32 (a :: b :: c :: d :: r) = rd32 [a; b; c; d].
Proof. reflexivity. Qed.

Lemma rd64_be64 n r : n < 18446744073709551616 -> rd64 (be64 n ++ r) = n.
Proof.
  intros H. unfold be64.
  assert (A : n / 4294967296 < 4294967296) by (apply N.div_lt_upper_bound; lia).
  assert (B : n mod 4294967296 < 4294967296) by (apply N.mod_lt; lia).
  pose proof (rd32_be32 (n / 4294967296) [] A) as E1. rewrite app_nil_r in E1.
  pose proof (rd32_be32 (n mod 4294967296) r B) as E2.
  unfold rd64. unfold be32 at 1. cbn [app]. unfold be32 in E1 at 1. rewrite E1.
  cbn [app] in E2. rewrite E2.
  pose proof (N.div_mod n 4294967296 ltac:(lia)). lia.
Qed.

(* ------------------------------------------------------------------ *)
Ltac len_simpl := repeat (rewrite ?lenN_cons, ?lenN_app, ?lenN_nil, ?be32_len, ?be64_len).

Lemma leb4_false l : 4 < lenN l -> (lenN l <=? 4) = false.
Proof. intros. apply N.leb_gt. assumption. Qed.
Lemma leb4_true l : lenN l <= 4 -> (lenN l <=? 4) = true.
Proof. intros. apply N.leb_le. assumption. Qed.

Section Records.
  Variable crc : bytes -> N.
  Variable bufsz : N.
  Hypothesis crc_range : forall b, crc b < 4294967296.

  Definition body_tail (r : wrec) : bytes :=
    match r with
    | WChunk a p => [1; 2; 2] ++ a ++ [3] ++ p
    | WRoot ts a => [1; 1; 4] ++ be64 ts ++ [2] ++ a
    end.
  Definition body (r : wrec) : bytes := be32 (wrec_len r) ++ body_tail r.

  Lemma enc_eq r : enc crc r = body r ++ be32 (crc (body r)).
  Proof. destruct r; reflexivity. Qed.

  Lemma enc_eq' r : enc crc r = be32 (wrec_len r) ++ (body_tail r ++ be32 (crc (body r))).
  Proof. rewrite enc_eq. unfold body. rewrite <- app_assoc. reflexivity. Qed.

  Lemma body_tail_len r : wf_rec bufsz r -> 4 + lenN (body_tail r) + 4 = wrec_len r.
  Proof.
    destruct r as [a p|ts a]; intros W; cbn [wf_rec] in W; destruct W as [La _]; cbn [body_tail wrec_len];
      len_simpl; unfold chunk_rec_len, chunk_payload_off, root_rec_len; lia.
  Qed.

  Lemma wrec_len_ge r : 32 <= wrec_len r.
  Proof. destruct r; cbn [wrec_len]; unfold chunk_rec_len, chunk_payload_off, root_rec_len; lia. Qed.

  Lemma wf_len_bound r : wf_rec bufsz r -> wrec_len r <= bufsz /\ wrec_len r < 4294967296.
  Proof.
    destruct r as [a p|ts a]; intros W; cbn [wf_rec] in W; cbn [wrec_len]; [lia|].
    destruct W as [_ [W _]]. split; [exact W|]. unfold root_rec_len. lia.
  Qed.

  Lemma body_len r : wf_rec bufsz r -> lenN (body r) = wrec_len r - 4.
  Proof. intros W. unfold body. len_simpl. pose proof (body_tail_len r W). lia. Qed.

  Lemma enc_len r : wf_rec bufsz r -> lenN (enc crc r) = wrec_len r.
  Proof. intros W. rewrite enc_eq. len_simpl. rewrite (body_len r W). pose proof (wrec_len_ge r). lia. Qed.

  Lemma rd32_enc r x : wf_rec bufsz r -> rd32 (enc crc r ++ x) = wrec_len r.
  Proof. intros W. rewrite enc_eq'. rewrite <- app_assoc. apply rd32_be32. apply (wf_len_bound r W). Qed.

  Lemma validate_enc r : wf_rec bufsz r -> validate crc (enc crc r) = true.
  Proof.
    intros W. unfold validate. pose proof (enc_len r W) as L. pose proof (wrec_len_ge r) as G.
    pose proof (rd32_enc r [] W) as R. rewrite app_nil_r in R.
    rewrite L, R.
    destruct (wrec_len r <? 8) eqn:E1; [apply N.ltb_lt in E1; lia|].
    destruct (wrec_len r <? wrec_len r) eqn:E2; [apply N.ltb_lt in E2; lia|].
    destruct (wrec_len r <? 4) eqn:E3; [apply N.ltb_lt in E3; lia|].
    rewrite enc_eq. rewrite <- (body_len r W). rewrite splitN_app.
    pose proof (rd32_be32 (crc (body r)) [] (crc_range _)) as C. rewrite app_nil_r in C. rewrite C.
    apply N.eqb_refl.
  Qed.

  Lemma read_fields_S f buf r :
    read_fields (S f) buf r =
      if lenN buf <=? 4 then (if lenN buf <? 4 then RErrTag else ROk r)
      else match buf with
           | [] => RBad
           | tag :: b1 =>
             if tag =? tag_kind then
               match b1 with
               | k :: b2 => read_fields f b2 {| p_len := p_len r; p_kind := k; p_addr := p_addr r; p_payload := p_payload r; p_ts := p_ts r |}
               | [] => RErrTag
               end
             else if tag =? tag_addr then
               match splitN 20 b1 with
               | Some (a, b2) => read_fields f b2 {| p_len := p_len r; p_kind := p_kind r; p_addr := a; p_payload := p_payload r; p_ts := p_ts r |}
               | None => RErrTag
               end
             else if tag =? tag_ts then
               match splitN 8 b1 with
               | Some (t, b2) => read_fields f b2 {| p_len := p_len r; p_kind := p_kind r; p_addr := p_addr r; p_payload := p_payload r; p_ts := rd64 t |}
               | None => RErrTag
               end
             else if tag =? tag_payload then
               match splitN (lenN b1 - 4) b1 with
               | Some (p, b2) => read_fields f b2 {| p_len := p_len r; p_kind := p_kind r; p_addr := p_addr r; p_payload := p; p_ts := p_ts r |}
               | None => RBad
               end
             else RErrTag
           end.
  Proof. reflexivity. Qed.

  Lemma read_rec_enc r : wf_rec bufsz r -> read_rec (enc crc r) = ROk (prec_of r).
  Proof.
    intros W. unfold read_rec. pose proof (rd32_enc r [] W) as R. rewrite app_nil_r in R. rewrite R.
    rewrite enc_eq'. change 4 with (lenN (be32 (wrec_len r))). rewrite splitN_app.
    set (c := be32 (crc (body r))).
    assert (Lc : lenN c = 4) by reflexivity.
    destruct r as [a p|ts a]; cbn [wf_rec] in W; destruct W as [La W]; cbn [body_tail wrec_len prec_of].
    - (* chunk: kind, addr, payload *)
      assert (SA : forall x, splitN 20 (a ++ x) = Some (a, x)) by (intro x; rewrite <- La; apply splitN_app).
      cbn [app length]. unfold prec0.
      rewrite read_fields_S. rewrite leb4_false by (len_simpl; lia).
      change (1 =? tag_kind) with true. cbn iota.
      rewrite read_fields_S. rewrite leb4_false by (len_simpl; lia).
      change (2 =? tag_kind) with false. change (2 =? tag_addr) with true. cbn iota.
      rewrite <- app_assoc. rewrite SA. cbn [app].
      rewrite read_fields_S. rewrite leb4_false by (len_simpl; lia).
      change (3 =? tag_kind) with false. change (3 =? tag_addr) with false. change (3 =? tag_ts) with false.
      change (3 =? tag_payload) with true. cbn iota.
      replace (lenN (p ++ c) - 4) with (lenN p) by (len_simpl; lia). rewrite splitN_app.
      rewrite read_fields_S. rewrite leb4_true by lia. rewrite Lc. change (4 <? 4) with false. cbv iota. cbn [p_len p_kind p_addr p_payload p_ts]. reflexivity.
    - (* root: kind, timestamp, addr *)
      destruct W as [_ Wts].
      assert (SA : forall x, splitN 20 (a ++ x) = Some (a, x)) by (intro x; rewrite <- La; apply splitN_app).
      assert (SB : forall x, splitN 8 (be64 ts ++ x) = Some (be64 ts, x)) by (intro x; exact (splitN_app (be64 ts) x)).
      cbn [app length]. unfold prec0.
      rewrite read_fields_S. rewrite leb4_false by (len_simpl; lia).
      change (1 =? tag_kind) with true. cbn iota.
      rewrite read_fields_S. rewrite leb4_false by (len_simpl; lia).
      change (4 =? tag_kind) with false. change (4 =? tag_addr) with false. change (4 =? tag_ts) with true. cbn iota.
      rewrite <- app_assoc. rewrite SB.
      pose proof (rd64_be64 ts [] Wts) as T. rewrite app_nil_r in T. rewrite T. cbn [app].
      rewrite read_fields_S. rewrite leb4_false by (len_simpl; lia).
      change (2 =? tag_kind) with false. change (2 =? tag_addr) with true. cbn iota.
      rewrite SA.
      rewrite read_fields_S. rewrite leb4_true by lia. rewrite Lc. change (4 <? 4) with false. cbv iota. cbn [p_len p_kind p_addr p_payload p_ts]. reflexivity.
  Qed.
End Records.

(* ------------------------------------------------------------------ *)
(* the recovery scan on every prefix of a journal *)
Section ScanProofs.
  Variable crc : bytes -> N.
  Variable bufsz : N.
  Hypothesis crc_range : forall b, crc b < 4294967296.
  Variable cbok : prec -> bool.
  Hypothesis cbok_wf : forall r, wf_rec bufsz r -> cbok (prec_of r) = true.

  Lemma scan_fuel_S f off bs :
    scan_fuel crc bufsz cbok (S f) off bs =
      match splitN 4 bs with
      | None => ([], off, StEOF, bs)
      | Some _ =>
        let l := rd32 bs in
        if l =? 0 then ([], off, StRecovered, bs)
        else if bufsz <? l then ([], off, StRecovered, bs)
        else match splitN l bs with
             | None => ([], off, StRecovered, bs)
             | Some (buf, rest) =>
               if validate crc buf then
                 match read_rec buf with
                 | ROk r =>
                   if cbok r then
                     match scan_fuel crc bufsz cbok f (off + l) rest with
                     | (items, e, st, rm) => ((off, r) :: items, e, st, rm)
                     end
                   else ([], off, StErr, bs)
                 | _ => ([], off, StErr, bs)
                 end
               else ([], off, StRecovered, bs)
             end
      end.
  Proof. reflexivity. Qed.

  (* a torn record: fewer bytes than its length field announces *)
  Lemma scan_torn r f off (k : nat) :
    wf_rec bufsz r -> (k < length (enc crc r))%nat ->
    scan_fuel crc bufsz cbok (S f) off (firstn k (enc crc r)) =
      ([], off, (if lenN (firstn k (enc crc r)) <? 4 then StEOF else StRecovered), firstn k (enc crc r)).
  Proof.
    intros W Hk. rewrite scan_fuel_S.
    assert (Lt : lenN (firstn k (enc crc r)) = N.of_nat k) by (unfold lenN; rewrite firstn_length_le by lia; reflexivity).
    pose proof (enc_len crc bufsz crc_range r W) as Le. unfold lenN in Le.
    destruct (lenN (firstn k (enc crc r)) <? 4) eqn:E.
    - apply N.ltb_lt in E. rewrite splitN_none by lia. reflexivity.
    - apply N.ltb_ge in E. destruct (splitN_ge 4 _ E) as [a [b S4]]. rewrite S4.
      assert (R : rd32 (firstn k (enc crc r)) = wrec_len r).
      { rewrite enc_eq'.
        replace k with (length (be32 (wrec_len r)) + (k - 4))%nat by (change (length (be32 (wrec_len r))) with 4%nat; lia).
        rewrite firstn_app_2. apply rd32_be32. apply (wf_len_bound crc bufsz crc_range r W). }
      cbv zeta. rewrite R.
      destruct (wrec_len r =? 0) eqn:E0; [apply N.eqb_eq in E0; pose proof (wrec_len_ge crc crc_range r); lia|].
      destruct (bufsz <? wrec_len r) eqn:E1; [reflexivity|].
      rewrite splitN_none by lia. reflexivity.
  Qed.

  Lemma enc_all_cons r rs : enc_all crc (r :: rs) = enc crc r ++ enc_all crc rs.
  Proof. reflexivity. Qed.

  Lemma scan_prefix_gen : forall rs fuel off (k : nat),
    Forall (wf_rec bufsz) rs -> (k <= length (enc_all crc rs))%nat -> (k < fuel)%nat ->
    exists tail,
      firstn k (enc_all crc rs) = enc_all crc (fit_prefix rs (N.of_nat k)) ++ tail /\
      scan_fuel crc bufsz cbok fuel off (firstn k (enc_all crc rs)) =
        (items_of off (fit_prefix rs (N.of_nat k)), off + total_len (fit_prefix rs (N.of_nat k)),
         (if lenN tail <? 4 then StEOF else StRecovered), tail).
  Proof.
    induction rs as [|r rs IH]; intros fuel off k HW Hk Hf.
    - exists []. cbn [enc_all map concat length] in *. rewrite firstn_nil. cbn [fit_prefix items_of total_len fold_right enc_all map concat app].
      split; [reflexivity|]. destruct fuel as [|f]; [lia|]. rewrite scan_fuel_S. cbn [splitN]. change (4 =? 0) with false. cbv iota.
      rewrite N.add_0_r. reflexivity.
    - inversion HW as [|? ? W Wrs]; subst. rewrite enc_all_cons in *. cbn [fit_prefix].
      pose proof (enc_len crc bufsz crc_range r W) as Le. unfold lenN in Le.
      pose proof (wrec_len_ge crc crc_range r) as G. pose proof (wf_len_bound crc bufsz crc_range r W) as [B1 B2].
      destruct fuel as [|f]; [lia|].
      destruct (wrec_len r <=? N.of_nat k) eqn:E.
      + apply N.leb_le in E.
        replace k with (length (enc crc r) + (k - length (enc crc r)))%nat by lia.
        rewrite firstn_app_2.
        replace (N.of_nat (length (enc crc r) + (k - length (enc crc r))) - wrec_len r) with (N.of_nat (k - length (enc crc r))) by lia.
        rewrite app_length in Hk.
        destruct (IH f (off + wrec_len r) (k - length (enc crc r))%nat Wrs ltac:(lia) ltac:(lia)) as [tail [Heq Hscan]].
        exists tail. split.
        * rewrite enc_all_cons, Heq, app_assoc. reflexivity.
        * rewrite scan_fuel_S.
          destruct (splitN_ge 4 (enc crc r ++ firstn (k - length (enc crc r)) (enc_all crc rs))) as [a4 [b4 S4]];
            [rewrite lenN_app; unfold lenN at 1; lia|].
          rewrite S4. cbv zeta. rewrite (rd32_enc crc bufsz crc_range r _ W).
          destruct (wrec_len r =? 0) eqn:E0; [apply N.eqb_eq in E0; lia|].
          destruct (bufsz <? wrec_len r) eqn:E1; [apply N.ltb_lt in E1; lia|].
          replace (wrec_len r) with (lenN (enc crc r)) at 1 by (unfold lenN; exact Le).
          rewrite splitN_app. rewrite (validate_enc crc bufsz crc_range r W). rewrite (read_rec_enc crc bufsz crc_range r W).
          rewrite (cbok_wf r W). rewrite Hscan. cbn [items_of total_len fold_right].
          rewrite N.add_assoc. reflexivity.
      + apply N.leb_gt in E.
        rewrite firstn_app. replace (k - length (enc crc r))%nat with 0%nat by lia. rewrite firstn_O, app_nil_r.
        exists (firstn k (enc crc r)). cbn [enc_all map concat app items_of total_len fold_right]. split; [reflexivity|].
        rewrite N.add_0_r. apply scan_torn; [exact W|lia].
  Qed.

  Lemma dropN_0 l : dropN 0 l = l.
  Proof. destruct l; reflexivity. Qed.

  (* possibleDataLossCheck finds nothing when no CRC-valid record image is embedded *)
  Lemma dlc_cons skip first x tl :
    dlc crc bufsz skip first (x :: tl) =
      if 0 <? skip then dlc crc bufsz (skip - 1) first tl
      else if has_n root_rec_len (x :: tl) then
        let sz := rd32 (x :: tl) in
        if (0 <? sz) && (sz <=? bufsz) then
          match splitN sz (x :: tl) with
          | Some (cand, _) =>
            if validate crc cand then
              match read_rec cand with
              | ROk r => if first then true else dlc crc bufsz (sz - 1) (p_kind r =? kind_root) tl
              | _ => false
              end
            else dlc crc bufsz 0 first tl
          | None => dlc crc bufsz 0 first tl
          end
        else dlc crc bufsz 0 first tl
      else false.
  Proof. reflexivity. Qed.

  Lemma dlc_no_window : forall t first, no_valid_window crc t -> dlc crc bufsz 0 first t = false.
  Proof.
    induction t as [|x tl IH]; intros first H; [reflexivity|].
    assert (Htl : no_valid_window crc tl) by (intros i c r Hs; exact (H (S i) c r Hs)).
    rewrite dlc_cons. change (0 <? 0) with false. cbv iota.
    destruct (has_n root_rec_len (x :: tl)); [|reflexivity]. cbv zeta.
    destruct ((0 <? rd32 (x :: tl)) && (rd32 (x :: tl) <=? bufsz)); [|apply IH; exact Htl].
    destruct (splitN (rd32 (x :: tl)) (x :: tl)) as [[cand rest]|] eqn:S; [|apply IH; exact Htl].
    rewrite (H 0%nat cand rest S). apply IH; exact Htl.
  Qed.

  (* ---- scan_prefix: every crash point of the byte stream ---- *)
  Theorem scan_prefix : forall (rs : list wrec) (k : nat),
    Forall (wf_rec bufsz) rs -> (k <= length (enc_all crc rs))%nat ->
    let image := firstn k (enc_all crc rs) in
    let pre := fit_prefix rs (N.of_nat k) in
    exists tail,
      image = enc_all crc pre ++ tail /\
      scan crc bufsz cbok 0 image = (items_of 0 pre, total_len pre, (if lenN tail <? 4 then StEOF else StRecovered), tail) /\
      (no_valid_window crc tail ->
         data_loss_check crc bufsz tail = false /\
         process crc bufsz cbok 0 image = POk (total_len pre) (items_of 0 pre)).
  Proof.
    intros rs k HW Hk image pre.
    destruct (scan_prefix_gen rs (S (length image)) 0 k HW Hk) as [tail [Heq Hscan]].
    { unfold image. rewrite firstn_length_le by lia. lia. }
    exists tail. fold image pre in Heq, Hscan. rewrite N.add_0_l in Hscan.
    split; [exact Heq|]. split; [exact Hscan|].
    intros Hnw. pose proof (dlc_no_window tail false Hnw) as D. split; [exact D|].
    unfold process. rewrite dropN_0. unfold scan. rewrite Hscan.
    destruct (lenN tail <? 4); [reflexivity|]. unfold data_loss_check. rewrite D. reflexivity.
  Qed.
End ScanProofs.

(* ------------------------------------------------------------------ *)
(* the declarative prefix is the longest prefix of whole records that fits *)
Lemma fit_prefix_is_prefix rs k : exists n, fit_prefix rs k = firstn n rs.
Proof.
  revert k. induction rs as [|r rs IH]; intros k; cbn [fit_prefix].
  - exists 0%nat. reflexivity.
  - destruct (wrec_len r <=? k); [|exists 0%nat; reflexivity].
    destruct (IH (k - wrec_len r)) as [n ->]. exists (S n). reflexivity.
Qed.

Lemma fit_prefix_fits rs k : total_len (fit_prefix rs k) <= k.
Proof.
  revert k. induction rs as [|r rs IH]; intros k; cbn [fit_prefix]; [cbn; lia|].
  destruct (wrec_len r <=? k) eqn:E; [|cbn; lia].
  apply N.leb_le in E. cbn [total_len fold_right]. specialize (IH (k - wrec_len r)). unfold total_len in IH. lia.
Qed.

Lemma fit_prefix_maximal rs k n :
  fit_prefix rs k = firstn n rs -> (n < length rs)%nat -> k < total_len (firstn (S n) rs).
Proof.
  revert k n. induction rs as [|r rs IH]; intros k n H Hn; [cbn in Hn; lia|].
  cbn [fit_prefix] in H. destruct (wrec_len r <=? k) eqn:E.
  - destruct n as [|n]; [discriminate|]. cbn [firstn] in H. inversion H as [H1].
    apply N.leb_le in E. cbn [length] in Hn.
    specialize (IH (k - wrec_len r) n H1 ltac:(lia)).
    change (firstn (S (S n)) (r :: rs)) with (r :: firstn (S n) rs). cbn [total_len fold_right]. unfold total_len in IH. lia.
  - apply N.leb_gt in E. destruct n as [|n]; [|discriminate].
    cbn [firstn total_len fold_right]. lia.
Qed.

Lemma fit_prefix_longest :
  forall rs k, exists n, fit_prefix rs k = firstn n rs /\ total_len (fit_prefix rs k) <= k
                         /\ ((n < length rs)%nat -> k < total_len (firstn (S n) rs)).
Proof.
  intros rs k. destruct (fit_prefix_is_prefix rs k) as [n H]. exists n.
  split; [exact H|]. split; [apply fit_prefix_fits|]. apply fit_prefix_maximal. exact H.
Qed.

Lemma fit_prefix_contains before x after : forall kk,
  total_len (before ++ [x]) <= kk -> exists post, fit_prefix (before ++ x :: after) kk = before ++ x :: post.
Proof.
  induction before as [|r before IH]; intros kk Hlen.
  - cbn [app fit_prefix]. cbn [app total_len fold_right] in Hlen.
    destruct (wrec_len x <=? kk) eqn:E; [eexists; reflexivity|apply N.leb_gt in E; lia].
  - cbn [app fit_prefix]. cbn [app total_len fold_right] in Hlen.
    destruct (wrec_len r <=? kk) eqn:E; [|apply N.leb_gt in E; unfold total_len in Hlen; lia].
    apply N.leb_le in E. destruct (IH (kk - wrec_len r)) as [post Hp]; [unfold total_len in *; lia|].
    rewrite Hp. eexists; reflexivity.
Qed.

(* what bootstrapJournal builds from the recovered records: the declarative range table and last root *)
Lemma fold_items rs : forall off acc c root,
  fold_left apply_item (items_of off rs) ({| novel := acc; cached := c |}, root) =
    ({| novel := spec_ranges off rs acc; cached := c |},
     fold_left (fun acc r => match r with WRoot _ a => a | WChunk _ _ => acc end) rs root).
Proof.
  induction rs as [|r rs IH]; intros off acc c root; [reflexivity|].
  cbn [items_of fold_left]. destruct r as [a p|ts a]; cbn [prec_of wrec_len spec_ranges].
  - unfold apply_item at 2. cbn [p_kind p_addr p_len p_payload novel cached].
    change (kind_chunk =? kind_chunk) with true. cbv iota.
    replace (off + (chunk_rec_len (lenN p) - (lenN p + 4))) with (off + chunk_payload_off)
      by (unfold chunk_rec_len, chunk_payload_off; lia).
    apply IH.
  - unfold apply_item at 2. cbn [p_kind p_addr]. change (kind_root =? kind_chunk) with false. cbv iota. apply IH.
Qed.

(* ------------------------------------------------------------------ *)
(* crash recovery under the prefix-truncation file-system model *)
Section Crash.
  Variable crc : bytes -> N.
  Variable bufsz : N.
  Hypothesis crc_range : forall b, crc b < 4294967296.

  (* what the writer maintains: everything handed to the OS or buffered is the encoding of the records
     appended so far, and those records are well formed *)
  Definition winv (s : wstate) : Prop :=
    w_file s ++ w_buf s = enc_all crc (w_recs s) /\ Forall (wf_rec bufsz) (w_recs s).

  Lemma kind_ok_wf r : wf_rec bufsz r -> kind_ok (prec_of r) = true.
  Proof. destruct r; reflexivity. Qed.

  (* crash_recovery (full statement, kept here):
       forall ops s, In s (trace crc bufsz threshold ops w_init) -> forall k, w_synced s <= k <= lenN (w_file s) ->
         bootstrap of the first k bytes of the file succeeds, its root is the last acknowledged root or one in
         flight, and every chunk record before that root record is in the range map.
     Proved below for every writer state satisfying [winv] and [acked_durable]; that every state of [trace]
     satisfies them (flush before ack, sync before ack) is not proved here — it is exercised by the
     correspondence (per-op offsets and on-disk sizes of the real writer against [run_obs]). *)
  Theorem crash_recovery_partial : forall (s : wstate) (k : nat) (can_write : bool) (max_novel : N),
    winv s ->
    (k <= length (w_file s))%nat ->
    let image := firstn k (w_file s) in
    let pre := fit_prefix (w_recs s) (N.of_nat k) in
    exists tail,
      image = enc_all crc pre ++ tail /\
      (no_valid_window crc tail ->
         let b := bootstrap crc bufsz can_write max_novel image in
         b_err b = 0 /\ b_root b = last_root pre /\ b_off b = total_len pre /\
         b_ranges b = (if can_write && (max_novel <? rng_novel_count (spec_table pre)) then flatten (spec_table pre) else spec_table pre)) /\
      (* an acknowledged commit whose root record lies below the crash point is never lost *)
      (forall before ts a after, w_recs s = before ++ WRoot ts a :: after ->
         total_len (before ++ [WRoot ts a]) <= N.of_nat k ->
         exists post, pre = before ++ WRoot ts a :: post).
  Proof.
    intros s k cw mn [Hfile Hwf] Hk image pre.
    assert (Himg : image = firstn k (enc_all crc (w_recs s))).
    { unfold image. rewrite <- Hfile. rewrite firstn_app. replace (k - length (w_file s))%nat with 0%nat by lia.
      rewrite firstn_O, app_nil_r. reflexivity. }
    assert (Hk' : (k <= length (enc_all crc (w_recs s)))%nat) by (rewrite <- Hfile, app_length; lia).
    destruct (scan_prefix crc bufsz crc_range kind_ok kind_ok_wf (w_recs s) k Hwf Hk') as [tail [Heq [_ Hdl]]].
    exists tail. fold pre in Heq, Hdl. rewrite <- Himg in Heq, Hdl. split; [exact Heq|]. split.
    - intros Hnw. destruct (Hdl Hnw) as [_ Hp]. cbv zeta. unfold bootstrap, bootstrap_from. rewrite Hp.
      rewrite fold_items. fold (last_root pre).
      cbn [b_err b_root b_off b_ranges]. repeat split.
    - intros before ts a after Hrecs Hlen. unfold pre. rewrite Hrecs. apply fit_prefix_contains. exact Hlen.
  Qed.
End Crash.

(* ------------------------------------------------------------------ *)
(* concrete facts with the real checksum (CRC-32C), by computation *)

Ltac wf_solve := cbn [wf_rec]; repeat split; vm_compute; try reflexivity; try (intro; discriminate).

Definition crcC : bytes -> N := crc32 castagnoli.
Definition big : N := 5242880.

Lemma crcC_check : crcC [49;50;51;52;53;54;55;56;57] = 3808858755.   (* the standard check value 0xE3069283 *)
Proof. vm_compute. reflexivity. Qed.

Definition ex_addr (b : N) : bytes := repeat b 20.
Definition ex_inner : bytes := enc crcC (WRoot 7 (ex_addr 9)) ++ enc crcC (WChunk (ex_addr 8) [1;2;3;4;5;6;7;8;9;10]).
Definition ex_f10 : list wrec := [WRoot 1 (ex_addr 1); WChunk (ex_addr 2) (ex_inner ++ repeat 0 30)].

(* F10: a merely torn tail is reported as data loss when the torn chunk's bytes embed a valid root record
   followed by another valid record — the statement "every truncation is discarded silently" is false
   without the [no_valid_window] hypothesis of scan_prefix. *)
Theorem torn_tail_silent_refuted :
  exists (rs : list wrec) (k : nat),
    Forall (wf_rec big) rs /\ (k <= length (enc_all crcC rs))%nat /\
    process crcC big kind_ok 0 (firstn k (enc_all crcC rs)) = PDataLoss 40.
Proof.
  exists ex_f10, 160%nat. split; [|split].
  - constructor; [wf_solve|constructor; [wf_solve|constructor]].
  - apply Nat.leb_le. vm_compute. reflexivity.
  - vm_compute. reflexivity.
Qed.

(* non-vacuity: for an ordinary history every truncation point satisfies the hypothesis' consequence *)
Definition ex_plain : list wrec := [WChunk (ex_addr 3) [1;2;3;4;5]; WRoot 5 (ex_addr 4); WChunk (ex_addr 5) [9;9;9;9;9;9;9;9]; WRoot 6 (ex_addr 6)].
Example plain_every_cut_silent :
  forallb (fun k => match process crcC big kind_ok 0 (firstn k (enc_all crcC ex_plain)) with
                    | POk off items => (off =? total_len (fit_prefix ex_plain (N.of_nat k)))
                    | _ => false end) (seq 0 (S (length (enc_all crcC ex_plain)))) = true.
Proof. vm_compute. reflexivity. Qed.

(* the resync reports damage followed by an intact root record and a further intact record ... *)
Example data_loss_reported_example :
  data_loss_check crcC big ([7; 7; 7] ++ enc crcC (WRoot 7 (ex_addr 9)) ++ enc crcC (WChunk (ex_addr 8) [1;2;3;4;5;6;7;8])) = true.
Proof. vm_compute. reflexivity. Qed.

(* ... but not when that further record is the last thing in the file and shorter than a root record
   (the loop bound is len - rootHashRecordSize()) *)
Theorem short_final_record_missed :
  exists g r2, wf_rec big r2 /\
    data_loss_check crcC big (g ++ enc crcC (WRoot 7 (ex_addr 9)) ++ enc crcC r2) = false.
Proof.
  exists [7; 7; 7], (WChunk (ex_addr 8) [1;2;3;4;5]). split.
  - wf_solve.
  - vm_compute. reflexivity.
Qed.


(* ------------------------------------------------------------------ *)
(* damage followed by an intact root record and a further intact record is reported *)
Section DataLoss.
  Variable crc : bytes -> N.
  Variable bufsz : N.
  Hypothesis crc_range : forall b, crc b < 4294967296.

  Lemma dlc_skip : forall a b first, dlc crc bufsz (lenN a) first (a ++ b) = dlc crc bufsz 0 first b.
  Proof.
    induction a as [|x a IH]; intros b first.
    - rewrite lenN_nil. reflexivity.
    - cbn [app]. rewrite dlc_cons. rewrite lenN_cons.
      destruct (0 <? 1 + lenN a) eqn:E; [|apply N.ltb_ge in E; lia].
      replace (1 + lenN a - 1) with (lenN a) by lia. apply IH.
  Qed.

  Lemma has_n_ge n l : n <= lenN l -> has_n n l = true.
  Proof. intros H. unfold has_n. destruct (splitN_ge n l H) as [a [b ->]]. reflexivity. Qed.

  Lemma dlc_at_record r X first :
    wf_rec bufsz r -> root_rec_len <= lenN (enc crc r ++ X) ->
    dlc crc bufsz 0 first (enc crc r ++ X) =
      if first then true else dlc crc bufsz 0 (p_kind (prec_of r) =? kind_root) X.
  Proof.
    intros W Hlen.
    pose proof (enc_len crc bufsz crc_range r W) as Le.
    pose proof (wrec_len_ge crc crc_range r) as G.
    pose proof (wf_len_bound crc bufsz crc_range r W) as [B1 B2].
    pose proof (rd32_enc crc bufsz crc_range r X W) as R.
    pose proof (has_n_ge _ _ Hlen) as Hn.
    assert (Sp : splitN (wrec_len r) (enc crc r ++ X) = Some (enc crc r, X)) by (rewrite <- Le; apply splitN_app).
    pose proof (validate_enc crc bufsz crc_range r W) as V.
    pose proof (read_rec_enc crc bufsz crc_range r W) as RR.
    destruct (enc crc r) as [|y tl] eqn:E; [rewrite lenN_nil in Le; lia|].
    cbn [app] in *. rewrite dlc_cons. change (0 <? 0) with false. cbv iota.
    rewrite Hn. cbv zeta. rewrite R.
    destruct (0 <? wrec_len r) eqn:E0; [|apply N.ltb_ge in E0; lia].
    destruct (wrec_len r <=? bufsz) eqn:E1; [|apply N.leb_gt in E1; lia].
    cbn [andb]. rewrite Sp, V, RR.
    destruct first; [reflexivity|].
    rewrite lenN_cons in Le. replace (wrec_len r - 1) with (lenN tl) by lia. apply dlc_skip.
  Qed.

  Theorem data_loss_reported : forall g ts a r2 rest,
    wf_rec bufsz (WRoot ts a) -> wf_rec bufsz r2 ->
    root_rec_len <= lenN (enc crc r2 ++ rest) ->     (* the further record is not a final record shorter than a root record *)
    (forall (i : nat) cand rst, (i < length g)%nat ->   (* the garbage itself does not validate *)
       splitN (rd32 (skipn i (g ++ enc crc (WRoot ts a) ++ enc crc r2 ++ rest)))
              (skipn i (g ++ enc crc (WRoot ts a) ++ enc crc r2 ++ rest)) = Some (cand, rst) -> validate crc cand = false) ->
    data_loss_check crc bufsz (g ++ enc crc (WRoot ts a) ++ enc crc r2 ++ rest) = true.
  Proof.
    intros g ts a r2 rest W1 W2 Hlen. unfold data_loss_check.
    induction g as [|x g IH]; intros Hg.
    - cbn [app]. rewrite (dlc_at_record (WRoot ts a) _ false W1).
      + cbn [prec_of p_kind]. change (kind_root =? kind_root) with true.
        rewrite (dlc_at_record r2 rest true W2 Hlen). reflexivity.
      + rewrite lenN_app, (enc_len crc bufsz crc_range _ W1). cbn [wrec_len]. lia.
    - assert (Hn : has_n root_rec_len ((x :: g) ++ enc crc (WRoot ts a) ++ enc crc r2 ++ rest) = true).
      { apply has_n_ge. rewrite !lenN_app, (enc_len crc bufsz crc_range _ W1). cbn [wrec_len]. lia. }
      assert (IH' : dlc crc bufsz 0 false (g ++ enc crc (WRoot ts a) ++ enc crc r2 ++ rest) = true).
      { apply IH. intros i cand rst Hi Hs. apply (Hg (S i) cand rst); [cbn [length]; lia|exact Hs]. }
      cbn [app] in *. rewrite dlc_cons. change (0 <? 0) with false. cbv iota. rewrite Hn. cbv zeta.
      destruct ((0 <? rd32 (x :: g ++ enc crc (WRoot ts a) ++ enc crc r2 ++ rest))
                && (rd32 (x :: g ++ enc crc (WRoot ts a) ++ enc crc r2 ++ rest) <=? bufsz)); [|exact IH'].
      destruct (splitN (rd32 (x :: g ++ enc crc (WRoot ts a) ++ enc crc r2 ++ rest))
                       (x :: g ++ enc crc (WRoot ts a) ++ enc crc r2 ++ rest)) as [[cand rst]|] eqn:S; [|exact IH'].
      rewrite (Hg 0%nat cand rst ltac:(cbn [length]; lia) S). exact IH'.
  Qed.
End DataLoss.


(* ------------------------------------------------------------------ *)
(* the scan is compositional: after a run of intact records it continues as a scan of the rest *)
Definition prep (its : list (N * prec)) (r : list (N * prec) * N * stop * bytes) : list (N * prec) * N * stop * bytes :=
  match r with (items, e, st, rm) => (its ++ items, e, st, rm) end.

Lemma lenN_enc_all crc bufsz (crc_range : forall b, crc b < 4294967296) rs :
  Forall (wf_rec bufsz) rs -> lenN (enc_all crc rs) = total_len rs.
Proof.
  induction 1 as [|r rs W _ IH]; [reflexivity|].
  rewrite enc_all_cons, lenN_app, IH, (enc_len crc bufsz crc_range r W). reflexivity.
Qed.

Lemma enc_all_app crc a b : enc_all crc (a ++ b) = enc_all crc a ++ enc_all crc b.
Proof. unfold enc_all. rewrite map_app, concat_app. reflexivity. Qed.

Lemma total_len_app a b : total_len (a ++ b) = total_len a + total_len b.
Proof. unfold total_len. induction a as [|r a IH]; cbn [app fold_right]; [lia|]. rewrite IH. lia. Qed.

Section ScanApp.
  Variable crc : bytes -> N.
  Variable bufsz : N.
  Hypothesis crc_range : forall b, crc b < 4294967296.
  Variable cbok : prec -> bool.
  Hypothesis cbok_wf : forall r, wf_rec bufsz r -> cbok (prec_of r) = true.

  Lemma scan_fuel_indep : forall f1 f2 off bs, (length bs < f1)%nat -> (length bs < f2)%nat ->
    scan_fuel crc bufsz cbok f1 off bs = scan_fuel crc bufsz cbok f2 off bs.
  Proof.
    induction f1 as [|f1 IH]; intros f2 off bs H1 H2; [lia|]. destruct f2 as [|f2]; [lia|].
    rewrite !scan_fuel_S. destruct (splitN 4 bs); [|reflexivity]. cbv zeta.
    destruct (rd32 bs =? 0) eqn:E0; [reflexivity|]. apply N.eqb_neq in E0.
    destruct (bufsz <? rd32 bs); [reflexivity|].
    destruct (splitN (rd32 bs) bs) as [[buf rest]|] eqn:S; [|reflexivity].
    destruct (validate crc buf); [|reflexivity]. destruct (read_rec buf) as [r| |]; try reflexivity.
    destruct (cbok r); [|reflexivity].
    apply splitN_some in S as [-> L]. rewrite app_length in H1, H2. unfold lenN in L.
    rewrite (IH f2 (off + rd32 (buf ++ rest)) rest) by lia. reflexivity.
  Qed.

  Lemma scan_app : forall rs off junk, Forall (wf_rec bufsz) rs ->
    scan crc bufsz cbok off (enc_all crc rs ++ junk) =
      prep (items_of off rs) (scan crc bufsz cbok (off + total_len rs) junk).
  Proof.
    induction rs as [|r rs IH]; intros off junk HW.
    - cbn [enc_all map concat app items_of total_len fold_right]. rewrite N.add_0_r.
      destruct (scan crc bufsz cbok off junk) as [[[items e] st] rm]. reflexivity.
    - inversion HW as [|? ? W Wrs]; subst. rewrite enc_all_cons, <- app_assoc.
      pose proof (enc_len crc bufsz crc_range r W) as Le.
      pose proof (wrec_len_ge crc crc_range r) as G. pose proof (wf_len_bound crc bufsz crc_range r W) as [B1 B2].
      unfold scan at 1. rewrite scan_fuel_S.
      destruct (splitN_ge 4 (enc crc r ++ enc_all crc rs ++ junk)) as [a4 [b4 S4]]; [rewrite lenN_app; lia|].
      rewrite S4. cbv zeta. rewrite (rd32_enc crc bufsz crc_range r _ W).
      destruct (wrec_len r =? 0) eqn:E0; [apply N.eqb_eq in E0; lia|].
      destruct (bufsz <? wrec_len r) eqn:E1; [apply N.ltb_lt in E1; lia|].
      replace (wrec_len r) with (lenN (enc crc r)) at 1 by exact Le.
      rewrite splitN_app, (validate_enc crc bufsz crc_range r W), (read_rec_enc crc bufsz crc_range r W), (cbok_wf r W).
      rewrite (scan_fuel_indep _ (S (length (enc_all crc rs ++ junk)))).
      + fold (scan crc bufsz cbok (off + wrec_len r) (enc_all crc rs ++ junk)). rewrite (IH _ _ Wrs).
        cbn [items_of]. change (total_len (r :: rs)) with (wrec_len r + total_len rs). rewrite N.add_assoc.
        destruct (scan crc bufsz cbok (off + wrec_len r + total_len rs) junk) as [[[items e] st] rm].
        reflexivity.
      + rewrite !app_length. unfold lenN in Le. lia.
      + lia.
  Qed.

  Lemma dropN_app a b : dropN (lenN a) (a ++ b) = b.
  Proof.
    induction a as [|x a IH]; [apply dropN_0|]. cbn [app dropN]. rewrite lenN_cons.
    destruct (1 + lenN a =? 0) eqn:E; [apply N.eqb_eq in E; lia|].
    replace (N.pred (1 + lenN a)) with (lenN a) by lia. exact IH.
  Qed.
End ScanApp.


(* ------------------------------------------------------------------ *)
(* every state of the writer: invariants over the whole trace *)

Lemma rlookups_app a : forall off b, rlookups off (a ++ b) = rlookups off a ++ rlookups (off + total_len a) b.
Proof.
  induction a as [|r a IH]; intros off b.
  - cbn [app rlookups total_len fold_right]. rewrite N.add_0_r. reflexivity.
  - change (total_len (r :: a)) with (wrec_len r + total_len a). rewrite N.add_assoc.
    destruct r as [x p|ts x]; cbn [app rlookups wrec_len]; rewrite IH; reflexivity.
Qed.

Lemma ilookups_app a b : ilookups (a ++ b) = ilookups a ++ ilookups b.
Proof. unfold ilookups. rewrite map_app, concat_app. reflexivity. Qed.

Lemma snoc_split {A} (l pre post : list A) (x m : A) :
  l ++ [x] = pre ++ m :: post ->
  (post = [] /\ l = pre /\ x = m) \/ (exists post', post = post' ++ [x] /\ l = pre ++ m :: post').
Proof.
  intros H. destruct post as [|p0 post0].
  - left. apply app_inj_tail in H as [-> ->]. auto.
  - right. destruct (@exists_last _ (p0 :: post0) ltac:(discriminate)) as [post' [y E]]. rewrite E in *.
    change (pre ++ m :: post' ++ [y]) with (pre ++ (m :: post') ++ [y]) in H. rewrite app_assoc in H.
    apply app_inj_tail in H as [-> ->]. exists post'. auto.
Qed.

Lemma Forall_removelast {A} (P : A -> Prop) l : Forall P l -> Forall P (removelast l).
Proof.
  induction 1 as [|x l Hx Hl IH]; [constructor|]. cbn [removelast]. destruct l; [constructor|]. constructor; assumption.
Qed.

Lemma Forall_last {A} (P : A -> Prop) l d : Forall P l -> P d -> P (last l d).
Proof. induction 1 as [|x l Hx Hl IH]; intros Hd; [exact Hd|]. cbn [last]. destruct l; [exact Hx|]. apply IH. exact Hd. Qed.

Lemma last_indep {A} (l : list A) d1 d2 : l <> [] -> last l d1 = last l d2.
Proof. induction l as [|x l IH]; intros H; [congruence|]. cbn [last]. destruct l; [reflexivity|]. apply IH. discriminate. Qed.

Ltac wsimpl := cbn [w_file w_buf w_synced w_unsyncd w_root w_acked w_recs w_idx w_indexed w_novel
                    w_flush w_append w_lookup w_meta w_sync w_set_root w_ack w_add_unsyncd] in *.

Section Writer.
  Variable crc : bytes -> N.
  Variable bufsz : N.
  Hypothesis crc_range : forall b, crc b < 4294967296.
  Hypothesis bufsz_u32 : bufsz < 4294967296.
  Variable threshold : N.
  Variable max_novel : N.

  Definition acked_durable (s : wstate) : Prop :=
    match w_acked s with
    | [] => True
    | a :: _ => exists before ts after, w_recs s = before ++ WRoot ts a :: after /\ total_len (before ++ [WRoot ts a]) <= w_synced s
    end.
  Definition sync_boundary (s : wstate) : Prop :=
    exists n, (n <= length (w_recs s))%nat /\ w_synced s = total_len (firstn n (w_recs s)).
  Definition idx_inv (s : wstate) : Prop :=
    ilookups (w_idx s) = rlookups 0 (w_recs s) /\ metas_ok (w_idx s) (w_recs s).
  Definition winv2 (s : wstate) : Prop :=
    winv crc bufsz s /\ w_synced s <= lenN (w_file s) /\ lenN (w_root s) = 20 /\ acked_durable s /\ sync_boundary s /\ idx_inv s.

  Lemma winv_offset s : winv crc bufsz s -> w_offset s = total_len (w_recs s).
  Proof.
    intros [Hf Hw]. unfold w_offset. rewrite <- lenN_app, Hf. apply (lenN_enc_all crc bufsz crc_range). exact Hw.
  Qed.

  Lemma inv_init : winv2 w_init.
  Proof.
    unfold winv2, winv, acked_durable, sync_boundary, idx_inv, metas_ok, w_init. wsimpl.
    repeat split; try reflexivity; try constructor.
    - exists 0%nat. split; [lia|reflexivity].
    - intros pre st e r post H. destruct pre; discriminate.
  Qed.

  Lemma inv_flush s : winv2 s -> winv2 (w_flush s).
  Proof.
    unfold winv2, winv, acked_durable, sync_boundary, idx_inv. wsimpl.
    intros [[Hf Hw] [Hs [Hr [Ha [Hb Hi]]]]]. rewrite app_nil_r, lenN_app. repeat split; try assumption; try lia; apply Hi.
  Qed.

  Lemma metas_ok_snoc_rec idx recs r : metas_ok idx recs -> metas_ok idx (recs ++ [r]).
  Proof.
    intros H pre st e x post E. destruct (H pre st e x post E) as [before [ts [after [E1 [E2 E3]]]]].
    exists before, ts, (after ++ [r]). rewrite E1, <- app_assoc. auto.
  Qed.

  (* a root record is appended: no lookup *)
  Lemma inv_append_root s ts root :
    winv2 s -> wf_rec bufsz (WRoot ts root) -> winv2 (w_append crc (WRoot ts root) s).
  Proof.
    unfold winv2, winv, acked_durable, sync_boundary, idx_inv. wsimpl.
    intros [[Hf Hw] [Hs [Hr [Ha [[n [Hn Hb]] [Hi1 Hi2]]]]]] W.
    repeat split; try assumption.
    - rewrite enc_all_app, app_assoc, Hf. cbn [enc_all map concat]. rewrite app_nil_r. reflexivity.
    - apply Forall_app. split; [exact Hw|constructor; [exact W|constructor]].
    - destruct (w_acked s) as [|a l]; [exact I|]. destruct Ha as [before [t0 [after [E L]]]].
      exists before, t0, (after ++ [WRoot ts root]). rewrite E, <- app_assoc. auto.
    - exists n. rewrite app_length. split; [lia|]. rewrite firstn_app. replace (n - length (w_recs s))%nat with 0%nat by lia.
      rewrite firstn_O, app_nil_r. exact Hb.
    - rewrite rlookups_app. cbn [rlookups]. rewrite app_nil_r. exact Hi1.
    - apply metas_ok_snoc_rec. exact Hi2.
  Qed.

  (* a chunk record and its lookup *)
  Lemma inv_append_chunk s a p :
    winv2 s -> wf_rec bufsz (WChunk a p) ->
    winv2 (w_lookup a (w_offset s) (lenN p) (w_append crc (WChunk a p) s)).
  Proof.
    intros H W. pose proof (winv_offset s (proj1 H)) as Ho. revert H.
    unfold winv2, winv, acked_durable, sync_boundary, idx_inv. wsimpl.
    intros [[Hf Hw] [Hs [Hr [Ha [[n [Hn Hb]] [Hi1 Hi2]]]]]].
    repeat split; try assumption.
    - rewrite enc_all_app, app_assoc, Hf. cbn [enc_all map concat]. rewrite app_nil_r. reflexivity.
    - apply Forall_app. split; [exact Hw|constructor; [exact W|constructor]].
    - destruct (w_acked s) as [|x l]; [exact I|]. destruct Ha as [before [t0 [after [E L]]]].
      exists before, t0, (after ++ [WChunk a p]). rewrite E, <- app_assoc. auto.
    - exists n. rewrite app_length. split; [lia|]. rewrite firstn_app. replace (n - length (w_recs s))%nat with 0%nat by lia.
      rewrite firstn_O, app_nil_r. exact Hb.
    - rewrite ilookups_app, rlookups_app, Hi1, Ho. cbn [ilookups map concat rlookups app]. rewrite N.add_0_l. reflexivity.
    - intros pre st e x post E. apply snoc_split in E as [[_ [_ E]]|[post' [_ E]]]; [discriminate|].
      destruct (Hi2 pre st e x post' E) as [before [t0 [after [E1 [E2 E3]]]]].
      exists before, t0, (after ++ [WChunk a p]). rewrite E1, <- app_assoc. auto.
  Qed.

  Lemma inv_sync s : winv2 s -> w_buf s = [] -> winv2 (w_sync s).
  Proof.
    unfold winv2, winv, acked_durable, sync_boundary, idx_inv. wsimpl.
    intros [[Hf Hw] [Hs [Hr [Ha [Hb Hi]]]]] Hbuf. rewrite Hbuf, app_nil_r in Hf.
    repeat split; try assumption; try lia; try apply Hi.
    - rewrite Hbuf, app_nil_r. exact Hf.
    - destruct (w_acked s) as [|x l]; [exact I|]. destruct Ha as [before [t0 [after [E L]]]].
      exists before, t0, after. split; [exact E|lia].
    - exists (length (w_recs s)). split; [lia|]. rewrite firstn_all, Hf. apply (lenN_enc_all crc bufsz crc_range). exact Hw.
  Qed.

  Lemma inv_set_root s root : winv2 s -> lenN root = 20 -> winv2 (w_set_root root s).
  Proof. unfold winv2, winv, acked_durable, sync_boundary, idx_inv. wsimpl. intuition. Qed.

  Lemma inv_add_unsyncd s n : winv2 s -> winv2 (w_add_unsyncd n s).
  Proof. unfold winv2, winv, acked_durable, sync_boundary, idx_inv. wsimpl. intuition. Qed.

  Lemma inv_ack s root :
    winv2 s -> (exists before ts, w_recs s = before ++ [WRoot ts root] /\ total_len (w_recs s) <= w_synced s) ->
    winv2 (w_ack root s).
  Proof.
    unfold winv2, winv, acked_durable, sync_boundary, idx_inv. wsimpl.
    intros [[Hf Hw] [Hs [Hr [Ha [Hb Hi]]]]] [before [ts [E L]]]. repeat split; try assumption; try apply Hi.
    exists before, ts, []. split; [exact E|]. rewrite <- E. exact L.
  Qed.

  (* flushIndexRecord with end = the offset at which the root record just written starts *)
  Lemma inv_meta s recs1 ts root :
    winv2 s -> w_recs s = recs1 ++ [WRoot ts root] -> winv2 (w_meta root (total_len recs1) s).
  Proof.
    unfold winv2, winv, acked_durable, sync_boundary, idx_inv. wsimpl.
    intros [[Hf Hw] [Hs [Hr [Ha [Hb [Hi1 Hi2]]]]]] E. repeat split; try assumption.
    - rewrite ilookups_app. cbn [ilookups map concat]. rewrite app_nil_r. exact Hi1.
    - intros pre st e x post E'. apply snoc_split in E' as [[-> [<- E']]|[post' [_ E']]].
      + inversion E'; subst. exists recs1, ts, []. split; [exact E|]. split; [reflexivity|].
        rewrite Hi1, E, rlookups_app. cbn [rlookups]. rewrite app_nil_r. reflexivity.
      + exact (Hi2 pre st e x post' E').
  Qed.

  Lemma get_bytes_inv n s s1 : w_get_bytes bufsz n s = Some s1 -> winv2 s ->
    winv2 s1 /\ n <= bufsz /\ w_recs s1 = w_recs s /\ w_root s1 = w_root s /\ w_acked s1 = w_acked s.
  Proof.
    unfold w_get_bytes. intros G H. destruct (bufsz <? n) eqn:E; [discriminate|]. apply N.ltb_ge in E.
    destruct (bufsz - lenN (w_buf s) <? n); inversion G; subst; [|auto].
    split; [apply inv_flush; exact H|]. auto.
  Qed.

  Definition ack_ready (root : bytes) (s : wstate) : Prop :=
    exists before ts, w_recs s = before ++ [WRoot ts root] /\ total_len (w_recs s) <= w_synced s.

  Lemma commit_inv ts root s l ok :
    winv2 s -> lenN root = 20 -> ts < 18446744073709551616 ->
    commit_states crc bufsz max_novel ts root s = (l, ok) ->
    Forall winv2 l /\ (ok = true -> ack_ready root (last l s)) /\ winv2 (last l s).
  Proof.
    intros H Lr Lt. unfold commit_states. destruct (w_get_bytes bufsz root_rec_len s) as [s1|] eqn:G.
    2:{ intros E; inversion E; subst. split; [constructor; [exact H|constructor]|]. split; [discriminate|exact H]. }
    destruct (get_bytes_inv _ _ _ G H) as [H1 [Hn [Er [_ _]]]].
    assert (W : wf_rec bufsz (WRoot ts root)) by (cbn [wf_rec]; auto).
    pose proof (inv_set_root s1 root H1 Lr) as H1'.
    pose proof (inv_append_root _ ts root H1' W) as H2.
    pose proof (inv_flush _ H2) as H3.
    pose proof (inv_sync _ H3 eq_refl) as H4.
    set (s2 := w_append crc (WRoot ts root) (w_set_root root s1)) in *.
    set (s4 := w_sync (w_flush s2)) in *.
    assert (R4 : w_recs s4 = w_recs s1 ++ [WRoot ts root]) by reflexivity.
    assert (A4 : ack_ready root s4).
    { exists (w_recs s1), ts. split; [exact R4|].
      destruct H3 as [[Hf Hw] _]. change (w_synced s4) with (lenN (w_file (w_flush s2))).
      change (w_buf (w_flush s2)) with (@nil N) in Hf. rewrite app_nil_r in Hf. rewrite Hf.
      rewrite (lenN_enc_all crc bufsz crc_range _ Hw). change (w_recs s4) with (w_recs (w_flush s2)). lia. }
    assert (H5 : winv2 (w_meta root (w_offset s1) s4)).
    { rewrite (winv_offset s1 (proj1 H1)). apply (inv_meta s4 (w_recs s1) ts root H4 R4). }
    intros E. inversion E; subst. clear E.
    destruct (max_novel <? novel_count s4); cbn [app last].
    - split; [repeat (constructor; try assumption)|]. split; [intros _|exact H5].
      destruct A4 as [b [t [E1 E2]]]. exists b, t. split; assumption.
    - split; [repeat (constructor; try assumption)|]. split; [intros _; exact A4|exact H4].
  Qed.

  Lemma op_inv o s : winv2 s -> op_ok o ->
    Forall winv2 (fst (op_states crc bufsz threshold max_novel o s)) /\
    winv2 (last (fst (op_states crc bufsz threshold max_novel o s)) s).
  Proof.
    intros H Hok. destruct o as [a p ts|ts root]; cbn [op_ok] in Hok; destruct Hok as [La Lt]; unfold op_states.
    - destruct (w_get_bytes bufsz (chunk_rec_len (lenN p)) s) as [s1|] eqn:G.
      2:{ cbn [fst last]. split; [constructor; [exact H|constructor]|exact H]. }
      destruct (get_bytes_inv _ _ _ G H) as [H1 [Hn _]].
      assert (W : wf_rec bufsz (WChunk a p)) by (cbn [wf_rec]; repeat split; [exact La|exact Hn|lia]).
      pose proof (inv_append_chunk _ a p (inv_add_unsyncd s1 (chunk_rec_len (lenN p)) H1) W) as H2.
      change (w_offset (w_add_unsyncd (chunk_rec_len (lenN p)) s1)) with (w_offset s1) in H2.
      set (s2 := w_lookup a (w_offset s1) (lenN p) (w_append crc (WChunk a p) (w_add_unsyncd (chunk_rec_len (lenN p)) s1))) in *.
      destruct ((threshold <? w_unsyncd s2) && negb (is_empty_hash (w_root s2))).
      + destruct (commit_states crc bufsz max_novel ts (w_root s2) s2) as [l ok] eqn:C.
        destruct (commit_inv ts (w_root s2) s2 l ok H2 (proj1 (proj2 (proj2 H2))) Lt C) as [Fl [_ Hl]].
        cbn [fst]. split; [constructor; [exact H1|constructor; [exact H2|exact Fl]]|].
        change (last (s1 :: s2 :: l) s) with (last (s2 :: l) s).
        destruct l as [|x l']; [exact H2|]. change (last (s2 :: x :: l') s) with (last (x :: l') s).
        rewrite (last_indep (x :: l') s s2); [exact Hl|discriminate].
      + cbn [fst last]. split; [constructor; [exact H1|constructor; [exact H2|constructor]]|exact H2].
    - destruct (commit_states crc bufsz max_novel ts root s) as [l ok] eqn:C.
      destruct (commit_inv ts root s l ok H La Lt C) as [Fl [Hr Hl]].
      destruct ok; cbn [fst].
      + assert (Hk : winv2 (w_ack root (last_state l s))) by (apply inv_ack; [exact Hl|exact (Hr eq_refl)]).
        split; [apply Forall_app; split; [exact Fl|constructor; [exact Hk|constructor]]|].
        rewrite last_last. exact Hk.
      + split; [exact Fl|exact Hl].
  Qed.

  Theorem trace_inv : forall ops s, winv2 s -> Forall op_ok ops -> Forall winv2 (trace crc bufsz threshold max_novel ops s).
  Proof.
    induction ops as [|o ops IH]; intros s H Hok; cbn [trace]; [constructor; [exact H|constructor]|].
    inversion Hok as [|? ? Ho Hops]; subst.
    destruct (op_inv o s H Ho) as [Fl Hl].
    destruct (op_states crc bufsz threshold max_novel o s) as [l ok]. cbn [fst] in *.
    constructor; [exact H|]. apply Forall_app. split; [apply Forall_removelast; exact Fl|].
    apply IH; [exact Hl|exact Hops].
  Qed.
End Writer.


(* ------------------------------------------------------------------ *)
(* crash recovery for every history, every intermediate writer state and every crash image *)

Lemma last_root_or rs : forall d,
  let f := fun acc r => match r with WRoot _ a => a | WChunk _ _ => acc end in
  fold_left f rs d = d \/ In (fold_left f rs d) (roots_of rs).
Proof.
  induction rs as [|r rs IH]; intros d f; [left; reflexivity|].
  cbn [fold_left]. unfold roots_of. cbn [map concat]. fold (roots_of rs).
  destruct r as [a p|ts a]; cbn [app].
  - exact (IH d).
  - destruct (IH a) as [E|E]; [right; left; symmetry; exact E|right; right; exact E].
Qed.

Lemma last_root_after before ts a post :
  last_root (before ++ WRoot ts a :: post) = a \/ In (last_root (before ++ WRoot ts a :: post)) (roots_of post).
Proof. unfold last_root. rewrite fold_left_app. cbn [fold_left]. apply last_root_or. Qed.

Lemma spec_ranges_keep h rs : forall off acc,
  (exists v, assoc h acc = Some v) -> exists v, assoc h (spec_ranges off rs acc) = Some v.
Proof.
  induction rs as [|r rs IH]; intros off acc H; [exact H|]. destruct r as [a p|ts a]; cbn [spec_ranges]; apply IH; [|exact H].
  cbn [assoc]. destruct (beq_bytes h a); [eauto|exact H].
Qed.

Lemma spec_ranges_complete h p rs : forall off acc,
  In (WChunk h p) rs -> exists v, assoc h (spec_ranges off rs acc) = Some v.
Proof.
  induction rs as [|r rs IH]; intros off acc H; [destruct H|]. destruct H as [->|H].
  - cbn [spec_ranges]. apply spec_ranges_keep. cbn [assoc]. rewrite beq_bytes_refl. eauto.
  - destruct r as [a q|ts a]; cbn [spec_ranges]; apply IH; exact H.
Qed.

Lemma fit_prefix_exact (crc : bytes -> N) (crc_range : forall b, crc b < 4294967296) a : forall b, fit_prefix (a ++ b) (total_len a) = a.
Proof.
  induction a as [|r a IH]; intros b.
  - cbn [app total_len fold_right]. destruct b as [|r b]; [reflexivity|]. cbn [fit_prefix].
    pose proof (wrec_len_ge crc crc_range r). destruct (wrec_len r <=? 0) eqn:E; [apply N.leb_le in E; lia|reflexivity].
  - change (total_len (r :: a)) with (wrec_len r + total_len a). cbn [app fit_prefix].
    destruct (wrec_len r <=? wrec_len r + total_len a) eqn:E; [|apply N.leb_gt in E; lia].
    replace (wrec_len r + total_len a - wrec_len r) with (total_len a) by lia. rewrite IH. reflexivity.
Qed.

Section CrashFull.
  Variable crc : bytes -> N.
  Variable bufsz : N.
  Hypothesis crc_range : forall b, crc b < 4294967296.
  Hypothesis bufsz_u32 : bufsz < 4294967296.
  Variable threshold : N.
  Variable max_novel : N.

  Lemma trace_state_inv ops s : Forall op_ok ops -> In s (trace crc bufsz threshold max_novel ops w_init) ->
    winv2 crc bufsz s.
  Proof.
    intros Hok Hin.
    assert (F : Forall (winv2 crc bufsz) (trace crc bufsz threshold max_novel ops w_init)).
    { apply trace_inv; try assumption. apply inv_init; assumption. }
    rewrite Forall_forall in F. exact (F s Hin).
  Qed.

  (* crash_recovery: prefix-truncation file-system model — everything below the last successful Sync survives,
     of what was handed to the OS afterwards any prefix may survive (k ranges over all of them) *)
  Theorem crash_recovery : forall (ops : list op),
    Forall op_ok ops ->
    forall s, In s (trace crc bufsz threshold max_novel ops w_init) ->
    forall (k : nat), w_synced s <= N.of_nat k -> (k <= length (w_file s))%nat ->
    forall (can_write : bool) (mn : N),
    let image := firstn k (w_file s) in
    let pre := fit_prefix (w_recs s) (N.of_nat k) in
    exists tail,
      image = enc_all crc pre ++ tail /\
      (* the root record of the last acknowledged commit and everything written before it is in the recovered
         prefix; the recovered root is that root or the root of a record written after it (in flight) *)
      (match w_acked s with
       | [] => True
       | a :: _ => exists before ts post, pre = before ++ WRoot ts a :: post /\
                                          (last_root pre = a \/ In (last_root pre) (roots_of post))
       end) /\
      (no_valid_window crc tail ->
         let b := bootstrap crc bufsz can_write mn image in
         b_err b = 0 /\ b_root b = last_root pre /\ b_off b = total_len pre /\
         b_ranges b = (if can_write && (mn <? rng_novel_count (spec_table pre)) then flatten (spec_table pre) else spec_table pre) /\
         (forall h p, In (WChunk h p) pre -> exists rg, assoc h (spec_ranges 0 pre []) = Some rg)).
  Proof.
    intros ops Hok s Hin k Hs Hk cw mn image pre.
    destruct (trace_state_inv ops s Hok Hin) as [Hw [_ [_ [Ha _]]]].
    destruct (crash_recovery_partial crc bufsz crc_range s k cw mn Hw Hk) as [tail [Heq [Hboot Hroot]]].
    exists tail. split; [exact Heq|]. split.
    - unfold acked_durable in Ha. destruct (w_acked s) as [|a l]; [exact I|].
      destruct Ha as [before [ts [after [E L]]]]. destruct (Hroot before ts a after E ltac:(lia)) as [post Hp].
      exists before, ts, post. split; [exact Hp|]. fold pre in Hp. rewrite Hp. apply last_root_after.
    - intros Hnw. destruct (Hboot Hnw) as [B1 [B2 [B3 B4]]]. repeat split; try assumption.
      intros h p Hi. apply (spec_ranges_complete h p). exact Hi.
  Qed.

  (* a tail in which no record image validates stops the scan at once *)
  Lemma scan_no_window cbok off junk : no_valid_window crc junk ->
    exists st, scan crc bufsz cbok off junk = ([], off, st, junk) /\ (st = StEOF \/ st = StRecovered).
  Proof.
    intros Hnw. unfold scan. rewrite scan_fuel_S.
    destruct (splitN 4 junk); [|eauto]. cbv zeta.
    destruct (rd32 junk =? 0); [eauto|]. destruct (bufsz <? rd32 junk); [eauto|].
    destruct (splitN (rd32 junk) junk) as [[buf rest]|] eqn:S; [|eauto].
    rewrite (Hnw 0%nat buf rest S). eauto.
  Qed.

  (* the "unsynced bytes lost or replaced" variant: the synced part of the file is intact, whatever was written
     after the last Sync is replaced by arbitrary bytes [junk] (lost ranges, zeros, garbage, any length) *)
  Theorem crash_recovery_unsynced_lost : forall (ops : list op),
    Forall op_ok ops ->
    forall s, In s (trace crc bufsz threshold max_novel ops w_init) ->
    exists n, (n <= length (w_recs s))%nat /\
      let durable := firstn n (w_recs s) in
      w_synced s = total_len durable /\
      firstn (N.to_nat (w_synced s)) (w_file s) = enc_all crc durable /\
      (match w_acked s with
       | [] => True
       | a :: _ => exists before ts post, durable = before ++ WRoot ts a :: post
       end) /\
      forall (junk : bytes) (can_write : bool) (mn : N),
        let image := enc_all crc durable ++ junk in
        (* whatever the junk is, the scan first yields every synced record and then continues in the junk *)
        scan crc bufsz kind_ok 0 image = prep (items_of 0 durable) (scan crc bufsz kind_ok (w_synced s) junk) /\
        (no_valid_window crc junk ->
           let b := bootstrap crc bufsz can_write mn image in
           b_err b = 0 /\ b_root b = last_root durable /\ b_off b = w_synced s /\
           b_ranges b = (if can_write && (mn <? rng_novel_count (spec_table durable)) then flatten (spec_table durable) else spec_table durable)).
  Proof.
    intros ops Hok s Hin.
    destruct (trace_state_inv ops s Hok Hin) as [[Hf Hw] [Hs [_ [Ha [[n [Hn Hb]] _]]]]].
    exists n. split; [exact Hn|]. cbv zeta.
    assert (Hd : Forall (wf_rec bufsz) (firstn n (w_recs s))).
    { rewrite <- (firstn_skipn n (w_recs s)) in Hw. apply Forall_app in Hw. apply Hw. }
    pose proof (lenN_enc_all crc bufsz crc_range _ Hd) as Ld.
    split; [exact Hb|]. split; [|split].
    - assert (E : w_file s ++ w_buf s = enc_all crc (firstn n (w_recs s)) ++ enc_all crc (skipn n (w_recs s)))
        by (rewrite Hf, <- enc_all_app, firstn_skipn; reflexivity).
      assert (Lk : N.to_nat (w_synced s) = length (enc_all crc (firstn n (w_recs s)))) by (unfold lenN in Ld; lia).
      assert (F1 : firstn (N.to_nat (w_synced s)) (w_file s ++ w_buf s) = firstn (N.to_nat (w_synced s)) (w_file s)).
      { rewrite firstn_app. replace (N.to_nat (w_synced s) - length (w_file s))%nat with 0%nat by (unfold lenN in Hs; lia).
        rewrite firstn_O, app_nil_r. reflexivity. }
      rewrite <- F1, E, Lk. rewrite firstn_app, Nat.sub_diag, firstn_O, app_nil_r, firstn_all. reflexivity.
    - unfold acked_durable in Ha. destruct (w_acked s) as [|a l]; [exact I|].
      destruct Ha as [before [ts [after [E L]]]].
      pose proof (fit_prefix_exact crc crc_range (firstn n (w_recs s)) (skipn n (w_recs s))) as Fx.
      rewrite firstn_skipn, <- Hb in Fx.
      destruct (fit_prefix_contains before (WRoot ts a) after (w_synced s) L) as [post Hp].
      rewrite <- E, Fx in Hp. exists before, ts, post. exact Hp.
    - intros junk cw mn.
      pose proof (scan_app crc bufsz crc_range kind_ok (kind_ok_wf bufsz) (firstn n (w_recs s)) 0 junk Hd) as Sa.
      rewrite N.add_0_l, <- Hb in Sa. split; [exact Sa|].
      intros Hnw. destruct (scan_no_window kind_ok (w_synced s) junk Hnw) as [st [Sj Hst]].
      pose proof (dlc_no_window crc bufsz junk false Hnw) as D.
      unfold bootstrap, bootstrap_from, process. rewrite dropN_0, Sa, Sj. cbn [prep]. rewrite app_nil_r.
      assert (P : (match st with
                   | StEOF => POk (w_synced s) (items_of 0 (firstn n (w_recs s)))
                   | StRecovered => if data_loss_check crc bufsz junk then PDataLoss (w_synced s) else POk (w_synced s) (items_of 0 (firstn n (w_recs s)))
                   | _ => PErr end) = POk (w_synced s) (items_of 0 (firstn n (w_recs s)))).
      { unfold data_loss_check. rewrite D. destruct Hst as [->| ->]; reflexivity. }
      rewrite P. rewrite fold_items. fold (last_root (firstn n (w_recs s))). cbn [b_err b_root b_off b_ranges]. repeat split.
  Qed.

  (* what the index stream of every writer state looks like (the index file is this stream, flushed lazily):
     the lookups are exactly those of the journal's chunk records, in order, and each meta's end is the offset
     of a root record holding the meta's root with every chunk record below that offset already looked up
     BEFORE the meta — also on the path where a large write triggers the intermediate sync + commit. *)
  Theorem index_stream_covers : forall (ops : list op),
    Forall op_ok ops ->
    forall s, In s (trace crc bufsz threshold max_novel ops w_init) ->
    ilookups (w_idx s) = rlookups 0 (w_recs s) /\ metas_ok (w_idx s) (w_recs s).
  Proof.
    intros ops Hok s Hin. destruct (trace_state_inv ops s Hok Hin) as [_ [_ [_ [_ [_ Hi]]]]]. exact Hi.
  Qed.
End CrashFull.
