(* C03 — proofs. *)
From Coq Require Import NArith Arith List Bool Lia ZifyN ZifyNat ZifyBool.
From Dolt Require Import Base.Str Gen.C03Consts C03.Model C03.Spec.
Import ListNotations.
Local Open Scope N_scope.

(* ---- the hand-written layout is the regenerated one ---- *)
Lemma layout_pinned :
  tag_kind = kind_journal_rec_tag /\ tag_addr = addr_journal_rec_tag /\ tag_payload = payload_journal_rec_tag
  /\ tag_ts = timestamp_journal_rec_tag /\ kind_root = root_hash_journal_rec_kind /\ kind_chunk = chunk_journal_rec_kind
  /\ addr_sz = journal_rec_addr_sz /\ cksum_sz = journal_rec_checksum_sz
  /\ chunk_payload_off = journal_rec_len_sz + (journal_rec_tag_sz + journal_rec_kind_sz) + (journal_rec_tag_sz + journal_rec_addr_sz) + journal_rec_tag_sz
  /\ (forall n, chunk_rec_len n = chunk_payload_off + n + journal_rec_checksum_sz)
  /\ root_rec_len = journal_rec_len_sz + (journal_rec_tag_sz + journal_rec_kind_sz) + (journal_rec_tag_sz + journal_rec_addr_sz)
                    + (journal_rec_tag_sz + journal_rec_timestamp_sz) + journal_rec_checksum_sz
  /\ journal_rec_len_sz = uint32_size
  /\ root_rec_len = root_hash_record_size.
Proof. repeat split; reflexivity. Qed.

(* ------------------------------------------------------------------ *)
(* lists and fixed-width integers *)

Lemma lenN_nil : lenN [] = 0. Proof. reflexivity. Qed.
Lemma lenN_cons x l : lenN (x :: l) = 1 + lenN l.
Proof. unfold lenN. cbn [length]. lia. Qed.
Lemma lenN_app a b : lenN (a ++ b) = lenN a + lenN b.
Proof. unfold lenN. rewrite app_length. lia. Qed.

Lemma splitN_app a b : splitN (lenN a) (a ++ b) = Some (a, b).
Proof.
  induction a as [|x a IH]; cbn [app].
  - rewrite lenN_nil. destruct b; reflexivity.
  - cbn [splitN]. rewrite lenN_cons.
    destruct (1 + lenN a =? 0) eqn:E; [apply N.eqb_eq in E; lia|].
    replace (N.pred (1 + lenN a)) with (lenN a) by lia. rewrite IH. reflexivity.
Qed.

Lemma splitN_some n l a b : splitN n l = Some (a, b) -> l = a ++ b /\ lenN a = n.
Proof.
  revert n a b. induction l as [|x l IH]; intros n a b H; cbn [splitN] in H.
  - destruct (n =? 0) eqn:E; [|discriminate]. inversion H; subst. apply N.eqb_eq in E. split; [reflexivity|rewrite lenN_nil; lia].
  - destruct (n =? 0) eqn:E.
    + inversion H; subst. apply N.eqb_eq in E. split; [reflexivity|rewrite lenN_nil; lia].
    + destruct (splitN (N.pred n) l) as [[a' b']|] eqn:S; [|discriminate]. inversion H; subst.
      apply IH in S as [-> L]. apply N.eqb_neq in E. split; [reflexivity|]. rewrite lenN_cons. lia.
Qed.

Lemma splitN_none n l : lenN l < n -> splitN n l = None.
Proof.
  revert n. induction l as [|x l IH]; intros n H; cbn [splitN].
  - rewrite lenN_nil in H. destruct (n =? 0) eqn:E; [apply N.eqb_eq in E; lia|reflexivity].
  - rewrite lenN_cons in H. destruct (n =? 0) eqn:E; [apply N.eqb_eq in E; lia|].
    rewrite IH by lia. reflexivity.
Qed.

Lemma splitN_ge n l : n <= lenN l -> exists a b, splitN n l = Some (a, b).
Proof.
  revert n. induction l as [|x l IH]; intros n H; cbn [splitN].
  - rewrite lenN_nil in H. destruct (n =? 0) eqn:E; [eauto|apply N.eqb_neq in E; lia].
  - rewrite lenN_cons in H. destruct (n =? 0) eqn:E; [eauto|]. apply N.eqb_neq in E.
    destruct (IH (N.pred n)) as [a [b ->]]; [lia|eauto].
Qed.

Lemma be32_len n : lenN (be32 n) = 4. Proof. reflexivity. Qed.
Lemma be64_len n : lenN (be64 n) = 8. Proof. reflexivity. Qed.

Lemma rd32_be32 n r : n < 4294967296 -> rd32 (be32 n ++ r) = n.
Proof.
  intros H. unfold be32, rd32. cbn [app].
  assert (E2 : n / 65536 = n / 256 / 256) by (rewrite N.div_div by lia; reflexivity).
  assert (E3 : n / 16777216 = n / 256 / 256 / 256) by (rewrite !N.div_div by lia; reflexivity).
  rewrite E2, E3.
  assert (Q3 : n / 256 / 256 / 256 < 256) by (rewrite !N.div_div by lia; apply N.div_lt_upper_bound; lia).
  set (q1 := n / 256) in *. set (q2 := q1 / 256) in *. set (q3 := q2 / 256) in *.
  pose proof (N.div_mod n 256 ltac:(lia)) as D0. fold q1 in D0.
  pose proof (N.div_mod q1 256 ltac:(lia)) as D1. fold q2 in D1.
  pose proof (N.div_mod q2 256 ltac:(lia)) as D2. fold q3 in D2.
  pose proof (N.mod_lt n 256 ltac:(lia)) as L0.
  pose proof (N.mod_lt q1 256 ltac:(lia)) as L1.
  pose proof (N.mod_lt q2 256 ltac:(lia)) as L2.
  rewrite (N.mod_small q3 256) by lia. lia.
Qed.

Lemma rd32_firstn4 a b c d r : rd32 (a :: b :: c :: d :: r) = rd32 [a; b; c; d].
Proof. reflexivity. Qed.

Lemma rd64_be64 n r : n < 18446744073709551616 -> rd64 (be64 n ++ r) = n.
Proof.
  intros H. unfold be64.
  assert (A : n / 4294967296 < 4294967296) by (apply N.div_lt_upper_bound; lia).
  assert (B : n mod 4294967296 < 4294967296) by (apply N.mod_lt; lia).
  pose proof (rd32_be32 (n / 4294967296) [] A) as E1. rewrite app_nil_r in E1.
  pose proof (rd32_be32 (n mod 4294967296) r B) as E2.
  unfold rd64. unfold be32 at 1. cbn [app]. unfold be32 in E1 at 1. rewrite E1.
  cbn [app] in E2. rewrite E2.
  pose proof (N.div_mod n 4294967296 ltac:(lia)). lia.
Qed.

(* ------------------------------------------------------------------ *)
Ltac len_simpl := repeat (rewrite ?lenN_cons, ?lenN_app, ?lenN_nil, ?be32_len, ?be64_len).

Lemma leb4_false l : 4 < lenN l -> (lenN l <=? 4) = false.
Proof. intros. apply N.leb_gt. assumption. Qed.
Lemma leb4_true l : lenN l <= 4 -> (lenN l <=? 4) = true.
Proof. intros. apply N.leb_le. assumption. Qed.

Section Records.
  Variable crc : bytes -> N.
  Variable bufsz : N.
  Hypothesis crc_range : forall b, crc b < 4294967296.

  Definition body_tail (r : wrec) : bytes :=
    match r with
    | WChunk a p => [1; 2; 2] ++ a ++ [3] ++ p
    | WRoot ts a => [1; 1; 4] ++ be64 ts ++ [2] ++ a
    end.
  Definition body (r : wrec) : bytes := be32 (wrec_len r) ++ body_tail r.

  Lemma enc_eq r : enc crc r = body r ++ be32 (crc (body r)).
  Proof. destruct r; reflexivity. Qed.

  Lemma enc_eq' r : enc crc r = be32 (wrec_len r) ++ (body_tail r ++ be32 (crc (body r))).
  Proof. rewrite enc_eq. unfold body. rewrite <- app_assoc. reflexivity. Qed.

  Lemma body_tail_len r : wf_rec bufsz r -> 4 + lenN (body_tail r) + 4 = wrec_len r.
  Proof.
    destruct r as [a p|ts a]; intros W; cbn [wf_rec] in W; destruct W as [La _]; cbn [body_tail wrec_len];
      len_simpl; unfold chunk_rec_len, chunk_payload_off, root_rec_len; lia.
  Qed.

  Lemma wrec_len_ge r : 32 <= wrec_len r.
  Proof. destruct r; cbn [wrec_len]; unfold chunk_rec_len, chunk_payload_off, root_rec_len; lia. Qed.

  Lemma wf_len_bound r : wf_rec bufsz r -> wrec_len r <= bufsz /\ wrec_len r < 4294967296.
  Proof.
    destruct r as [a p|ts a]; intros W; cbn [wf_rec] in W; cbn [wrec_len]; [lia|].
    destruct W as [_ [W _]]. split; [exact W|]. unfold root_rec_len. lia.
  Qed.

  Lemma body_len r : wf_rec bufsz r -> lenN (body r) = wrec_len r - 4.
  Proof. intros W. unfold body. len_simpl. pose proof (body_tail_len r W). lia. Qed.

  Lemma enc_len r : wf_rec bufsz r -> lenN (enc crc r) = wrec_len r.
  Proof. intros W. rewrite enc_eq. len_simpl. rewrite (body_len r W). pose proof (wrec_len_ge r). lia. Qed.

  Lemma rd32_enc r x : wf_rec bufsz r -> rd32 (enc crc r ++ x) = wrec_len r.
  Proof. intros W. rewrite enc_eq'. rewrite <- app_assoc. apply rd32_be32. apply (wf_len_bound r W). Qed.

  Lemma validate_enc r : wf_rec bufsz r -> validate crc (enc crc r) = true.
  Proof.
    intros W. unfold validate. pose proof (enc_len r W) as L. pose proof (wrec_len_ge r) as G.
    pose proof (rd32_enc r [] W) as R. rewrite app_nil_r in R.
    rewrite L, R.
    destruct (wrec_len r <? 8) eqn:E1; [apply N.ltb_lt in E1; lia|].
    destruct (wrec_len r <? wrec_len r) eqn:E2; [apply N.ltb_lt in E2; lia|].
    destruct (wrec_len r <? 4) eqn:E3; [apply N.ltb_lt in E3; lia|].
    rewrite enc_eq. rewrite <- (body_len r W). rewrite splitN_app.
    pose proof (rd32_be32 (crc (body r)) [] (crc_range _)) as C. rewrite app_nil_r in C. rewrite C.
    apply N.eqb_refl.
  Qed.

  Lemma read_fields_S f buf r :
    read_fields (S f) buf r =
      if lenN buf <=? 4 then (if lenN buf <? 4 then RErrTag else ROk r)
      else match buf with
           | [] => RBad
           | tag :: b1 =>
             if tag =? tag_kind then
               match b1 with
               | k :: b2 => read_fields f b2 {| p_len := p_len r; p_kind := k; p_addr := p_addr r; p_payload := p_payload r; p_ts := p_ts r |}
               | [] => RErrTag
               end
             else if tag =? tag_addr then
               match splitN 20 b1 with
               | Some (a, b2) => read_fields f b2 {| p_len := p_len r; p_kind := p_kind r; p_addr := a; p_payload := p_payload r; p_ts := p_ts r |}
               | None => RErrTag
               end
             else if tag =? tag_ts then
               match splitN 8 b1 with
               | Some (t, b2) => read_fields f b2 {| p_len := p_len r; p_kind := p_kind r; p_addr := p_addr r; p_payload := p_payload r; p_ts := rd64 t |}
               | None => RErrTag
               end
             else if tag =? tag_payload then
               match splitN (lenN b1 - 4) b1 with
               | Some (p, b2) => read_fields f b2 {| p_len := p_len r; p_kind := p_kind r; p_addr := p_addr r; p_payload := p; p_ts := p_ts r |}
               | None => RBad
               end
             else RErrTag
           end.
  Proof. reflexivity. Qed.

  Lemma read_rec_enc r : wf_rec bufsz r -> read_rec (enc crc r) = ROk (prec_of r).
  Proof.
    intros W. unfold read_rec. pose proof (rd32_enc r [] W) as R. rewrite app_nil_r in R. rewrite R.
    rewrite enc_eq'. change 4 with (lenN (be32 (wrec_len r))). rewrite splitN_app.
    set (c := be32 (crc (body r))).
    assert (Lc : lenN c = 4) by reflexivity.
    destruct r as [a p|ts a]; cbn [wf_rec] in W; destruct W as [La W]; cbn [body_tail wrec_len prec_of].
    - (* chunk: kind, addr, payload *)
      assert (SA : forall x, splitN 20 (a ++ x) = Some (a, x)) by (intro x; rewrite <- La; apply splitN_app).
      cbn [app length]. unfold prec0.
      rewrite read_fields_S. rewrite leb4_false by (len_simpl; lia).
      change (1 =? tag_kind) with true. cbn iota.
      rewrite read_fields_S. rewrite leb4_false by (len_simpl; lia).
      change (2 =? tag_kind) with false. change (2 =? tag_addr) with true. cbn iota.
      rewrite <- app_assoc. rewrite SA. cbn [app].
      rewrite read_fields_S. rewrite leb4_false by (len_simpl; lia).
      change (3 =? tag_kind) with false. change (3 =? tag_addr) with false. change (3 =? tag_ts) with false.
      change (3 =? tag_payload) with true. cbn iota.
      replace (lenN (p ++ c) - 4) with (lenN p) by (len_simpl; lia). rewrite splitN_app.
      rewrite read_fields_S. rewrite leb4_true by lia. rewrite Lc. change (4 <? 4) with false. cbv iota. cbn [p_len p_kind p_addr p_payload p_ts]. reflexivity.
    - (* root: kind, timestamp, addr *)
      destruct W as [_ Wts].
      assert (SA : forall x, splitN 20 (a ++ x) = Some (a, x)) by (intro x; rewrite <- La; apply splitN_app).
      assert (SB : forall x, splitN 8 (be64 ts ++ x) = Some (be64 ts, x)) by (intro x; exact (splitN_app (be64 ts) x)).
      cbn [app length]. unfold prec0.
      rewrite read_fields_S. rewrite leb4_false by (len_simpl; lia).
      change (1 =? tag_kind) with true. cbn iota.
      rewrite read_fields_S. rewrite leb4_false by (len_simpl; lia).
      change (4 =? tag_kind) with false. change (4 =? tag_addr) with false. change (4 =? tag_ts) with true. cbn iota.
      rewrite <- app_assoc. rewrite SB.
      pose proof (rd64_be64 ts [] Wts) as T. rewrite app_nil_r in T. rewrite T. cbn [app].
      rewrite read_fields_S. rewrite leb4_false by (len_simpl; lia).
      change (2 =? tag_kind) with false. change (2 =? tag_addr) with true. cbn iota.
      rewrite SA.
      rewrite read_fields_S. rewrite leb4_true by lia. rewrite Lc. change (4 <? 4) with false. cbv iota. cbn [p_len p_kind p_addr p_payload p_ts]. reflexivity.
  Qed.
End Records.

(* ------------------------------------------------------------------ *)
(* the recovery scan on every prefix of a journal *)
Section ScanProofs.
  Variable crc : bytes -> N.
  Variable bufsz : N.
  Hypothesis crc_range : forall b, crc b < 4294967296.
  Variable cbok : prec -> bool.
  Hypothesis cbok_wf : forall r, wf_rec bufsz r -> cbok (prec_of r) = true.

  Lemma scan_fuel_S f off bs :
    scan_fuel crc bufsz cbok (S f) off bs =
      match splitN 4 bs with
      | None => ([], off, StEOF, bs)
      | Some _ =>
        let l := rd32 bs in
        if l =? 0 then ([], off, StRecovered, bs)
        else if bufsz <? l then ([], off, StRecovered, bs)
        else match splitN l bs with
             | None => ([], off, StRecovered, bs)
             | Some (buf, rest) =>
               if validate crc buf then
                 match read_rec buf with
                 | ROk r =>
                   if cbok r then
                     match scan_fuel crc bufsz cbok f (off + l) rest with
                     | (items, e, st, rm) => ((off, r) :: items, e, st, rm)
                     end
                   else ([], off, StErr, bs)
                 | _ => ([], off, StErr, bs)
                 end
               else ([], off, StRecovered, bs)
             end
      end.
  Proof. reflexivity. Qed.

  (* a torn record: fewer bytes than its length field announces *)
  Lemma scan_torn r f off (k : nat) :
    wf_rec bufsz r -> (k < length (enc crc r))%nat ->
    scan_fuel crc bufsz cbok (S f) off (firstn k (enc crc r)) =
      ([], off, (if lenN (firstn k (enc crc r)) <? 4 then StEOF else StRecovered), firstn k (enc crc r)).
  Proof.
    intros W Hk. rewrite scan_fuel_S.
    assert (Lt : lenN (firstn k (enc crc r)) = N.of_nat k) by (unfold lenN; rewrite firstn_length_le by lia; reflexivity).
    pose proof (enc_len crc bufsz crc_range r W) as Le. unfold lenN in Le.
    destruct (lenN (firstn k (enc crc r)) <? 4) eqn:E.
    - apply N.ltb_lt in E. rewrite splitN_none by lia. reflexivity.
    - apply N.ltb_ge in E. destruct (splitN_ge 4 _ E) as [a [b S4]]. rewrite S4.
      assert (R : rd32 (firstn k (enc crc r)) = wrec_len r).
      { rewrite enc_eq'.
        replace k with (length (be32 (wrec_len r)) + (k - 4))%nat by (change (length (be32 (wrec_len r))) with 4%nat; lia).
        rewrite firstn_app_2. apply rd32_be32. apply (wf_len_bound crc bufsz crc_range r W). }
      cbv zeta. rewrite R.
      destruct (wrec_len r =? 0) eqn:E0; [apply N.eqb_eq in E0; pose proof (wrec_len_ge crc crc_range r); lia|].
      destruct (bufsz <? wrec_len r) eqn:E1; [reflexivity|].
      rewrite splitN_none by lia. reflexivity.
  Qed.

  Lemma enc_all_cons r rs : enc_all crc (r :: rs) = enc crc r ++ enc_all crc rs.
  Proof. reflexivity. Qed.

  Lemma scan_prefix_gen : forall rs fuel off (k : nat),
    Forall (wf_rec bufsz) rs -> (k <= length (enc_all crc rs))%nat -> (k < fuel)%nat ->
    exists tail,
      firstn k (enc_all crc rs) = enc_all crc (fit_prefix rs (N.of_nat k)) ++ tail /\
      scan_fuel crc bufsz cbok fuel off (firstn k (enc_all crc rs)) =
        (items_of off (fit_prefix rs (N.of_nat k)), off + total_len (fit_prefix rs (N.of_nat k)),
         (if lenN tail <? 4 then StEOF else StRecovered), tail).
  Proof.
    induction rs as [|r rs IH]; intros fuel off k HW Hk Hf.
    - exists []. cbn [enc_all map concat length] in *. rewrite firstn_nil. cbn [fit_prefix items_of total_len fold_right enc_all map concat app].
      split; [reflexivity|]. destruct fuel as [|f]; [lia|]. rewrite scan_fuel_S. cbn [splitN]. change (4 =? 0) with false. cbv iota.
      rewrite N.add_0_r. reflexivity.
    - inversion HW as [|? ? W Wrs]; subst. rewrite enc_all_cons in *. cbn [fit_prefix].
      pose proof (enc_len crc bufsz crc_range r W) as Le. unfold lenN in Le.
      pose proof (wrec_len_ge crc crc_range r) as G. pose proof (wf_len_bound crc bufsz crc_range r W) as [B1 B2].
      destruct fuel as [|f]; [lia|].
      destruct (wrec_len r <=? N.of_nat k) eqn:E.
      + apply N.leb_le in E.
        replace k with (length (enc crc r) + (k - length (enc crc r)))%nat by lia.
        rewrite firstn_app_2.
        replace (N.of_nat (length (enc crc r) + (k - length (enc crc r))) - wrec_len r) with (N.of_nat (k - length (enc crc r))) by lia.
        rewrite app_length in Hk.
        destruct (IH f (off + wrec_len r) (k - length (enc crc r))%nat Wrs ltac:(lia) ltac:(lia)) as [tail [Heq Hscan]].
        exists tail. split.
        * rewrite enc_all_cons, Heq, app_assoc. reflexivity.
        * rewrite scan_fuel_S.
          destruct (splitN_ge 4 (enc crc r ++ firstn (k - length (enc crc r)) (enc_all crc rs))) as [a4 [b4 S4]];
            [rewrite lenN_app; unfold lenN at 1; lia|].
          rewrite S4. cbv zeta. rewrite (rd32_enc crc bufsz crc_range r _ W).
          destruct (wrec_len r =? 0) eqn:E0; [apply N.eqb_eq in E0; lia|].
          destruct (bufsz <? wrec_len r) eqn:E1; [apply N.ltb_lt in E1; lia|].
          replace (wrec_len r) with (lenN (enc crc r)) at 1 by (unfold lenN; exact Le).
          rewrite splitN_app. rewrite (validate_enc crc bufsz crc_range r W). rewrite (read_rec_enc crc bufsz crc_range r W).
          rewrite (cbok_wf r W). rewrite Hscan. cbn [items_of total_len fold_right].
          rewrite N.add_assoc. reflexivity.
      + apply N.leb_gt in E.
        rewrite firstn_app. replace (k - length (enc crc r))%nat with 0%nat by lia. rewrite firstn_O, app_nil_r.
        exists (firstn k (enc crc r)). cbn [enc_all map concat app items_of total_len fold_right]. split; [reflexivity|].
        rewrite N.add_0_r. apply scan_torn; [exact W|lia].
  Qed.

  Lemma dropN_0 l : dropN 0 l = l.
  Proof. destruct l; reflexivity. Qed.

  (* possibleDataLossCheck finds nothing when no CRC-valid record image is embedded *)
  Lemma dlc_cons skip first x tl :
    dlc crc bufsz skip first (x :: tl) =
      if 0 <? skip then dlc crc bufsz (skip - 1) first tl
      else if has_n root_rec_len (x :: tl) then
        let sz := rd32 (x :: tl) in
        if (0 <? sz) && (sz <=? bufsz) then
          match splitN sz (x :: tl) with
          | Some (cand, _) =>
            if validate crc cand then
              match read_rec cand with
              | ROk r => if first then true else dlc crc bufsz (sz - 1) (p_kind r =? kind_root) tl
              | _ => false
              end
            else dlc crc bufsz 0 first tl
          | None => dlc crc bufsz 0 first tl
          end
        else dlc crc bufsz 0 first tl
      else false.
  Proof. reflexivity. Qed.

  Lemma dlc_no_window : forall t first, no_valid_window crc t -> dlc crc bufsz 0 first t = false.
  Proof.
    induction t as [|x tl IH]; intros first H; [reflexivity|].
    assert (Htl : no_valid_window crc tl) by (intros i c r Hs; exact (H (S i) c r Hs)).
    rewrite dlc_cons. change (0 <? 0) with false. cbv iota.
    destruct (has_n root_rec_len (x :: tl)); [|reflexivity]. cbv zeta.
    destruct ((0 <? rd32 (x :: tl)) && (rd32 (x :: tl) <=? bufsz)); [|apply IH; exact Htl].
    destruct (splitN (rd32 (x :: tl)) (x :: tl)) as [[cand rest]|] eqn:S; [|apply IH; exact Htl].
    rewrite (H 0%nat cand rest S). apply IH; exact Htl.
  Qed.

  (* ---- scan_prefix: every crash point of the byte stream ---- *)
  Theorem scan_prefix : forall (rs : list wrec) (k : nat),
    Forall (wf_rec bufsz) rs -> (k <= length (enc_all crc rs))%nat ->
    let image := firstn k (enc_all crc rs) in
    let pre := fit_prefix rs (N.of_nat k) in
    exists tail,
      image = enc_all crc pre ++ tail /\
      scan crc bufsz cbok 0 image = (items_of 0 pre, total_len pre, (if lenN tail <? 4 then StEOF else StRecovered), tail) /\
      (no_valid_window crc tail ->
         data_loss_check crc bufsz tail = false /\
         process crc bufsz cbok 0 image = POk (total_len pre) (items_of 0 pre)).
  Proof.
    intros rs k HW Hk image pre.
    destruct (scan_prefix_gen rs (S (length image)) 0 k HW Hk) as [tail [Heq Hscan]].
    { unfold image. rewrite firstn_length_le by lia. lia. }
    exists tail. fold image pre in Heq, Hscan. rewrite N.add_0_l in Hscan.
    split; [exact Heq|]. split; [exact Hscan|].
    intros Hnw. pose proof (dlc_no_window tail false Hnw) as D. split; [exact D|].
    unfold process. rewrite dropN_0. unfold scan. rewrite Hscan.
    destruct (lenN tail <? 4); [reflexivity|]. unfold data_loss_check. rewrite D. reflexivity.
  Qed.
End ScanProofs.

(* ------------------------------------------------------------------ *)
(* the declarative prefix is the longest prefix of whole records that fits *)
Lemma fit_prefix_is_prefix rs k : exists n, fit_prefix rs k = firstn n rs.
Proof.
  revert k. induction rs as [|r rs IH]; intros k; cbn [fit_prefix].
  - exists 0%nat. reflexivity.
  - destruct (wrec_len r <=? k); [|exists 0%nat; reflexivity].
    destruct (IH (k - wrec_len r)) as [n ->]. exists (S n). reflexivity.
Qed.

Lemma fit_prefix_fits rs k : total_len (fit_prefix rs k) <= k.
Proof.
  revert k. induction rs as [|r rs IH]; intros k; cbn [fit_prefix]; [cbn; lia|].
  destruct (wrec_len r <=? k) eqn:E; [|cbn; lia].
  apply N.leb_le in E. cbn [total_len fold_right]. specialize (IH (k - wrec_len r)). unfold total_len in IH. lia.
Qed.

Lemma fit_prefix_maximal rs k n :
  fit_prefix rs k = firstn n rs -> (n < length rs)%nat -> k < total_len (firstn (S n) rs).
Proof.
  revert k n. induction rs as [|r rs IH]; intros k n H Hn; [cbn in Hn; lia|].
  cbn [fit_prefix] in H. destruct (wrec_len r <=? k) eqn:E.
  - destruct n as [|n]; [discriminate|]. cbn [firstn] in H. inversion H as [H1].
    apply N.leb_le in E. cbn [length] in Hn.
    specialize (IH (k - wrec_len r) n H1 ltac:(lia)).
    change (firstn (S (S n)) (r :: rs)) with (r :: firstn (S n) rs). cbn [total_len fold_right]. unfold total_len in IH. lia.
  - apply N.leb_gt in E. destruct n as [|n]; [|discriminate].
    cbn [firstn total_len fold_right]. lia.
Qed.

Lemma fit_prefix_longest :
  forall rs k, exists n, fit_prefix rs k = firstn n rs /\ total_len (fit_prefix rs k) <= k
                         /\ ((n < length rs)%nat -> k < total_len (firstn (S n) rs)).
Proof.
  intros rs k. destruct (fit_prefix_is_prefix rs k) as [n H]. exists n.
  split; [exact H|]. split; [apply fit_prefix_fits|]. apply fit_prefix_maximal. exact H.
Qed.

Lemma fit_prefix_contains before x after : forall kk,
  total_len (before ++ [x]) <= kk -> exists post, fit_prefix (before ++ x :: after) kk = before ++ x :: post.
Proof.
  induction before as [|r before IH]; intros kk Hlen.
  - cbn [app fit_prefix]. cbn [app total_len fold_right] in Hlen.
    destruct (wrec_len x <=? kk) eqn:E; [eexists; reflexivity|apply N.leb_gt in E; lia].
  - cbn [app fit_prefix]. cbn [app total_len fold_right] in Hlen.
    destruct (wrec_len r <=? kk) eqn:E; [|apply N.leb_gt in E; unfold total_len in Hlen; lia].
    apply N.leb_le in E. destruct (IH (kk - wrec_len r)) as [post Hp]; [unfold total_len in *; lia|].
    rewrite Hp. eexists; reflexivity.
Qed.

(* what bootstrapJournal builds from the recovered records: the declarative range table and last root *)
Lemma fold_items rs : forall off acc c root,
  fold_left apply_item (items_of off rs) ({| novel := acc; cached := c |}, root) =
    ({| novel := spec_ranges off rs acc; cached := c |},
     fold_left (fun acc r => match r with WRoot _ a => a | WChunk _ _ => acc end) rs root).
Proof.
  induction rs as [|r rs IH]; intros off acc c root; [reflexivity|].
  cbn [items_of fold_left]. destruct r as [a p|ts a]; cbn [prec_of wrec_len spec_ranges].
  - unfold apply_item at 2. cbn [p_kind p_addr p_len p_payload novel cached].
    change (kind_chunk =? kind_chunk) with true. cbv iota.
    replace (off + (chunk_rec_len (lenN p) - (lenN p + 4))) with (off + chunk_payload_off)
      by (unfold chunk_rec_len, chunk_payload_off; lia).
    apply IH.
  - unfold apply_item at 2. cbn [p_kind p_addr]. change (kind_root =? kind_chunk) with false. cbv iota. apply IH.
Qed.

(* ------------------------------------------------------------------ *)
(* crash recovery under the prefix-truncation file-system model *)
Section Crash.
  Variable crc : bytes -> N.
  Variable bufsz : N.
  Hypothesis crc_range : forall b, crc b < 4294967296.

  (* what the writer maintains: everything handed to the OS or buffered is the encoding of the records
     appended so far, and those records are well formed *)
  Definition winv (s : wstate) : Prop :=
    w_file s ++ w_buf s = enc_all crc (w_recs s) /\ Forall (wf_rec bufsz) (w_recs s).

  Lemma kind_ok_wf r : wf_rec bufsz r -> kind_ok (prec_of r) = true.
  Proof. destruct r; reflexivity. Qed.

  (* crash_recovery (full statement, kept here):
       forall ops s, In s (trace crc bufsz threshold ops w_init) -> forall k, w_synced s <= k <= lenN (w_file s) ->
         bootstrap of the first k bytes of the file succeeds, its root is the last acknowledged root or one in
         flight, and every chunk record before that root record is in the range map.
     Proved below for every writer state satisfying [winv] and [acked_durable]; that every state of [trace]
     satisfies them (flush before ack, sync before ack) is not proved here — it is exercised by the
     correspondence (per-op offsets and on-disk sizes of the real writer against [run_obs]). *)
  Theorem crash_recovery_partial : forall (s : wstate) (k : nat) (can_write : bool) (max_novel : N),
    winv s ->
    (k <= length (w_file s))%nat ->
    let image := firstn k (w_file s) in
    let pre := fit_prefix (w_recs s) (N.of_nat k) in
    exists tail,
      image = enc_all crc pre ++ tail /\
      (no_valid_window crc tail ->
         let b := bootstrap crc bufsz can_write max_novel image in
         b_err b = 0 /\ b_root b = last_root pre /\ b_off b = total_len pre /\
         (forall h, rng_get (b_ranges b) h = rng_get {| novel := spec_ranges 0 pre []; cached := [] |} h
                    \/ (can_write = true /\ (max_novel <? rng_novel_count {| novel := spec_ranges 0 pre []; cached := [] |}) = true))) /\
      (* an acknowledged commit whose root record lies below the crash point is never lost *)
      (forall before ts a after, w_recs s = before ++ WRoot ts a :: after ->
         total_len (before ++ [WRoot ts a]) <= N.of_nat k ->
         exists post, pre = before ++ WRoot ts a :: post).
  Proof.
    intros s k cw mn [Hfile Hwf] Hk image pre.
    assert (Himg : image = firstn k (enc_all crc (w_recs s))).
    { unfold image. rewrite <- Hfile. rewrite firstn_app. replace (k - length (w_file s))%nat with 0%nat by lia.
      rewrite firstn_O, app_nil_r. reflexivity. }
    assert (Hk' : (k <= length (enc_all crc (w_recs s)))%nat) by (rewrite <- Hfile, app_length; lia).
    destruct (scan_prefix crc bufsz crc_range kind_ok kind_ok_wf (w_recs s) k Hwf Hk') as [tail [Heq [_ Hdl]]].
    exists tail. fold pre in Heq, Hdl. rewrite <- Himg in Heq, Hdl. split; [exact Heq|]. split.
    - intros Hnw. destruct (Hdl Hnw) as [_ Hp]. cbv zeta. unfold bootstrap, bootstrap_from. rewrite Hp.
      rewrite fold_items. fold (last_root pre).
      cbn [b_err b_root b_off b_ranges]. repeat split.
      intros h. destruct (cw && (mn <? rng_novel_count {| novel := spec_ranges 0 pre []; cached := [] |})) eqn:E.
      + right. apply andb_true_iff in E. exact E.
      + left. reflexivity.
    - intros before ts a after Hrecs Hlen. unfold pre. rewrite Hrecs. apply fit_prefix_contains. exact Hlen.
  Qed.
End Crash.

(* ------------------------------------------------------------------ *)
(* concrete facts with the real checksum (CRC-32C), by computation *)

Ltac wf_solve := cbn [wf_rec]; repeat split; vm_compute; try reflexivity; try (intro; discriminate).

Definition crcC : bytes -> N := crc32 castagnoli.
Definition big : N := 5242880.

Lemma crcC_check : crcC [49;50;51;52;53;54;55;56;57] = 3808858755.   (* the standard check value 0xE3069283 *)
Proof. vm_compute. reflexivity. Qed.

Definition ex_addr (b : N) : bytes := repeat b 20.
Definition ex_inner : bytes := enc crcC (WRoot 7 (ex_addr 9)) ++ enc crcC (WChunk (ex_addr 8) [1;2;3;4;5;6;7;8;9;10]).
Definition ex_f10 : list wrec := [WRoot 1 (ex_addr 1); WChunk (ex_addr 2) (ex_inner ++ repeat 0 30)].

(* F10: a merely torn tail is reported as data loss when the torn chunk's bytes embed a valid root record
   followed by another valid record — the statement "every truncation is discarded silently" is false
   without the [no_valid_window] hypothesis of scan_prefix. *)
Theorem torn_tail_silent_refuted :
  exists (rs : list wrec) (k : nat),
    Forall (wf_rec big) rs /\ (k <= length (enc_all crcC rs))%nat /\
    process crcC big kind_ok 0 (firstn k (enc_all crcC rs)) = PDataLoss 40.
Proof.
  exists ex_f10, 160%nat. split; [|split].
  - constructor; [wf_solve|constructor; [wf_solve|constructor]].
  - apply Nat.leb_le. vm_compute. reflexivity.
  - vm_compute. reflexivity.
Qed.

(* non-vacuity: for an ordinary history every truncation point satisfies the hypothesis' consequence *)
Definition ex_plain : list wrec := [WChunk (ex_addr 3) [1;2;3;4;5]; WRoot 5 (ex_addr 4); WChunk (ex_addr 5) [9;9;9;9;9;9;9;9]; WRoot 6 (ex_addr 6)].
Example plain_every_cut_silent :
  forallb (fun k => match process crcC big kind_ok 0 (firstn k (enc_all crcC ex_plain)) with
                    | POk off items => (off =? total_len (fit_prefix ex_plain (N.of_nat k)))
                    | _ => false end) (seq 0 (S (length (enc_all crcC ex_plain)))) = true.
Proof. vm_compute. reflexivity. Qed.

(* the resync reports damage followed by an intact root record and a further intact record ... *)
Example data_loss_reported_example :
  data_loss_check crcC big ([7; 7; 7] ++ enc crcC (WRoot 7 (ex_addr 9)) ++ enc crcC (WChunk (ex_addr 8) [1;2;3;4;5;6;7;8])) = true.
Proof. vm_compute. reflexivity. Qed.

(* ... but not when that further record is the last thing in the file and shorter than a root record
   (the loop bound is len - rootHashRecordSize()) *)
Theorem short_final_record_missed :
  exists g r2, wf_rec big r2 /\
    data_loss_check crcC big (g ++ enc crcC (WRoot 7 (ex_addr 9)) ++ enc crcC r2) = false.
Proof.
  exists [7; 7; 7], (WChunk (ex_addr 8) [1;2;3;4;5]). split.
  - wf_solve.
  - vm_compute. reflexivity.
Qed.


(* ------------------------------------------------------------------ *)
(* damage followed by an intact root record and a further intact record is reported *)
Section DataLoss.
  Variable crc : bytes -> N.
  Variable bufsz : N.
  Hypothesis crc_range : forall b, crc b < 4294967296.

  Lemma dlc_skip : forall a b first, dlc crc bufsz (lenN a) first (a ++ b) = dlc crc bufsz 0 first b.
  Proof.
    induction a as [|x a IH]; intros b first.
    - rewrite lenN_nil. reflexivity.
    - cbn [app]. rewrite dlc_cons. rewrite lenN_cons.
      destruct (0 <? 1 + lenN a) eqn:E; [|apply N.ltb_ge in E; lia].
      replace (1 + lenN a - 1) with (lenN a) by lia. apply IH.
  Qed.

  Lemma has_n_ge n l : n <= lenN l -> has_n n l = true.
  Proof. intros H. unfold has_n. destruct (splitN_ge n l H) as [a [b ->]]. reflexivity. Qed.

  Lemma dlc_at_record r X first :
    wf_rec bufsz r -> root_rec_len <= lenN (enc crc r ++ X) ->
    dlc crc bufsz 0 first (enc crc r ++ X) =
      if first then true else dlc crc bufsz 0 (p_kind (prec_of r) =? kind_root) X.
  Proof.
    intros W Hlen.
    pose proof (enc_len crc bufsz crc_range r W) as Le.
    pose proof (wrec_len_ge crc crc_range r) as G.
    pose proof (wf_len_bound crc bufsz crc_range r W) as [B1 B2].
    pose proof (rd32_enc crc bufsz crc_range r X W) as R.
    pose proof (has_n_ge _ _ Hlen) as Hn.
    assert (Sp : splitN (wrec_len r) (enc crc r ++ X) = Some (enc crc r, X)) by (rewrite <- Le; apply splitN_app).
    pose proof (validate_enc crc bufsz crc_range r W) as V.
    pose proof (read_rec_enc crc bufsz crc_range r W) as RR.
    destruct (enc crc r) as [|y tl] eqn:E; [rewrite lenN_nil in Le; lia|].
    cbn [app] in *. rewrite dlc_cons. change (0 <? 0) with false. cbv iota.
    rewrite Hn. cbv zeta. rewrite R.
    destruct (0 <? wrec_len r) eqn:E0; [|apply N.ltb_ge in E0; lia].
    destruct (wrec_len r <=? bufsz) eqn:E1; [|apply N.leb_gt in E1; lia].
    cbn [andb]. rewrite Sp, V, RR.
    destruct first; [reflexivity|].
    rewrite lenN_cons in Le. replace (wrec_len r - 1) with (lenN tl) by lia. apply dlc_skip.
  Qed.

  Theorem data_loss_reported : forall g ts a r2 rest,
    wf_rec bufsz (WRoot ts a) -> wf_rec bufsz r2 ->
    root_rec_len <= lenN (enc crc r2 ++ rest) ->     (* the further record is not a final record shorter than a root record *)
    (forall (i : nat) cand rst, (i < length g)%nat ->   (* the garbage itself does not validate *)
       splitN (rd32 (skipn i (g ++ enc crc (WRoot ts a) ++ enc crc r2 ++ rest)))
              (skipn i (g ++ enc crc (WRoot ts a) ++ enc crc r2 ++ rest)) = Some (cand, rst) -> validate crc cand = false) ->
    data_loss_check crc bufsz (g ++ enc crc (WRoot ts a) ++ enc crc r2 ++ rest) = true.
  Proof.
    intros g ts a r2 rest W1 W2 Hlen. unfold data_loss_check.
    induction g as [|x g IH]; intros Hg.
    - cbn [app]. rewrite (dlc_at_record (WRoot ts a) _ false W1).
      + cbn [prec_of p_kind]. change (kind_root =? kind_root) with true.
        rewrite (dlc_at_record r2 rest true W2 Hlen). reflexivity.
      + rewrite lenN_app, (enc_len crc bufsz crc_range _ W1). cbn [wrec_len]. lia.
    - assert (Hn : has_n root_rec_len ((x :: g) ++ enc crc (WRoot ts a) ++ enc crc r2 ++ rest) = true).
      { apply has_n_ge. rewrite !lenN_app, (enc_len crc bufsz crc_range _ W1). cbn [wrec_len]. lia. }
      assert (IH' : dlc crc bufsz 0 false (g ++ enc crc (WRoot ts a) ++ enc crc r2 ++ rest) = true).
      { apply IH. intros i cand rst Hi Hs. apply (Hg (S i) cand rst); [cbn [length]; lia|exact Hs]. }
      cbn [app] in *. rewrite dlc_cons. change (0 <? 0) with false. cbv iota. rewrite Hn. cbv zeta.
      destruct ((0 <? rd32 (x :: g ++ enc crc (WRoot ts a) ++ enc crc r2 ++ rest))
                && (rd32 (x :: g ++ enc crc (WRoot ts a) ++ enc crc r2 ++ rest) <=? bufsz)); [|exact IH'].
      destruct (splitN (rd32 (x :: g ++ enc crc (WRoot ts a) ++ enc crc r2 ++ rest))
                       (x :: g ++ enc crc (WRoot ts a) ++ enc crc r2 ++ rest)) as [[cand rst]|] eqn:S; [|exact IH'].
      rewrite (Hg 0%nat cand rst ltac:(cbn [length]; lia) S). exact IH'.
  Qed.
End DataLoss.
