(* C03 — chunk journal: byte-level model of the records, the recovery scan, the
   data-loss resync, bootstrap and the writer.  Mirrors go/store/nbs/journal_record.go,
   journal_writer.go.  No proofs in this file.

   The checksum function and the writer's buffer size are Section variables: the
   theorems hold for every checksum function (truncation theorems need nothing
   about it); the correspondence instantiates it with a table-driven CRC-32 whose
   polynomial is reported by the implementation (crcTable[128]). *)
From Coq Require Import NArith List Bool.
From Dolt Require Import Base.Str.
Import ListNotations.
Local Open Scope N_scope.

(* ------------------------------------------------------------------ *)
(* bytes, fixed-width big-endian integers (readUint32 / writeUint32 …) *)

Definition lenN (l : bytes) : N := N.of_nat (length l).

(* [splitN n l] = Some (first n bytes, rest) iff l has at least n bytes.  Structural on l
   so that a huge garbage length never becomes a unary number. *)
Fixpoint splitN (n : N) (l : bytes) : option (bytes * bytes) :=
  match l with
  | [] => if n =? 0 then Some ([], []) else None
  | x :: l' =>
    if n =? 0 then Some ([], l)
    else match splitN (N.pred n) l' with
         | Some (a, b) => Some (x :: a, b)
         | None => None
         end
  end.

Fixpoint dropN (n : N) (l : bytes) : bytes :=
  match l with
  | [] => []
  | _ :: l' => if n =? 0 then l else dropN (N.pred n) l'
  end.

Definition has_n (n : N) (l : bytes) : bool :=
  match splitN n l with Some _ => true | None => false end.

Definition be32 (n : N) : bytes :=
  [(n / 16777216) mod 256; (n / 65536) mod 256; (n / 256) mod 256; n mod 256].
Definition be64 (n : N) : bytes := be32 (n / 4294967296) ++ be32 (n mod 4294967296).

Definition rd32 (b : bytes) : N :=
  match b with
  | a :: b :: c :: d :: _ => ((a * 256 + b) * 256 + c) * 256 + d
  | _ => 0
  end.
Definition rd64 (b : bytes) : N :=
  match b with
  | a :: b :: c :: d :: r => rd32 [a; b; c; d] * 4294967296 + rd32 r
  | _ => 0
  end.

(* ------------------------------------------------------------------ *)
(* CRC-32, reflected, table driven: hash/crc32 simpleUpdate with the table made from [poly].
   crc(b) = crc32.Update(0, crcTable, b)   (table.go) *)

Definition crc_bit (poly c : N) : N :=
  if N.odd c then N.lxor (N.shiftr c 1) poly else N.shiftr c 1.
Definition crc_entry (poly i : N) : N :=
  crc_bit poly (crc_bit poly (crc_bit poly (crc_bit poly (crc_bit poly (crc_bit poly (crc_bit poly (crc_bit poly i))))))).
Definition nibbles : list N := [0;1;2;3;4;5;6;7;8;9;10;11;12;13;14;15].
Definition crc_table (poly : N) : list (list N) :=
  map (fun hi => map (fun lo => crc_entry poly (hi * 16 + lo)) nibbles) nibbles.
Definition crc_lookup (tbl : list (list N)) (i : N) : N :=
  nth (N.to_nat (i mod 16)) (nth (N.to_nat (i / 16)) tbl []) 0.
Definition crc_update (tbl : list (list N)) (c : N) (bs : bytes) : N :=
  N.lxor (fold_left (fun c b => N.lxor (crc_lookup tbl (N.land (N.lxor c b) 255)) (N.shiftr c 8)) bs (N.lxor c 4294967295)) 4294967295.
Definition crc32_tbl (tbl : list (list N)) (bs : bytes) : N := crc_update tbl 0 bs.
Definition crc32 (poly : N) (bs : bytes) : N := crc32_tbl (crc_table poly) bs.
Definition castagnoli : N := 2197175160. (* 0x82F63B78 *)

(* ------------------------------------------------------------------ *)
(* record layout (journal_record.go).  Literals are pinned to Gen.C03Consts in Proofs.v. *)

Definition tag_kind : N := 1.
Definition tag_addr : N := 2.
Definition tag_payload : N := 3.
Definition tag_ts : N := 4.
Definition kind_root : N := 1.
Definition kind_chunk : N := 2.
Definition addr_sz : N := 20.
Definition cksum_sz : N := 4.

(* chunkRecordSize: (recordSz, payloadOff) for a payload of plen bytes *)
Definition chunk_payload_off : N := 4 + (1 + 1) + (1 + 20) + 1.
Definition chunk_rec_len (plen : N) : N := chunk_payload_off + plen + 4.
(* rootHashRecordSize *)
Definition root_rec_len : N := 4 + (1 + 1) + (1 + 20) + (1 + 8) + 4.

(* what the writer writes *)
Inductive wrec :=
| WChunk (addr payload : bytes)        (* writeChunkRecord: addr = c.H, payload = c.FullCompressedChunk *)
| WRoot (ts : N) (addr : bytes).       (* writeRootHashRecord *)

Definition wrec_len (r : wrec) : N :=
  match r with
  | WChunk _ p => chunk_rec_len (lenN p)
  | WRoot _ _ => root_rec_len
  end.

(* parsed record: journalRec *)
Record prec := { p_len : N; p_kind : N; p_addr : bytes; p_payload : bytes; p_ts : N }.
Definition prec0 (l : N) : prec := {| p_len := l; p_kind := 0; p_addr := repeat 0 20; p_payload := []; p_ts := 0 |}.

Inductive rres :=
| ROk (r : prec)
| RErrTag          (* an error return: "unknown record field tag", "journal record field truncated: tag N",
                      "journal record truncated before checksum" (guards added by /repo 8222028) *)
| RBad.            (* fuel exhausted / fewer than 4 bytes handed to readJournalRecord: out of the model *)

Section Journal.
  Variable crc : bytes -> N.          (* crc() of table.go *)
  Variable bufsz : N.                 (* journalWriterBuffSize *)

  Definition enc_chunk (a p : bytes) : bytes :=
    let body := be32 (chunk_rec_len (lenN p)) ++ [tag_kind; kind_chunk] ++ [tag_addr] ++ a ++ [tag_payload] ++ p in
    body ++ be32 (crc body).

  Definition enc_root (ts : N) (a : bytes) : bytes :=
    let body := be32 root_rec_len ++ [tag_kind; kind_root] ++ [tag_ts] ++ be64 ts ++ [tag_addr] ++ a in
    body ++ be32 (crc body).

  Definition enc (r : wrec) : bytes :=
    match r with
    | WChunk a p => enc_chunk a p
    | WRoot ts a => enc_root ts a
    end.

  Definition enc_all (rs : list wrec) : bytes := concat (map enc rs).

  (* readJournalRecord, the field loop: |buf| is the record after its length field.
     The loop runs while len(buf) > 4; afterwards the checksum is read from buf[:4]
     (not used again: validateJournalRecord has already compared it).  A field shorter than its size, or
     fewer than 4 bytes left for the checksum, is an error (guards of /repo commit 8222028). *)
  Fixpoint read_fields (fuel : nat) (buf : bytes) (r : prec) : rres :=
    match fuel with
    | O => RBad
    | S f =>
      if lenN buf <=? 4 then (if lenN buf <? 4 then RErrTag else ROk r)   (* len(buf) < journalRecChecksumSz: error *)
      else match buf with
           | [] => RBad
           | tag :: b1 =>
             if tag =? tag_kind then
               match b1 with
               | k :: b2 => read_fields f b2 {| p_len := p_len r; p_kind := k; p_addr := p_addr r; p_payload := p_payload r; p_ts := p_ts r |}
               | [] => RErrTag       (* len(buf) < journalRecKindSz *)
               end
             else if tag =? tag_addr then
               match splitN 20 b1 with
               | Some (a, b2) => read_fields f b2 {| p_len := p_len r; p_kind := p_kind r; p_addr := a; p_payload := p_payload r; p_ts := p_ts r |}
               | None => RErrTag     (* len(buf) < journalRecAddrSz *)
               end
             else if tag =? tag_ts then
               match splitN 8 b1 with
               | Some (t, b2) => read_fields f b2 {| p_len := p_len r; p_kind := p_kind r; p_addr := p_addr r; p_payload := p_payload r; p_ts := rd64 t |}
               | None => RErrTag     (* len(buf) < journalRecTimestampSz *)
               end
             else if tag =? tag_payload then
               match splitN (lenN b1 - 4) b1 with
               | Some (p, b2) => read_fields f b2 {| p_len := p_len r; p_kind := p_kind r; p_addr := p_addr r; p_payload := p; p_ts := p_ts r |}
               | None => RBad
               end
             else RErrTag
           end
    end.

  Definition read_rec (buf : bytes) : rres :=
    match splitN 4 buf with
    | Some (_, rest) => read_fields (S (length rest)) rest (prec0 (rd32 buf))
    | None => RBad
    end.

  (* validateJournalRecord *)
  Definition validate (buf : bytes) : bool :=
    if lenN buf <? 8 then false
    else
      let off := rd32 buf in
      if lenN buf <? off then false
      else if off <? 4 then false   (* uint32 underflow then slice panic in Go; every caller passes len buf = off >= 8 *)
      else match splitN (off - 4) buf with
           | Some (body, rest) => crc body =? rd32 rest
           | None => false
           end.

  (* processJournalRecordsReader.  [cbok] is the callback's verdict (error => stop with an error). *)
  Inductive stop := StEOF | StRecovered | StErr | StFuel.

  Section Scan.
    Variable cbok : prec -> bool.

    Fixpoint scan_fuel (fuel : nat) (off : N) (bs : bytes) : list (N * prec) * N * stop * bytes :=
      match fuel with
      | O => ([], off, StFuel, bs)
      | S f =>
        match splitN 4 bs with
        | None => ([], off, StEOF, bs)                   (* rdr.Peek(4) fails: at most 3 bytes left *)
        | Some _ =>
          let l := rd32 bs in
          if l =? 0 then ([], off, StRecovered, bs)      (* zero padding *)
          else if bufsz <? l then ([], off, StRecovered, bs)   (* l > journalWriterBuffSize *)
          else match splitN l bs with
               | None => ([], off, StRecovered, bs)      (* rdr.Peek(l) fails: short read *)
               | Some (buf, rest) =>
                 if validate buf then
                   match read_rec buf with
                   | ROk r =>
                     if cbok r then
                       match scan_fuel f (off + l) rest with
                       | (items, e, st, rm) => ((off, r) :: items, e, st, rm)
                       end
                     else ([], off, StErr, bs)
                   | _ => ([], off, StErr, bs)
                   end
                 else ([], off, StRecovered, bs)
               end
        end
      end.

    Definition scan (off : N) (bs : bytes) := scan_fuel (S (length bs)) off bs.
  End Scan.

  (* possibleDataLossCheck.  The Go code works on a sliding 2*bufsz window; a candidate is at most
     bufsz long, so the window never hides a candidate and the whole remainder can be treated as one
     buffer.  [skip] > 0: bytes of a candidate that validated (idx += sz). *)
  Fixpoint dlc (skip : N) (first : bool) (bs : bytes) : bool :=
    match bs with
    | [] => false
    | _ :: tl =>
      if 0 <? skip then dlc (skip - 1) first tl
      else if has_n root_rec_len bs then                    (* idx <= len(buf) - rootHashRecordSize() *)
        let sz := rd32 bs in
        if (0 <? sz) && (sz <=? bufsz) then
          match splitN sz bs with
          | Some (cand, _) =>
            if validate cand then
              match read_rec cand with
              | ROk r => if first then true else dlc (sz - 1) (p_kind r =? kind_root) tl
              | _ => false                                   (* (false, err): reported as a warning only *)
              end
            else dlc 0 first tl
          | None => dlc 0 first tl
          end
        else dlc 0 first tl
      else false
    end.

  Definition data_loss_check (bs : bytes) : bool := dlc 0 false bs.

  (* processJournalRecords *)
  Inductive pres :=
  | POk (off : N) (items : list (N * prec))
  | PDataLoss (off : N)
  | PErr.

  Definition process (cbok : prec -> bool) (start : N) (file : bytes) : pres :=
    match scan cbok start (dropN start file) with
    | (items, off, st, rest) =>
      match st with
      | StErr | StFuel => PErr
      | StEOF => POk off items
      | StRecovered => if data_loss_check rest then PDataLoss off else POk off items
      end
    end.

  (* ---------------------------------------------------------------- *)
  (* bootstrapJournal (journal part): range map and last root *)

  Definition rmap := list (bytes * (N * N)).       (* most recent first *)
  Fixpoint assoc (k : bytes) (m : rmap) : option (N * N) :=
    match m with
    | [] => None
    | (k', v) :: m' => if beq_bytes k k' then Some v else assoc k m'
    end.
  Definition addr16 (a : bytes) : bytes := firstn 16 a.
  (* rangeIndex: novel keyed by the full address, cached keyed by the 16-byte prefix *)
  Record ranges := { novel : rmap; cached : rmap }.
  Definition rng_get (r : ranges) (h : bytes) : option (N * N) :=
    match assoc h (novel r) with
    | Some x => Some x
    | None => assoc (addr16 h) (cached r)
    end.
  Fixpoint dedup_keys (m : rmap) (seen : list bytes) : list bytes :=
    match m with
    | [] => seen
    | (k, _) :: m' => if existsb (beq_bytes k) seen then dedup_keys m' seen else dedup_keys m' (k :: seen)
    end.
  Definition rng_novel_count (r : ranges) : N := N.of_nat (length (dedup_keys (novel r) [])).
  Definition rng_count (r : ranges) : N :=
    N.of_nat (length (dedup_keys (novel r) [])) + N.of_nat (length (dedup_keys (cached r) [])).
  (* rangeIndex.flatten: novel entries move to cached (oldest first, so that newer ones win) *)
  Definition flatten (r : ranges) : ranges :=
    {| novel := []; cached := map (fun kv => (addr16 (fst kv), snd kv)) (novel r) ++ cached r |}.

  Definition kind_ok (r : prec) : bool := (p_kind r =? kind_root) || (p_kind r =? kind_chunk).

  (* the callback of bootstrapJournal *)
  Definition apply_item (st : ranges * bytes) (it : N * prec) : ranges * bytes :=
    let '(rg, root) := st in
    let '(o, r) := it in
    if p_kind r =? kind_chunk then
      ({| novel := (p_addr r, (o + (p_len r - (lenN (p_payload r) + 4)), lenN (p_payload r))) :: novel rg; cached := cached rg |}, root)
    else (rg, p_addr r).

  Record boot := {
    b_err : N;            (* 0 ok, 1 ErrJournalDataLoss, 2 other error *)
    b_root : bytes;
    b_off : N;
    b_ranges : ranges;
    b_file : bytes        (* journal file as left behind *)
  }.

  Definition zero_hash : bytes := repeat 0 20.

  (* [start], [rg0]: where the journal scan starts and what the index supplied (0 / empty without index) *)
  Definition bootstrap_from (start : N) (rg0 : ranges) (can_write : bool) (max_novel : N) (file : bytes) : boot :=
    match process kind_ok start file with
    | PErr => {| b_err := 2; b_root := zero_hash; b_off := 0; b_ranges := rg0; b_file := file |}
    | PDataLoss off => {| b_err := 1; b_root := zero_hash; b_off := off; b_ranges := rg0; b_file := file |}
    | POk off items =>
      let '(rg, root) := fold_left apply_item items (rg0, zero_hash) in
      let rg' := if can_write && (max_novel <? rng_novel_count rg) then flatten rg else rg in
      {| b_err := 0; b_root := root; b_off := off; b_ranges := rg';
         b_file := if can_write then match splitN off file with Some (a, _) => a | None => file end else file |}
    end.

  Definition bootstrap (can_write : bool) (max_novel : N) (file : bytes) : boot :=
    bootstrap_from 0 {| novel := []; cached := [] |} can_write max_novel file.

  (* journalWriter.getCompressedChunk through a range: 0 absent, 1 ok, 2 error, 3 panic; and crc of the bytes *)
  Definition read_chunk (file : bytes) (woff : N) (rg : option (N * N)) : N * N :=
    match rg with
    | None => (0, 0)
    | Some (off, len) =>
      if 9223372036854775808 <=? off then
        (* negative int64 offset: wr.off - off overflows for off <= 2^63 + wr.off (negative slice index: panic),
           otherwise ReadAt rejects the negative offset *)
        (if off <=? 9223372036854775808 + woff then (3, 0) else (2, 0))
      else if woff <? off then (3, 0)                       (* wr.buf[off-wr.off:] out of range *)
      else if len <? 4 then (2, 0)                          (* NewCompressedChunk: shorter than the checksum: "checksum error" (/repo 7d4496d) *)
      else
        let avail := dropN off file in
        let got := match splitN len avail with
                   | Some (b, _) => b
                   | None => avail ++ repeat 0 (N.to_nat (len - lenN avail))   (* straddled read: rest comes from the empty buffer *)
                   end in
        match splitN (len - 4) got with
        | Some (data, ck) => if crc data =? rd32 ck then (1, crc got) else (2, 0)   (* "checksum error" *)
        | None => (3, 0)
        end
    end.

  (* ---------------------------------------------------------------- *)
  (* the writer: writeCompressedChunk / commitRootHashUnlocked / flush / Sync *)

  Variable threshold : N.             (* journalMaybeSyncThreshold *)
  Variable max_novel : N.             (* wr.maxNovel *)

  Inductive op :=
  | OChunk (addr payload : bytes) (ts : N)   (* ts: timestamp used if the write triggers the threshold commit *)
  | OCommit (ts : N) (root : bytes).

  (* what the writer hands to the journal index writer, in order (writeIndexLookup / writeJournalIndexMeta) *)
  Inductive irec :=
  | ILookup (a16 : bytes) (off len : N)
  | IMeta (start end_ : N) (root : bytes).

  Record wstate := {
    w_file : bytes;        (* bytes handed to the OS (WriteAt) *)
    w_buf : bytes;         (* wr.buf *)
    w_synced : N;          (* length of the file at the last successful Sync *)
    w_unsyncd : N;         (* wr.unsyncd *)
    w_root : bytes;        (* wr.currentRoot *)
    w_acked : list bytes;  (* roots whose commit has returned to the caller, newest first *)
    w_recs : list wrec;    (* ghost: records appended so far, oldest first *)
    w_idx : list irec;     (* records written to wr.indexWriter so far, oldest first *)
    w_indexed : N;         (* wr.indexed *)
    w_novel : list bytes   (* keys of wr.ranges.novel (with repetitions) *)
  }.

  Definition w_init : wstate :=
    {| w_file := []; w_buf := []; w_synced := 0; w_unsyncd := 0; w_root := zero_hash; w_acked := []; w_recs := [];
       w_idx := []; w_indexed := 0; w_novel := [] |}.

  Definition w_flush (s : wstate) : wstate :=
    {| w_file := w_file s ++ w_buf s; w_buf := []; w_synced := w_synced s; w_unsyncd := w_unsyncd s;
       w_root := w_root s; w_acked := w_acked s; w_recs := w_recs s;
       w_idx := w_idx s; w_indexed := w_indexed s; w_novel := w_novel s |}.

  (* getBytes: None = "requested bytes exceeds capacity" *)
  Definition w_get_bytes (n : N) (s : wstate) : option wstate :=
    if bufsz <? n then None
    else if (bufsz - lenN (w_buf s)) <? n then Some (w_flush s)
    else Some s.

  Definition w_append (r : wrec) (s : wstate) : wstate :=
    {| w_file := w_file s; w_buf := w_buf s ++ enc r; w_synced := w_synced s; w_unsyncd := w_unsyncd s;
       w_root := w_root s; w_acked := w_acked s; w_recs := w_recs s ++ [r];
       w_idx := w_idx s; w_indexed := w_indexed s; w_novel := w_novel s |}.

  (* wr.ranges.put + writeIndexLookup for the chunk record that starts at |start| *)
  Definition w_lookup (a : bytes) (start plen : N) (s : wstate) : wstate :=
    {| w_file := w_file s; w_buf := w_buf s; w_synced := w_synced s; w_unsyncd := w_unsyncd s;
       w_root := w_root s; w_acked := w_acked s; w_recs := w_recs s;
       w_idx := w_idx s ++ [ILookup (addr16 a) (start + chunk_payload_off) plen]; w_indexed := w_indexed s; w_novel := a :: w_novel s |}.

  (* flushIndexRecord(root, end) *)
  Definition w_meta (root : bytes) (e : N) (s : wstate) : wstate :=
    {| w_file := w_file s; w_buf := w_buf s; w_synced := w_synced s; w_unsyncd := w_unsyncd s;
       w_root := w_root s; w_acked := w_acked s; w_recs := w_recs s;
       w_idx := w_idx s ++ [IMeta (w_indexed s) e root]; w_indexed := e; w_novel := [] |}.

  Definition w_sync (s : wstate) : wstate :=
    {| w_file := w_file s; w_buf := w_buf s; w_synced := lenN (w_file s); w_unsyncd := 0;
       w_root := w_root s; w_acked := w_acked s; w_recs := w_recs s;
       w_idx := w_idx s; w_indexed := w_indexed s; w_novel := w_novel s |}.

  Definition w_set_root (root : bytes) (s : wstate) : wstate :=
    {| w_file := w_file s; w_buf := w_buf s; w_synced := w_synced s; w_unsyncd := w_unsyncd s;
       w_root := root; w_acked := w_acked s; w_recs := w_recs s;
       w_idx := w_idx s; w_indexed := w_indexed s; w_novel := w_novel s |}.

  Definition w_ack (root : bytes) (s : wstate) : wstate :=
    {| w_file := w_file s; w_buf := w_buf s; w_synced := w_synced s; w_unsyncd := w_unsyncd s;
       w_root := w_root s; w_acked := root :: w_acked s; w_recs := w_recs s;
       w_idx := w_idx s; w_indexed := w_indexed s; w_novel := w_novel s |}.

  Definition w_add_unsyncd (n : N) (s : wstate) : wstate :=
    {| w_file := w_file s; w_buf := w_buf s; w_synced := w_synced s; w_unsyncd := w_unsyncd s + n;
       w_root := w_root s; w_acked := w_acked s; w_recs := w_recs s;
       w_idx := w_idx s; w_indexed := w_indexed s; w_novel := w_novel s |}.

  Definition is_empty_hash (h : bytes) : bool := forallb (fun b => b =? 0) h.

  Fixpoint distinct (l seen : list bytes) : list bytes :=
    match l with
    | [] => seen
    | k :: l' => if existsb (beq_bytes k) seen then distinct l' seen else distinct l' (k :: seen)
    end.
  Definition novel_count (s : wstate) : N := N.of_nat (length (distinct (w_novel s) [])).

  Definition w_offset (s : wstate) : N := lenN (w_file s) + lenN (w_buf s).    (* wr.offset() *)

  (* Every intermediate state of an operation is listed (a crash can happen at any of them);
     the last element is the state when the call returns.  commitRootHashUnlocked:
     getBytes, set currentRoot, write record, flush, Sync, [flushIndexRecord when novelCount > maxNovel,
     with end = the offset of the root record just written], [return = ack]. *)
  Definition commit_states (ts : N) (root : bytes) (s : wstate) : list wstate * bool :=
    match w_get_bytes root_rec_len s with
    | None => ([s], false)
    | Some s1 =>
      let s2 := w_append (WRoot ts root) (w_set_root root s1) in
      let s3 := w_flush s2 in
      let s4 := w_sync s3 in
      ([s1; s2; s3; s4] ++ (if max_novel <? novel_count s4 then [w_meta root (w_offset s1) s4] else []), true)
    end.

  Definition last_state (l : list wstate) (d : wstate) : wstate := last l d.

  (* one op: (intermediate states ending with the returned state, ok?).  writeCompressedChunk:
     getBytes, unsyncd += n, write record, ranges.put, writeIndexLookup, then the threshold commit. *)
  Definition op_states (o : op) (s : wstate) : list wstate * bool :=
    match o with
    | OCommit ts root =>
      match commit_states ts root s with
      | (l, true) => (l ++ [w_ack root (last_state l s)], true)
      | (l, false) => (l, false)
      end
    | OChunk a p ts =>
      let n := chunk_rec_len (lenN p) in
      match w_get_bytes n s with
      | None => ([s], false)
      | Some s1 =>
        let s2 := w_lookup a (w_offset s1) (lenN p) (w_append (WChunk a p) (w_add_unsyncd n s1)) in
        if (threshold <? w_unsyncd s2) && negb (is_empty_hash (w_root s2)) then
          match commit_states ts (w_root s2) s2 with
          | (l, ok) => (s1 :: s2 :: l, ok)
          end
        else ([s1; s2], true)
      end
    end.

  (* all states a history passes through, in order, starting with [s] *)
  Fixpoint trace (ops : list op) (s : wstate) : list wstate :=
    match ops with
    | [] => [s]
    | o :: ops' =>
      let '(l, _) := op_states o s in
      s :: removelast l ++ trace ops' (last_state l s)
    end.

  Fixpoint run (ops : list op) (s : wstate) : wstate :=
    match ops with
    | [] => s
    | o :: ops' => run ops' (last_state (fst (op_states o s)) s)
    end.

  (* per-op results of a history: (ok, writer offset after, bytes on disk after, bytes fsync'ed when the call returns) *)
  Fixpoint run_obs (ops : list op) (s : wstate) : list (bool * N * N * N) :=
    match ops with
    | [] => []
    | o :: ops' =>
      let '(l, ok) := op_states o s in
      let s' := last_state l s in
      (ok, lenN (w_file s') + lenN (w_buf s'), lenN (w_file s'), w_synced s') :: run_obs ops' s'
    end.

  (* journalWriter.Close: flush (then Sync) *)
  Definition closed_file (s : wstate) : bytes := w_file s ++ w_buf s.

  (* the index file after Close (indexWriter.Flush): the records in order; the meta checksum is the
     crc over the address prefixes of the lookups of its batch (F1: nothing else) *)
  Fixpoint enc_idx (recs : list irec) (batch : bytes) : bytes :=
    match recs with
    | [] => []
    | ILookup a o l :: recs' => 0 :: a ++ be64 o ++ be32 l ++ enc_idx recs' (batch ++ a)
    | IMeta st e r :: recs' => 1 :: be64 st ++ be64 e ++ be32 (crc batch) ++ r ++ enc_idx recs' []
    end.
  Definition closed_index (s : wstate) : bytes := enc_idx (w_idx s) [].
End Journal.
