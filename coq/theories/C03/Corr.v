(* C03 — correspondence: the model run on the implementation's own inputs (compressed
   payloads, addresses, CRC polynomial, buffer size reported by the harness), comparison
   with what the implementation showed, and the executable statement of the property
   evaluated on the implementation's observation. *)
From Coq Require Import NArith List Bool.
From Dolt Require Import Base.Str Gen.C03Consts C03.Model C03.Spec.
Import ListNotations.
Local Open Scope N_scope.

Record opobs := { oo_ok : bool; oo_end : N; oo_disk : N; oo_synced : N }.
Record look := { l_found : bool; l_off : N; l_len : N; l_st : N; l_sum : N }.
Record res := {
  r_err : N; r_root : bytes; r_off : N; r_count : N; r_looks : list look;
  r_size : N; r_unchanged : bool; r_idx : bool
}.
Record obs := {
  o_ops : list opobs;        (* per op: returned without error, writer offset after, bytes on disk after, and — from the
                                strace of the real process — bytes of the journal covered by an fsync when the call returned *)
  o_journal : bytes;         (* journal file after Close *)
  o_rootsz : N;              (* rootHashRecordSize() *)
  o_recok : bool;            (* writeChunkRecord / writeRootHashRecord outputs concatenate to the journal *)
  o_fn_off : N; o_fn_n : N;  (* processJournalRecords over the in-memory image *)
  o_fn_dl : bool;            (* possibleDataLossCheck over the whole image *)
  o_res : list res;          (* one per damaged image *)
  o_index : bytes;           (* journal.idx after Close *)
  o_big : N                  (* large-write run (Go side only): 0 not run, 1 index covers the journal, 2 it does not *)
}.
Record input := {
  i_poly : N; i_bufsz : N; i_maxnovel : N;
  i_ops : list op;
  i_known : list bytes;
  i_muts : list (mut * bool);    (* damage, read-only? *)
  i_big : bool                   (* the large-write run crossing journalMaybeSyncThreshold *)
}.
Definition case := (input * obs)%type.

Definition apply_mut (enc_r : wrec -> bytes) (j : bytes) (m : mut) : bytes :=
  match m with
  | MTrunc k => firstn (N.to_nat k) j
  | MCrash _ k => firstn (N.to_nat k) j
  | MZero k n => firstn (N.to_nat k) j ++ repeat 0 (N.to_nat n)
  | MTail k g recs => firstn (N.to_nat k) j ++ g ++ concat (map enc_r recs)
  | MXor p masks =>
    firstn (N.to_nat p) j ++
    (fix go (ms bs : bytes) : bytes :=
       match ms, bs with
       | m :: ms', b :: bs' => N.lxor b m :: go ms' bs'
       | _, _ => bs
       end) masks (skipn (N.to_nat p) j)
  end.

Definition look_of (crc : bytes -> N) (b : boot) (h : bytes) : look :=
  let rg := rng_get (b_ranges b) h in
  let '(st, sum) := read_chunk crc (b_file b) (b_off b) rg in
  match rg with
  | Some (o, l) => {| l_found := true; l_off := o; l_len := l; l_st := st; l_sum := sum |}
  | None => {| l_found := false; l_off := 0; l_len := 0; l_st := 0; l_sum := 0 |}
  end.

Definition res_of_boot (crc : bytes -> N) (known : list bytes) (image : bytes) (ro : bool) (b : boot) : res :=
  if b_err b =? 0 then
    {| r_err := 0; r_root := b_root b; r_off := b_off b; r_count := rng_count (b_ranges b);
       r_looks := map (look_of crc b) known;
       r_size := lenN (b_file b); r_unchanged := beq_bytes (b_file b) image; r_idx := negb ro |}
  else
    {| r_err := b_err b; r_root := zero_hash; r_off := 0; r_count := 0; r_looks := [];
       r_size := lenN (b_file b); r_unchanged := beq_bytes (b_file b) image; r_idx := negb ro |}.

Definition ops_recs (ops : list op) (oks : list bool) : list wrec :=
  concat (map (fun p => match p with
                        | (OChunk a pl _, true) => [WChunk a pl]
                        | (OCommit ts r, true) => [WRoot ts r]
                        | _ => []
                        end) (combine ops oks)).

Definition model_obs (i : input) : obs :=
  let tbl := crc_table (i_poly i) in
  let crc := crc32_tbl tbl in
  let bufsz := i_bufsz i in
  let per := run_obs crc bufsz journal_maybe_sync_threshold (i_maxnovel i) (i_ops i) w_init in
  let s := run crc bufsz journal_maybe_sync_threshold (i_maxnovel i) (i_ops i) w_init in
  let j := closed_file s in
  let fn := process crc bufsz (fun _ => true) 0 j in
  {| o_ops := map (fun t => match t with (ok, e, d, sy) => {| oo_ok := ok; oo_end := e; oo_disk := d; oo_synced := sy |} end) per;
     o_journal := j;
     o_rootsz := root_rec_len;
     o_recok := true;
     o_fn_off := match fn with POk off _ => off | PDataLoss off => off | PErr => 0 end;
     o_fn_n := match fn with POk _ items => lenN (map (fun _ => 0) items) | _ => 0 end;
     o_fn_dl := data_loss_check crc bufsz j;
     o_res := map (fun mr : mut * bool =>
                     let image := apply_mut (enc crc) j (fst mr) in
                     res_of_boot crc (i_known i) image (snd mr)
                                 (bootstrap crc bufsz (negb (snd mr)) (i_maxnovel i) image))
                  (i_muts i);
     o_index := closed_index crc s;
     o_big := if i_big i then 1 else 0 |}.

(* ---- comparison ---- *)
Definition opobs_eqb (a b : opobs) : bool :=
  Bool.eqb (oo_ok a) (oo_ok b) && (oo_end a =? oo_end b) && (oo_disk a =? oo_disk b) && (oo_synced a =? oo_synced b).
Definition look_eqb (a b : look) : bool :=
  Bool.eqb (l_found a) (l_found b) && (l_off a =? l_off b) && (l_len a =? l_len b) && (l_st a =? l_st b) && (l_sum a =? l_sum b).
Fixpoint list_eqb {A} (f : A -> A -> bool) (a b : list A) : bool :=
  match a, b with
  | [], [] => true
  | x :: a', y :: b' => f x y && list_eqb f a' b'
  | _, _ => false
  end.
Definition res_eqb (a b : res) : bool :=
  (r_err a =? r_err b) && beq_bytes (r_root a) (r_root b) && (r_off a =? r_off b) && (r_count a =? r_count b)
  && list_eqb look_eqb (r_looks a) (r_looks b) && (r_size a =? r_size b)
  && Bool.eqb (r_unchanged a) (r_unchanged b) && Bool.eqb (r_idx a) (r_idx b).
Definition obs_eqb (a b : obs) : bool :=
  list_eqb opobs_eqb (o_ops a) (o_ops b) && beq_bytes (o_journal a) (o_journal b) && (o_rootsz a =? o_rootsz b)
  && Bool.eqb (o_recok a) (o_recok b) && (o_fn_off a =? o_fn_off b) && (o_fn_n a =? o_fn_n b)
  && Bool.eqb (o_fn_dl a) (o_fn_dl b) && list_eqb res_eqb (o_res a) (o_res b)
  && beq_bytes (o_index a) (o_index b) && (o_big a =? o_big b).

(* ---- the property on what the implementation returned ---- *)

(* a compressed chunk is readable when its trailing checksum matches (NewCompressedChunk) *)
Definition chunk_ok (crc : bytes -> N) (p : bytes) : bool :=
  (4 <=? lenN p) &&
  match splitN (lenN p - 4) p with
  | Some (d, ck) => crc d =? rd32 ck
  | None => false
  end.

(* what the store must show for address h after a silent recovery of rs *)
Definition expected_look (crc : bytes -> N) (rs : list wrec) (h : bytes) : look :=
  match assoc h (spec_ranges 0 rs []), spec_payload rs h with
  | Some (o, l), Some p =>
    if chunk_ok crc p then {| l_found := true; l_off := o; l_len := l; l_st := 1; l_sum := crc p |}
    else {| l_found := true; l_off := o; l_len := l; l_st := 2; l_sum := 0 |}
  | _, _ => {| l_found := false; l_off := 0; l_len := 0; l_st := 0; l_sum := 0 |}
  end.

(* the root of the last commit acknowledged among the first n ops *)
Definition acked_root (ops : list op) (oos : list opobs) (n : nat) : bytes :=
  fold_left (fun acc (p : op * opobs) =>
               match p with
               | (OCommit _ r, oo) => if oo_ok oo then r else acc
               | _ => acc
               end) (firstn n (combine ops oos)) zero_hash.

Definition res_ok (crc : bytes -> N) (ops : list op) (oos : list opobs) (rs : list wrec) (known : list bytes) (image_len : N) (m : mut) (ro : bool) (r : res) : bool :=
  (* read-only opens never modify the journal or create an index *)
  (if ro then r_unchanged r && negb (r_idx r) else true) &&
  (* a power loss after op i returned, with any file prefix between the fsync'ed and the written length surviving:
     reopening succeeds and shows the root of the last acknowledged commit (nothing is in flight between calls) *)
  (match m with
   | MCrash i k =>
     match nth_error oos i with
     | Some oo => if (oo_synced oo <=? k) && (k <=? oo_disk oo)
                  then (r_err r =? 0) && beq_bytes (r_root r) (acked_root ops oos (S i)) else true
     | None => true
     end
   | _ => true
   end) &&
  match expected rs m with
  | ESilent rs' =>
    (r_err r =? 0) && beq_bytes (r_root r) (last_root rs') && (r_off r =? total_len rs')
    && list_eqb look_eqb (r_looks r) (map (expected_look crc rs') known)
    && (if ro then true else r_size r =? total_len rs')
  | EDataLoss => (r_err r =? 1) && r_unchanged r
  end.

Fixpoint all2 {A B} (f : A -> B -> bool) (a : list A) (b : list B) : bool :=
  match a, b with
  | [], [] => true
  | x :: a', y :: b' => f x y && all2 f a' b'
  | _, _ => false
  end.

Definition oracle (i : input) (o : obs) : bool :=
  let tbl := crc_table (i_poly i) in
  let crc := crc32_tbl tbl in
  let rs := ops_recs (i_ops i) (map oo_ok (o_ops o)) in
  (* an acknowledged commit has been handed to the OS in full AND covered by an fsync before the call returned
     (trace_inv: the acknowledged root record lies below [synced]) *)
  all2 (fun (p : op) (oo : opobs) =>
          match p with
          | OCommit _ _ => if oo_ok oo then (oo_disk oo =? oo_end oo) && (oo_end oo <=? oo_synced oo) else true
          | _ => true
          end) (i_ops i) (o_ops o)
  (* the journal is the concatenation of the records of the successful operations *)
  && (lenN (o_journal o) =? total_len rs)
  && all2 (fun (mr : mut * bool) (r : res) =>
             res_ok crc (i_ops i) (o_ops o) rs (i_known i) (lenN (o_journal o)) (fst mr) (snd mr) r)
          (i_muts i) (o_res o)
  (* on the large-write run every index meta ends at a root record and covers every chunk record below it
     (C03_index_stream_covers on the real files) *)
  && (if i_big i then o_big o =? 1 else true).

Definition check_case (c : case) : N :=
  (if obs_eqb (model_obs (fst c)) (snd c) then 0 else 1)
  + (if oracle (fst c) (snd c) then 0 else 2).
