(* C32 — proofs. *)
From Coq Require Import NArith List Bool Lia Sorted.
From Dolt Require Import Base.Str C31.Model C31.Spec C31.Proofs C32.Model C32.Spec C32.Corr.
Import ListNotations.
Local Open Scope N_scope.

(* ---------------- diff_exact ---------------- *)
Lemma mem_In k l : mem k l = true <-> In k l.
Proof.
  unfold mem. rewrite existsb_exists. split.
  - intros [x [Hin E]]. apply key_eqb_eq in E; subst; exact Hin.
  - intros H. exists k. split; [exact H | apply key_eqb_refl].
Qed.

Lemma get_some_mem k m r : get k m = Some r -> mem k (keys m) = true.
Proof.
  intros H. destruct (mem k (keys m)) eqn:M; [reflexivity|]. rewrite (get_not_mem _ _ M) in H. discriminate.
Qed.

Lemma differ_in_keys a b k : get k a <> get k b -> In k (diff_keys a b).
Proof.
  intros H. apply mem_In. unfold diff_keys. rewrite mem_sort, mem_app.
  destruct (get k a) as [ra|] eqn:Ea.
  - rewrite (get_some_mem _ _ _ Ea). reflexivity.
  - destruct (get k b) as [rb|] eqn:Eb; [|congruence]. rewrite (get_some_mem _ _ _ Eb). apply orb_true_r.
Qed.

(* the diff lists exactly the keys whose rows differ, with the row of a as from and the row of b as to *)
Theorem diff_exact a b : is_diff a b (diff a b).
Proof.
  intros k f t. unfold diff. rewrite in_flat_map. split.
  - intros [k' [_ Hin]]. unfold diff_at in Hin. destruct (orow_eqb (get k' a) (get k' b)) eqn:E; [destruct Hin|].
    destruct Hin as [Hin|[]]. inversion Hin; subst. repeat split; try reflexivity.
    intros C. rewrite <- orow_eqb_eq in C. congruence.
  - intros [-> [-> Hne]]. exists k. split; [apply differ_in_keys; exact Hne|].
    unfold diff_at. destruct (orow_eqb (get k a) (get k b)) eqn:E; [apply orow_eqb_eq in E; congruence | left; reflexivity].
Qed.

(* entries are in strictly increasing key order: every key at most once *)
Theorem diff_sorted a b : sorted (map (fun e : dentry => fst (fst e)) (diff a b)).
Proof.
  unfold diff. assert (S : sorted (diff_keys a b)) by apply sorted_sort. revert S.
  unfold sorted. induction (diff_keys a b) as [|k ks IH]; intros S; [constructor|].
  inversion S as [|? ? S' F]; subst. cbn [flat_map]. unfold diff_at at 1.
  destruct (orow_eqb (get k a) (get k b)); cbn [app map fst]; [apply IH; exact S'|].
  constructor; [apply IH; exact S'|].
  clear IH S S'. induction ks as [|x ks IH2]; [constructor|]. inversion F; subst. cbn [flat_map]. unfold diff_at at 1.
  destruct (orow_eqb (get x a) (get x b)); cbn [app map fst]; [apply IH2; assumption|].
  constructor; [assumption | apply IH2; assumption].
Qed.

(* ---------------- patch round trip ---------------- *)
Lemma apply_upd_from ra : forall rb, apply_upd ra (diff_cells ra rb) = rb.
Proof.
  induction ra as [|x ra IH]; intros rb.
  - cbn [diff_cells]. induction rb as [|y rb IHb]; [reflexivity|]. cbn [map apply_upd tl]. f_equal. exact IHb.
  - destruct rb as [|y rb]; [reflexivity|]. cbn [diff_cells]. destruct (cell_eqb x y) eqn:E.
    + apply cell_eqb_eq in E; subst. cbn [apply_upd]. f_equal. apply IH.
    + cbn [apply_upd tl]. f_equal. apply IH.
Qed.
Lemma apply_upd_to ra : forall rb, apply_upd rb (diff_cells ra rb) = rb.
Proof.
  induction ra as [|x ra IH]; intros rb.
  - cbn [diff_cells]. induction rb as [|y rb IHb]; [reflexivity|]. cbn [map apply_upd tl]. f_equal. exact IHb.
  - destruct rb as [|y rb]; [reflexivity|]. cbn [diff_cells]. destruct (cell_eqb x y) eqn:E.
    + cbn [apply_upd]. f_equal. apply IH.
    + cbn [apply_upd tl]. f_equal. apply IH.
Qed.

Lemma get_remove k k' m : get k (remove k' m) = if key_eqb k k' then None else get k m.
Proof.
  induction m as [|[k0 r] m IH]; [destruct (key_eqb k k'); reflexivity|].
  cbn [remove filter fst]. fold (remove k' m). destruct (key_eqb k' k0) eqn:E0; cbn [negb].
  - apply key_eqb_eq in E0; subst k0. rewrite IH. cbn [get]. destruct (key_eqb k k'); reflexivity.
  - cbn [get]. destruct (key_eqb k k0) eqn:E1.
    + apply key_eqb_eq in E1; subst k0. rewrite key_eqb_sym, E0. reflexivity.
    + exact IH.
Qed.

Definition stmts_at (a b : content) (k : key) : list stmt := flat_map stmt_of (diff_at a b k).

Lemma patch_as_flat_map a b : patch_stmts a b = flat_map (stmts_at a b) (diff_keys a b).
Proof.
  unfold patch_stmts, diff, stmts_at. induction (diff_keys a b) as [|k ks IH]; [reflexivity|].
  cbn [flat_map]. rewrite flat_map_app, IH. reflexivity.
Qed.

(* one key's statements bring that key to its b-binding and touch no other key *)
Lemma step_at a b k0 m :
  (get k0 m = get k0 a \/ get k0 m = get k0 b) ->
  let m' := fold_left apply_stmt (stmts_at a b k0) m in
  get k0 m' = get k0 b /\ (forall k, key_eqb k k0 = false -> get k m' = get k m).
Proof.
  intros Hm. unfold stmts_at, diff_at. destruct (orow_eqb (get k0 a) (get k0 b)) eqn:E.
  - apply orow_eqb_eq in E. cbn [flat_map fold_left]. split; [destruct Hm; congruence | reflexivity].
  - destruct (get k0 a) as [ra|] eqn:Ea; destruct (get k0 b) as [rb|] eqn:Eb; cbn [flat_map stmt_of app fold_left apply_stmt].
    + destruct Hm as [Hm|Hm]; rewrite Hm.
      * split; [cbn [get]; rewrite key_eqb_refl, apply_upd_from; reflexivity | intros k Hk; cbn [get]; rewrite Hk; reflexivity].
      * split; [cbn [get]; rewrite key_eqb_refl, apply_upd_to; reflexivity | intros k Hk; cbn [get]; rewrite Hk; reflexivity].
    + split; [rewrite get_remove, key_eqb_refl; reflexivity | intros k Hk; rewrite get_remove, Hk; reflexivity].
    + split; [cbn [get]; rewrite key_eqb_refl; reflexivity | intros k Hk; cbn [get]; rewrite Hk; reflexivity].
    + cbn [orow_eqb] in E. discriminate.
Qed.

Lemma fold_patch a b ks : forall m,
  (forall k, get k m = get k a \/ get k m = get k b) ->
  forall k, get k (fold_left apply_stmt (flat_map (stmts_at a b) ks) m) = if mem k ks then get k b else get k m.
Proof.
  induction ks as [|k0 ks IH]; intros m Inv k; [reflexivity|].
  cbn [flat_map]. rewrite fold_left_app.
  destruct (step_at a b k0 m (Inv k0)) as [H0 Hother].
  set (m' := fold_left apply_stmt (stmts_at a b k0) m) in *.
  assert (Inv' : forall k1, get k1 m' = get k1 a \/ get k1 m' = get k1 b).
  { intros k1. destruct (key_eqb k1 k0) eqn:E.
    - apply key_eqb_eq in E; subst. right; exact H0.
    - rewrite (Hother _ E). apply Inv. }
  rewrite (IH m' Inv' k). cbn [mem existsb]. fold (mem k ks).
  destruct (key_eqb k k0) eqn:E; cbn [orb].
  - apply key_eqb_eq in E; subst k. destruct (mem k0 ks); [reflexivity | exact H0].
  - rewrite (Hother _ E). reflexivity.
Qed.

(* executing the patch statements derived from the diff of a and b on a gives b *)
Theorem patch_roundtrip a b : ext_eq (apply_stmts a (patch_stmts a b)) b.
Proof.
  intros k. unfold apply_stmts. rewrite patch_as_flat_map, (fold_patch a b _ a (fun k => or_introl eq_refl) k).
  destruct (mem k (diff_keys a b)) eqn:M; [reflexivity|].
  unfold diff_keys in M. rewrite mem_sort, mem_app in M. apply orb_false_iff in M as [Ma Mb].
  rewrite (get_not_mem _ _ Ma), (get_not_mem _ _ Mb). reflexivity.
Qed.
Theorem patch_roundtrip_eq a b : norm (apply_stmts a (patch_stmts a b)) = norm b.
Proof. apply norm_eq_of_ext. apply patch_roundtrip. Qed.

(* ---------------- string literals ---------------- *)
Lemma decode_encode b e : sql_encode b = Some e -> sql_decode e = b.
Proof.
  unfold sql_encode. repeat match goal with |- context [?x =? ?y] => destruct (N.eqb_spec x y); [subst; intros H; inversion H; subst; reflexivity|] end.
  discriminate.
Qed.
Lemma encode_none b : sql_encode b = None -> (b =? c_bslash) = false /\ (b =? c_quote) = false.
Proof.
  unfold sql_encode, c_bslash, c_quote.
  repeat match goal with |- context [if ?x =? ?y then _ else _] => destruct (N.eqb_spec x y); [discriminate|] end.
  intros _. split; reflexivity.
Qed.

Definition not_quote_first (rest : bytes) : Prop := match rest with q :: _ => q <> c_quote | [] => True end.

Lemma scan_quote_body s : forall rest, not_quote_first rest ->
  scan (quote_body s ++ c_quote :: rest) = Some (s, rest).
Proof.
  induction s as [|b s IH]; intros rest Hr.
  - cbn [quote_body flat_map app scan]. change (c_quote =? c_bslash) with false. change (c_quote =? c_quote) with true. cbv iota.
    destruct rest as [|q r]; [reflexivity|]. cbn [not_quote_first] in Hr. apply N.eqb_neq in Hr. rewrite Hr. reflexivity.
  - unfold quote_body. cbn [flat_map]. fold (quote_body s). rewrite <- app_assoc. unfold enc_byte.
    destruct (sql_encode b) as [e|] eqn:E.
    + cbn [app scan]. change (c_bslash =? c_bslash) with true. cbv iota. rewrite (IH rest Hr), (decode_encode _ _ E). reflexivity.
    + destruct (encode_none _ E) as [H1 H2]. cbn [app scan]. rewrite H1, H2, (IH rest Hr). reflexivity.
Qed.

(* the tokenizer reads every literal the encoder writes back as the original string *)
Theorem sql_string_roundtrip : forall s, unquote (quote s) = Some s.
Proof.
  intros s. unfold unquote, quote. change (c_quote =? c_quote) with true. cbv iota.
  rewrite (scan_quote_body s [] I). reflexivity.
Qed.
(* ... also inside a statement, followed by anything that does not begin with a quote *)
Theorem sql_string_roundtrip_in_stmt : forall s rest, not_quote_first rest ->
  scan (quote_body s ++ c_quote :: rest) = Some (s, rest).
Proof. exact scan_quote_body. Qed.

(* ---------------- hex literals ---------------- *)
Lemma hex_byte_sweep :
  forallb (fun n => let b := N.of_nat n in
     match hex_val (hex_digit (b / 16)), hex_val (hex_digit (b mod 16)) with
     | Some x, Some y => 16 * x + y =? b | _, _ => false end) (seq 0 256) = true.
Proof. vm_compute. reflexivity. Qed.

Lemma hex_byte b : b < 256 ->
  exists x y, hex_val (hex_digit (b / 16)) = Some x /\ hex_val (hex_digit (b mod 16)) = Some y /\ 16 * x + y = b.
Proof.
  intros H. pose proof hex_byte_sweep as S. rewrite forallb_forall in S.
  assert (In (N.to_nat b) (seq 0 256)) as Hin by (apply in_seq; lia).
  specialize (S _ Hin). cbv zeta in S. rewrite N2Nat.id in S.
  destruct (hex_val (hex_digit (b / 16))) as [x|]; [|discriminate].
  destruct (hex_val (hex_digit (b mod 16))) as [y|]; [|discriminate].
  exists x, y. apply N.eqb_eq in S. auto.
Qed.

Theorem hex_roundtrip s : Forall (fun b => b < 256) s -> unhex_lit (hex_lit s) = Some s.
Proof.
  intros H. unfold unhex_lit, hex_lit. induction H as [|b s Hb Hs IH]; [reflexivity|].
  unfold hex_body. cbn [flat_map app]. fold (hex_body s). cbn [unhex_body].
  destruct (hex_byte b Hb) as [x [y [Hx [Hy E]]]]. rewrite Hx, Hy, IH, E. reflexivity.
Qed.

(* ---------------- schema delta ---------------- *)
(* one column: whatever changed of its name and type, the statements emitted for it turn the old
   definition into the new one (a column renamed AND retyped gets both statements) *)
Theorem col_ddl_roundtrip old c :
  c_id old = c_id c -> apply_ddls [old] (col_ddl [old] c) = [c].
Proof.
  intros E. unfold col_ddl. cbn [find_col]. rewrite E, N.eqb_refl.
  destruct old as [i n t], c as [i' n' t']. cbn [c_id c_name c_ty] in *. subst i'.
  destruct (n =? n') eqn:En; destruct (t =? t') eqn:Et; cbn [app apply_ddls fold_left apply_ddl map c_id];
    rewrite ?N.eqb_refl; unfold set_name, set_ty; cbn [c_id c_name c_ty];
    try (apply N.eqb_eq in En; subst n'); try (apply N.eqb_eq in Et; subst t'); reflexivity.
Qed.

(* NOT PROVED for whole schemas (kept visible):
     schema_patch_roundtrip : NoDup (map c_id sa) -> NoDup (map c_id sb) ->
       (kept columns of sb in the order of sa, added columns after them) ->
       apply_ddls sa (schema_patch sa sb) = sb
   and patch_roundtrip with rows re-aligned to the new schema.  Proved: the per-column statement above
   (col_ddl_roundtrip), the statement counts (ddl_counts_spec) and the instances below; the executed
   round trip (rows + SHOW CREATE TABLE) checks the whole-schema statement on every generated case. *)
Definition sch0 : tschema :=
  [{| c_id := 1; c_name := 1; c_ty := 1 |}; {| c_id := 2; c_name := 2; c_ty := 3 |}; {| c_id := 3; c_name := 3; c_ty := 4 |}].
Example ex_schema_renmod :
  let sb := [{| c_id := 1; c_name := 6; c_ty := 2 |}; {| c_id := 2; c_name := 2; c_ty := 3 |}; {| c_id := 3; c_name := 3; c_ty := 4 |}] in
  schema_patch sch0 sb = [DRename 1 6; DModify 1 2] /\ apply_ddls sch0 (schema_patch sch0 sb) = sb.
Proof. split; reflexivity. Qed.
Example ex_schema_add_drop :
  let sb := [{| c_id := 2; c_name := 2; c_ty := 3 |}; {| c_id := 3; c_name := 3; c_ty := 4 |}; {| c_id := 5; c_name := 5; c_ty := 1 |}] in
  apply_ddls sch0 (schema_patch sch0 sb) = sb.
Proof. reflexivity. Qed.

Definition is_add (d : ddl) : N := match d with DAdd _ => 1 | _ => 0 end.
Definition is_drop (d : ddl) : N := match d with DDrop _ => 1 | _ => 0 end.
Definition is_ren (d : ddl) : N := match d with DRename _ _ => 1 | _ => 0 end.
Definition is_mod (d : ddl) : N := match d with DModify _ _ => 1 | _ => 0 end.
Definition dsum (f : ddl -> N) (l : list ddl) : N := fold_right (fun d acc => f d + acc) 0 l.
Lemma dsum_cons f d l : dsum f (d :: l) = f d + dsum f l. Proof. reflexivity. Qed.
Lemma dsum_app f l1 l2 : dsum f (l1 ++ l2) = dsum f l1 + dsum f l2.
Proof. induction l1 as [|d l1 IH]; [reflexivity|]. cbn [app]. rewrite !dsum_cons, IH. lia. Qed.

Lemma ddl_counts_acc l : forall a dr r m,
  fold_left (fun acc d => let '(a, dr, r, m) := acc in
                          match d with DAdd _ => (a + 1, dr, r, m) | DDrop _ => (a, dr + 1, r, m)
                                     | DRename _ _ => (a, dr, r + 1, m) | DModify _ _ => (a, dr, r, m + 1) end)
            l (a, dr, r, m)
  = (a + dsum is_add l, dr + dsum is_drop l, r + dsum is_ren l, m + dsum is_mod l).
Proof.
  induction l as [|d l IH]; intros a dr r m.
  - cbn [fold_left dsum fold_right]. rewrite !N.add_0_r. reflexivity.
  - cbn [fold_left]. rewrite !dsum_cons. destruct d; rewrite IH; cbn [is_add is_drop is_ren is_mod].
    all: match goal with |- (?a1, ?b1, ?c1, ?d1) = (?a2, ?b2, ?c2, ?d2) =>
           replace a1 with a2 by lia; replace b1 with b2 by lia; replace c1 with c2 by lia; replace d1 with d2 by lia; reflexivity end.
Qed.

Lemma n_cols_cons f c s : n_cols f (c :: s) = (if f c then 1 else 0) + n_cols f s.
Proof. unfold n_cols. cbn [filter]. destruct (f c); cbn [length]; lia. Qed.

Lemma dsum_drops f sb sa :
  (forall id, f (DDrop id) = 0) -> dsum f (map (fun c => DDrop (c_id c)) (filter (fun c => negb (has_id (c_id c) sb)) sa)) = 0.
Proof.
  intros H. induction sa as [|c sa IH]; [reflexivity|]. cbn [filter]. destruct (negb (has_id (c_id c) sb)); [|exact IH].
  cbn [map]. rewrite dsum_cons, H, IH. reflexivity.
Qed.
Lemma dsum_drops_count sb sa :
  dsum is_drop (map (fun c => DDrop (c_id c)) (filter (fun c => negb (has_id (c_id c) sb)) sa))
  = n_cols (fun c => negb (has_id (c_id c) sb)) sa.
Proof.
  induction sa as [|c sa IH]; [reflexivity|]. rewrite n_cols_cons. cbn [filter].
  destruct (negb (has_id (c_id c) sb)); [cbn [map]; rewrite dsum_cons, IH; reflexivity | rewrite IH; lia].
Qed.

Lemma dsum_cols sa sb :
  dsum is_add (flat_map (col_ddl sa) sb) = n_cols (fun c => negb (has_id (c_id c) sa)) sb /\
  dsum is_drop (flat_map (col_ddl sa) sb) = 0 /\
  dsum is_ren (flat_map (col_ddl sa) sb)
    = n_cols (fun c => match find_col (c_id c) sa with Some o => negb (c_name o =? c_name c) | None => false end) sb /\
  dsum is_mod (flat_map (col_ddl sa) sb)
    = n_cols (fun c => match find_col (c_id c) sa with Some o => negb (c_ty o =? c_ty c) | None => false end) sb.
Proof.
  induction sb as [|c sb [I1 [I2 [I3 I4]]]]; [repeat split; reflexivity|].
  cbn [flat_map]. rewrite !dsum_app, !n_cols_cons, I1, I2, I3, I4. unfold col_ddl, has_id.
  destruct (find_col (c_id c) sa) as [o|]; [|cbn; repeat split; lia].
  destruct (c_name o =? c_name c); destruct (c_ty o =? c_ty c); cbn; repeat split; lia.
Qed.

(* the patch has exactly one ADD / DROP / RENAME / MODIFY statement per column added / dropped /
   renamed / retyped *)
Theorem ddl_counts_spec sa sb : ddl_counts (schema_patch sa sb) = schema_delta_counts sa sb.
Proof.
  unfold ddl_counts, schema_patch, schema_delta_counts. rewrite ddl_counts_acc, !dsum_app.
  destruct (dsum_cols sa sb) as [I1 [I2 [I3 I4]]]. rewrite I1, I2, I3, I4, dsum_drops_count.
  rewrite !dsum_drops by reflexivity. rewrite !N.add_0_l, N.add_0_r. reflexivity.
Qed.

(* ---------------- the oracle holds on the model ---------------- *)
Lemma is_diff_b_diff a b : is_diff_b a b (diff a b) = true.
Proof.
  unfold is_diff_b. rewrite !andb_true_iff. repeat split.
  - apply forallb_forall. intros [[k f] t] Hin. apply (diff_exact a b) in Hin as [-> [-> Hne]].
    unfold entry_ok. rewrite !orow_eqb_refl. cbn [andb]. destruct (orow_eqb (get k a) (get k b)) eqn:E; [|reflexivity].
    apply orow_eqb_eq in E. congruence.
  - unfold covers. apply forallb_forall. intros k _. destruct (orow_eqb (get k a) (get k b)) eqn:E; [reflexivity|]. cbn [orb].
    apply existsb_exists. exists (k, get k a, get k b). split; [|apply key_eqb_refl].
    apply (diff_exact a b). repeat split. intros C. rewrite <- orow_eqb_eq in C. congruence.
  - pose proof (sorted_canonical (map (fun e : dentry => (fst (fst e), @nil cell)) (diff a b))) as SC.
    unfold canonical, keys in SC. rewrite map_map in SC. cbn [fst] in SC. apply SC. apply diff_sorted.
Qed.

Lemma lits_ok_model ss : lits_ok ss (map (fun s => (quote s, unquote (quote s))) ss) = true.
Proof.
  induction ss as [|s ss IH]; [reflexivity|]. cbn [map lits_ok]. rewrite sql_string_roundtrip. cbn [obytes_eqb].
  rewrite beq_bytes_refl, IH. reflexivity.
Qed.

Theorem oracle_on_model i : oracle i (model_obs i) = true.
Proof.
  unfold oracle, model_obs. cbn [o_diff o_diffsys o_rt o_rt_ok o_lits o_ddl].
  rewrite lits_ok_model, andb_true_r. cbn [andb]. rewrite andb_true_r. apply andb_true_iff. split; [apply andb_true_iff; split|].
  2: { rewrite ddl_counts_spec. destruct (schema_delta_counts (i_sa i) (i_sb i)) as [[[x1 x2] x3] x4]. cbn [ddl_eqb]. rewrite !N.eqb_refl. reflexivity. }
  - destruct (i_schema i); [reflexivity|]. cbn [orb].
    assert (D : diff_obs_ok (i_a i) (i_b i) (map (fun e => (e, dtype e)) (diff (i_a i) (i_b i))) = true).
    { unfold diff_obs_ok. rewrite map_map. cbn [fst]. rewrite map_id, is_diff_b_diff. cbn [andb].
      apply forallb_forall. intros en Hin. apply in_map_iff in Hin as [e [<- _]]. cbn [fst snd]. apply N.eqb_refl. }
    rewrite D. reflexivity.
  - apply ext_eqb_intro. intros k. rewrite get_norm. apply patch_roundtrip.
Qed.

(* ---------------- diff_stat / diff_summary: counts are the sizes of the declarative diff ---------------- *)
Definition n_type (ty : N) (d : list dentry) : N := N.of_nat (length (filter (fun e => dtype e =? ty) d)).

Definition kind_ins (s : stmt) : N := match s with SInsert _ _ => 1 | _ => 0 end.
Definition kind_upd (s : stmt) : N := match s with SUpdate _ _ => 1 | _ => 0 end.
Definition kind_del (s : stmt) : N := match s with SDelete _ => 1 | _ => 0 end.
Definition sum_by (f : stmt -> N) (l : list stmt) : N := fold_right (fun s acc => f s + acc) 0 l.

Lemma sum_by_cons f s l : sum_by f (s :: l) = f s + sum_by f l.
Proof. reflexivity. Qed.
Lemma sum_by_app f l1 l2 : sum_by f (l1 ++ l2) = sum_by f l1 + sum_by f l2.
Proof. induction l1 as [|s l1 IH]; [reflexivity|]. cbn [app]. rewrite !sum_by_cons, IH. lia. Qed.

Lemma count_kind_acc l : forall i u d,
  fold_left (fun acc s => let '(i, u, d) := acc in
                          match s with SInsert _ _ => (i + 1, u, d) | SUpdate _ _ => (i, u + 1, d) | SDelete _ => (i, u, d + 1) end)
            l (i, u, d)
  = (i + sum_by kind_ins l, u + sum_by kind_upd l, d + sum_by kind_del l).
Proof.
  induction l as [|s l IH]; intros i u d.
  - cbn [fold_left sum_by fold_right]. f_equal; [f_equal|]; lia.
  - cbn [fold_left]. rewrite !sum_by_cons. destruct s; rewrite IH; cbn [kind_ins kind_upd kind_del].
    all: match goal with |- (?a, ?b, ?c) = (?a', ?b', ?c') => replace a with a' by lia; replace b with b' by lia; replace c with c' by lia; reflexivity end.
Qed.

Lemma n_type_cons ty e d : n_type ty (e :: d) = (if dtype e =? ty then 1 else 0) + n_type ty d.
Proof.
  unfold n_type. cbn [filter]. destruct (dtype e =? ty); cbn [length]; lia.
Qed.

Lemma sums_of_entries d :
  (forall k f t, In (k, f, t) d -> f <> t) ->
  sum_by kind_ins (flat_map stmt_of d) = n_type 0 d /\
  sum_by kind_upd (flat_map stmt_of d) = n_type 2 d /\
  sum_by kind_del (flat_map stmt_of d) = n_type 1 d.
Proof.
  induction d as [|[[k f] t] d IH]; intros H; [repeat split; reflexivity|].
  destruct IH as [I1 [I2 I3]]; [intros k' f' t' Hin; apply (H k' f' t'); right; exact Hin|].
  assert (Hne : f <> t) by (apply (H k f t); left; reflexivity).
  cbn [flat_map]. rewrite !n_type_cons, !sum_by_app, I1, I2, I3.
  destruct f as [ra|], t as [rb|]; try (exfalso; apply Hne; reflexivity);
    cbn [stmt_of dtype]; rewrite !sum_by_cons; cbn [sum_by fold_right kind_ins kind_upd kind_del N.eqb Pos.eqb];
    repeat split; lia.
Qed.

(* the numbers of INSERT / UPDATE / DELETE statements (= rows added / modified / deleted of
   dolt_diff_stat and dolt_diff_summary) are the numbers of added / modified / removed entries of the diff *)
Theorem diff_counts a b :
  count_kind (patch_stmts a b) = (n_type 0 (diff a b), n_type 2 (diff a b), n_type 1 (diff a b)).
Proof.
  unfold count_kind, patch_stmts. rewrite count_kind_acc.
  destruct (sums_of_entries (diff a b)) as [I1 [I2 I3]].
  - intros k f t Hin. apply (diff_exact a b) in Hin. tauto.
  - rewrite I1, I2, I3. reflexivity.
Qed.

(* ---------------- non-vacuity ---------------- *)
Example ex_quote : quote [97; 39; 92; 0; 10; 26] = [39; 97; 92; 39; 92; 92; 92; 48; 92; 110; 92; 90; 39].
Proof. reflexivity. Qed.
Example ex_patch :
  patch_stmts [((1, 1), [Some 1; None]); ((1, 2), [Some 2; Some 2])] [((1, 1), [Some 1; Some 7]); ((1, 3), [None; None])]
  = [SUpdate (1, 1) [None; Some (Some 7)]; SDelete (1, 2); SInsert (1, 3) [None; None]].
Proof. reflexivity. Qed.
