(* C32 — diff, patch statements, SQL string literals.  No proofs in this file.

   Row-level diff of two table states (contents as in C31.Model, keyed by
   (table, pk)), as
     go/libraries/doltcore/sqle/dtables/diff_table.go, diff_iter.go   (dolt_diff_<t>)
     go/libraries/doltcore/sqle/dtablefunctions/dolt_diff.go          (dolt_diff())
   report it: one entry per key whose binding differs, with the from and the to row.

   Patch statements as
     go/libraries/doltcore/sqle/dtablefunctions/dolt_patch.go  getDataSqlPatchResults
     go/libraries/doltcore/sqle/sqlfmt/row_fmt.go              SqlRowAsInsertStmt /
         SqlRowAsUpdateStmt (only the changed columns, WHERE pk) / SqlRowAsDeleteStmt
   produce them, and their execution.

   String literals: sqlfmt.quoteAndEscapeString = vitess sqltypes.Value.EncodeSQL
   (encodeBytesSQL with SQLEncodeMap) and the reader
   vitess sqlparser Tokenizer.scanString (SQLDecodeMap, doubled delimiter).
   Binary values: sqlfmt.hexEncodeBytes = 0x followed by lower-case hex. *)
From Coq Require Import NArith List Bool.
From Dolt Require Import Base.Str C31.Model.
Import ListNotations.
Local Open Scope N_scope.

(* ---------------- diff ---------------- *)
Definition dentry := (key * option row * option row)%type.     (* key, from, to *)

Definition diff_at (a b : content) (k : key) : list dentry :=
  if orow_eqb (get k a) (get k b) then [] else [(k, get k a, get k b)].

Definition diff_keys (a b : content) : list key := sort_keys (keys a ++ keys b).

Definition diff (a b : content) : list dentry := flat_map (diff_at a b) (diff_keys a b).

(* diff_type: 0 added, 1 removed, 2 modified *)
Definition dtype (e : dentry) : N :=
  match e with
  | (_, None, _) => 0
  | (_, Some _, None) => 1
  | (_, Some _, Some _) => 2
  end.

(* ---------------- patch statements ---------------- *)
Inductive stmt :=
| SInsert (k : key) (r : row)
| SDelete (k : key)
| SUpdate (k : key) (u : list (option cell)).   (* Some v: SET col = v; None: column not mentioned *)

Fixpoint diff_cells (ra rb : row) : list (option cell) :=
  match ra, rb with
  | x :: ra', y :: rb' => (if cell_eqb x y then None else Some y) :: diff_cells ra' rb'
  | _, _ => map Some rb
  end.

Fixpoint apply_upd (r : row) (u : list (option cell)) : row :=
  match u with
  | [] => []
  | Some v :: u' => v :: apply_upd (tl r) u'
  | None :: u' => match r with
                  | c :: r' => c :: apply_upd r' u'
                  | [] => apply_upd [] u'
                  end
  end.

Definition stmt_of (e : dentry) : list stmt :=
  match e with
  | (k, None, Some r) => [SInsert k r]
  | (k, Some _, None) => [SDelete k]
  | (k, Some ra, Some rb) => [SUpdate k (diff_cells ra rb)]
  | (_, None, None) => []
  end.

Definition patch_stmts (a b : content) : list stmt := flat_map stmt_of (diff a b).

Definition remove (k : key) (m : content) : content := filter (fun kr => negb (key_eqb k (fst kr))) m.

Definition apply_stmt (m : content) (s : stmt) : content :=
  match s with
  | SInsert k r => (k, r) :: m
  | SDelete k => remove k m
  | SUpdate k u => match get k m with
                   | Some r => (k, apply_upd r u) :: m
                   | None => m                      (* UPDATE ... WHERE pk = k matches no row *)
                   end
  end.

Definition apply_stmts (m : content) (l : list stmt) : content := fold_left apply_stmt l m.

Definition count_kind (l : list stmt) : N * N * N :=     (* inserts, updates, deletes *)
  fold_left (fun acc s => let '(i, u, d) := acc in
                          match s with SInsert _ _ => (i + 1, u, d) | SUpdate _ _ => (i, u + 1, d) | SDelete _ => (i, u, d + 1) end)
            l (0, 0, 0).

(* ---------------- SQL string literals ---------------- *)
Definition c_quote := 39.  Definition c_bslash := 92.

(* sqltypes.encodeRef: byte -> escape letter; None = DontEscape *)
Definition sql_encode (b : N) : option N :=
  if b =? 0 then Some 48            (* \0 *)
  else if b =? 39 then Some 39      (* backslash quote *)
  else if b =? 34 then Some 34      (* backslash dquote *)
  else if b =? 8 then Some 98       (* \b *)
  else if b =? 10 then Some 110     (* \n *)
  else if b =? 13 then Some 114     (* \r *)
  else if b =? 9 then Some 116      (* \t *)
  else if b =? 26 then Some 90      (* \Z *)
  else if b =? 92 then Some 92      (* \\ *)
  else None.

(* SQLDecodeMap: escape letter -> byte; letters without an entry stand for themselves *)
Definition sql_decode (e : N) : N :=
  if e =? 48 then 0
  else if e =? 39 then 39
  else if e =? 34 then 34
  else if e =? 98 then 8
  else if e =? 110 then 10
  else if e =? 114 then 13
  else if e =? 116 then 9
  else if e =? 90 then 26
  else if e =? 92 then 92
  else e.

Definition enc_byte (b : N) : bytes :=
  match sql_encode b with Some e => [c_bslash; e] | None => [b] end.

Definition quote_body (s : bytes) : bytes := flat_map enc_byte s.
Definition quote (s : bytes) : bytes := c_quote :: quote_body s ++ [c_quote].

(* Tokenizer.scanString after the opening quote: (decoded, rest after the closing quote);
   None = LEX_ERROR (unterminated string / string ends inside an escape) *)
Fixpoint scan (s : bytes) : option (bytes * bytes) :=
  match s with
  | [] => None
  | ch :: r =>
    if ch =? c_bslash then
      match r with
      | [] => None
      | e :: r' => match scan r' with Some (d, rest) => Some (sql_decode e :: d, rest) | None => None end
      end
    else if ch =? c_quote then
      match r with
      | q :: r' => if q =? c_quote
                   then match scan r' with Some (d, rest) => Some (c_quote :: d, rest) | None => None end
                   else Some ([], r)
      | [] => Some ([], [])
      end
    else match scan r with Some (d, rest) => Some (ch :: d, rest) | None => None end
  end.

(* a whole literal, nothing after it *)
Definition unquote (l : bytes) : option bytes :=
  match l with
  | q :: r => if q =? c_quote then match scan r with Some (d, []) => Some d | _ => None end else None
  | [] => None
  end.

(* ---------------- hex literals ---------------- *)
Definition hex_digit (n : N) : N := if n <? 10 then 48 + n else 87 + n.       (* 0-9 a-f *)
Definition hex_val (c : N) : option N :=
  if (48 <=? c) && (c <=? 57) then Some (c - 48)
  else if (97 <=? c) && (c <=? 102) then Some (c - 87)
  else if (65 <=? c) && (c <=? 70) then Some (c - 55)
  else None.
Definition hex_body (s : bytes) : bytes := flat_map (fun b => [hex_digit (b / 16); hex_digit (b mod 16)]) s.
Definition hex_lit (s : bytes) : bytes := 48 :: 120 :: hex_body s.                (* 0x ... *)
Fixpoint unhex_body (l : bytes) : option bytes :=
  match l with
  | [] => Some []
  | h :: l1 => match l1 with
               | lo :: l' => match hex_val h, hex_val lo, unhex_body l' with
                             | Some x, Some y, Some r => Some (16 * x + y :: r)
                             | _, _, _ => None
                             end
               | [] => None
               end
  end.
Definition unhex_lit (l : bytes) : option bytes :=
  match l with
  | 48 :: 120 :: r => unhex_body r
  | _ => None
  end.

(* ================================================================ *)
(* Round 3: schema delta (add / drop / rename / modify column)       *)
(* go/libraries/doltcore/sqle/sqlfmt/schema_fmt.go  GenerateSqlPatchSchemaStatements /
   generateNonCreateNonDropTableSqlSchemaDiff: columns are matched by tag; a column only in the
   old schema is dropped, a column only in the new one is added, and for a column in both the
   name and the type are checked INDEPENDENTLY: RENAME COLUMN when the name differs, and
   MODIFY COLUMN when the type differs (a column can need both). *)
Record col := { c_id : N; c_name : N; c_ty : N }.
Definition tschema := list col.

Inductive ddl :=
| DAdd (c : col)
| DDrop (id : N)
| DRename (id nm : N)
| DModify (id ty : N).

Fixpoint find_col (id : N) (s : tschema) : option col :=
  match s with
  | [] => None
  | c :: s' => if c_id c =? id then Some c else find_col id s'
  end.
Definition has_id (id : N) (s : tschema) : bool := match find_col id s with Some _ => true | None => false end.

Definition col_ddl (sa : tschema) (c : col) : list ddl :=
  match find_col (c_id c) sa with
  | None => [DAdd c]
  | Some old =>
    (if c_name old =? c_name c then [] else [DRename (c_id c) (c_name c)])
    ++ (if c_ty old =? c_ty c then [] else [DModify (c_id c) (c_ty c)])
  end.

Definition schema_patch (sa sb : tschema) : list ddl :=
  map (fun c => DDrop (c_id c)) (filter (fun c => negb (has_id (c_id c) sb)) sa)
  ++ flat_map (col_ddl sa) sb.

Definition set_name (nm : N) (c : col) : col := {| c_id := c_id c; c_name := nm; c_ty := c_ty c |}.
Definition set_ty (ty : N) (c : col) : col := {| c_id := c_id c; c_name := c_name c; c_ty := ty |}.

Definition apply_ddl (s : tschema) (d : ddl) : tschema :=
  match d with
  | DAdd c => s ++ [c]
  | DDrop id => filter (fun c => negb (c_id c =? id)) s
  | DRename id nm => map (fun c => if c_id c =? id then set_name nm c else c) s
  | DModify id ty => map (fun c => if c_id c =? id then set_ty ty c else c) s
  end.
Definition apply_ddls (s : tschema) (l : list ddl) : tschema := fold_left apply_ddl l s.

(* numbers of ADD / DROP / RENAME / MODIFY statements *)
Definition ddl_counts (l : list ddl) : N * N * N * N :=
  fold_left (fun acc d => let '(a, dr, r, m) := acc in
                          match d with DAdd _ => (a + 1, dr, r, m) | DDrop _ => (a, dr + 1, r, m)
                                     | DRename _ _ => (a, dr, r + 1, m) | DModify _ _ => (a, dr, r, m + 1) end)
            l (0, 0, 0, 0).

Definition col_eqb (x y : col) : bool := (c_id x =? c_id y) && (c_name x =? c_name y) && (c_ty x =? c_ty y).
Fixpoint tschema_eqb (a b : tschema) : bool :=
  match a, b with
  | [], [] => true
  | x :: a', y :: b' => col_eqb x y && tschema_eqb a' b'
  | _, _ => false
  end.
