(* C32 — the property, declaratively. *)
From Coq Require Import NArith List Bool.
From Dolt Require Import Base.Str C31.Model C31.Spec C32.Model.
Import ListNotations.
Local Open Scope N_scope.

(* a list of entries IS the difference between a and b: it lists exactly the keys
   whose bindings differ, each once, with the binding in a as "from" and in b as "to" *)
Definition is_diff (a b : content) (d : list dentry) : Prop :=
  (forall k f t, In (k, f, t) d <-> (f = get k a /\ t = get k b /\ f <> t)).

(* boolean form on an observed entry list (keys strictly increasing = each once) *)
Definition entry_ok (a b : content) (e : dentry) : bool :=
  let '(k, f, t) := e in
  orow_eqb f (get k a) && orow_eqb t (get k b) && negb (orow_eqb f t).
Definition covers (a b : content) (d : list dentry) : bool :=
  forallb (fun k => orow_eqb (get k a) (get k b) || existsb (fun e => key_eqb k (fst (fst e))) d)
          (keys a ++ keys b).
Definition is_diff_b (a b : content) (d : list dentry) : bool :=
  forallb (entry_ok a b) d && covers a b d && sorted_keys (map (fun e => fst (fst e)) d).

(* ---------------- schema delta, declaratively ---------------- *)
(* how many columns were added / dropped / renamed / retyped between two schemas (by tag) *)
Definition n_cols (f : col -> bool) (s : tschema) : N := N.of_nat (length (filter f s)).
Definition schema_delta_counts (sa sb : tschema) : N * N * N * N :=
  (n_cols (fun c => negb (has_id (c_id c) sa)) sb,
   n_cols (fun c => negb (has_id (c_id c) sb)) sa,
   n_cols (fun c => match find_col (c_id c) sa with Some o => negb (c_name o =? c_name c) | None => false end) sb,
   n_cols (fun c => match find_col (c_id c) sa with Some o => negb (c_ty o =? c_ty c) | None => false end) sb).
