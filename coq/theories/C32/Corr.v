(* C32 — correspondence. *)
From Coq Require Import NArith List Bool.
From Dolt Require Import Base.Str C31.Model C31.Spec C32.Model C32.Spec.
Import ListNotations.
Local Open Scope N_scope.

(* input: the two table states (cells are interned value ids, NULL = None), whether the
   second commit also changed the schema (then only the round trip is predicted), and
   byte strings for the literal encoder *)
Record input := { i_a : content; i_b : content; i_schema : bool; i_sa : tschema; i_sb : tschema; i_strs : list bytes }.

Record obs := {
  o_diff : list (dentry * N);           (* dolt_diff(): entry, diff_type *)
  o_diffsys : list (dentry * N);        (* dolt_diff_t *)
  o_counts : N * N * N;                 (* INSERT / UPDATE / DELETE statements of dolt_patch *)
  o_ddl : N * N * N * N;                (* ALTER TABLE ... ADD / DROP / RENAME COLUMN / MODIFY COLUMN statements of dolt_patch *)
  o_rt : content;                       (* table after executing the patch on the first commit *)
  o_rt_ok : bool;                       (* no statement failed, rows and SHOW CREATE TABLE equal the second commit *)
  o_lits : list (bytes * option bytes)  (* literal produced, what the tokenizer read back *)
}.
Definition case := (input * obs)%type.

Definition model_obs (i : input) : obs :=
  let d := if i_schema i then [] else map (fun e => (e, dtype e)) (diff (i_a i) (i_b i)) in
  {| o_diff := d; o_diffsys := d;
     o_counts := if i_schema i then (0, 0, 0) else count_kind (patch_stmts (i_a i) (i_b i));
     o_ddl := ddl_counts (schema_patch (i_sa i) (i_sb i));
     o_rt := norm (apply_stmts (i_a i) (patch_stmts (i_a i) (i_b i)));
     o_rt_ok := true;
     o_lits := map (fun s => (quote s, unquote (quote s))) (i_strs i) |}.

Definition dentry_eqb (x y : dentry * N) : bool :=
  let '((k, f, t), n) := x in let '((k', f', t'), n') := y in
  key_eqb k k' && orow_eqb f f' && orow_eqb t t' && (n =? n').
Fixpoint list_eqb {A} (eqb : A -> A -> bool) (a b : list A) : bool :=
  match a, b with
  | [], [] => true
  | x :: a', y :: b' => eqb x y && list_eqb eqb a' b'
  | _, _ => false
  end.
Definition obytes_eqb (a b : option bytes) : bool :=
  match a, b with Some x, Some y => beq_bytes x y | None, None => true | _, _ => false end.
Definition counts_eqb (x y : N * N * N) : bool :=
  let '(a, b, c) := x in let '(a', b', c') := y in (a =? a') && (b =? b') && (c =? c').

Definition ddl_eqb (x y : N * N * N * N) : bool :=
  let '(a, b, c, d) := x in let '(a', b', c', d') := y in (a =? a') && (b =? b') && (c =? c') && (d =? d').

Definition obs_eqb (m o : obs) (schema : bool) : bool :=
  ddl_eqb (o_ddl m) (o_ddl o) &&
  (schema || (list_eqb dentry_eqb (o_diff m) (o_diff o) && list_eqb dentry_eqb (o_diffsys m) (o_diffsys o)
              && counts_eqb (o_counts m) (o_counts o)))
  && content_eqb (o_rt m) (o_rt o) && Bool.eqb (o_rt_ok m) (o_rt_ok o)
  && list_eqb (fun x y => beq_bytes (fst x) (fst y) && obytes_eqb (snd x) (snd y)) (o_lits m) (o_lits o).

(* The property on the implementation's observations:
   - both diff sources list exactly the differing rows with correct from / to and type;
   - the ALTER statements of the patch are exactly the schema changes: as many ADD / DROP / RENAME /
     MODIFY COLUMN statements as columns were added / dropped / renamed / retyped;
   - executing the patch on the first commit gives the second commit (rows; schema and
     statement errors are compared by the harness and reported in o_rt_ok);
   - every string literal produced reads back as the string. *)
Definition diff_obs_ok (a b : content) (d : list (dentry * N)) : bool :=
  is_diff_b a b (map fst d) && forallb (fun en => snd en =? dtype (fst en)) d.

Fixpoint lits_ok (ss : list bytes) (ls : list (bytes * option bytes)) : bool :=
  match ss, ls with
  | [], [] => true
  | s :: ss', (_, d) :: ls' => obytes_eqb d (Some s) && lits_ok ss' ls'
  | _, _ => false
  end.

Definition oracle (i : input) (o : obs) : bool :=
  (i_schema i || (diff_obs_ok (i_a i) (i_b i) (o_diff o) && diff_obs_ok (i_a i) (i_b i) (o_diffsys o)))
  && ddl_eqb (o_ddl o) (schema_delta_counts (i_sa i) (i_sb i))
  && o_rt_ok o && ext_eqb (o_rt o) (i_b i)
  && lits_ok (i_strs i) (o_lits o).

Definition check_case (c : case) : N :=
  (if obs_eqb (model_obs (fst c)) (snd c) (i_schema (fst c)) then 0 else 1)
  + (if oracle (fst c) (snd c) then 0 else 2).
