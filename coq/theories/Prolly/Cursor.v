(* Prolly/Cursor — searching and positioning in a prolly tree
   (go/store/prolly/tree/node_cursor.go).

   Part 1: the per-node binary search (searchForKey / newLeafCursorAtKey /
           sort.Search in rangeStartSearchFn) and its specification.
   Part 2: positions reached by the search-descend loops, written by structural
           recursion on the tree: `ordinal_of` (newCursorFromSearchFn followed by
           getOrdinalOfCursor), `lookup_at` (newLeafCursorAtKey + Valid +
           current item), `slice` (newCursorAtOrdinal on both ends + advance
           until compare >= 0), `rev_flatten` (newCursorAtEnd + retreat).
           Each is proved equal to the obvious function of `flatten t` for every
           well-formed tree of any depth.
   Part 3: the cursor as a stack of frames (one per level, the leaf first, as
           the `parent` chain of the Go struct) with `advance`, used by the diff
           algorithm; `cur_sem` gives the items still ahead of a cursor and
           `advance_sem` shows advance drops exactly the first of them. *)
From Coq Require Import NArith ZArith PeanoNat List Bool Lia Sorting.Sorted.
From Dolt Require Import Prolly.Tree.
Import ListNotations.
Local Open Scope N_scope.

(* ======================================================================== *)
(* Part 1: binary search                                                     *)
(* ======================================================================== *)

(* searchForKey:  i, j := 0, n
                  for i < j { h := int(uint(i+j) >> 1)
                              if !(key <= keys[h]) { i = h+1 } else { j = h } }
                  return i
   `p k` stands for "query <= k" (cmp <= 0); for sort.Search it is the searched
   predicate itself. `fuel` is structural only. *)
Fixpoint bsearch (fuel : nat) (p : key -> bool) (ks : list key) (i j : N) : N :=
  match fuel with
  | O => i
  | S f =>
    if i <? j then
      let h := (i + j) / 2 in
      if p (nth (N.to_nat h) ks 0) then bsearch f p ks i h else bsearch f p ks (h + 1) j
    else i
  end.

Definition search (p : key -> bool) (ks : list key) : N :=
  bsearch (length ks) p ks 0 (N.of_nat (length ks)).

(* cursor.keepInBounds for an index that is never negative *)
Definition keep_in_bounds (i n : N) : N := if n <=? i then n - 1 else i.

(* a search predicate is monotone w.r.t. the key order *)
Definition mono (p : key -> bool) : Prop := forall a b, a <= b -> p a = true -> p b = true.

(* number of entries strictly before the search position *)
Definition nfalse (p : key -> bool) (l : list key) : N :=
  N.of_nat (length (filter (fun k => negb (p k)) l)).

Lemma filter_len_le {A} (f : A -> bool) l : (length (filter f l) <= length l)%nat.
Proof. induction l as [|a l IH]; [apply le_n|]. cbn [filter]. destruct (f a); cbn [length]; lia. Qed.

Lemma bsearch_spec p A B :
  Forall (fun k => p k = false) A -> Forall (fun k => p k = true) B ->
  forall fuel i j,
    i <= N.of_nat (length A) -> N.of_nat (length A) <= j -> j <= N.of_nat (length (A ++ B)) ->
    (N.to_nat (j - i) <= fuel)%nat ->
    bsearch fuel p (A ++ B) i j = N.of_nat (length A).
Proof.
  intros HA HB. induction fuel as [|f IH]; intros i j Hi Hj Hlen Hf; cbn [bsearch].
  - lia.
  - destruct (i <? j) eqn:Eij.
    + apply N.ltb_lt in Eij.
      assert (Hh1 : i <= (i + j) / 2) by (apply N.div_le_lower_bound; lia).
      assert (Hh2 : (i + j) / 2 < j) by (apply N.div_lt_upper_bound; lia).
      set (h := (i + j) / 2) in *.
      destruct (N.lt_ge_cases h (N.of_nat (length A))) as [Hlt|Hge].
      * rewrite app_nth1 by lia.
        rewrite Forall_forall in HA. rewrite (HA (nth (N.to_nat h) A 0)) by (apply nth_In; lia).
        apply IH; lia.
      * rewrite app_nth2 by lia.
        rewrite Forall_forall in HB.
        rewrite app_length in Hlen.
        rewrite (HB (nth (N.to_nat h - length A) B 0)) by (apply nth_In; lia).
        apply IH; try lia. rewrite app_length; lia.
    + apply N.ltb_ge in Eij. lia.
Qed.

Lemma mono_partition p l :
  mono p -> ksorted l ->
  l = filter (fun k => negb (p k)) l ++ filter p l
  /\ Forall (fun k => p k = false) (filter (fun k => negb (p k)) l)
  /\ Forall (fun k => p k = true) (filter p l).
Proof.
  intros Hm Hs. split; [|split].
  - induction Hs as [|a l Hs IH Hf]; [reflexivity|].
    cbn [filter]. destruct (p a) eqn:Ea; cbn [negb app].
    + assert (Hall : Forall (fun k => p k = true) l).
      { rewrite Forall_forall in *. intros k Hk. apply (Hm a k); [|exact Ea].
        specialize (Hf k Hk). lia. }
      assert (E1 : filter (fun k => negb (p k)) l = []).
      { clear -Hall. induction l as [|b l IHl]; [reflexivity|].
        inversion Hall as [|? ? Hb Hl]; subst. cbn [filter]. rewrite Hb. cbn [negb]. apply IHl, Hl. }
      assert (E2 : filter p l = l).
      { clear -Hall. induction l as [|b l IHl]; [reflexivity|].
        inversion Hall as [|? ? Hb Hl]; subst. cbn [filter]. rewrite Hb. f_equal. apply IHl, Hl. }
      rewrite E1, E2. reflexivity.
    + f_equal. exact IH.
  - rewrite Forall_forall. intros k Hk. apply filter_In in Hk as [_ Hk].
    apply negb_true_iff, Hk.
  - rewrite Forall_forall. intros k Hk. apply filter_In in Hk as [_ Hk]. exact Hk.
Qed.

Theorem search_spec p ks : mono p -> ksorted ks -> search p ks = nfalse p ks.
Proof.
  intros Hm Hs. destruct (mono_partition p ks Hm Hs) as (E & HA & HB).
  unfold search, nfalse. rewrite E at 2.
  assert (El : length ks = length (filter (fun k => negb (p k)) ks ++ filter p ks)) by (rewrite <- E; reflexivity).
  rewrite El. apply bsearch_spec; try assumption; try lia.
  rewrite app_length. lia.
Qed.

Lemma search_le p ks : mono p -> ksorted ks -> search p ks <= N.of_nat (length ks).
Proof.
  intros Hm Hs. rewrite search_spec by assumption. unfold nfalse.
  pose proof (filter_len_le (fun k => negb (p k)) ks). lia.
Qed.

(* ======================================================================== *)
(* Part 2: positions, by structural recursion on the tree                    *)
(* ======================================================================== *)

Definition sum_counts (cs : list (key * N * node)) : N :=
  fold_right (fun e a => ent_cnt e + a) 0 cs.

(* newCursorFromSearchFn(search) then getOrdinalOfCursor: at every internal
   level search, keepInBounds, add the cached counts of the preceding
   subtrees, descend; at the leaf add the leaf index. *)
Fixpoint ordinal_of (p : key -> bool) (t : node) : N :=
  match t with
  | Leaf kvs => search p (map fst kvs)
  | Inner cs =>
    let i := keep_in_bounds (search p (map ent_key cs)) (N.of_nat (length cs)) in
    (fix go (cs : list (key * N * node)) (i : nat) : N :=
       match cs with
       | [] => 0
       | e :: cs' => match i with
                     | O => ordinal_of p (snd e)
                     | S i' => ent_cnt e + go cs' i'
                     end
       end) cs (N.to_nat i)
  end.

(* newLeafCursorAtKey(search), then `if cur.Valid() { current key, value }` *)
Fixpoint lookup_at (p : key -> bool) (t : node) : option kv :=
  match t with
  | Leaf kvs => nth_error kvs (N.to_nat (search p (map fst kvs)))
  | Inner cs =>
    let i := keep_in_bounds (search p (map ent_key cs)) (N.of_nat (length cs)) in
    (fix go (cs : list (key * N * node)) (i : nat) : option kv :=
       match cs with
       | [] => None
       | e :: cs' => match i with
                     | O => lookup_at p (snd e)
                     | S i' => go cs' i'
                     end
       end) cs (N.to_nat i)
  end.

(* items with ordinal in [a, b): newCursorAtOrdinal(a) .. newCursorAtOrdinal(b).
   Whole subtrees before `a` are skipped by their cached counts (the search fn
   of newCursorAtOrdinal), subtrees at or after `b` are not entered. *)
Fixpoint slice (t : node) (a b : N) : list kv :=
  match t with
  | Leaf kvs => firstn (N.to_nat (b - a)) (skipn (N.to_nat a) kvs)
  | Inner cs =>
    (fix go (cs : list (key * N * node)) (a b : N) : list kv :=
       match cs with
       | [] => []
       | e :: cs' =>
         let c := ent_cnt e in
         if b =? 0 then []
         else if c <=? a then go cs' (a - c) (b - c)
         else slice (snd e) a (N.min b c) ++ go cs' 0 (b - c)
       end) cs a b
  end.

(* newCursorAtEnd + retreat until before the start *)
Fixpoint rev_flatten (t : node) : list kv :=
  match t with
  | Leaf kvs => rev kvs
  | Inner cs => concat (rev (map (fun e => rev_flatten (snd e)) cs))
  end.

(* ---- specifications ----------------------------------------------------- *)

Definition kfalse (p : key -> bool) (l : list kv) : N := nfalse p (keys l).

Lemma nfalse_app p l1 l2 : nfalse p (l1 ++ l2) = nfalse p l1 + nfalse p l2.
Proof. unfold nfalse. rewrite filter_app, app_length. lia. Qed.

Lemma nfalse_all_false p l : Forall (fun k => p k = false) l -> nfalse p l = N.of_nat (length l).
Proof.
  unfold nfalse. induction 1 as [|a l Ha _ IH]; [reflexivity|].
  cbn [filter]. rewrite Ha. cbn [negb length]. lia.
Qed.

Lemma nfalse_all_true p l : Forall (fun k => p k = true) l -> nfalse p l = 0.
Proof.
  unfold nfalse. induction 1 as [|a l Ha _ IH]; [reflexivity|].
  cbn [filter]. rewrite Ha. cbn [negb]. exact IH.
Qed.

Lemma nfalse_le p l : nfalse p l <= N.of_nat (length l).
Proof. unfold nfalse. pose proof (filter_len_le (fun k => negb (p k)) l). lia. Qed.

(* facts about the entries of a well-shaped, sorted internal node *)
Definition ents_ok (cs : list (key * N * node)) : Prop :=
  Forall (fun e => shape (snd e) = true /\ ent_cnt e = count (snd e)
                   /\ ent_key e = tree_last_key (snd e)) cs.

Lemma shape_ents_ok cs : shape (Inner cs) = true -> ents_ok cs.
Proof.
  cbn [shape]. intros H. apply andb_true_iff in H as [_ H].
  unfold ents_ok. rewrite Forall_forall. rewrite forallb_forall in H.
  intros e He. specialize (H e He).
  apply andb_true_iff in H as [H _].
  apply andb_true_iff in H as [H H3].
  apply andb_true_iff in H as [H1 H2].
  split; [exact H1|]. split; [apply N.eqb_eq, H2 | apply N.eqb_eq, H3].
Qed.

Lemma sum_counts_spec cs : ents_ok cs -> sum_counts cs = count (Inner cs).
Proof.
  induction 1 as [|e cs (_ & Hc & _) _ IH]; [reflexivity|].
  cbn [sum_counts fold_right]. rewrite count_Inner_cons. fold (sum_counts cs). rewrite IH, Hc. reflexivity.
Qed.

Lemma tree_last_key_in t : shape t = true -> In (tree_last_key t) (keys (flatten t)).
Proof.
  intros H. apply shape_nonempty in H. unfold tree_last_key, keys.
  destruct (map fst (flatten t)) as [|a l] eqn:E.
  - apply map_eq_nil in E. contradiction.
  - rewrite <- E. destruct (@exists_last _ (map fst (flatten t))) as (l' & x & E').
    { rewrite E; discriminate. }
    rewrite E'. rewrite last_last. apply in_or_app. right. left. reflexivity.
Qed.

(* keys of the separators are sorted when the contents are *)
Lemma sep_keys_props cs :
  ents_ok cs -> ksorted (keys (flatten (Inner cs))) ->
  ksorted (map ent_key cs)
  /\ Forall (fun e => ksorted (keys (flatten (snd e)))
                      /\ forall k, In k (keys (flatten (snd e))) -> k <= ent_key e) cs.
Proof.
  induction 1 as [|e cs (Hs & Hc & Hk) Hok IH]; intros Hsorted.
  - split; constructor.
  - rewrite flatten_Inner_cons, keys_app in Hsorted.
    apply ksorted_app in Hsorted as (S1 & S2 & S3).
    destruct (IH S2) as (IH1 & IH2). split.
    + constructor; [exact IH1|].
      rewrite Forall_forall. intros k Hk'. apply in_map_iff in Hk' as (e' & <- & He').
      apply S3.
      * rewrite Hk. apply tree_last_key_in, Hs.
      * rewrite Forall_forall in Hok. destruct (Hok e' He') as (Hs' & _ & Hk'').
        rewrite Hk''.
        assert (In (tree_last_key (snd e')) (keys (flatten (snd e')))) by (apply tree_last_key_in, Hs').
        clear -He' H. induction cs as [|x cs IHcs]; [destruct He'|].
        rewrite flatten_Inner_cons, keys_app. apply in_or_app.
        destruct He' as [->|He']; [left; exact H | right; apply IHcs, He'].
    + constructor; [|exact IH2]. split; [exact S1|].
      intros k Hin. rewrite Hk. unfold tree_last_key. apply ksorted_lt_last; assumption.
Qed.


Lemma keep_in_bounds_lt i n : 0 < n -> keep_in_bounds i n < n.
Proof. unfold keep_in_bounds. intros H. destruct (n <=? i) eqn:E; [lia|]. apply N.leb_gt in E. lia. Qed.

(* what the binary search result means index-wise *)
Lemma search_props p ks :
  mono p -> ksorted ks ->
  search p ks <= N.of_nat (length ks)
  /\ (forall j, (j < N.to_nat (search p ks))%nat -> p (nth j ks 0) = false)
  /\ (forall j, (N.to_nat (search p ks) <= j < length ks)%nat -> p (nth j ks 0) = true).
Proof.
  intros Hm Hs. pose proof (search_le p ks Hm Hs) as Hle.
  rewrite search_spec in * by assumption.
  destruct (mono_partition p ks Hm Hs) as (E & HA & HB).
  unfold nfalse in *. rewrite Nat2N.id.
  set (A := filter (fun k => negb (p k)) ks) in *. set (B := filter p ks) in *.
  split; [exact Hle|]. rewrite Forall_forall in HA, HB. split; intros j Hj.
  - rewrite E. rewrite app_nth1 by lia. apply HA, nth_In. lia.
  - rewrite E. rewrite app_nth2 by lia. apply HB, nth_In.
    assert (length ks = (length A + length B)%nat) by (rewrite E at 1; apply app_length). lia.
Qed.

Definition ord_go (p : key -> bool) :=
  fix go (cs : list (key * N * node)) (i : nat) : N :=
    match cs with
    | [] => 0
    | e :: cs' => match i with O => ordinal_of p (snd e) | S i' => ent_cnt e + go cs' i' end
    end.

Definition look_go (p : key -> bool) :=
  fix go (cs : list (key * N * node)) (i : nat) : option kv :=
    match cs with
    | [] => None
    | e :: cs' => match i with O => lookup_at p (snd e) | S i' => go cs' i' end
    end.

Lemma ordinal_of_Inner p cs :
  ordinal_of p (Inner cs) =
  ord_go p cs (N.to_nat (keep_in_bounds (search p (map ent_key cs)) (N.of_nat (length cs)))).
Proof. reflexivity. Qed.

Lemma lookup_at_Inner p cs :
  lookup_at p (Inner cs) =
  look_go p cs (N.to_nat (keep_in_bounds (search p (map ent_key cs)) (N.of_nat (length cs)))).
Proof. reflexivity. Qed.

Lemma ord_go_at p pre e post :
  ord_go p (pre ++ e :: post) (length pre) = sum_counts pre + ordinal_of p (snd e).
Proof.
  induction pre as [|x pre IH]; cbn [app length ord_go sum_counts fold_right].
  - lia.
  - fold (ord_go p). fold (sum_counts pre). rewrite IH. lia.
Qed.

Lemma look_go_at p pre e post :
  look_go p (pre ++ e :: post) (length pre) = lookup_at p (snd e).
Proof.
  induction pre as [|x pre IH]; cbn [app length look_go]; [reflexivity|].
  fold (look_go p). exact IH.
Qed.

Lemma flatten_Inner_app a b : flatten (Inner (a ++ b)) = flatten (Inner a) ++ flatten (Inner b).
Proof. cbn [flatten]. rewrite map_app, concat_app. reflexivity. Qed.

Lemma ents_ok_app a b : ents_ok (a ++ b) <-> ents_ok a /\ ents_ok b.
Proof. apply Forall_app. Qed.

Lemma in_flatten_Inner k cs :
  In k (keys (flatten (Inner cs))) <-> exists e, In e cs /\ In k (keys (flatten (snd e))).
Proof.
  induction cs as [|x cs IH].
  - cbn. split; [intros [] | intros (e & [] & _)].
  - rewrite flatten_Inner_cons, keys_app, in_app_iff, IH. split.
    + intros [H|(e & He & H)]; [exists x; split; [left; reflexivity|exact H] | exists e; split; [right; exact He|exact H]].
    + intros (e & [<-|He] & H); [left; exact H | right; exists e; split; assumption].
Qed.

Lemma mono_false p a b : mono p -> a <= b -> p b = false -> p a = false.
Proof. intros Hm Hab Hb. destruct (p a) eqn:E; [|reflexivity]. rewrite (Hm a b Hab E) in Hb. discriminate. Qed.

Lemma nth_error_app_l {A} (l1 l2 : list A) n : (n < length l1)%nat -> nth_error (l1 ++ l2) n = nth_error l1 n.
Proof. intros H. apply nth_error_app1, H. Qed.

Lemma nfalse_full p l : nfalse p l = N.of_nat (length l) -> forall k, In k l -> p k = false.
Proof.
  unfold nfalse. induction l as [|a l IH]; intros H k Hk; [destruct Hk|].
  cbn [filter] in H. destruct (p a) eqn:Ea; cbn [negb length] in H.
  - pose proof (filter_len_le (fun k => negb (p k)) l). lia.
  - destruct Hk as [<-|Hk]; [exact Ea|]. apply IH; [lia|exact Hk].
Qed.

(* the combined statement proved by one induction over the tree *)
Definition pos_spec (p : key -> bool) (t : node) : Prop :=
  ordinal_of p t = kfalse p (flatten t)
  /\ lookup_at p t = nth_error (flatten t) (N.to_nat (kfalse p (flatten t))).

Theorem pos_spec_all p t : mono p -> shape t = true -> ksorted (keys (flatten t)) -> pos_spec p t.
Proof.
  intros Hm. induction t as [kvs|cs IH] using node_ind'; intros Hsh Hso.
  - unfold pos_spec. cbn [ordinal_of lookup_at flatten]. unfold kfalse, keys.
    rewrite search_spec by assumption. split; reflexivity.
  - pose proof (shape_ents_ok cs Hsh) as Hok.
    destruct (sep_keys_props cs Hok Hso) as (Hsep & Hb).
    destruct (search_props p (map ent_key cs) Hm Hsep) as (Hle & Hlo & Hhi).
    rewrite map_length in *.
    assert (Hne : (0 < length cs)%nat).
    { destruct cs; [cbn in Hsh; discriminate | cbn; lia]. }
    set (i0 := search p (map ent_key cs)) in *.
    set (i := N.to_nat (keep_in_bounds i0 (N.of_nat (length cs)))).
    assert (Hi : (i < length cs)%nat).
    { unfold i. pose proof (keep_in_bounds_lt i0 (N.of_nat (length cs))). lia. }
    (* split the children around i *)
    destruct (nth_split cs (0, 0, Leaf []) Hi) as (pre & post & Ecs & Hpre).
    set (e := nth i cs (0, 0, Leaf [])) in *.
    assert (Hpre_false : Forall (fun k => p k = false) (keys (flatten (Inner pre)))).
    { rewrite Forall_forall. intros k Hk. apply in_flatten_Inner in Hk as (x & Hx & Hk).
      apply In_nth with (d := (0, 0, Leaf [])) in Hx as (j & Hj & <-).
      assert (Hjc : nth j pre (0, 0, Leaf []) = nth j cs (0, 0, Leaf [])).
      { rewrite Ecs. rewrite app_nth1 by lia. reflexivity. }
      rewrite Hjc in Hk.
      assert (Hjin : In (nth j cs (0, 0, Leaf [])) cs) by (apply nth_In; lia).
      rewrite Forall_forall in Hb. destruct (Hb _ Hjin) as (_ & Hkle).
      apply (mono_false p k (ent_key (nth j cs (0, 0, Leaf []))) Hm (Hkle k Hk)).
      change 0 with (ent_key (0, 0, Leaf [])) in Hlo. 
      specialize (Hlo j). rewrite map_nth in Hlo. apply Hlo.
      unfold i, keep_in_bounds in Hpre. destruct (N.of_nat (length cs) <=? i0) eqn:Eb.
      - apply N.leb_le in Eb. lia.
      - lia. }
    assert (Hein : In e cs) by (apply nth_In; exact Hi).
    pose proof Hok as Hok'. unfold ents_ok in Hok'. rewrite Forall_forall in Hok'.
    destruct (Hok' e Hein) as (Hse & Hce & Hke).
    assert (Hso' := Hso). rewrite Ecs, flatten_Inner_app in Hso'.
    change (e :: post) with ([e] ++ post) in Hso'. rewrite flatten_Inner_app in Hso'.
    rewrite !keys_app in Hso'.
    apply ksorted_app in Hso' as (Sp & Sr & Spr).
    apply ksorted_app in Sr as (Se & Spo & Sepo).
    assert (Efe : flatten (Inner [e]) = flatten (snd e)) by (cbn [flatten map concat]; apply app_nil_r).
    rewrite Efe in *.
    rewrite Forall_forall in IH. destruct (IH e Hein Hse Se) as (IHo & IHl). unfold ent_child in IHo, IHl.
    (* what happens after e *)
    assert (Hpost : (p (ent_key e) = true /\ Forall (fun k => p k = true) (keys (flatten (Inner post))))
                    \/ (post = [] /\ p (ent_key e) = false)).
    { unfold i, keep_in_bounds in Hpre, Hi. 
      destruct (N.of_nat (length cs) <=? i0) eqn:Eb.
      - right. apply N.leb_le in Eb. split.
        + assert (length cs = (length pre + S (length post))%nat) by (rewrite Ecs at 1; rewrite app_length; reflexivity).
          destruct post; [reflexivity|]. cbn [length] in *. lia.
        + change 0 with (ent_key (0, 0, Leaf [])) in Hlo. specialize (Hlo i). rewrite map_nth in Hlo. apply Hlo.
          unfold i, keep_in_bounds. rewrite (proj2 (N.leb_le _ _) Eb). lia.
      - left. apply N.leb_gt in Eb.
        assert (Hpe : p (ent_key e) = true).
        { change 0 with (ent_key (0, 0, Leaf [])) in Hhi. specialize (Hhi i). rewrite map_nth in Hhi. apply Hhi.
          unfold i, keep_in_bounds. rewrite (proj2 (N.leb_gt _ _) Eb). lia. }
        split; [exact Hpe|]. rewrite Forall_forall. intros k Hk.
        apply (Hm (ent_key e) k); [|exact Hpe].
        assert (ent_key e < k); [|lia]. apply Sepo; [|exact Hk].
        rewrite Hke. apply tree_last_key_in, Hse. }
    unfold pos_spec. rewrite ordinal_of_Inner, lookup_at_Inner. fold i0. fold i.
    rewrite Ecs at 1 3. rewrite <- Hpre. rewrite ord_go_at, look_go_at.
    rewrite IHo, IHl.
    rewrite Ecs. rewrite flatten_Inner_app. change (e :: post) with ([e] ++ post). rewrite flatten_Inner_app, Efe.
    unfold kfalse. rewrite !keys_app, !nfalse_app.
    rewrite (nfalse_all_false p _ Hpre_false).
    rewrite Ecs in Hok. apply ents_ok_app in Hok as (Hokpre & _). rewrite (sum_counts_spec pre Hokpre). unfold count.
    assert (Hkl : forall l, length (keys l) = length l) by (intros; apply map_length). rewrite !Hkl.
    assert (Hpost0 : nfalse p (keys (flatten (Inner post))) = 0).
    { destruct Hpost as [(_ & Hall)|(-> & _)]; [apply nfalse_all_true, Hall | reflexivity]. }
    rewrite Hpost0. split; [lia|].
    rewrite N.add_0_r.
    pose proof (nfalse_le p (keys (flatten (snd e)))) as Hle_e. rewrite Hkl in Hle_e.
    replace (N.to_nat (N.of_nat (length (flatten (Inner pre))) + nfalse p (keys (flatten (snd e)))))
      with (length (flatten (Inner pre)) + N.to_nat (nfalse p (keys (flatten (snd e)))))%nat by lia.
    rewrite nth_error_app2 by lia.
    replace (length (flatten (Inner pre)) + N.to_nat (nfalse p (keys (flatten (snd e)))) - length (flatten (Inner pre)))%nat
      with (N.to_nat (nfalse p (keys (flatten (snd e))))) by lia.
    destruct (N.eq_dec (nfalse p (keys (flatten (snd e)))) (N.of_nat (length (flatten (snd e))))) as [Eall|Enot].
    + (* everything in e is before the position: then e is the last child *)
      destruct Hpost as [(Hpe & _)|(-> & _)].
      * exfalso. pose proof (tree_last_key_in (snd e) Hse) as Hin. rewrite <- Hke in Hin.
        rewrite <- Hkl in Eall. pose proof (nfalse_full p _ Eall _ Hin) as Hall.
        rewrite Hpe in Hall. discriminate.
      * rewrite Eall, Nat2N.id. cbn [flatten map concat]. rewrite app_nil_r. reflexivity.
    + symmetry. apply nth_error_app_l. lia.
Qed.

Corollary ordinal_of_spec p t :
  mono p -> wf t -> ordinal_of p t = kfalse p (flatten t).
Proof. intros Hm [H1 H2]. apply (pos_spec_all p t Hm H1 H2). Qed.

Corollary lookup_at_spec p t :
  mono p -> wf t -> lookup_at p t = nth_error (flatten t) (N.to_nat (kfalse p (flatten t))).
Proof. intros Hm [H1 H2]. apply (pos_spec_all p t Hm H1 H2). Qed.

(* ---- slice --------------------------------------------------------------- *)

Definition slice_go :=
  fix go (cs : list (key * N * node)) (a b : N) : list kv :=
    match cs with
    | [] => []
    | e :: cs' =>
      let c := ent_cnt e in
      if b =? 0 then []
      else if c <=? a then go cs' (a - c) (b - c)
      else slice (snd e) a (N.min b c) ++ go cs' 0 (b - c)
    end.

Lemma slice_Inner cs a b : slice (Inner cs) a b = slice_go cs a b.
Proof. reflexivity. Qed.

Lemma window_skip {A} (fe rest : list A) (a b : nat) :
  (length fe <= a)%nat ->
  firstn (b - a) (skipn a (fe ++ rest)) =
  firstn ((b - length fe) - (a - length fe)) (skipn (a - length fe) rest).
Proof.
  intros H. rewrite skipn_app. rewrite (skipn_all2 fe) by lia. cbn [app].
  f_equal. lia.
Qed.

Lemma window_enter {A} (fe rest : list A) (a b : nat) :
  (a < length fe)%nat -> (a <= b)%nat ->
  firstn (b - a) (skipn a (fe ++ rest)) =
  firstn (Nat.min b (length fe) - a) (skipn a fe) ++ firstn (b - length fe - 0) (skipn 0 rest).
Proof.
  intros H Hab. rewrite skipn_app. replace (a - length fe)%nat with O by lia. cbn [skipn].
  rewrite firstn_app. rewrite skipn_length. f_equal.
  - destruct (Nat.le_gt_cases b (length fe)) as [Hb|Hb].
    + rewrite Nat.min_l by lia. reflexivity.
    + rewrite Nat.min_r by lia. rewrite !firstn_all2; [reflexivity | rewrite skipn_length; lia | rewrite skipn_length; lia].
  - f_equal. lia.
Qed.

Theorem slice_spec t : shape t = true -> forall a b, a <= b ->
  slice t a b = firstn (N.to_nat (b - a)) (skipn (N.to_nat a) (flatten t)).
Proof.
  induction t as [kvs|cs IH] using node_ind'; intros Hsh a b Hab.
  - reflexivity.
  - rewrite slice_Inner. pose proof (shape_ents_ok cs Hsh) as Hok. clear Hsh.
    revert a b Hab. induction Hok as [|e cs (Hs & Hc & _) Hok IHcs]; intros a b Hab.
    + cbn [slice_go flatten map concat]. rewrite skipn_nil, firstn_nil. reflexivity.
    + inversion IH as [|? ? IHe IHrest]; subst. unfold ent_child in IHe.
      specialize (IHcs IHrest).
      cbn [slice_go]. fold slice_go. rewrite flatten_Inner_cons.
      unfold count in Hc. rewrite Hc.
      destruct (b =? 0) eqn:Eb.
      * apply N.eqb_eq in Eb. subst b. replace (N.to_nat (0 - a)) with O by lia. reflexivity.
      * apply N.eqb_neq in Eb.
        destruct (N.of_nat (length (flatten (snd e))) <=? a) eqn:Eca.
        -- apply N.leb_le in Eca. rewrite IHcs by lia.
           replace (N.to_nat (b - a)) with (N.to_nat b - N.to_nat a)%nat by lia.
           rewrite window_skip by lia. f_equal; [lia | f_equal; lia].
        -- apply N.leb_gt in Eca. rewrite IHcs by lia. rewrite (IHe Hs) by lia.
           replace (N.to_nat (b - a)) with (N.to_nat b - N.to_nat a)%nat by lia.
           rewrite window_enter by lia. f_equal; f_equal; try lia.
Qed.

Theorem rev_flatten_spec t : rev_flatten t = rev (flatten t).
Proof.
  induction t as [kvs|cs IH] using node_ind'; [reflexivity|].
  cbn [rev_flatten flatten]. induction IH as [|e cs He _ IHcs]; [reflexivity|].
  cbn [map rev concat]. rewrite rev_app_distr, concat_app. cbn [concat]. rewrite app_nil_r.
  unfold ent_child in He. rewrite He, IHcs. reflexivity.
Qed.

(* cached count of a well-shaped node is the real count *)
Lemma cached_count_spec t : shape t = true -> cached_count t = count t.
Proof.
  destruct t as [kvs|cs]; intros H; [reflexivity|].
  apply (sum_counts_spec cs (shape_ents_ok cs H)).
Qed.

(* getLastKey(root): the separator of the last child is the last key below *)
Lemma node_last_key_spec t : shape t = true -> node_last_key t = tree_last_key t.
Proof.
  destruct t as [kvs|cs]; intros H; [reflexivity|].
  pose proof (shape_ents_ok cs H) as Hok. unfold node_last_key, tree_last_key. cbn [node_keys].
  assert (Hne : cs <> []) by (destruct cs; [cbn in H; discriminate | discriminate]).
  clear H. induction Hok as [|e cs (Hs & _ & Hk) Hok IH]; [contradiction|].
  destruct cs as [|e' cs].
  - cbn [map last flatten concat]. rewrite app_nil_r. exact Hk.
  - rewrite flatten_Inner_cons, keys_app.
    rewrite last_app_ne.
    + cbn [map]. cbn [map] in IH. rewrite <- IH by discriminate. reflexivity.
    + inversion Hok as [|? ? (Hs' & _) _]; subst. intros E. apply map_eq_nil in E.
      rewrite flatten_Inner_cons in E. apply app_eq_nil in E as [E _].
      exact (shape_nonempty _ Hs' E).
Qed.

(* ======================================================================== *)
(* Part 3: the cursor as a stack of frames                                   *)
(* ======================================================================== *)

(* One entry of a node, uniformly for leaves and internal nodes:
   Node.GetKey(i) and Node.GetValue(i) (a value, or a child address). *)
Inductive ent := EV (v : val) | EC (c : N) (n : node).
Definition item := (key * ent)%type.

Definition items (t : node) : list item :=
  match t with
  | Leaf kvs => map (fun e => (fst e, EV (snd e))) kvs
  | Inner cs => map (fun e => (fst (fst e), EC (snd (fst e)) (snd e))) cs
  end.

(* A cursor is the chain cur -> cur.parent -> ... (leaf level first). Each
   frame holds the entries of that level's node from `idx` on (the entries
   before `idx` play no role when moving forward): idx = count - length frame;
   an empty frame is idx = count (invalidateAtEnd). *)
Definition cursor := list (list item).

(* cur.Valid(): idx < count at the cursor's own level *)
Definition cur_valid (c : cursor) : bool :=
  match c with (_ :: _) :: _ => true | _ => false end.

Definition cur_item (c : cursor) : option item :=
  match c with (x :: _) :: _ => Some x | _ => None end.

(* atNodeEnd: idx == count - 1 *)
Definition at_node_end (c : cursor) : bool :=
  match c with [_] :: _ => true | _ => false end.

(* fetchNode + skipToNodeStart below a parent stack, or invalidateAtEnd when
   the parent is out of bounds. Totalisation: a parent whose current entry is a
   value (impossible in a tree of uniform depth: the real code would read a
   value as a chunk address and fail) is treated as holding a one-entry leaf. *)
Definition refetch (par : cursor) : cursor :=
  match par with
  | ((_, EC _ ch) :: _) :: _ => items ch :: par
  | ((k, EV v) :: _) :: _ => [(k, EV v)] :: par
  | _ => [] :: par
  end.

(* cursor.advance *)
Fixpoint advance (c : cursor) : cursor :=
  match c with
  | [] => []
  | f :: par =>
    match f with
    | _ :: ((_ :: _) as f') => f' :: par              (* hasNext: idx++ *)
    | _ =>
      match par with
      | [] => [[]]                                    (* no parent: invalidateAtEnd *)
      | _ => refetch (advance par)                    (* advance the parent, then fetch its current child *)
      end
    end
  end.

(* newCursorAtStart: cur = root at idx 0; `for !cur.isLeaf() { nd = fetchChild(cur.currentRef());
   cur = &cursor{nd: nd, parent: cur} }` — one refetch per level *)
Fixpoint descend (n : nat) (c : cursor) : cursor :=
  match n with O => c | S m => descend m (refetch c) end.
Definition cursor_at_start (t : node) : cursor := descend (level t) [items t].

(* newCursorPastEnd: idx = count at every level *)
Definition cursor_past_end (t : node) : cursor := repeat [] (S (level t)).

(* newCursorFromSearchFn(search), root level first: search, keepInBounds on
   internal levels, descend *)
Fixpoint at_search_rf (p : key -> bool) (t : node) : list (list item) :=
  match t with
  | Leaf kvs => [skipn (N.to_nat (search p (map fst kvs))) (items t)]
  | Inner cs =>
    let i := N.to_nat (keep_in_bounds (search p (map ent_key cs)) (N.of_nat (length cs))) in
    skipn i (items t) ::
    (fix go (cs : list (key * N * node)) (i : nat) : list (list item) :=
       match cs with
       | [] => []
       | e :: cs' => match i with O => at_search_rf p (snd e) | S i' => go cs' i' end
       end) cs i
  end.
Definition cursor_at_search (p : key -> bool) (t : node) : cursor := rev (at_search_rf p t).

(* compareCursors for two cursors of one tree: the highest level at which the
   indexes differ decides; idx_l - idx_r = length frame_r - length frame_l *)
Fixpoint cmp_rf (l r : list (list item)) : Z :=
  match l, r with
  | fl :: l', fr :: r' =>
    let d := (Z.of_nat (length fr) - Z.of_nat (length fl))%Z in
    if (d =? 0)%Z then cmp_rf l' r' else d
  | _, _ => 0%Z
  end.
Definition cur_compare (l r : cursor) : Z := cmp_rf (rev l) (rev r).

(* ---- what lies ahead of a cursor ------------------------------------------ *)

Definition flat_item (x : item) : list kv :=
  match snd x with EV v => [(fst x, v)] | EC _ n => flatten n end.
Definition flat_frame (f : list item) : list kv := concat (map flat_item f).

(* entries below the later siblings of the current entry of every parent level *)
Fixpoint above (par : cursor) : list kv :=
  match par with
  | [] => []
  | g :: p => flat_frame (tl g) ++ above p
  end.

(* the key/value pairs from the cursor position to the end of the tree *)
Definition cur_sem (c : cursor) : list kv :=
  match c with [] => [] | f :: par => flat_frame f ++ above par end.

(* every level is in bounds *)
Definition all_valid (c : cursor) : Prop := Forall (fun f => f <> []) c.

Lemma flat_frame_cons x f : flat_frame (x :: f) = flat_item x ++ flat_frame f.
Proof. reflexivity. Qed.

Lemma flat_frame_items t : flat_frame (items t) = flatten t.
Proof.
  destruct t as [kvs|cs]; unfold flat_frame; cbn [items flatten]; rewrite map_map.
  - induction kvs as [|[k v] l IH]; [reflexivity|]. cbn [map concat]. rewrite IH. reflexivity.
  - reflexivity.
Qed.

Lemma refetch_sem par : par <> [] -> cur_sem (refetch par) = cur_sem par.
Proof.
  destruct par as [|g p]; [contradiction|]. intros _.
  destruct g as [|[k [v|c ch]] g']; cbn [refetch cur_sem above tl flat_frame map concat app]; try reflexivity.
  fold (flat_frame (items ch)). fold (flat_frame g'). rewrite flat_frame_items.
  unfold flat_item at 1. cbn [snd]. rewrite app_assoc. reflexivity.
Qed.

(* advance drops exactly the entries of the current item, at any level and any depth *)
Theorem advance_sem c x f par :
  c = (x :: f) :: par -> all_valid par ->
  cur_sem (advance c) = flat_frame f ++ above par.
Proof.
  revert x f par. induction c as [|fr c' IH]; intros x f par E Hv; [discriminate|].
  injection E as -> ->. cbn [advance].
  destruct f as [|y f'].
  - destruct par as [|g p].
    + reflexivity.
    + inversion Hv as [|? ? Hg Hp]; subst. destruct g as [|z g']; [contradiction|].
      rewrite refetch_sem.
      * rewrite (IH z g' p eq_refl Hp). reflexivity.
      * cbn [advance]. destruct g' as [|? ?]; [destruct p; [discriminate|]|discriminate].
        unfold refetch. destruct (advance (l :: p)) as [|[|[? [?|? ?]] ?] ?]; discriminate.
  - reflexivity.
Qed.

(* for a leaf-level cursor: advance removes exactly the current key/value pair *)
Corollary advance_sem_leaf k v f par :
  all_valid par -> cur_sem (advance (((k, EV v) :: f) :: par)) = tl (cur_sem (((k, EV v) :: f) :: par)).
Proof. intros Hv. exact (advance_sem _ (k, EV v) f par eq_refl Hv). Qed.

Lemma refetch_ne par : refetch par <> [].
Proof. destruct par as [|[|[k [v|c ch]] g] p]; discriminate. Qed.

Lemma descend_ne n : forall c, c <> [] -> descend n c <> [].
Proof. induction n as [|n IH]; intros c H; [exact H|]. cbn [descend]. apply IH, refetch_ne. Qed.

Lemma descend_sem n : forall c, c <> [] -> cur_sem (descend n c) = cur_sem c.
Proof.
  induction n as [|n IH]; intros c H; [reflexivity|].
  cbn [descend]. rewrite IH by apply refetch_ne. apply refetch_sem, H.
Qed.

Lemma cursor_at_start_sem t : cur_sem (cursor_at_start t) = flatten t.
Proof.
  unfold cursor_at_start. rewrite descend_sem by discriminate.
  cbn [cur_sem above]. rewrite app_nil_r. apply flat_frame_items.
Qed.

(* ======================================================================== *)
(* Part 4: cursor invariants (what every cursor the code builds satisfies)   *)
(* ======================================================================== *)

Definition suffix {A} (s l : list A) : Prop := exists b, l = b ++ s.

Lemma suffix_refl {A} (l : list A) : suffix l l.
Proof. exists []. reflexivity. Qed.
Lemma suffix_app {A} (b s : list A) : suffix s (b ++ s).
Proof. exists b. reflexivity. Qed.
Lemma suffix_trans {A} (a b c : list A) : suffix a b -> suffix b c -> suffix a c.
Proof. intros [x ->] [y ->]. exists (y ++ x). apply app_assoc. Qed.
Lemma suffix_nil {A} (l : list A) : suffix [] l.
Proof. exists l. symmetry. apply app_nil_r. Qed.
Lemma suffix_length {A} (s l : list A) : suffix s l -> (length s <= length l)%nat.
Proof. intros [b ->]. rewrite app_length. lia. Qed.

(* an entry of a frame at level i: a value at level 0, a well-shaped child of
   level i-1 above *)
Definition item_ok (i : nat) (x : item) : Prop :=
  match snd x with
  | EV _ => i = O
  | EC _ n => i = S (level n) /\ shape n = true
  end.
Definition frame_ok (i : nat) (f : list item) : Prop := Forall (item_ok i) f.

Fixpoint stack_ok (i : nat) (c : cursor) : Prop :=
  match c with
  | [] => True
  | f :: par => frame_ok i f /\ stack_ok (S i) par
  end.

Definition live (c : cursor) : Prop := Forall (fun f : list item => f <> []) c.
Definition dead (c : cursor) : Prop := Forall (fun f : list item => f = []) c.

(* every frame is the rest of the node the parent's current entry points to *)
Fixpoint linked (c : cursor) : Prop :=
  match c with
  | [] => True
  | f :: par =>
    match par with
    | (x :: _) :: _ => (exists pre, flat_item x = pre ++ flat_frame f) /\ linked par
    | _ => linked par
    end
  end.

(* what lies ahead of the cursor and of each of its parent cursors *)
Fixpoint sems (c : cursor) : list (list kv) :=
  match c with
  | [] => []
  | f :: par => (flat_frame f ++ above par) :: sems par
  end.

(* each of them is a tail of the tree contents T *)
Definition pos_ok (T : list kv) (c : cursor) : Prop := Forall (fun s => suffix s T) (sems c).

Definition cinv (T : list kv) (i : nat) (c : cursor) : Prop :=
  c <> [] /\ stack_ok i c /\ (live c \/ dead c) /\ linked c /\ pos_ok T c.

Lemma sems_hd c : c <> [] -> sems c = cur_sem c :: sems (tl c).
Proof. destruct c; [contradiction|reflexivity]. Qed.

Lemma pos_ok_mono T c c' : Forall2 suffix (sems c') (sems c) -> pos_ok T c -> pos_ok T c'.
Proof.
  unfold pos_ok. intros H. induction H as [|s' s l' l Hs _ IH]; intros Hp; [constructor|].
  inversion Hp as [|? ? Hs0 Hl]; subst. constructor; [exact (suffix_trans _ _ _ Hs Hs0) | apply IH, Hl].
Qed.

Lemma Forall2_suffix_refl (l : list (list kv)) : Forall2 suffix l l.
Proof. induction l; constructor; [apply suffix_refl | assumption]. Qed.

Lemma shape_items_ne t : shape t = true -> items t <> [].
Proof.
  destruct t as [kvs|cs]; cbn [shape items]; intros H.
  - destruct kvs; [discriminate|discriminate].
  - destruct cs; [discriminate|discriminate].
Qed.

Lemma items_frame_ok t : shape t = true -> frame_ok (level t) (items t).
Proof.
  destruct t as [kvs|cs]; intros H; unfold frame_ok; cbn [items].
  - rewrite Forall_forall. intros x Hx. apply in_map_iff in Hx as (e & <- & _). reflexivity.
  - cbn [shape] in H. apply andb_true_iff in H as [_ H]. rewrite forallb_forall in H.
    rewrite Forall_forall. intros x Hx. apply in_map_iff in Hx as (e & <- & He).
    specialize (H e He). apply andb_true_iff in H as [H H4]. apply andb_true_iff in H as [H _].
    apply andb_true_iff in H as [H1 _]. unfold item_ok. cbn [snd].
    apply Nat.eqb_eq in H4. split; [symmetry; exact H4 | exact H1].
Qed.

Lemma item_ok_ne i x : item_ok i x -> flat_item x <> [].
Proof.
  unfold item_ok, flat_item. destruct (snd x) as [v|c n]; [discriminate|].
  intros [_ Hs]. apply shape_nonempty, Hs.
Qed.

Lemma dead_sem c : dead c -> cur_sem c = [].
Proof.
  destruct c as [|f par]; [reflexivity|]. intros H. inversion H as [|? ? Hf Hp]; subst.
  cbn [cur_sem flat_frame map concat app]. clear H. induction Hp as [|g p Hg _ IH]; [reflexivity|].
  subst g. exact IH.
Qed.

Lemma linked_tl f par : linked (f :: par) -> linked par.
Proof. cbn [linked]. destruct par as [|[|x g] p]; [trivial|trivial|intros [_ H]; exact H]. Qed.

(* ---- refetch ----------------------------------------------------------------- *)

Lemma refetch_sems par : par <> [] -> sems (refetch par) = cur_sem par :: sems par.
Proof.
  intros Hne. rewrite (sems_hd _ (refetch_ne _)). rewrite refetch_sem by exact Hne.
  destruct par as [|[|[k [v|c ch]] g] p]; [contradiction|reflexivity|reflexivity|reflexivity].
Qed.

Lemma refetch_length par : length (refetch par) = S (length par).
Proof. destruct par as [|[|[k [v|c ch]] g] p]; reflexivity. Qed.

Lemma refetch_struct i par :
  par <> [] -> stack_ok (S i) par -> (live par \/ dead par) -> linked par ->
  stack_ok i (refetch par) /\ (live (refetch par) \/ dead (refetch par)) /\ linked (refetch par).
Proof.
  intros Hne Hso Hlod Hli. destruct par as [|g p]; [contradiction|].
  destruct Hso as [Hg Hso].
  destruct g as [|[k [v|c ch]] g'].
  - cbn [refetch]. repeat split; try assumption.
    + constructor.
    + right. destruct Hlod as [Hl|Hd]; [inversion Hl; congruence|]. constructor; [reflexivity|exact Hd].
  - exfalso. inversion Hg as [|? ? Hx _]; subst. unfold item_ok in Hx. cbn [snd] in Hx. discriminate.
  - inversion Hg as [|? ? Hx Hg']; subst. unfold item_ok in Hx. cbn [snd] in Hx. destruct Hx as [Hi Hs].
    injection Hi as Hi. subst i.
    cbn [refetch]. repeat split; try assumption.
    + apply items_frame_ok, Hs.
    + left. destruct Hlod as [Hl|Hd]; [|inversion Hd; discriminate].
      constructor; [apply shape_items_ne, Hs | exact Hl].
    + exists []. cbn [app]. unfold flat_item. cbn [snd]. symmetry. apply flat_frame_items.
Qed.

Lemma refetch_cinv T i par : cinv T (S i) par -> cinv T i (refetch par) /\ cur_sem (refetch par) = cur_sem par.
Proof.
  intros (Hne & Hso & Hlod & Hli & Hpos). split; [|apply refetch_sem, Hne].
  destruct (refetch_struct i par Hne Hso Hlod Hli) as (H1 & H2 & H3).
  repeat split; try assumption; [apply refetch_ne|].
  unfold pos_ok. rewrite (refetch_sems par Hne). constructor; [|exact Hpos].
  unfold pos_ok in Hpos. rewrite (sems_hd _ Hne) in Hpos. inversion Hpos; assumption.
Qed.

(* ---- advance ------------------------------------------------------------------- *)

Lemma advance_cinv_aux c : forall i,
  c <> [] -> stack_ok i c -> live c -> linked c ->
  advance c <> [] /\ stack_ok i (advance c) /\ (live (advance c) \/ dead (advance c))
  /\ linked (advance c) /\ Forall2 suffix (sems (advance c)) (sems c)
  /\ length (advance c) = length c.
Proof.
  induction c as [|f par IH]; intros i Hne Hso Hl Hli; [contradiction|].
  inversion Hl as [|? ? Hf Hlp]; subst. destruct f as [|x f']; [contradiction|].
  destruct Hso as [Hfo Hso]. inversion Hfo as [|? ? Hx Hfo']; subst.
  destruct f' as [|y f''].
  - destruct par as [|g p].
    + cbn [advance]. repeat split; try discriminate.
      * constructor.
      * right. constructor; [reflexivity|constructor].
      * cbn [sems]. constructor; [apply suffix_nil|constructor].
    + assert (Hadv : advance ([x] :: g :: p) = refetch (advance (g :: p))) by reflexivity.
      rewrite Hadv. clear Hadv.
      pose proof (linked_tl _ _ Hli) as Hlip.
      destruct (IH (S i) ltac:(discriminate) Hso Hlp Hlip) as (Hne' & Hso' & Hlod' & Hli' & Hs' & Hlen').
      inversion Hlp as [|? ? Hg Hlpp]; subst. destruct g as [|z g']; [contradiction|].
      assert (Hsem' : cur_sem (advance ((z :: g') :: p)) = flat_frame g' ++ above p)
        by (apply (advance_sem _ z g' p eq_refl); exact Hlpp).
      set (par' := advance ((z :: g') :: p)) in *.
      destruct (refetch_struct i par' Hne' Hso' Hlod' Hli') as (R1 & R2 & R3).
      repeat split; try assumption; [apply refetch_ne | | rewrite refetch_length, Hlen'; reflexivity].
      rewrite (refetch_sems par' Hne'). cbn [sems]. constructor; [|exact Hs'].
      rewrite Hsem'. cbn [above tl]. rewrite flat_frame_cons. rewrite <- app_assoc.
      apply suffix_app.
  - cbn [advance]. repeat split; try discriminate; try assumption.
    + left. constructor; [discriminate|exact Hlp].
    + cbn [linked]. cbn [linked] in Hli. destruct par as [|[|z g'] p]; try assumption.
      destruct Hli as [[pre Hpre] Hlip]. split; [|exact Hlip].
      exists (pre ++ flat_item x). rewrite Hpre. rewrite flat_frame_cons. rewrite <- app_assoc. reflexivity.
    + cbn [sems]. constructor; [|apply Forall2_suffix_refl].
      rewrite (flat_frame_cons x (y :: f'')). rewrite <- app_assoc. apply suffix_app.
Qed.

Lemma live_or_dead_valid c : c <> [] -> (live c \/ dead c) -> cur_valid c = true -> live c.
Proof.
  intros Hne [Hl|Hd] Hv; [exact Hl|]. destruct c as [|f par]; [contradiction|].
  inversion Hd; subst. discriminate.
Qed.

Lemma live_or_dead_invalid c : c <> [] -> (live c \/ dead c) -> cur_valid c = false -> dead c.
Proof.
  intros Hne [Hl|Hd] Hv; [|exact Hd]. destruct c as [|f par]; [contradiction|].
  inversion Hl as [|? ? Hf _]; subst. destruct f; [contradiction|discriminate].
Qed.

(* advancing a valid cursor: invariants kept, exactly the current entry consumed *)
Theorem advance_cinv T i c :
  cinv T i c -> cur_valid c = true ->
  cinv T i (advance c) /\ length (advance c) = length c
  /\ exists x, cur_item c = Some x /\ item_ok i x /\ cur_sem c = flat_item x ++ cur_sem (advance c).
Proof.
  intros (Hne & Hso & Hlod & Hli & Hpos) Hv.
  pose proof (live_or_dead_valid c Hne Hlod Hv) as Hl.
  destruct (advance_cinv_aux c i Hne Hso Hl Hli) as (A1 & A2 & A3 & A4 & A5 & A6).
  split; [repeat split; try assumption; exact (pos_ok_mono T _ _ A5 Hpos)|]. split; [exact A6|].
  destruct c as [|f par]; [contradiction|]. destruct f as [|x f']; [discriminate|].
  exists x. split; [reflexivity|]. split.
  - destruct Hso as [Hfo _]. inversion Hfo; assumption.
  - inversion Hl as [|? ? _ Hlp]; subst.
    rewrite (advance_sem _ x f' par eq_refl Hlp). cbn [cur_sem]. rewrite flat_frame_cons, <- app_assoc. reflexivity.
Qed.

Lemma cinv_tl T i f g p : cinv T i (f :: g :: p) -> cinv T (S i) (g :: p).
Proof.
  intros (_ & [_ Hso] & Hlod & Hli & Hpos). split; [discriminate|]. split; [exact Hso|]. split; [|split].
  - destruct Hlod as [Hl|Hd]; [left; inversion Hl; assumption | right; inversion Hd; assumption].
  - apply (linked_tl _ _ Hli).
  - unfold pos_ok in *. cbn [sems] in Hpos. inversion Hpos; assumption.
Qed.

(* the start cursor satisfies the invariant *)
Lemma descend_cinv T n : forall c, cinv T n c -> cinv T 0 (descend n c).
Proof.
  induction n as [|n IH]; intros c H; [exact H|].
  cbn [descend]. apply IH. apply (refetch_cinv T n c H).
Qed.

Theorem cursor_at_start_cinv t : wf_root t -> cinv (flatten t) 0 (cursor_at_start t).
Proof.
  intros Hwf. unfold cursor_at_start. apply descend_cinv.
  repeat split; try discriminate.
  - destruct Hwf as [->|[Hs _]]; [constructor | apply items_frame_ok, Hs].
  - destruct Hwf as [->|[Hs _]].
    + right. constructor; [reflexivity|constructor].
    + left. constructor; [apply shape_items_ne, Hs|constructor].
  - unfold pos_ok. cbn [sems above]. constructor; [|constructor].
    rewrite app_nil_r, flat_frame_items. apply suffix_refl.
Qed.

Lemma descend_length n : forall c, length (descend n c) = (n + length c)%nat.
Proof.
  induction n as [|n IH]; intros c; [reflexivity|]. cbn [descend]. rewrite IH, refetch_length. lia.
Qed.

Lemma cursor_at_start_length t : length (cursor_at_start t) = S (level t).
Proof. unfold cursor_at_start. rewrite descend_length. cbn [length]. lia. Qed.

(* ======================================================================== *)
(* Part 5: where a cursor is in its tree; search cursors; compareCursors     *)
(* ======================================================================== *)

(* structural position: the top frame is a tail of the root's entries, every other
   frame a tail of the entries of the node under the parent's current entry *)
Fixpoint located (t : node) (c : cursor) : Prop :=
  match c with
  | [] => True
  | f :: par =>
    match par with
    | [] => suffix f (items t)
    | g :: _ => located t par /\
                match g with
                | (_, EC _ ch) :: _ => suffix f (items ch)
                | (k, EV v) :: _ => f = [(k, EV v)]
                | [] => f = []
                end
    end
  end.

Lemma located_tl t f g p : located t (f :: g :: p) -> located t (g :: p).
Proof. cbn [located]. intros [H _]. exact H. Qed.

Lemma suffix_tl {A} (x : A) f l : suffix (x :: f) l -> suffix f l.
Proof. intros [b ->]. exists (b ++ [x]). rewrite <- app_assoc. reflexivity. Qed.

Lemma refetch_located t par : par <> [] -> located t par -> located t (refetch par).
Proof.
  intros Hne H. destruct par as [|g p]; [contradiction|].
  destruct g as [|[k [v|c ch]] g']; cbn [refetch located]; (split; [exact H|]); try reflexivity.
  apply suffix_refl.
Qed.

Lemma refetch_located' t par : located t par -> located t (refetch par).
Proof.
  destruct par as [|g p]; [intros _; cbn [refetch located]; apply suffix_nil|].
  apply refetch_located. discriminate.
Qed.

Lemma advance_located t c : located t c -> located t (advance c).
Proof.
  induction c as [|f par IH]; intros H; [exact I|].
  destruct f as [|x [|y f'']].
  - (* already out of bounds: the code moves the parent all the same *)
    destruct par as [|g p]; [cbn [advance located]; apply suffix_nil|].
    change (advance ([] :: g :: p)) with (refetch (advance (g :: p))).
    apply refetch_located; [|apply IH, (located_tl _ _ _ _ H)].
    cbn [advance]. destruct g as [|z [|w g'']]; try discriminate; destruct p; try discriminate; apply refetch_ne.
  - destruct par as [|g p]; [cbn [advance located]; apply suffix_nil|].
    change (advance ([x] :: g :: p)) with (refetch (advance (g :: p))).
    apply refetch_located; [|apply IH, (located_tl _ _ _ _ H)].
    cbn [advance]. destruct g as [|z [|w g'']]; try discriminate; destruct p; try discriminate; apply refetch_ne.
  - cbn [advance]. destruct par as [|g p]; cbn [located] in *.
    + apply (suffix_tl x), H.
    + destruct H as [Hp Hm]. split; [exact Hp|].
      destruct g as [|[k [v|c ch]] g']; try discriminate; [apply (suffix_tl x), Hm].
Qed.

Lemma descend_located t n : forall c, c <> [] -> located t c -> located t (descend n c).
Proof.
  induction n as [|n IH]; intros c Hne H; [exact H|].
  cbn [descend]. apply IH; [apply refetch_ne | apply refetch_located; assumption].
Qed.

Lemma cursor_at_start_located t : located t (cursor_at_start t).
Proof. unfold cursor_at_start. apply descend_located; [discriminate|]. cbn [located]. apply suffix_refl. Qed.

(* ---- adding a root frame on top of a cursor of a subtree ------------------------ *)

Lemma located_snoc t ch c fr k cn rest :
  c <> [] -> located ch c -> suffix fr (items t) -> fr = (k, EC cn ch) :: rest -> located t (c ++ [fr]).
Proof.
  intros Hne Hc Hfr ->. induction c as [|f par IH]; [contradiction|].
  destruct par as [|g p].
  - cbn [app located] in *. split; [exact Hfr|exact Hc].
  - change ((f :: g :: p) ++ [(k, EC cn ch) :: rest]) with (f :: (g :: (p ++ [(k, EC cn ch) :: rest]))).
    cbn [located] in Hc. destruct Hc as [Hp Hm].
    change (located t (f :: g :: p ++ [(k, EC cn ch) :: rest])) with
      (located t (g :: p ++ [(k, EC cn ch) :: rest]) /\
       match g with (_, EC _ ch0) :: _ => suffix f (items ch0) | (k0, EV v) :: _ => f = [(k0, EV v)] | [] => f = [] end).
    split; [apply IH; [discriminate|exact Hp] | exact Hm].
Qed.

Lemma located_snoc_inv t c fr :
  c <> [] -> located t (c ++ [fr]) ->
  suffix fr (items t) /\ (forall k cn ch rest, fr = (k, EC cn ch) :: rest -> located ch c).
Proof.
  intros Hne. induction c as [|f par IH]; [contradiction|]. intros H.
  destruct par as [|g p].
  - cbn [app located] in H. destruct H as [Hfr Hm]. split; [exact Hfr|].
    intros k cn ch rest ->. cbn [located]. exact Hm.
  - change ((f :: g :: p) ++ [fr]) with (f :: (g :: (p ++ [fr]))) in H.
    change (located t (f :: g :: p ++ [fr])) with
      (located t (g :: p ++ [fr]) /\
       match g with (_, EC _ ch0) :: _ => suffix f (items ch0) | (k0, EV v) :: _ => f = [(k0, EV v)] | [] => f = [] end) in H.
    destruct H as [Hp Hm]. destruct (IH ltac:(discriminate) Hp) as [Hfr Hrec]. split; [exact Hfr|].
    intros k cn ch rest E. cbn [located]. split; [apply (Hrec k cn ch rest E)|exact Hm].
Qed.

Lemma above_snoc p fr : above (p ++ [fr]) = above p ++ flat_frame (tl fr).
Proof.
  induction p as [|g p IH]; cbn [app above]; [rewrite app_nil_r; reflexivity|].
  rewrite IH, app_assoc. reflexivity.
Qed.

Lemma cur_sem_snoc c fr : c <> [] -> cur_sem (c ++ [fr]) = cur_sem c ++ flat_frame (tl fr).
Proof.
  destruct c as [|f par]; [contradiction|]. intros _. cbn [app cur_sem]. rewrite above_snoc, app_assoc. reflexivity.
Qed.

Lemma sems_snoc c fr :
  sems (c ++ [fr]) = map (fun s => s ++ flat_frame (tl fr)) (sems c) ++ [flat_frame fr].
Proof.
  induction c as [|f par IH]; cbn [app sems map above]; [rewrite app_nil_r; reflexivity|].
  rewrite IH, above_snoc, app_assoc. reflexivity.
Qed.

Lemma stack_ok_snoc c : forall i fr, stack_ok i (c ++ [fr]) <-> stack_ok i c /\ frame_ok (i + length c) fr.
Proof.
  induction c as [|f par IH]; intros i fr; cbn [app stack_ok length].
  - rewrite Nat.add_0_r. tauto.
  - rewrite (IH (S i) fr). rewrite Nat.add_succ_r. cbn [Nat.add]. tauto.
Qed.

Lemma linked_snoc c fr :
  c <> [] -> linked c ->
  (forall x rest, fr = x :: rest -> exists pre, flat_item x = pre ++ flat_frame (last c [])) ->
  linked (c ++ [fr]).
Proof.
  intros Hne Hl Hfr. induction c as [|f par IH]; [contradiction|].
  destruct par as [|g p].
  - cbn [app linked last] in *. destruct fr as [|x rest]; [exact I|]. split; [apply (Hfr x rest eq_refl)|exact I].
  - change ((f :: g :: p) ++ [fr]) with (f :: (g :: (p ++ [fr]))).
    assert (Hp : linked ((g :: p) ++ [fr])).
    { apply IH; [discriminate | apply (linked_tl _ _ Hl) | exact Hfr]. }
    cbn [linked] in Hl |- *. cbn [app] in Hp. destruct g as [|x g']; [exact Hp|].
    destruct Hl as [Hpre _]. split; [exact Hpre|exact Hp].
Qed.

Lemma located_last t c : c <> [] -> located t c -> suffix (last c []) (items t).
Proof.
  induction c as [|f par IH]; [contradiction|]. intros _ H.
  destruct par as [|g p]; [exact H|]. change (last (f :: g :: p) []) with (last (g :: p) []).
  apply IH; [discriminate|apply (located_tl _ _ _ _ H)].
Qed.

Lemma flat_frame_app a b : flat_frame (a ++ b) = flat_frame a ++ flat_frame b.
Proof. unfold flat_frame. rewrite map_app, concat_app. reflexivity. Qed.

(* ---- the cursor built by newCursorFromSearchFn -------------------------------------- *)

Definition sgo (p : key -> bool) :=
  fix go (cs : list (key * N * node)) (i : nat) : list (list item) :=
    match cs with
    | [] => []
    | e :: cs' => match i with O => at_search_rf p (snd e) | S i' => go cs' i' end
    end.

Lemma at_search_rf_Inner p cs :
  at_search_rf p (Inner cs) =
  skipn (N.to_nat (keep_in_bounds (search p (map ent_key cs)) (N.of_nat (length cs)))) (items (Inner cs))
  :: sgo p cs (N.to_nat (keep_in_bounds (search p (map ent_key cs)) (N.of_nat (length cs)))).
Proof. reflexivity. Qed.

Lemma sgo_at p pre e post : sgo p (pre ++ e :: post) (length pre) = at_search_rf p (snd e).
Proof. induction pre as [|x pre IH]; [reflexivity|]. cbn [app length sgo]. fold (sgo p). exact IH. Qed.

Lemma suffix_skipn {A} n (l : list A) : suffix (skipn n l) l.
Proof. exists (firstn n l). symmetry. apply firstn_skipn. Qed.

Lemma Forall_skipn {A} (P : A -> Prop) n l : Forall P l -> Forall P (skipn n l).
Proof.
  intros H. rewrite Forall_forall in *. intros x Hx. apply H.
  rewrite <- (firstn_skipn n l). apply in_or_app. right. exact Hx.
Qed.

Lemma flat_frame_leaf kvs : flat_frame (map (fun e : kv => (fst e, EV (snd e))) kvs) = kvs.
Proof. induction kvs as [|[k v] l IH]; [reflexivity|]. cbn [map]. rewrite flat_frame_cons, IH. reflexivity. Qed.

Lemma skipn_app_exact {A} (a b : list A) : skipn (length a) (a ++ b) = b.
Proof. induction a as [|x a IH]; [reflexivity|]. cbn [length app skipn]. exact IH. Qed.

Lemma cur_valid_snoc c fr : c <> [] -> cur_valid (c ++ [fr]) = cur_valid c.
Proof. destruct c as [|f par]; [contradiction|]. reflexivity. Qed.

Lemma last_snoc {A} (l : list A) x d : last (l ++ [x]) d = x.
Proof. apply last_last. Qed.

Theorem at_search_props p t :
  mono p -> shape t = true -> ksorted (keys (flatten t)) ->
  cursor_at_search p t <> [] /\ length (cursor_at_search p t) = S (level t)
  /\ located t (cursor_at_search p t) /\ stack_ok 0 (cursor_at_search p t)
  /\ linked (cursor_at_search p t) /\ pos_ok (flatten t) (cursor_at_search p t)
  /\ cur_sem (cursor_at_search p t) = skipn (N.to_nat (ordinal_of p t)) (flatten t)
  /\ (cur_valid (cursor_at_search p t) = true -> live (cursor_at_search p t)).
Proof.
  intros Hm. induction t as [kvs|cs IH] using node_ind'; intros Hsh Hso.
  - unfold cursor_at_search. cbn [at_search_rf rev app].
    set (j := N.to_nat (search p (map fst kvs))).
    assert (Hff : flat_frame (skipn j (items (Leaf kvs))) = skipn j kvs).
    { cbn [items]. rewrite skipn_map. apply flat_frame_leaf. }
    split; [discriminate|]. split; [reflexivity|]. split; [cbn [located]; apply suffix_skipn|].
    split; [cbn [stack_ok]; split; [apply Forall_skipn, (items_frame_ok (Leaf kvs) Hsh) | exact I]|].
    split; [exact I|]. split; [|split].
    + unfold pos_ok. cbn [sems above]. constructor; [|constructor]. rewrite app_nil_r, Hff. apply suffix_skipn.
    + cbn [cur_sem above ordinal_of flatten]. rewrite app_nil_r. exact Hff.
    + intros Hv. constructor; [|constructor]. intros E. rewrite E in Hv. discriminate.
  - pose proof (shape_ents_ok cs Hsh) as Hok.
    destruct (sep_keys_props cs Hok Hso) as (Hsep & Hb).
    assert (Hne : (0 < length cs)%nat) by (destruct cs; [cbn in Hsh; discriminate | cbn; lia]).
    set (i0 := search p (map ent_key cs)).
    set (i := N.to_nat (keep_in_bounds i0 (N.of_nat (length cs)))).
    assert (Hi : (i < length cs)%nat).
    { unfold i. pose proof (keep_in_bounds_lt i0 (N.of_nat (length cs))). lia. }
    destruct (nth_split cs (0, 0, Leaf []) Hi) as (pre & post & Ecs & Hpre).
    set (e := nth i cs (0, 0, Leaf [])) in *.
    assert (Hein : In e cs) by (apply nth_In; exact Hi).
    pose proof Hok as Hok'. unfold ents_ok in Hok'. rewrite Forall_forall in Hok'.
    destruct (Hok' e Hein) as (Hse & Hce & Hke).
    assert (Hso' := Hso). rewrite Ecs, flatten_Inner_app in Hso'.
    change (e :: post) with ([e] ++ post) in Hso'. rewrite flatten_Inner_app in Hso'.
    rewrite !keys_app in Hso'. apply ksorted_app in Hso' as (Sp & Sr & _). apply ksorted_app in Sr as (Se & _ & _).
    assert (Efe : flatten (Inner [e]) = flatten (snd e)) by (cbn [flatten map concat]; apply app_nil_r).
    rewrite Efe in Se.
    rewrite Forall_forall in IH. destruct (IH e Hein Hse Se) as (C1 & C2 & C3 & C4 & C5 & C6 & C7 & C8).
    unfold ent_child in *.
    (* the cursor is the child's cursor with the root frame on top *)
    set (fr := (fst (fst e), EC (snd (fst e)) (snd e)) :: items (Inner post)).
    assert (Efr : skipn i (items (Inner cs)) = fr).
    { rewrite Ecs at 1. cbn [items]. rewrite map_app. rewrite <- Hpre, <- (map_length (fun e0 : key * N * node => (fst (fst e0), EC (snd (fst e0)) (snd e0))) pre).
      rewrite skipn_app_exact. reflexivity. }
    assert (Ecur : cursor_at_search p (Inner cs) = cursor_at_search p (snd e) ++ [fr]).
    { unfold cursor_at_search. rewrite at_search_rf_Inner. fold i0. fold i. rewrite Efr. cbn [rev].
      rewrite Ecs at 1. rewrite <- Hpre, sgo_at. reflexivity. }
    assert (Hlev : level (Inner cs) = S (level (snd e))).
    { cbn [shape] in Hsh. apply andb_true_iff in Hsh as [_ Hsh]. rewrite forallb_forall in Hsh.
      specialize (Hsh e Hein). apply andb_true_iff in Hsh as [_ H4]. apply Nat.eqb_eq in H4. symmetry. exact H4. }
    assert (Hfrsuf : suffix fr (items (Inner cs))) by (rewrite <- Efr; apply suffix_skipn).
    assert (Hflat : flatten (Inner cs) = flatten (Inner pre) ++ flatten (snd e) ++ flatten (Inner post)).
    { rewrite Ecs at 1. rewrite flatten_Inner_app. change (e :: post) with ([e] ++ post). rewrite flatten_Inner_app, Efe. reflexivity. }
    assert (Htl : flat_frame (tl fr) = flatten (Inner post)) by (cbn [fr tl]; apply flat_frame_items).
    assert (Hfrflat : flat_frame fr = flatten (snd e) ++ flatten (Inner post)).
    { unfold fr. rewrite flat_frame_cons. unfold flat_item. cbn [snd]. rewrite flat_frame_items. reflexivity. }
    rewrite Ecur.
    split; [destruct (cursor_at_search p (snd e)); discriminate|].
    split; [rewrite app_length, C2, Hlev; cbn [length]; lia|].
    split; [apply (located_snoc _ (snd e) _ fr (fst (fst e)) (snd (fst e)) (items (Inner post)) C1 C3 Hfrsuf eq_refl)|].
    split.
    { apply stack_ok_snoc. split; [exact C4|]. rewrite C2. cbn [Nat.add]. rewrite <- Hlev, <- Efr.
      apply Forall_skipn, (items_frame_ok (Inner cs) Hsh). }
    split.
    { apply (linked_snoc _ fr C1 C5). intros x rest E. unfold fr in E. injection E as <- _.
      destruct (located_last _ _ C1 C3) as [b Hb']. exists (flat_frame b).
      unfold flat_item. cbn [snd]. rewrite <- (flat_frame_items (snd e)), Hb', flat_frame_app. reflexivity. }
    split.
    { unfold pos_ok. rewrite sems_snoc. apply Forall_app. split.
      - rewrite Forall_map. unfold pos_ok in C6. rewrite Forall_forall in *. intros s Hs.
        destruct (C6 s Hs) as [b Hb']. exists (flatten (Inner pre) ++ b).
        rewrite Hflat, Hb', <- !app_assoc. do 3 f_equal. symmetry. exact Htl.
      - constructor; [|constructor]. exists (flatten (Inner pre)). rewrite Hflat, Hfrflat. reflexivity. }
    split.
    { etransitivity; [apply (cur_sem_snoc _ fr C1)|].
      transitivity (skipn (N.to_nat (ordinal_of p (snd e))) (flatten (snd e)) ++ flatten (Inner post));
        [f_equal; [exact C7 | exact Htl]|]. symmetry.
      rewrite ordinal_of_Inner. fold i0. fold i. rewrite Ecs at 1. rewrite <- Hpre, ord_go_at.
      rewrite Ecs in Hok. apply ents_ok_app in Hok as (Hokpre & _). rewrite (sum_counts_spec pre Hokpre). unfold count.
      rewrite Hflat.
      pose proof (ordinal_of_spec p (snd e) Hm (conj Hse Se)) as Ho.
      pose proof (nfalse_le p (keys (flatten (snd e)))) as Hle. unfold kfalse in Ho. rewrite <- Ho in Hle.
      unfold keys in Hle. rewrite map_length in Hle.
      replace (N.to_nat (N.of_nat (length (flatten (Inner pre))) + ordinal_of p (snd e)))
        with (length (flatten (Inner pre)) + N.to_nat (ordinal_of p (snd e)))%nat by lia.
      rewrite skipn_app. rewrite skipn_all2 by lia. cbn [app].
      replace (length (flatten (Inner pre)) + N.to_nat (ordinal_of p (snd e)) - length (flatten (Inner pre)))%nat
        with (N.to_nat (ordinal_of p (snd e))) by lia.
      rewrite skipn_app. assert (Hz : (N.to_nat (ordinal_of p (snd e)) - length (flatten (snd e)) = 0)%nat)
        by (clear -Hle; unfold kv in *; lia).
      rewrite Hz. reflexivity. }
    intros Hv. assert (Hv' : cur_valid (cursor_at_search p (snd e)) = true).
    { etransitivity; [symmetry; apply (cur_valid_snoc _ fr C1)|exact Hv]. }
    clear Hv. rename Hv' into Hv. apply Forall_app. split; [apply C8, Hv|].
    constructor; [discriminate|constructor].
Qed.

Lemma located_head_in t c :
  c <> [] -> located t c -> forall e, In e (flat_frame (hd [] c)) -> In e (flatten t).
Proof.
  induction c as [|f par IH]; [contradiction|]. intros _ H e He. cbn [hd] in He.
  destruct par as [|g p].
  - cbn [located] in H. destruct H as [b Hb]. rewrite <- (flat_frame_items t), Hb, flat_frame_app.
    apply in_or_app. right. exact He.
  - cbn [located] in H. destruct H as [Hp Hm]. apply (IH ltac:(discriminate) Hp). cbn [hd].
    destruct g as [|[k [v|cn ch]] g'].
    + subst f. destruct He.
    + subst f. rewrite flat_frame_cons. apply in_or_app. left. exact He.
    + rewrite flat_frame_cons. apply in_or_app. left. unfold flat_item. cbn [snd].
      destruct Hm as [b Hb]. rewrite <- (flat_frame_items ch), Hb, flat_frame_app. apply in_or_app. right. exact He.
Qed.

(* the key/value pair under a leaf-level cursor *)
Definition cur_kv (c : cursor) : option kv :=
  match cur_item c with Some (k, EV v) => Some (k, v) | _ => None end.

Lemma cur_kv_head c k v : cur_kv c = Some (k, v) -> exists f' par, c = ((k, EV v) :: f') :: par.
Proof.
  unfold cur_kv, cur_item. destruct c as [|[|[k' [v'|cn n]] f'] par]; try discriminate.
  intros H. injection H as -> ->. eauto.
Qed.

Lemma cur_kv_snoc c fr : c <> [] -> cur_kv (c ++ [fr]) = cur_kv c.
Proof. destruct c as [|f par]; [contradiction|]. reflexivity. Qed.

Lemma cmp_rf_cons fl l fr r :
  cmp_rf (fl :: l) (fr :: r) =
  (if (Z.of_nat (length fr) - Z.of_nat (length fl) =? 0)%Z then cmp_rf l r
   else Z.of_nat (length fr) - Z.of_nat (length fl))%Z.
Proof. reflexivity. Qed.

Lemma cur_compare_snoc c fc s fs :
  cur_compare (c ++ [fc]) (s ++ [fs]) =
  (if (Z.of_nat (length fs) - Z.of_nat (length fc) =? 0)%Z then cur_compare c s
   else Z.of_nat (length fs) - Z.of_nat (length fc))%Z.
Proof. unfold cur_compare. rewrite !rev_unit. apply cmp_rf_cons. Qed.

(* the decomposition of a search cursor at an internal node, with the facts about the chosen child *)
Lemma cursor_at_search_Inner p cs :
  mono p -> shape (Inner cs) = true -> ksorted (keys (flatten (Inner cs))) ->
  exists pre e post,
    cs = pre ++ e :: post
    /\ cursor_at_search p (Inner cs)
       = cursor_at_search p (snd e) ++ [(fst (fst e), EC (snd (fst e)) (snd e)) :: items (Inner post)]
    /\ (forall j, (j < length pre)%nat -> p (ent_key (nth j cs (0, 0, Leaf []))) = false)
    /\ (p (ent_key e) = true \/ post = []).
Proof.
  intros Hm Hsh Hso. pose proof (shape_ents_ok cs Hsh) as Hok.
  destruct (sep_keys_props cs Hok Hso) as (Hsep & Hb).
  destruct (search_props p (map ent_key cs) Hm Hsep) as (Hle & Hlo & Hhi). rewrite map_length in *.
  assert (Hne : (0 < length cs)%nat) by (destruct cs; [cbn in Hsh; discriminate | cbn; lia]).
  set (i0 := search p (map ent_key cs)) in *.
  set (i := N.to_nat (keep_in_bounds i0 (N.of_nat (length cs)))).
  assert (Hi : (i < length cs)%nat).
  { unfold i. pose proof (keep_in_bounds_lt i0 (N.of_nat (length cs))). lia. }
  destruct (nth_split cs (0, 0, Leaf []) Hi) as (pre & post & Ecs & Hpre).
  set (e := nth i cs (0, 0, Leaf [])) in *.
  exists pre, e, post. split; [exact Ecs|]. split; [|split].
  - assert (Efr : skipn i (items (Inner cs)) = (fst (fst e), EC (snd (fst e)) (snd e)) :: items (Inner post)).
    { rewrite Ecs at 1. cbn [items]. rewrite map_app.
      rewrite <- Hpre, <- (map_length (fun e0 : key * N * node => (fst (fst e0), EC (snd (fst e0)) (snd e0))) pre).
      rewrite skipn_app_exact. reflexivity. }
    unfold cursor_at_search. rewrite at_search_rf_Inner. fold i0. fold i. rewrite Efr. cbn [rev].
    rewrite Ecs at 1. rewrite <- Hpre, sgo_at. reflexivity.
  - intros j Hj. change 0 with (ent_key (0, 0, Leaf [])) in Hlo. specialize (Hlo j). rewrite map_nth in Hlo. apply Hlo.
    unfold i, keep_in_bounds in Hpre. destruct (N.of_nat (length cs) <=? i0) eqn:Eb; [apply N.leb_le in Eb|]; lia.
  - unfold i, keep_in_bounds in Hpre, Hi. destruct (N.of_nat (length cs) <=? i0) eqn:Eb.
    + right. apply N.leb_le in Eb.
      assert (length cs = (length pre + S (length post))%nat) by (rewrite Ecs at 1; rewrite app_length; reflexivity).
      destruct post; [reflexivity|]. cbn [length] in *. lia.
    + left. apply N.leb_gt in Eb. change 0 with (ent_key (0, 0, Leaf [])) in Hhi. specialize (Hhi i). rewrite map_nth in Hhi.
      apply Hhi. unfold i, keep_in_bounds. rewrite (proj2 (N.leb_gt _ _) Eb). lia.
Qed.

Lemma nth_map_fst_items_leaf kvs (b f' : list item) k v :
  items (Leaf kvs) = b ++ (k, EV v) :: f' -> nth (length b) (map fst kvs) 0 = k.
Proof.
  intros E. assert (Hm : map fst kvs = map fst (items (Leaf kvs))).
  { cbn [items]. rewrite map_map. apply map_ext. reflexivity. }
  rewrite Hm, E, map_app. rewrite app_nth2 by (rewrite map_length; lia).
  rewrite map_length, Nat.sub_diag. reflexivity.
Qed.

Lemma zsign_lt (a b : nat) :
  ((if (Z.of_nat a - Z.of_nat b =? 0)%Z then 0 else Z.of_nat a - Z.of_nat b) <? 0)%Z = (a <? b)%nat.
Proof.
  destruct (Z.of_nat a - Z.of_nat b =? 0)%Z eqn:E.
  - apply Z.eqb_eq in E. symmetry. apply Nat.ltb_ge. lia.
  - apply Z.eqb_neq in E. destruct (a <? b)%nat eqn:E2.
    + apply Nat.ltb_lt in E2. apply Z.ltb_lt. lia.
    + apply Nat.ltb_ge in E2. apply Z.ltb_ge. lia.
Qed.

Lemma zsign_lt' (a b : nat) (z : Z) :
  ((if (Z.of_nat a - Z.of_nat b =? 0)%Z then z else Z.of_nat a - Z.of_nat b) <? 0)%Z =
  if (a =? b)%nat then (z <? 0)%Z else (a <? b)%nat.
Proof.
  destruct (a =? b)%nat eqn:E.
  - apply Nat.eqb_eq in E. subst b. rewrite Z.sub_diag. reflexivity.
  - apply Nat.eqb_neq in E. replace (Z.of_nat a - Z.of_nat b =? 0)%Z with false by (symmetry; apply Z.eqb_neq; lia).
    destruct (a <? b)%nat eqn:E2.
    + apply Nat.ltb_lt in E2. apply Z.ltb_lt. lia.
    + apply Nat.ltb_ge in E2. apply Z.ltb_ge. lia.
Qed.

(* compareCursors(cur, stop) for a stop cursor built by a search: the cursor is before the stop
   exactly when its key does not yet satisfy the stop predicate *)
Theorem cmp_search p : mono p -> forall t,
  shape t = true -> ksorted (keys (flatten t)) ->
  forall c k v, located t c -> length c = S (level t) -> live c -> stack_ok 0 c ->
    cur_kv c = Some (k, v) ->
    (cur_compare c (cursor_at_search p t) <? 0)%Z = negb (p k).
Proof.
  intros Hm. induction t as [kvs|cs IH] using node_ind'; intros Hsh Hso c k v Hloc Hlen Hlive Hso0 Hkv.
  - (* leaf *)
    destruct (cur_kv_head _ _ _ Hkv) as (f' & par & ->). cbn [length level] in Hlen.
    destruct par as [|? ?]; [|cbn in Hlen; lia].
    cbn [located] in Hloc. destruct Hloc as [b Hb].
    unfold cursor_at_search. cbn [at_search_rf rev app]. unfold cur_compare. cbn [rev app]. rewrite cmp_rf_cons.
    cbn [cmp_rf]. rewrite skipn_length.
    assert (Hn : length (items (Leaf kvs)) = length kvs) by (cbn [items]; apply map_length).
    assert (Hn2 : length kvs = (length b + S (length f'))%nat).
    { rewrite <- Hn, Hb, app_length. reflexivity. }
    cbn [flatten] in Hso. unfold keys in Hso.
    destruct (search_props p (map fst kvs) Hm Hso) as (Hle & Hlo & Hhi). rewrite map_length in *.
    pose proof (nth_map_fst_items_leaf kvs b f' k v Hb) as Hk.
    set (j := N.to_nat (search p (map fst kvs))) in *. rewrite Hn. rewrite zsign_lt.
    unfold item, kv in *. cbn [length].
    destruct (Nat.lt_ge_cases (length b) j) as [Hlt|Hge].
    + rewrite <- Hk, (Hlo (length b) Hlt). cbn [negb]. apply Nat.ltb_lt. lia.
    + rewrite <- Hk, (Hhi (length b)) by lia. cbn [negb]. apply Nat.ltb_ge. lia.
  - (* internal node *)
    destruct (cursor_at_search_Inner p cs Hm Hsh Hso) as (pre & e & post & Ecs & Ecur & Hlo & Hhi).
    pose proof (shape_ents_ok cs Hsh) as Hok.
    destruct (sep_keys_props cs Hok Hso) as (Hsep & Hb).
    assert (Hein : In e cs) by (rewrite Ecs; apply in_or_app; right; left; reflexivity).
    pose proof Hok as Hok'. unfold ents_ok in Hok'. rewrite Forall_forall in Hok'.
    destruct (Hok' e Hein) as (Hse & Hce & Hke).
    assert (Hlev : forall x, In x cs -> level (Inner cs) = S (level (snd x))).
    { intros x Hx. cbn [shape] in Hsh. apply andb_true_iff in Hsh as [_ Hsh']. rewrite forallb_forall in Hsh'.
      specialize (Hsh' x Hx). apply andb_true_iff in Hsh' as [_ H4]. apply Nat.eqb_eq in H4. symmetry. exact H4. }
    (* the cursor: its root frame and the cursor below it *)
    assert (Hc2 : (2 <= length c)%nat) by (rewrite Hlen, (Hlev e Hein); lia).
    destruct (@exists_last _ c) as (c' & fc & ->); [destruct c; [cbn in Hc2; lia|discriminate]|].
    assert (Hc'ne : c' <> []) by (destruct c'; [cbn in Hc2; lia|discriminate]).
    rewrite app_length in Hlen. cbn [length] in Hlen.
    destruct (located_snoc_inv _ _ _ Hc'ne Hloc) as (Hfcsuf & Hbelow).
    apply Forall_app in Hlive as [Hlive' Hfc]. assert (Hfcne : fc <> []) by (inversion Hfc; assumption).
    apply stack_ok_snoc in Hso0 as [Hso' Hfok]. cbn [Nat.add] in Hfok.
    destruct fc as [|x fcr]; [contradiction|]. assert (Hx : item_ok (length c') x) by (inversion Hfok; assumption).
    destruct x as [K [vv|cn ch]].
    { unfold item_ok in Hx. cbn [snd] in Hx. destruct c'; [contradiction|discriminate]. }
    specialize (Hbelow K cn ch fcr eq_refl).
    destruct Hfcsuf as [bb Hbb].
    assert (Hnth : nth (length bb) cs (0, 0, Leaf []) = nth (length bb) cs (0, 0, Leaf []) /\
                   snd (nth (length bb) cs (0, 0, Leaf [])) = ch /\ (length bb < length cs)%nat).
    { split; [reflexivity|].
      assert (Hl : length (items (Inner cs)) = length cs) by (cbn [items]; apply map_length).
      assert (Hlt : (length bb < length cs)%nat) by (rewrite <- Hl, Hbb, app_length; cbn [length]; lia).
      split; [|exact Hlt].
      assert (Hn : nth (length bb) (items (Inner cs)) (0, EC 0 (Leaf [])) = (K, EC cn ch)).
      { rewrite Hbb, app_nth2 by lia. rewrite Nat.sub_diag. reflexivity. }
      cbn [items] in Hn.
      change (0, EC 0 (Leaf [])) with ((fun e0 : key * N * node => (fst (fst e0), EC (snd (fst e0)) (snd e0))) (0, 0, Leaf [])) in Hn.
      rewrite map_nth in Hn. injection Hn as _ _ Hn. exact Hn. }
    destruct Hnth as (_ & Hch & Hidx).
    set (idx := length bb) in *.
    assert (Hxin : In (nth idx cs (0, 0, Leaf [])) cs) by (apply nth_In; exact Hidx).
    (* the key under the cursor lies in the subtree ch *)
    assert (Hkin : In k (keys (flatten ch))).
    { rewrite (cur_kv_snoc _ _ Hc'ne) in Hkv. destruct (cur_kv_head _ _ _ Hkv) as (f' & par & Ec').
      apply in_map_iff. exists (k, v). split; [reflexivity|].
      apply (located_head_in ch c' Hc'ne Hbelow). rewrite Ec'. cbn [hd]. rewrite flat_frame_cons. left. reflexivity. }
    rewrite Ecur, cur_compare_snoc, zsign_lt'.
    match goal with |- context [Nat.eqb ?a ?b] => set (lfs := a) in *; set (lfc := b) in * end.
    assert (Hlfs : lfs = S (length post)) by (unfold lfs; cbn [length items]; rewrite map_length; reflexivity).
    assert (Hlit : length (items (Inner cs)) = length cs) by (cbn [items]; apply map_length).
    assert (Hrel : (length cs = idx + lfc)%nat).
    { rewrite <- Hlit, Hbb, app_length. reflexivity. }
    assert (Hlcs : length cs = (length pre + S (length post))%nat) by (rewrite Ecs, app_length; reflexivity).
    rewrite Hlfs. clearbody lfc. clear lfs Hlfs.
    destruct (Nat.lt_trichotomy idx (length pre)) as [Hlt|[Heq|Hgt]].
    + (* the cursor is in an earlier subtree *)
      assert (Hpk : p k = false).
      { apply (mono_false p k (ent_key (nth idx cs (0, 0, Leaf []))) Hm); [|apply Hlo, Hlt].
        rewrite Forall_forall in Hb. destruct (Hb _ Hxin) as (_ & Hkle). apply Hkle. rewrite Hch. exact Hkin. }
      rewrite Hpk. cbn [negb].
      replace (S (length post) =? lfc)%nat with false by (symmetry; apply Nat.eqb_neq; lia).
      apply Nat.ltb_lt. lia.
    + (* same subtree: decided below *)
      assert (Ee : nth idx cs (0, 0, Leaf []) = e).
      { rewrite Heq, Ecs, app_nth2 by lia. rewrite Nat.sub_diag. reflexivity. }
      replace (S (length post) =? lfc)%nat with true by (symmetry; apply Nat.eqb_eq; lia).
      rewrite Ee in Hch. subst ch.
      rewrite (cur_kv_snoc _ _ Hc'ne) in Hkv.
      assert (Se : ksorted (keys (flatten (snd e)))).
      { rewrite Forall_forall in Hb. apply (Hb e Hein). }
      rewrite Forall_forall in IH. apply (IH e Hein Hse Se c' k v Hbelow); try assumption.
      rewrite (Hlev e Hein) in Hlen. unfold ent_child. lia.
    + (* a later subtree: the stop entry is not clamped, every key there is past it *)
      destruct Hhi as [Hpe|Hpost]; [|subst post; cbn [length] in *; lia].
      assert (Hpk : p k = true).
      { apply (Hm (ent_key e) k); [|exact Hpe].
        assert (Hsq := Hso). rewrite Ecs, flatten_Inner_app in Hsq.
        change (e :: post) with ([e] ++ post) in Hsq. rewrite flatten_Inner_app in Hsq.
        rewrite !keys_app in Hsq. apply ksorted_app in Hsq as (_ & Sr & _). apply ksorted_app in Sr as (_ & _ & Sepo).
        assert (ent_key e < k); [|lia]. apply Sepo.
        - cbn [flatten map concat]. rewrite app_nil_r. rewrite Hke. apply tree_last_key_in, Hse.
        - apply in_flatten_Inner. exists (nth idx cs (0, 0, Leaf [])). split; [|rewrite Hch; exact Hkin].
          rewrite Ecs. rewrite app_nth2 by lia.
          replace (idx - length pre)%nat with (S (idx - length pre - 1)) by lia. cbn [nth].
          apply nth_In. lia. }
      rewrite Hpk. cbn [negb].
      replace (S (length post) =? lfc)%nat with false by (symmetry; apply Nat.eqb_neq; lia).
      apply Nat.ltb_ge. lia.
Qed.

(* a search cursor that is not Valid has nothing ahead of it (it is past every entry) *)
Lemma nfalse_lt_of_true p l k : In k l -> p k = true -> nfalse p l < N.of_nat (length l).
Proof.
  intros Hin Hp. pose proof (nfalse_le p l) as Hle.
  destruct (N.eq_dec (nfalse p l) (N.of_nat (length l))) as [E|E]; [|lia].
  rewrite (nfalse_full p l E k Hin) in Hp. discriminate.
Qed.

Lemma at_search_invalid_sem p t :
  mono p -> shape t = true -> ksorted (keys (flatten t)) ->
  cur_valid (cursor_at_search p t) = false -> cur_sem (cursor_at_search p t) = [].
Proof.
  intros Hm. induction t as [kvs|cs IH] using node_ind'; intros Hsh Hso Hv.
  - unfold cursor_at_search in *. cbn [at_search_rf rev app cur_valid cur_sem above] in *.
    destruct (skipn (N.to_nat (search p (map fst kvs))) (items (Leaf kvs))); [reflexivity|discriminate].
  - destruct (cursor_at_search_Inner p cs Hm Hsh Hso) as (pre & e & post & Ecs & Ecur & _ & Hhi).
    pose proof (shape_ents_ok cs Hsh) as Hok.
    destruct (sep_keys_props cs Hok Hso) as (_ & Hb).
    assert (Hein : In e cs) by (rewrite Ecs; apply in_or_app; right; left; reflexivity).
    unfold ents_ok in Hok. rewrite Forall_forall in Hok, Hb, IH.
    destruct (Hok e Hein) as (Hse & _ & Hke). destruct (Hb e Hein) as (Se & _).
    destruct (at_search_props p (snd e) Hm Hse Se) as (C1 & _ & _ & _ & _ & _ & C7 & _).
    match type of Ecur with _ = _ ++ [?x] => set (fr := x) in * end.
    rewrite Ecur in Hv |- *.
    assert (Hv' : cur_valid (cursor_at_search p (snd e)) = false).
    { etransitivity; [symmetry; apply (cur_valid_snoc _ fr C1)|exact Hv]. }
    etransitivity; [apply (cur_sem_snoc _ fr C1)|].
    pose proof (IH e Hein Hse Se Hv') as Hnil. unfold ent_child in Hnil. rewrite Hnil. cbn [app tl fr].
    destruct Hhi as [Hpe | Hpost]; [|subst post; reflexivity].
    exfalso. rewrite C7 in Hnil.
    pose proof (ordinal_of_spec p (snd e) Hm (conj Hse Se)) as Ho. unfold kfalse in Ho.
    assert (Hlt : nfalse p (keys (flatten (snd e))) < N.of_nat (length (keys (flatten (snd e))))).
    { apply (nfalse_lt_of_true p _ (ent_key e)); [|exact Hpe]. rewrite Hke. apply tree_last_key_in, Hse. }
    unfold keys in Hlt at 2. rewrite map_length in Hlt. rewrite <- Ho in Hlt.
    assert (Hlen : length (skipn (N.to_nat (ordinal_of p (snd e))) (flatten (snd e))) = 0%nat) by (rewrite Hnil; reflexivity).
    rewrite skipn_length in Hlen. unfold kv in *. lia.
Qed.
