(* Prolly/Tree — shared model of a prolly tree (go/store/prolly/tree/node.go).

   A node is either a leaf holding key/value pairs or an internal node holding,
   per child, the separator key (tree/node.go: the key of an internal node's
   i-th entry is the last key of the i-th subtree), the cached subtree
   cardinality (Node.GetSubtreeCount) and the child itself (the model keeps the
   child where the code keeps its address; `addr_inj` style hypotheses are
   stated where an address comparison is modelled).

   Keys are `N` with the tuple comparator abstracted as `N.compare`; values `N`.
   The *shape* of a tree is arbitrary: every theorem built on this file
   quantifies over all trees satisfying `wf`, not only those a chunker emits.

   This file has definitions and the basic lemmas every client needs
   (flatten/count/sortedness); it deliberately has no map or cursor API. *)
From Coq Require Import NArith List Bool Lia Sorting.Sorted.
Import ListNotations.
Local Open Scope N_scope.

Definition key := N.
Definition val := N.
Definition kv := (key * val)%type.

Inductive node :=
| Leaf (kvs : list kv)
| Inner (cs : list (key * N * node)).     (* separator key, cached subtree count, child *)

Definition ent_key (e : key * N * node) : key := fst (fst e).
Definition ent_cnt (e : key * N * node) : N := snd (fst e).
Definition ent_child (e : key * N * node) : node := snd e.

(* induction principle that goes through the list of children *)
Lemma node_ind' (P : node -> Prop)
  (HL : forall kvs, P (Leaf kvs))
  (HI : forall cs, Forall (fun e => P (ent_child e)) cs -> P (Inner cs)) :
  forall t, P t.
Proof.
  fix IH 1. intros [kvs|cs].
  - apply HL.
  - apply HI. induction cs as [|[[k c] ch] cs IHcs].
    + constructor.
    + constructor; [apply IH | apply IHcs].
Qed.

(* in-order contents *)
Fixpoint flatten (t : node) : list kv :=
  match t with
  | Leaf kvs => kvs
  | Inner cs => concat (map (fun e => flatten (snd e)) cs)
  end.

Definition keys (l : list kv) : list key := map fst l.

(* number of key/value pairs below a node: Node.TreeCount *)
Definition count (t : node) : N := N.of_nat (length (flatten t)).

(* Node.Count(): number of entries of this node *)
Definition node_len (t : node) : N :=
  match t with Leaf kvs => N.of_nat (length kvs) | Inner cs => N.of_nat (length cs) end.

(* Node.Level() *)
Fixpoint level (t : node) : nat :=
  match t with
  | Leaf _ => O
  | Inner cs => match cs with [] => 1%nat | e :: _ => S (level (snd e)) end
  end.

(* keys of the entries of one node: Node.GetKey(i) *)
Definition node_keys (t : node) : list key :=
  match t with Leaf kvs => map fst kvs | Inner cs => map ent_key cs end.

(* getLastKey(nd) *)
Definition node_last_key (t : node) : key := last (node_keys t) 0.

(* last key stored below a node *)
Definition tree_last_key (t : node) : key := last (keys (flatten t)) 0.

(* Node.TreeCount() as the code computes it: leaf count, or the sum of the
   cached subtree counts *)
Definition cached_count (t : node) : N :=
  match t with
  | Leaf kvs => N.of_nat (length kvs)
  | Inner cs => fold_right (fun e a => ent_cnt e + a) 0 cs
  end.

(* ---- well-formedness ---------------------------------------------------- *)

Fixpoint ksortedb (l : list key) : bool :=
  match l with
  | a :: (b :: _) as tl => (a <? b) && ksortedb tl
  | _ => true
  end.

Definition ksorted (l : list key) : Prop := StronglySorted N.lt l.

Definition nonemptyb {A} (l : list A) : bool := match l with [] => false | _ => true end.

(* shape: no empty node, uniform depth, cached counts exact, separator key =
   last key below the child *)
Fixpoint shape (t : node) : bool :=
  match t with
  | Leaf kvs => nonemptyb kvs
  | Inner cs =>
    nonemptyb cs &&
    forallb (fun e =>
      shape (snd e)
      && (snd (fst e) =? N.of_nat (length (flatten (snd e))))
      && (fst (fst e) =? last (map fst (flatten (snd e))) 0)
      && Nat.eqb (S (level (snd e))) (level t)) cs
  end.

Definition wfb (t : node) : bool := shape t && ksortedb (keys (flatten t)).

(* a non-empty well-formed subtree *)
Definition wf (t : node) : Prop := shape t = true /\ ksorted (keys (flatten t)).

(* a map root: the empty leaf, or a well-formed tree *)
Definition wf_root (t : node) : Prop := t = Leaf [] \/ wf t.
Definition wf_rootb (t : node) : bool :=
  match t with Leaf [] => true | _ => wfb t end.

(* structural equality (stands for comparing addresses: see addr_inj users) *)
Fixpoint kvs_eqb (a b : list kv) : bool :=
  match a, b with
  | [], [] => true
  | (k, v) :: a', (k', v') :: b' => (k =? k') && (v =? v') && kvs_eqb a' b'
  | _, _ => false
  end.

Fixpoint node_eqb (a b : node) : bool :=
  match a, b with
  | Leaf x, Leaf y => kvs_eqb x y
  | Inner xs, Inner ys =>
    (fix go (xs ys : list (key * N * node)) : bool :=
       match xs, ys with
       | [], [] => true
       | (k, c, x) :: xs', (k', c', y) :: ys' => (k =? k') && (c =? c') && node_eqb x y && go xs' ys'
       | _, _ => false
       end) xs ys
  | _, _ => false
  end.

(* ---- basic lemmas ------------------------------------------------------- *)

Lemma ksortedb_sound l : ksortedb l = true -> ksorted l.
Proof.
  intros H. apply Sorted_StronglySorted.
  - intros x y z; apply N.lt_trans.
  - induction l as [|a [|b l] IH]; cbn [ksortedb] in *.
    + constructor.
    + constructor; constructor.
    + apply andb_true_iff in H as [Hab Ht]. constructor.
      * apply IH, Ht.
      * constructor. apply N.ltb_lt, Hab.
Qed.

Lemma ksortedb_complete l : ksorted l -> ksortedb l = true.
Proof.
  induction 1 as [|a l Hs IH Hf]; [reflexivity|].
  destruct l as [|b l]; [reflexivity|].
  cbn [ksortedb]. apply andb_true_iff; split; [|exact IH].
  apply N.ltb_lt. inversion Hf; assumption.
Qed.

Lemma wfb_sound t : wfb t = true -> wf t.
Proof.
  unfold wfb, wf. intros H. apply andb_true_iff in H as [H1 H2].
  split; [exact H1 | apply ksortedb_sound, H2].
Qed.

Lemma wf_rootb_sound t : wf_rootb t = true -> wf_root t.
Proof.
  unfold wf_rootb, wf_root. destruct t as [[|p l]|cs]; intros H.
  - left; reflexivity.
  - right; apply wfb_sound, H.
  - right; apply wfb_sound, H.
Qed.

Lemma ksorted_app l1 l2 :
  ksorted (l1 ++ l2) <-> ksorted l1 /\ ksorted l2 /\ (forall a b, In a l1 -> In b l2 -> a < b).
Proof.
  unfold ksorted. induction l1 as [|x l1 IH]; cbn [app].
  - split.
    + intros H. split; [constructor|]. split; [exact H|]. intros a b [].
    + intros (_ & H & _). exact H.
  - split.
    + intros H. inversion H as [|? ? Hs Hf]; subst.
      apply IH in Hs as (H1 & H2 & H3).
      rewrite Forall_app in Hf. destruct Hf as [Hf1 Hf2].
      split; [constructor; assumption|]. split; [exact H2|].
      intros a b [<-|Ha] Hb.
      * rewrite Forall_forall in Hf2. apply Hf2, Hb.
      * apply H3; assumption.
    + intros (H1 & H2 & H3). inversion H1 as [|? ? Hs Hf]; subst.
      constructor.
      * apply IH. split; [exact Hs|]. split; [exact H2|].
        intros a b Ha Hb. apply H3; [right; exact Ha | exact Hb].
      * rewrite Forall_app. split; [exact Hf|].
        rewrite Forall_forall. intros b Hb. apply H3; [left; reflexivity | exact Hb].
Qed.

Lemma keys_app l1 l2 : keys (l1 ++ l2) = keys l1 ++ keys l2.
Proof. apply map_app. Qed.

Lemma flatten_Inner_cons e cs :
  flatten (Inner (e :: cs)) = flatten (snd e) ++ flatten (Inner cs).
Proof. reflexivity. Qed.

Lemma shape_Inner_inv e cs :
  shape (Inner (e :: cs)) = true ->
  shape (snd e) = true
  /\ snd (fst e) = count (snd e)
  /\ fst (fst e) = tree_last_key (snd e)
  /\ S (level (snd e)) = level (Inner (e :: cs))
  /\ forallb (fun e' =>
      shape (snd e')
      && (snd (fst e') =? N.of_nat (length (flatten (snd e'))))
      && (fst (fst e') =? last (map fst (flatten (snd e'))) 0)
      && Nat.eqb (S (level (snd e'))) (level (Inner (e :: cs)))) cs = true.
Proof.
  cbn [shape nonemptyb forallb andb]. intros H.
  apply andb_true_iff in H as [H Hrest].
  apply andb_true_iff in H as [H H4].
  apply andb_true_iff in H as [H H3].
  apply andb_true_iff in H as [H1 H2].
  repeat split; try assumption.
  - apply N.eqb_eq, H2.
  - apply N.eqb_eq, H3.
Qed.

Lemma shape_nonempty t : shape t = true -> flatten t <> [].
Proof.
  induction t as [kvs|cs IH] using node_ind'.
  - cbn. destruct kvs; [discriminate|]. intros _; discriminate.
  - destruct cs as [|e cs]; [cbn; discriminate|].
    intros H. apply shape_Inner_inv in H as (H1 & _).
    inversion IH as [|? ? He _]; subst.
    rewrite flatten_Inner_cons. intros Hx. apply app_eq_nil in Hx as [Hx _].
    exact (He H1 Hx).
Qed.

Lemma last_app_ne {A} (l1 l2 : list A) d : l2 <> [] -> last (l1 ++ l2) d = last l2 d.
Proof.
  intros H. induction l1 as [|a l1 IH]; [reflexivity|].
  cbn [app]. destruct (l1 ++ l2) eqn:E.
  - apply app_eq_nil in E as [_ E]. contradiction.
  - rewrite <- E in *. cbn [last]. rewrite E. rewrite <- E. exact IH.
Qed.

Lemma ksorted_lt_last l : ksorted l -> forall k, In k l -> k <= last l 0.
Proof.
  induction 1 as [|a l Hs IH Hf]; intros k Hin; [destruct Hin|].
  destruct l as [|b l].
  - destruct Hin as [<-|[]]. cbn. lia.
  - change (last (a :: b :: l) 0) with (last (b :: l) 0).
    destruct Hin as [<-|Hin].
    + assert (a < b) by (inversion Hf; assumption).
      assert (b <= last (b :: l) 0) by (apply IH; left; reflexivity). lia.
    + apply IH, Hin.
Qed.

Lemma count_Inner_cons e cs : count (Inner (e :: cs)) = count (snd e) + count (Inner cs).
Proof. unfold count. rewrite flatten_Inner_cons, app_length. lia. Qed.
