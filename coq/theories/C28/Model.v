(* C28 — Sql/AutoInc: the AUTO_INCREMENT tracker of one table.  No proofs here.

   Mirrors go/libraries/doltcore/sqle/dsess/sequence_tracker.go:
     SequenceTracker.Next  — under the per-table lock (mm.Lock): one atomic step.
        insertVal == nil        : return current, store current+1
        given, !(current > given): store given+1, return given
        given, current > given  : return given, sequence untouched
   The state is ONE counter per table name for the whole server: it is not
   indexed by branch or session (a.sequences : table name -> state), which is
   what makes values unique across branches.  COMMIT / ROLLBACK / checkout do
   not touch it (a rollback does not hand a value back).

   Abstracted: column type bounds (validateBounds: an out-of-range explicit
   value is not stored; the cases stay far below 2^31), ALTER TABLE ...
   AUTO_INCREMENT (Set / deepSet), tracker initialisation from the roots
   (initWithRoots: max over all branches) — the table is created empty, so the
   counter starts at 1. *)
From Coq Require Import NArith List Bool.
Import ListNotations.
Local Open Scope N_scope.

Inductive op :=
| OGen                 (* INSERT without a value for the column *)
| OExplicit (v : N)    (* INSERT with an explicit value (v > 0) *)
| OOther.              (* COMMIT / ROLLBACK / branch switch: no tracker access *)

(* one atomic tracker step: (value the row gets, new counter) *)
Definition next (cur : N) (o : op) : option N * N :=
  match o with
  | OGen => (Some cur, cur + 1)
  | OExplicit v => (Some v, if cur <=? v then v + 1 else cur)
  | OOther => (None, cur)
  end.

(* a schedule: (session, branch the session is on, op) — any interleaving of any sessions / branches *)
Definition sched := list (N * N * op).

Fixpoint run (s : sched) (cur : N) : list (option N) * N :=
  match s with
  | [] => ([], cur)
  | (_, _, o) :: r =>
    let '(x, c1) := next cur o in
    let '(xs, c2) := run r c1 in (x :: xs, c2)
  end.

(* n generated inserts (the concurrent phase: each one is an atomic Next) *)
Fixpoint gen_n (n : nat) (cur : N) : list N :=
  match n with O => [] | S m => cur :: gen_n m (cur + 1) end.
