(* C28 — correspondence. *)
From Coq Require Import NArith List Bool.
From Dolt Require Import C28.Model C28.Spec.
Import ListNotations.
Local Open Scope N_scope.

Record input := { i_sched : sched; i_par : nat }.       (* i_par: generated inserts of the concurrent phase *)
(* per step: value the row got (None: not an insert); LAST_INSERT_ID() after generated inserts; sorted ids of the concurrent phase *)
Record obs := { o_ids : list (option N); o_last : list (option N); o_par : list N; o_ok : bool }.
Definition case := (input * obs)%type.

Definition last_of (s : sched) (ids : list (option N)) : list (option N) :=
  map (fun p => match fst p with (_, _, OGen) => snd p | _ => None end) (combine s ids).

Definition model_obs (i : input) : obs :=
  let '(ids, cur) := run (i_sched i) 1 in
  {| o_ids := ids; o_last := last_of (i_sched i) ids; o_par := gen_n (i_par i) cur; o_ok := true |}.

Definition oN_eqb (x y : option N) : bool :=
  match x, y with None, None => true | Some a, Some b => a =? b | _, _ => false end.
Fixpoint list_eqb {A} (e : A -> A -> bool) (x y : list A) : bool :=
  match x, y with
  | [], [] => true
  | a :: x', b :: y' => e a b && list_eqb e x' y'
  | _, _ => false
  end.

Definition obs_eqb (x y : obs) : bool :=
  list_eqb oN_eqb (o_ids x) (o_ids y) && list_eqb oN_eqb (o_last x) (o_last y)
  && list_eqb N.eqb (o_par x) (o_par y) && Bool.eqb (o_ok x) (o_ok y).

(* the property on the implementation's values: every generated value exceeds
   every value generated or explicitly inserted before it (so: unique,
   increasing, explicit values advance the sequence on every branch); the
   concurrently generated values are pairwise distinct and beyond all earlier
   ones; LAST_INSERT_ID() is the value the row got; no insert failed. *)
Definition oracle (i : input) (o : obs) : bool :=
  o_ok o
  && list_eqb oN_eqb (o_last o) (last_of (i_sched i) (o_ids o))
  && Nat.eqb (length (o_par o)) (i_par i)
  && match walk (map (fun x => snd x) (i_sched i)) (o_ids o) 0 with
     | Some lo => walk_par (o_par o) lo
     | None => false
     end.

Definition check_case (c : case) : N :=
  (if obs_eqb (model_obs (fst c)) (snd c) then 0 else 1)
  + (if oracle (fst c) (snd c) then 0 else 2).
