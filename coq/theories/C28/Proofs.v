(* C28 — proofs: for every sequence of atomic tracker steps by any sessions on any branches. *)
From Coq Require Import NArith PeanoNat List Bool Sorted Lia.
From Dolt Require Import C28.Model C28.Spec C28.Corr.
Import ListNotations.
Local Open Scope N_scope.

Lemma next_mono cur o : cur <= snd (next cur o).
Proof. destruct o; cbn [next snd]; try lia. destruct (N.leb_spec cur v); lia. Qed.

Lemma final_cons s b o r cur : final ((s, b, o) :: r) cur = final r (snd (next cur o)).
Proof.
  unfold final. cbn [run]. destruct (next cur o) as [x c1]. cbn [snd].
  destruct (run r c1) as [xs c2]. reflexivity.
Qed.

Lemma final_mono s : forall cur, cur <= final s cur.
Proof.
  induction s as [|[[a b] o] r IH]; intros cur; [unfold final; cbn; lia|].
  rewrite final_cons. pose proof (next_mono cur o). pose proof (IH (snd (next cur o))). lia.
Qed.

Lemma gen_ids_bounds s : forall cur g, In g (gen_ids s cur) -> cur <= g < final s cur.
Proof.
  induction s as [|[[a b] o] r IH]; intros cur g Hin; [destruct Hin|].
  rewrite final_cons. pose proof (next_mono cur o) as Hm.
  pose proof (final_mono r (snd (next cur o))) as Hf.
  destruct o; cbn [gen_ids] in Hin.
  - destruct Hin as [<-|Hin].
    + cbn [next snd] in *. lia.
    + apply IH in Hin. lia.
  - apply IH in Hin. lia.
  - apply IH in Hin. lia.
Qed.

Lemma gen_ids_app s1 : forall s2 cur, gen_ids (s1 ++ s2) cur = gen_ids s1 cur ++ gen_ids s2 (final s1 cur).
Proof.
  induction s1 as [|[[a b] o] r IH]; intros s2 cur; [reflexivity|].
  rewrite final_cons. destruct o; cbn [app gen_ids]; rewrite IH; reflexivity.
Qed.

Lemma final_app s1 s2 cur : final (s1 ++ s2) cur = final s2 (final s1 cur).
Proof.
  revert cur. induction s1 as [|[[a b] o] r IH]; intros cur; [reflexivity|].
  cbn [app]. rewrite !final_cons. apply IH.
Qed.

(* successive generated values are strictly increasing — whatever sessions and branches issue the inserts *)
Theorem next_increasing s : forall cur, StronglySorted N.lt (gen_ids s cur).
Proof.
  induction s as [|[[a b] o] r IH]; intros cur; [constructor|].
  destruct o; cbn [gen_ids]; try apply IH.
  constructor; [apply IH|]. apply Forall_forall. intros g Hin.
  apply gen_ids_bounds in Hin. cbn [next snd] in Hin. lia.
Qed.

Lemma sorted_nodup l : StronglySorted N.lt l -> NoDup l.
Proof.
  induction 1 as [|x l Hs IH Hall]; constructor; [|exact IH].
  intros Hin. rewrite Forall_forall in Hall. specialize (Hall x Hin). lia.
Qed.

(* no value is handed out twice *)
Theorem next_unique s cur : NoDup (gen_ids s cur).
Proof. apply sorted_nodup, next_increasing. Qed.

(* after an explicit value v (by any session on any branch), every later generated value exceeds v *)
Theorem explicit_advances s1 a b v s2 cur g :
  In g (gen_ids s2 (final (s1 ++ [(a, b, OExplicit v)]) cur)) -> v < g.
Proof.
  intros Hin. apply gen_ids_bounds in Hin. rewrite final_app, final_cons in Hin.
  cbn [next snd] in Hin.
  pose proof (final_mono [] (if final s1 cur <=? v then v + 1 else final s1 cur)) as Hm.
  pose proof (final_mono s2 (final [] (if final s1 cur <=? v then v + 1 else final s1 cur))) as Hm2.
  destruct (N.leb_spec (final s1 cur) v); lia.
Qed.

(* a generated value never collides with a value generated earlier, also across a rollback or
   branch switch (OOther does not move the counter back) *)
Theorem later_exceeds_earlier s1 s2 cur g1 g2 :
  In g1 (gen_ids s1 cur) -> In g2 (gen_ids s2 (final s1 cur)) -> g1 < g2.
Proof. intros H1 H2. apply gen_ids_bounds in H1, H2. lia. Qed.

(* the concurrent phase: n atomic Next steps *)
Lemma gen_n_walk n : forall cur lo, lo < cur -> walk_par (gen_n n cur) lo = true.
Proof.
  induction n as [|n IH]; intros cur lo H; [reflexivity|].
  cbn [gen_n walk_par]. destruct (N.ltb_spec lo cur); [|lia]. cbn [andb]. apply IH. lia.
Qed.

Lemma walk_run s : forall cur lo,
  lo < cur -> (forall a b v, In (a, b, OExplicit v) s -> True) ->
  exists lo', walk (map (fun x => snd x) s) (fst (run s cur)) lo = Some lo' /\ lo' < snd (run s cur).
Proof.
  induction s as [|[[a b] o] r IH]; intros cur lo Hlt _.
  - exists lo. split; [reflexivity | exact Hlt].
  - cbn [run map snd]. destruct o; cbn [next].
    + destruct (IH (cur + 1) cur ltac:(lia) (fun _ _ _ _ => I)) as [lo' [Hw Hl]].
      destruct (run r (cur + 1)) as [xs c2]. cbn [fst snd walk] in *.
      destruct (N.ltb_spec lo cur); [|lia]. exists lo'. split; assumption.
    + destruct (IH (if cur <=? v then v + 1 else cur) (N.max lo v)
                   ltac:(destruct (N.leb_spec cur v); lia) (fun _ _ _ _ => I)) as [lo' [Hw Hl]].
      destruct (run r (if cur <=? v then v + 1 else cur)) as [xs c2]. cbn [fst snd walk] in *.
      rewrite N.eqb_refl. exists lo'. split; assumption.
    + destruct (IH cur lo Hlt (fun _ _ _ _ => I)) as [lo' [Hw Hl]].
      destruct (run r cur) as [xs c2]. cbn [fst snd walk] in *. exists lo'. split; assumption.
Qed.

Lemma oN_eqb_refl x : oN_eqb x x = true.
Proof. destruct x; [apply N.eqb_refl | reflexivity]. Qed.
Lemma list_eqb_refl {A} (e : A -> A -> bool) (l : list A) : (forall x, e x x = true) -> list_eqb e l l = true.
Proof. intros H. induction l as [|x l IH]; [reflexivity|]. cbn [list_eqb]. rewrite H, IH. reflexivity. Qed.
Lemma gen_n_length n cur : length (gen_n n cur) = n.
Proof. revert cur. induction n as [|n IH]; intros cur; [reflexivity|]. cbn [gen_n length]. rewrite IH. reflexivity. Qed.

(* the model satisfies the executable statement of the property *)
Theorem oracle_accepts_model i : oracle i (model_obs i) = true.
Proof.
  unfold oracle, model_obs.
  destruct (walk_run (i_sched i) 1 0 ltac:(lia) (fun _ _ _ _ => I)) as [lo' [Hw Hl]].
  destruct (run (i_sched i) 1) as [ids cur]. cbn [o_ok o_last o_ids o_par fst snd] in *.
  rewrite (list_eqb_refl oN_eqb _ oN_eqb_refl), gen_n_length, PeanoNat.Nat.eqb_refl, Hw. cbn [andb].
  apply gen_n_walk. exact Hl.
Qed.

(* non-vacuity *)
Example ex_run :
  run [(0, 0, OGen); (1, 1, OGen); (2, 2, OExplicit 10); (1, 1, OGen); (2, 2, OOther); (0, 0, OExplicit 5); (2, 2, OGen)] 1
  = ([Some 1; Some 2; Some 10; Some 11; None; Some 5; Some 12], 13).
Proof. vm_compute. reflexivity. Qed.
