(* C28 — correspondence for the server model (several tables, transactions, ALTER, restarts). *)
From Coq Require Import NArith List Bool.
From Dolt Require Import C28.Model C28.Spec C28.Corr C28.Server.
Import ListNotations.
Local Open Scope N_scope.

Record sinput := { si_branches : list N; si_tables : list N; si_autos : list N;
                   si_sbr : list (N * N); si_sched : list (N * sop) }.
Record sobs2 := { so_ids : list (option N); so_ok : bool }.

Definition lookup_def (l : list (N * N)) (k : N) : N :=
  match find (fun p => fst p =? k) l with Some p => snd p | None => 0 end.
Definition memb (l : list N) (k : N) : bool := existsb (N.eqb k) l.

Definition smodel (i : sinput) : sobs2 :=
  {| so_ids := map fst (fst (srun (si_branches i) (si_tables i) (memb (si_autos i)) (si_sched i)
                                  (srv0 (lookup_def (si_sbr i)))));
     so_ok := true |}.

Definition sobs2_eqb (x y : sobs2) : bool := list_eqb oN_eqb (so_ids x) (so_ids y) && Bool.eqb (so_ok x) (so_ok y).

(* The property on the implementation's values, with an independent bookkeeping of what is committed:
   a generated value exceeds every id committed on ANY branch for that table (ids of a table that was
   dropped on a branch no longer count for that branch), and exceeds every value
   generated or explicitly inserted for that table since the server started / since the sequence was
   last re-seated by ALTER TABLE .. AUTO_INCREMENT (so nothing is handed out twice within one running
   server, whatever sessions and branches); an explicit insert gets its value; no insert fails. *)
Record ostate := { lo : N -> N; cm : N -> N -> N; pd : N -> N -> N; ob : N -> N }.   (* cm: branch -> table -> largest committed id; ob: session -> branch *)
Definition o_commit (s : N) (w : ostate) : ostate :=
  {| lo := lo w; cm := fun b t => if b =? ob w s then N.max (cm w b t) (pd w s t) else cm w b t;
     pd := upd1 (pd w) s (fun _ => 0); ob := ob w |}.
Definition cm_all (branches : list N) (w : ostate) (t : N) : N := max_over (fun b => cm w b t) branches.

Fixpoint owalk (branches : list N) (autos : N -> bool) (sc : list (N * sop)) (ids : list (option N)) (w : ostate) : bool :=
  match sc, ids with
  | [], [] => true
  | (s, o) :: sc', x :: ids' =>
    match o, x with
    | SGen t, Some g =>
      (lo w t <? g) && (cm_all branches w t <? g) &&
      let w1 := {| lo := upd1 (lo w) t g; cm := cm w; pd := upd1 (pd w) s (upd1 (pd w s) t (N.max (pd w s t) g)); ob := ob w |} in
      owalk branches autos sc' ids' (if autos s then o_commit s w1 else w1)
    | SExpl t v, Some r =>
      (r =? v) &&
      let w1 := {| lo := upd1 (lo w) t (N.max (lo w t) v); cm := cm w; pd := upd1 (pd w) s (upd1 (pd w s) t (N.max (pd w s t) v)); ob := ob w |} in
      owalk branches autos sc' ids' (if autos s then o_commit s w1 else w1)
    | SCommitT, None => owalk branches autos sc' ids' (o_commit s w)
    | SSwitch b, None =>
      let w1 := o_commit s w in
      owalk branches autos sc' ids' {| lo := lo w1; cm := cm w1; pd := pd w1; ob := upd1 (ob w1) s b |}
    | SRollbackT, None => owalk branches autos sc' ids' {| lo := lo w; cm := cm w; pd := upd1 (pd w) s (fun _ => 0); ob := ob w |}
    | SRestart, None => owalk branches autos sc' ids' {| lo := fun _ => 0; cm := cm w; pd := fun _ _ => 0; ob := ob w |}
    | SAlter t _, None =>
      let w1 := o_commit s w in
      owalk branches autos sc' ids' {| lo := upd1 (lo w1) t 0; cm := cm w1; pd := pd w1; ob := ob w1 |}
    | SRecreate t, None =>
      (* the rows of the dropped table are gone on that branch; the sequence is re-seated *)
      let w1 := o_commit s w in
      owalk branches autos sc' ids' {| lo := upd1 (lo w1) t 0; cm := upd2 (cm w1) (ob w1 s) t 0; pd := pd w1; ob := ob w1 |}
    | _, _ => false
    end
  | _, _ => false
  end.

Definition soracle (i : sinput) (o : sobs2) : bool :=
  so_ok o && owalk (si_branches i) (memb (si_autos i)) (si_sched i) (so_ids o)
                   {| lo := fun _ => 0; cm := fun _ _ => 0; pd := fun _ _ => 0; ob := lookup_def (si_sbr i) |}.

Inductive acase := D1 (c : C28.Corr.case) | D2 (c : sinput * sobs2).
Definition check_any (c : acase) : N :=
  match c with
  | D1 c => C28.Corr.check_case c
  | D2 (i, o) => (if sobs2_eqb (smodel i) o then 0 else 1) + (if soracle i o then 0 else 2)
  end.
