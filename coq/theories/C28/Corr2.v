(* C28 — correspondence for the server model (several tables, transactions, ALTER, restarts). *)
From Coq Require Import NArith List Bool.
From Dolt Require Import C28.Model C28.Spec C28.Corr C28.Server.
Import ListNotations.
Local Open Scope N_scope.

Record sinput := { si_branches : list N; si_tables : list N; si_autos : list N;
                   si_sbr : list (N * N); si_sched : list (N * sop) }.
Record sobs2 := { so_ids : list (option N); so_ok : bool }.

Definition lookup_def (l : list (N * N)) (k : N) : N :=
  match find (fun p => fst p =? k) l with Some p => snd p | None => 0 end.
Definition memb (l : list N) (k : N) : bool := existsb (N.eqb k) l.

Definition smodel (i : sinput) : sobs2 :=
  {| so_ids := map fst (fst (srun (si_branches i) (si_tables i) (memb (si_autos i)) (si_sched i)
                                  (srv0 (lookup_def (si_sbr i)))));
     so_ok := true |}.

Definition sobs2_eqb (x y : sobs2) : bool := list_eqb oN_eqb (so_ids x) (so_ids y) && Bool.eqb (so_ok x) (so_ok y).

(* The property on the implementation's values, with an independent bookkeeping of what is committed:
   a generated value exceeds every id committed on ANY branch for that table, and exceeds every value
   generated or explicitly inserted for that table since the server started / since the sequence was
   last re-seated by ALTER TABLE .. AUTO_INCREMENT (so nothing is handed out twice within one running
   server, whatever sessions and branches); an explicit insert gets its value; no insert fails. *)
Record ostate := { lo : N -> N; cm : N -> N; pd : N -> N -> N }.
Definition o_commit (s : N) (tables : list N) (w : ostate) : ostate :=
  {| lo := lo w; cm := fun t => N.max (cm w t) (pd w s t); pd := upd1 (pd w) s (fun _ => 0) |}.

Fixpoint owalk (tables : list N) (autos : N -> bool) (sc : list (N * sop)) (ids : list (option N)) (w : ostate) : bool :=
  match sc, ids with
  | [], [] => true
  | (s, o) :: sc', x :: ids' =>
    match o, x with
    | SGen t, Some g =>
      (lo w t <? g) && (cm w t <? g) &&
      let w1 := {| lo := upd1 (lo w) t g; cm := cm w; pd := upd1 (pd w) s (upd1 (pd w s) t (N.max (pd w s t) g)) |} in
      owalk tables autos sc' ids' (if autos s then o_commit s tables w1 else w1)
    | SExpl t v, Some r =>
      (r =? v) &&
      let w1 := {| lo := upd1 (lo w) t (N.max (lo w t) v); cm := cm w; pd := upd1 (pd w) s (upd1 (pd w s) t (N.max (pd w s t) v)) |} in
      owalk tables autos sc' ids' (if autos s then o_commit s tables w1 else w1)
    | SCommitT, None | SSwitch _, None => owalk tables autos sc' ids' (o_commit s tables w)
    | SRollbackT, None => owalk tables autos sc' ids' {| lo := lo w; cm := cm w; pd := upd1 (pd w) s (fun _ => 0) |}
    | SRestart, None => owalk tables autos sc' ids' {| lo := fun _ => 0; cm := cm w; pd := fun _ _ => 0 |}
    | SAlter t _, None =>
      let w1 := o_commit s tables w in
      owalk tables autos sc' ids' {| lo := upd1 (lo w1) t 0; cm := cm w1; pd := pd w1 |}
    | _, _ => false
    end
  | _, _ => false
  end.

Definition soracle (i : sinput) (o : sobs2) : bool :=
  so_ok o && owalk (si_tables i) (memb (si_autos i)) (si_sched i) (so_ids o)
                   {| lo := fun _ => 0; cm := fun _ => 0; pd := fun _ _ => 0 |}.

Inductive acase := D1 (c : C28.Corr.case) | D2 (c : sinput * sobs2).
Definition check_any (c : acase) : N :=
  match c with
  | D1 c => C28.Corr.check_case c
  | D2 (i, o) => (if sobs2_eqb (smodel i) o then 0 else 1) + (if soracle i o then 0 else 2)
  end.
