(* C28 — the tracker inside a running server: several tables with independent sequences, sessions
   with transactions on branches, ALTER TABLE .. AUTO_INCREMENT, and a server (re)start that
   initialises the tracker from the branches' persisted counters.  Model; no proofs here.

   Mirrors go/libraries/doltcore/sqle/dsess/sequence_tracker.go:
     initWithRoots      : tracker(table) := max over all branches of the counter stored in the table
     Next               : as in Model.v, one counter per table name
     Set (ALTER .. AUTO_INCREMENT = n): n > current => current := n (and stored in the branch's table);
        otherwise deepSet: TrySetSequenceState(n) succeeds only if n exceeds every id present in the
        branch's table; then current := max(n, counters stored on the OTHER branches) — the tracker
        can move DOWN; else nothing happens
   and the table writer: a committed insert of id stores id+1 in the branch's table (never lowered by
   deletes); a rolled-back insert stores nothing.
   Abstracted: type bounds (observed: the value
   after the column maximum is refused with "out of range", no wrap), deletes. *)
From Coq Require Import NArith List Bool.
Import ListNotations.
Local Open Scope N_scope.

Inductive sop :=
| SGen (t : N)                 (* INSERT into table t without an id *)
| SExpl (t : N) (v : N)        (* INSERT with id = v *)
| SCommitT
| SRollbackT
| SSwitch (b : N)              (* COMMIT, check out branch b *)
| SRestart                     (* the server is restarted (all sessions have committed or rolled back) *)
| SAlter (t : N) (n : N)       (* COMMIT; ALTER TABLE t AUTO_INCREMENT = n; COMMIT *)
| SRecreate (t : N).           (* COMMIT; DROP TABLE t; CREATE TABLE t (.. AUTO_INCREMENT ..); COMMIT on the session's branch.
                                  DropRelation: tracker := max over the OTHER working sets that still have the table;
                                  AddNewRelation(1): tracker := max(tracker, 1) — the sequence continues while another
                                  branch has the table and restarts at 1 when none has *)

Definition upd2 (f : N -> N -> N) (a b v : N) : N -> N -> N :=
  fun a' b' => if (a' =? a) && (b' =? b) then v else f a' b'.
Definition upd1 {A} (f : N -> A) (a : N) (v : A) : N -> A := fun a' => if a' =? a then v else f a'.

Record srv := {
  cur : N -> N;               (* table -> tracker value (next id) *)
  bval : N -> N -> N;         (* branch -> table -> counter stored in the branch's table (0: never written) *)
  bmax : N -> N -> N;         (* branch -> table -> largest id committed on the branch *)
  sbr : N -> N;               (* session -> branch *)
  pend : N -> N -> N          (* session -> table -> largest id inserted in the open transaction (0: none) *)
}.

Section Cfg.
  Variable branches : list N.
  Variable tables : list N.
  Variable autos : N -> bool.   (* autocommit sessions *)

  Definition max_over (f : N -> N) (l : list N) : N := fold_left (fun m b => N.max m (f b)) l 0.

  Definition commit_s (s : N) (w : srv) : srv :=
    let b := sbr w s in
    {| cur := cur w;
       bval := fun b' t => if b' =? b then (if pend w s t =? 0 then bval w b' t else N.max (bval w b' t) (pend w s t + 1)) else bval w b' t;
       bmax := fun b' t => if b' =? b then N.max (bmax w b' t) (pend w s t) else bmax w b' t;
       sbr := sbr w;
       pend := upd1 (pend w) s (fun _ => 0) |}.

  Definition rollback_s (s : N) (w : srv) : srv :=
    {| cur := cur w; bval := bval w; bmax := bmax w; sbr := sbr w; pend := upd1 (pend w) s (fun _ => 0) |}.

  Definition insert_s (s t id newcur : N) (w : srv) : srv :=
    let w1 := {| cur := upd1 (cur w) t newcur; bval := bval w; bmax := bmax w; sbr := sbr w;
                 pend := upd1 (pend w) s (upd1 (pend w s) t (N.max (pend w s t) id)) |} in
    if autos s then commit_s s w1 else w1.

  (* returns the id the row got (None: not an insert), whether the tracker was moved down, new state *)
  Definition sstep (s : N) (o : sop) (w : srv) : option N * bool * srv :=
    match o with
    | SGen t => (Some (cur w t), false, insert_s s t (cur w t) (cur w t + 1) w)
    | SExpl t v => (Some v, false, insert_s s t v (if cur w t <=? v then v + 1 else cur w t) w)
    | SCommitT => (None, false, commit_s s w)
    | SRollbackT => (None, false, rollback_s s w)
    | SSwitch b =>
      let w1 := commit_s s w in
      (None, false, {| cur := cur w1; bval := bval w1; bmax := bmax w1; sbr := upd1 (sbr w1) s b; pend := pend w1 |})
    | SRestart =>
      let c := fun t => N.max 1 (max_over (fun b => bval w b t) branches) in
      (None, existsb (fun t => c t <? cur w t) tables,
       {| cur := c; bval := bval w; bmax := bmax w; sbr := sbr w; pend := fun _ _ => 0 |})
    | SAlter t n =>
      let w1 := commit_s s w in
      let b := sbr w1 s in
      if cur w1 t <? n then
        (None, false, {| cur := upd1 (cur w1) t n; bval := upd2 (bval w1) b t n; bmax := bmax w1; sbr := sbr w1; pend := pend w1 |})
      else if bmax w1 b t <? n then
        let bv := upd2 (bval w1) b t n in
        let c := N.max n (max_over (fun b' => if b' =? b then 0 else bv b' t) branches) in
        (None, c <? cur w1 t, {| cur := upd1 (cur w1) t c; bval := bv; bmax := bmax w1; sbr := sbr w1; pend := pend w1 |})
      else (None, false, w1)
    | SRecreate t =>
      let w1 := commit_s s w in
      let b := sbr w1 s in
      let bv := upd2 (bval w1) b t 0 in
      let c := N.max 1 (max_over (fun b' => bv b' t) branches) in
      (None, c <? cur w1 t,
       {| cur := upd1 (cur w1) t c; bval := bv; bmax := upd2 (bmax w1) b t 0; sbr := sbr w1; pend := pend w1 |})
    end.

  Fixpoint srun (sc : list (N * sop)) (w : srv) : list (option N * bool) * srv :=
    match sc with
    | [] => ([], w)
    | (s, o) :: r => let '(x, low, w1) := sstep s o w in
                     let '(xs, w2) := srun r w1 in ((x, low) :: xs, w2)
    end.

  Definition srv0 (sb : N -> N) : srv :=
    {| cur := fun _ => 1; bval := fun _ _ => 0; bmax := fun _ _ => 0; sbr := sb; pend := fun _ _ => 0 |}.
End Cfg.
