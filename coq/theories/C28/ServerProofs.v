(* C28 — proofs for the server model. *)
From Coq Require Import NArith List Bool Sorted Lia.
From Dolt Require Import C28.Server.
Import ListNotations.
Local Open Scope N_scope.

Section P.
  Variable branches : list N.
  Variable tables : list N.
  Variable autos : N -> bool.

  Lemma fold_max_ge (f : N -> N) l : forall m, m <= fold_left (fun m b => N.max m (f b)) l m.
  Proof. induction l as [|x l IH]; intros m; cbn [fold_left]; [lia|]. specialize (IH (N.max m (f x))). lia. Qed.

  Lemma max_over_ext (f g : N -> N) l : (forall b, f b = g b) -> max_over f l = max_over g l.
  Proof.
    intros H. unfold max_over. generalize 0. induction l as [|x l IH]; intros m; [reflexivity|].
    cbn [fold_left]. rewrite H. apply IH.
  Qed.

  Lemma max_over_ge (f : N -> N) l b : In b l -> f b <= max_over f l.
  Proof.
    unfold max_over. generalize 0. induction l as [|x l IH]; intros m Hin; [destruct Hin|].
    cbn [fold_left]. destruct Hin as [->|Hin]; [|apply IH; exact Hin].
    pose proof (fold_max_ge f l (N.max m (f b))). lia.
  Qed.

  Lemma max_over_attained (f : N -> N) l : max_over f l = 0 \/ exists b, In b l /\ max_over f l = f b.
  Proof.
    unfold max_over. assert (H : forall m, fold_left (fun m b => N.max m (f b)) l m = m \/
                                           exists b, In b l /\ fold_left (fun m b => N.max m (f b)) l m = f b).
    { induction l as [|x l IH]; intros m; cbn [fold_left]; [left; reflexivity|].
      destruct (IH (N.max m (f x))) as [He|[b [Hb He]]].
      - rewrite He. destruct (N.max_spec m (f x)) as [[_ ->]|[_ ->]]; [right; exists x; split; [left|]; reflexivity | left; reflexivity].
      - right. exists b. split; [right; exact Hb | exact He]. }
    destruct (H 0) as [->|H']; [left; reflexivity | right; exact H'].
  Qed.

  (* a (re)started server: the tracker of a table is the largest counter stored for it on any branch
     (1 for a table nobody wrote): it is one of the branches' counters and no branch is ahead of it *)
  Theorem init_is_max_over_branches s w t :
    let w' := snd (sstep branches tables autos s SRestart w) in
    cur w' t = N.max 1 (max_over (fun b => bval w b t) branches)
    /\ (forall b, In b branches -> bval w' b t <= cur w' t)
    /\ (cur w' t = 1 \/ exists b, In b branches /\ cur w' t = bval w b t).
  Proof.
    cbn. split; [reflexivity|]. split.
    - intros b Hb. pose proof (max_over_ge (fun b => bval w b t) branches b Hb). cbn beta in H. lia.
    - destruct (max_over_attained (fun b => bval w b t) branches) as [->|[b [Hb He]]]; [left; reflexivity|].
      destruct (N.max_spec 1 (max_over (fun b0 => bval w b0 t) branches)) as [[_ ->]|[_ ->]]; [|left; reflexivity].
      right. exists b. split; [exact Hb | exact He].
  Qed.

  (* ALTER TABLE t AUTO_INCREMENT = n, as implemented: above the tracker it raises it; otherwise, if n is
     above every id committed on the session's branch, the tracker is RE-SEATED to max(n, counters stored
     on the other branches) — possibly below its old value; else nothing happens.  In every case no branch
     is ahead of the tracker afterwards (given none was before). *)
  Theorem alter_lower_is_noop_or_clamped s t n w :
    let w1 := commit_s s w in
    let b := sbr w1 s in
    let w' := snd (sstep branches tables autos s (SAlter t n) w) in
    (cur w1 t < n -> cur w' t = n) /\
    (n <= cur w1 t -> bmax w1 b t < n ->
       cur w' t = N.max n (max_over (fun b' => if b' =? b then 0 else bval w1 b' t) branches) /\ bval w' b t = n) /\
    (n <= cur w1 t -> n <= bmax w1 b t -> w' = w1) /\
    ((forall b', In b' branches -> bval w1 b' t <= cur w1 t) -> forall b', In b' branches -> bval w' b' t <= cur w' t).
  Proof.
    cbn zeta. unfold sstep.
    set (w1 := commit_s s w). set (b := sbr w1 s).
    destruct (N.ltb_spec (cur w1 t) n) as [Hlt|Hge].
    - cbn [snd cur bval]. unfold upd1, upd2. rewrite !N.eqb_refl. cbn [andb].
      repeat split; try lia.
      intros Hinv b' Hb'. destruct (N.eqb_spec b' b); rewrite ?N.eqb_refl; cbn [andb]; [lia|]. specialize (Hinv b' Hb'). lia.
    - destruct (N.ltb_spec (bmax w1 b t) n) as [Hb|Hb].
      + cbn [snd cur bval]. unfold upd1, upd2. rewrite !N.eqb_refl. cbn [andb].
        split; [lia|]. split.
        * intros _ _. split; [|reflexivity]. f_equal. apply max_over_ext. intros b0.
          destruct (b0 =? b); reflexivity.
        * split; [lia|]. intros _ b' Hb'.
          destruct (N.eqb_spec b' b) as [->|Hne]; rewrite ?N.eqb_refl; cbn [andb]; [apply N.le_max_l|].
          pose proof (max_over_ge (fun b'0 => if b'0 =? b then 0
                                              else if (b'0 =? b) && (t =? t) then n else bval w1 b'0 t) branches b' Hb') as Hm.
          cbn beta in Hm. destruct (N.eqb_spec b' b); [congruence|]. cbn [andb] in Hm. rewrite ?N.eqb_refl in Hm.
          eapply N.le_trans; [exact Hm | apply N.le_max_r].
      + cbn [snd]. split; [lia|]. split; [lia|]. split; [reflexivity|]. intros Hinv. exact Hinv.
  Qed.

  (* ---------------------------------------------------------------- *)
  (* without a restart or an ALTER the tracker of every table only moves forward, across transactions,
     rollbacks, branch switches and tables: generated values are strictly increasing per table *)
  Definition plain_op (o : sop) : bool := match o with SRestart | SAlter _ _ | SRecreate _ => false | _ => true end.

  Fixpoint gens (t : N) (sc : list (N * sop)) (w : srv) : list N :=
    match sc with
    | [] => []
    | (s, o) :: r =>
      let w1 := snd (sstep branches tables autos s o w) in
      match o with
      | SGen t' => if t' =? t then cur w t :: gens t r w1 else gens t r w1
      | _ => gens t r w1
      end
    end.

  Lemma commit_cur s w : cur (commit_s s w) = cur w. Proof. reflexivity. Qed.

  Lemma insert_cur s t0 id c w : cur (insert_s autos s t0 id c w) = upd1 (cur w) t0 c.
  Proof. unfold insert_s. destruct (autos s); reflexivity. Qed.

  Lemma step_mono s o w t : plain_op o = true -> cur w t <= cur (snd (sstep branches tables autos s o w)) t.
  Proof.
    destruct o; cbn [plain_op]; try discriminate; intros _; unfold sstep; cbn [snd].
    - rewrite insert_cur. unfold upd1. destruct (N.eqb_spec t t0); subst; lia.
    - rewrite insert_cur. unfold upd1. destruct (N.eqb_spec t t0); subst; [|lia].
      destruct (N.leb_spec (cur w t0) v); lia.
    - cbn [cur commit_s]. lia.
    - cbn [cur rollback_s]. lia.
    - cbn [cur commit_s]. lia.
  Qed.

  Lemma gen_cur s t w : cur (snd (sstep branches tables autos s (SGen t) w)) t = cur w t + 1.
  Proof. unfold sstep. cbn [snd]. rewrite insert_cur. unfold upd1. rewrite N.eqb_refl. reflexivity. Qed.

  Lemma gens_ge t sc : forall w, forallb (fun p => plain_op (snd p)) sc = true ->
    forall g, In g (gens t sc w) -> cur w t <= g.
  Proof.
    induction sc as [|[s o] r IH]; intros w Hp g Hin; [destruct Hin|].
    cbn [forallb snd] in Hp. apply andb_true_iff in Hp as [Ho Hr].
    pose proof (step_mono s o w t Ho) as Hm. cbn [gens] in Hin.
    destruct o; try (specialize (IH _ Hr g Hin); lia).
    destruct (N.eqb_spec t0 t) as [->|Hne]; [|specialize (IH _ Hr g Hin); lia].
    destruct Hin as [<-|Hin]; [lia|]. specialize (IH _ Hr g Hin).
    rewrite gen_cur in *. lia.
  Qed.

  Theorem next_increasing_tables t sc : forall w,
    forallb (fun p => plain_op (snd p)) sc = true -> StronglySorted N.lt (gens t sc w).
  Proof.
    induction sc as [|[s o] r IH]; intros w Hp; [constructor|].
    cbn [forallb snd] in Hp. apply andb_true_iff in Hp as [Ho Hr]. cbn [gens].
    destruct o; try (apply IH; exact Hr).
    destruct (N.eqb_spec t0 t) as [->|Hne]; [|apply IH; exact Hr].
    constructor; [apply IH; exact Hr|]. apply Forall_forall. intros g Hin.
    apply (gens_ge t r _ Hr) in Hin.
    rewrite gen_cur in *. lia.
  Qed.

  (* a value generated for one table never depends on the other tables' sequences *)
  (* DROP + CREATE of a table on one branch: the sequence continues from the largest counter the OTHER
     branches hold for that table name (1 if none has it); no branch is ahead of the tracker afterwards *)
  Theorem recreate_keeps_max_of_others s t w :
    let w1 := commit_s s w in
    let b := sbr w1 s in
    let w' := snd (sstep branches tables autos s (SRecreate t) w) in
    cur w' t = N.max 1 (max_over (fun b' => if b' =? b then 0 else bval w1 b' t) branches)
    /\ (forall b', In b' branches -> bval w' b' t <= cur w' t).
  Proof.
    cbn zeta. unfold sstep. cbn [snd cur bval]. unfold upd1, upd2. rewrite !N.eqb_refl. split.
    - f_equal. apply max_over_ext. intros b0. destruct (b0 =? sbr (commit_s s w) s); reflexivity.
    - intros b' Hb'.
      pose proof (max_over_ge (fun b'0 => if (b'0 =? sbr (commit_s s w) s) && true then 0 else bval (commit_s s w) b'0 t) branches b' Hb') as Hm.
      cbn beta in Hm. eapply N.le_trans; [exact Hm | apply N.le_max_r].
  Qed.

  Theorem tables_independent s t t' w :
    t <> t' -> cur (snd (sstep branches tables autos s (SGen t) w)) t' = cur w t'.
  Proof.
    intros Hne. unfold sstep. cbn [snd]. rewrite insert_cur. unfold upd1. destruct (N.eqb_spec t' t); congruence.
  Qed.
End P.

(* non-vacuity: restart after a rollback, raise, lower (no-op), lower (re-seated) *)
Example ex_server :
  map fst (fst (srun [0; 1] [0; 1] (fun s => true)
                     [(0, SGen 0); (0, SGen 0); (1, SGen 0); (1, SExpl 0 20); (1, SGen 0); (0, SRestart); (0, SGen 0);
                      (0, SAlter 0 50); (0, SGen 0); (0, SAlter 0 10); (0, SGen 0)]
                     (srv0 (fun s => s))))
  = [Some 1; Some 2; Some 3; Some 20; Some 21; None; Some 22; None; Some 50; None; Some 51].
Proof. vm_compute. reflexivity. Qed.
