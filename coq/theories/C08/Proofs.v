(* C08 — proofs. *)
From Coq Require Import NArith PeanoNat List Bool Lia.
From Dolt Require Import C08.Model C08.Spec.
Import ListNotations.
Local Open Scope N_scope.

(* ---- membership ---- *)
Lemma memb_In : forall x l, memb x l = true <-> In x l.
Proof.
  intros x l. unfold memb. rewrite existsb_exists. split.
  - intros [y [Hy He]]. apply N.eqb_eq in He. subst. exact Hy.
  - intros H. exists x. split; [exact H | apply N.eqb_refl].
Qed.

Lemma memb_false : forall x l, memb x l = false <-> ~ In x l.
Proof.
  intros x l. split.
  - intros H Hin. apply memb_In in Hin. rewrite Hin in H. discriminate H.
  - intros H. destruct (memb x l) eqn:E; [|reflexivity]. apply memb_In in E. contradiction.
Qed.

Lemma present_In : forall g h, present g h = true <-> exists rs, In (h, rs) g.
Proof.
  intros g h. unfold present. rewrite existsb_exists. split.
  - intros [[k rs] [Hin He]]. cbn [fst] in He. apply N.eqb_eq in He. subst. exists rs. exact Hin.
  - intros [rs Hin]. exists (h, rs). split; [exact Hin | apply N.eqb_refl].
Qed.

(* ---- add_new ---- *)
Lemma add_new_In : forall seen xs acc x,
  In x (add_new seen acc xs) <-> In x acc \/ (In x xs /\ ~ In x seen).
Proof.
  intros seen xs. induction xs as [|a t IH]; intros acc x; cbn [add_new].
  - split; [auto | intros [H|[[] _]]; exact H].
  - destruct (memb a seen || memb a acc) eqn:E.
    + rewrite IH. apply orb_true_iff in E. cbn [In]. split.
      * intros [H|[H1 H2]]; [left; exact H | right; split; [right; exact H1 | exact H2]].
      * intros [H|[[H1|H1] H2]].
        -- left; exact H.
        -- subst a. destruct E as [E|E]; apply memb_In in E; [contradiction | left; exact E].
        -- right; split; assumption.
    + rewrite IH. apply orb_false_iff in E. destruct E as [E1 E2].
      apply memb_false in E1. apply memb_false in E2. cbn [In]. split.
      * intros [[H|H]|[H1 H2]].
        -- subst. right. split; [left; reflexivity | exact E1].
        -- left; exact H.
        -- right; split; [right; exact H1 | exact H2].
      * intros [H|[[H1|H1] H2]].
        -- left; right; exact H.
        -- subst. left; left; reflexivity.
        -- right; split; assumption.
Qed.

Lemma add_new_NoDup : forall seen xs acc, NoDup acc -> NoDup (add_new seen acc xs).
Proof.
  intros seen xs. induction xs as [|a t IH]; intros acc Hnd; cbn [add_new]; [exact Hnd|].
  destruct (memb a seen || memb a acc) eqn:E; [apply IH; exact Hnd|].
  apply IH. apply orb_false_iff in E. destruct E as [_ E2]. apply memb_false in E2.
  constructor; assumption.
Qed.

Lemma NoDup_app_intro : forall (l1 l2 : list addr),
  NoDup l1 -> NoDup l2 -> (forall x, In x l1 -> ~ In x l2) -> NoDup (l1 ++ l2).
Proof.
  induction l1 as [|a l1 IH]; intros l2 H1 H2 Hd; cbn [app]; [exact H2|].
  inversion H1 as [|? ? Hna Hnd]; subst. constructor.
  - intro Hin. apply in_app_or in Hin. destruct Hin as [Hin|Hin]; [contradiction|].
    apply (Hd a); [left; reflexivity | exact Hin].
  - apply IH; [exact Hnd | exact H2 | intros x Hx; apply Hd; right; exact Hx].
Qed.

(* ---- marking computes a set closed under references that contains the start set ---- *)
Definition inv_loop (g : graph) (seen frontier : list addr) : Prop :=
  forall x y, In x seen -> In y (refs g x) -> In y seen \/ In y frontier.

Lemma mark_loop_closed : forall g fuel seen frontier R,
  inv_loop g seen frontier -> mark_loop fuel g seen frontier = Some R ->
  incl (frontier ++ seen) R /\ (forall x y, In x R -> In y (refs g x) -> In y R).
Proof.
  intros g. induction fuel as [|f IH]; intros seen frontier R Hinv H.
  - destruct frontier as [|a fr]; cbn [mark_loop] in H; [|discriminate H].
    injection H as <-. split; [apply incl_refl|].
    intros x y Hx Hy. destruct (Hinv x y Hx Hy) as [Hs|[]]. exact Hs.
  - destruct frontier as [|a fr]; cbn [mark_loop] in H.
    + injection H as <-. split; [apply incl_refl|].
      intros x y Hx Hy. destruct (Hinv x y Hx Hy) as [Hs|[]]. exact Hs.
    + apply IH in H.
      * destruct H as [Hi Hc]. split; [|exact Hc].
        intros z Hz. apply Hi. apply in_or_app. right. exact Hz.
      * intros x y Hx Hy. apply in_app_or in Hx. destruct Hx as [Hx|Hx].
        -- destruct (in_dec N.eq_dec y ((a :: fr) ++ seen)) as [Hin|Hnin]; [left; exact Hin | right].
           unfold next_frontier. apply add_new_In. right. split; [|exact Hnin].
           apply in_flat_map. exists x. split; assumption.
        -- destruct (Hinv x y Hx Hy) as [H1|H1]; left; apply in_or_app; [right | left]; assumption.
Qed.

Theorem mark_complete : forall g roots R,
  mark g roots = Some R -> forall x, reach g roots x -> In x R.
Proof.
  intros g roots R H. unfold mark in H. apply mark_loop_closed in H.
  - destruct H as [Hi Hc]. intros x Hr. induction Hr as [x Hx | x y Hr IH Hy].
    + apply Hi. apply in_or_app. left. apply add_new_In. right. split; [exact Hx | intros []].
    + eapply Hc; eassumption.
  - intros x y [].
Qed.

Lemma mark_loop_sound : forall g roots fuel seen frontier R,
  (forall x, In x (frontier ++ seen) -> reach g roots x) ->
  mark_loop fuel g seen frontier = Some R -> forall x, In x R -> reach g roots x.
Proof.
  intros g roots. induction fuel as [|f IH]; intros seen frontier R Hr H.
  - destruct frontier as [|a fr]; cbn [mark_loop] in H; [|discriminate H].
    injection H as <-. intros x Hx. apply Hr. exact Hx.
  - destruct frontier as [|a fr]; cbn [mark_loop] in H.
    + injection H as <-. intros x Hx. apply Hr. exact Hx.
    + eapply IH; [|exact H]. intros x Hx. apply in_app_or in Hx. destruct Hx as [Hx|Hx].
      * unfold next_frontier in Hx. apply add_new_In in Hx. destruct Hx as [[]|[Hx _]].
        apply in_flat_map in Hx. destruct Hx as [z [Hz Hy]].
        apply reach_step with (x := z); [|exact Hy]. apply Hr. apply in_or_app. left. exact Hz.
      * apply Hr. exact Hx.
Qed.

Theorem mark_sound : forall g roots R,
  mark g roots = Some R -> forall x, In x R -> reach g roots x.
Proof.
  intros g roots R H. unfold mark in H. eapply mark_loop_sound; [|exact H].
  intros x Hx. rewrite app_nil_r in Hx. apply add_new_In in Hx. destruct Hx as [[]|[Hx _]].
  apply reach_start. exact Hx.
Qed.

(* ---- the fuel given by [mark] always suffices ---- *)
Lemma refs_in_entries : forall g x y, In y (refs g x) -> In y (flat_map (fun p => fst p :: snd p) g).
Proof.
  induction g as [|[k rs] g' IH]; intros x y H; cbn [refs] in H; [destruct H|].
  cbn [flat_map fst snd]. destruct (k =? x).
  - right. apply in_or_app. left. exact H.
  - right. apply in_or_app. right. eapply IH. exact H.
Qed.

Lemma mark_loop_terminates : forall g U,
  (forall x y, In y (refs g x) -> In y U) ->
  forall fuel seen frontier,
  NoDup (frontier ++ seen) -> incl (frontier ++ seen) U ->
  (length U < fuel + length seen)%nat ->
  exists R, mark_loop fuel g seen frontier = Some R.
Proof.
  intros g U HU. induction fuel as [|f IH]; intros seen frontier Hnd Hincl Hlen.
  - destruct frontier as [|a fr]; [eexists; reflexivity|]. exfalso.
    pose proof (NoDup_incl_length Hnd Hincl) as L. rewrite app_length in L. cbn [length] in L. lia.
  - destruct frontier as [|a fr]; [eexists; reflexivity|]. cbn [mark_loop]. apply IH.
    + apply NoDup_app_intro.
      * unfold next_frontier. apply add_new_NoDup. constructor.
      * exact Hnd.
      * intros x Hx. unfold next_frontier in Hx. apply add_new_In in Hx. destruct Hx as [[]|[_ Hn]]. exact Hn.
    + intros x Hx. apply in_app_or in Hx. destruct Hx as [Hx|Hx].
      * unfold next_frontier in Hx. apply add_new_In in Hx. destruct Hx as [[]|[Hx _]].
        apply in_flat_map in Hx. destruct Hx as [z [_ Hz]]. eapply HU. exact Hz.
      * apply Hincl. exact Hx.
    + rewrite app_length. cbn [length] in *. lia.
Qed.

Theorem fuel_enough : forall g start, exists R, mark g start = Some R.
Proof.
  intros g start. unfold mark. apply mark_loop_terminates with (U := universe g start).
  - intros x y H. unfold universe. apply in_or_app. right. eapply refs_in_entries. exact H.
  - rewrite app_nil_r. apply add_new_NoDup. constructor.
  - intros x Hx. rewrite app_nil_r in Hx. apply add_new_In in Hx. destruct Hx as [[]|[Hx _]].
    unfold universe. apply in_or_app. left. exact Hx.
  - cbn [length]. lia.
Qed.

Corollary mark_is_reach : forall g roots, exists R, mark g roots = Some R /\ forall x, In x R <-> reach g roots x.
Proof.
  intros g roots. destruct (fuel_enough g roots) as [R H]. exists R. split; [exact H|].
  intros x. split; [apply (mark_sound g roots R H) | apply (mark_complete g roots R H)].
Qed.

(* ---- sweep ---- *)
Lemma present_sweep : forall g m y, present (sweep g m) y = present g y && memb y m.
Proof.
  induction g as [|[k rs] g' IH]; intros m y; [reflexivity|].
  unfold sweep in *. cbn [filter fst]. destruct (memb k m) eqn:Ek.
  - unfold present in *. cbn [existsb fst]. destruct (k =? y) eqn:E.
    + apply N.eqb_eq in E. subst. rewrite Ek. reflexivity.
    + cbn [orb]. apply IH.
  - unfold present in *. cbn [existsb fst]. destruct (k =? y) eqn:E.
    + apply N.eqb_eq in E. subst. rewrite Ek. rewrite andb_false_r. rewrite IH, Ek. apply andb_false_r.
    + cbn [orb]. apply IH.
Qed.

Lemma refs_sweep : forall g m x, memb x m = true -> refs (sweep g m) x = refs g x.
Proof.
  induction g as [|[k rs] g' IH]; intros m x Hx; [reflexivity|].
  unfold sweep in *. cbn [filter fst]. destruct (memb k m) eqn:Ek.
  - cbn [refs]. destruct (k =? x); [reflexivity | apply IH; exact Hx].
  - cbn [refs]. destruct (k =? x) eqn:E.
    + apply N.eqb_eq in E. subst. rewrite Hx in Ek. discriminate Ek.
    + apply IH. exact Hx.
Qed.

Lemma lookup_sweep : forall g m x, memb x m = true -> lookup (sweep g m) x = lookup g x.
Proof.
  induction g as [|[k rs] g' IH]; intros m x Hx; [reflexivity|].
  unfold lookup, sweep in *. cbn [filter fst]. destruct (memb k m) eqn:Ek.
  - cbn [find fst]. destruct (k =? x); [reflexivity | apply IH; exact Hx].
  - cbn [find fst]. destruct (k =? x) eqn:E.
    + apply N.eqb_eq in E. subst. rewrite Hx in Ek. discriminate Ek.
    + apply IH. exact Hx.
Qed.

(* ---- a collection with no concurrent activity keeps every reachable chunk, unchanged ---- *)
Theorem gc_safe_sequential : forall g roots g',
  gc_once g roots = Some g' -> retains g g' roots.
Proof.
  intros g roots g' H. unfold gc_once in H. destruct (mark g roots) as [m|] eqn:E; [|discriminate H].
  injection H as <-. intros x Hr Hp.
  pose proof (mark_complete g roots m E x Hr) as Hin. apply memb_In in Hin.
  split.
  - rewrite present_sweep, Hp, Hin. reflexivity.
  - apply lookup_sweep. exact Hin.
Qed.

Corollary gc_total : forall g roots, exists g', gc_once g roots = Some g'.
Proof.
  intros g roots. unfold gc_once. destruct (fuel_enough g roots) as [R H]. rewrite H. eexists. reflexivity.
Qed.

(* ---- collection concurrent with sessions: invariant over every interleaving ---- *)
Definition Inv (s : state) : Prop :=
  closed (st_store s)
  /\ present (st_store s) (st_root s) = true
  /\ (forall h, In h (st_novel s) -> present (st_store s) h = true)
  /\ (gc_active s = true ->
        In (st_root s) (st_marked s ++ st_keeper s)
        /\ (forall h, In h (st_novel s) -> In h (st_marked s ++ st_keeper s))).

Lemma in_marked_keep : forall s h x, In x (st_marked s ++ st_keeper s) -> In x (st_marked s ++ keep s h).
Proof.
  intros s h x H. unfold keep. destruct (gc_active s); [|exact H].
  apply in_app_or in H. apply in_or_app. destruct H as [H|H]; [left; exact H | right; right; exact H].
Qed.

Lemma present_cons : forall g h rs y, present g y = true -> present ((h, rs) :: g) y = true.
Proof. intros g h rs y H. unfold present in *. cbn [existsb]. rewrite H. apply orb_true_r. Qed.

Lemma closed_put : forall g h rs,
  closed g -> forallb (present g) rs = true ->
  closed (if present g h then g else (h, rs) :: g).
Proof.
  intros g h rs Hc Hrs. destruct (present g h) eqn:Eh; [exact Hc|].
  intros x y Hx Hy. cbn [refs] in Hy. destruct (h =? x) eqn:E.
  - apply present_cons. rewrite forallb_forall in Hrs. apply Hrs. exact Hy.
  - apply present_cons. apply (Hc x y); [|exact Hy].
    unfold present in Hx. cbn [existsb fst] in Hx. rewrite E in Hx. exact Hx.
Qed.

Lemma present_put_mono : forall g h rs y,
  present g y = true -> present (if present g h then g else (h, rs) :: g) y = true.
Proof. intros g h rs y H. destruct (present g h); [exact H | apply present_cons; exact H]. Qed.

Lemma present_put_self : forall g h rs, present (if present g h then g else (h, rs) :: g) h = true.
Proof.
  intros g h rs. destruct (present g h) eqn:E; [exact E|].
  unfold present. cbn [existsb fst]. rewrite N.eqb_refl. reflexivity.
Qed.

Lemma swap_preserves : forall g m R,
  closed g -> mark g m = Some R -> closed (sweep g R).
Proof.
  intros g m R Hc HR. intros x y Hx Hy.
  rewrite present_sweep in Hx. apply andb_prop in Hx. destruct Hx as [Hpx Hmx].
  rewrite (refs_sweep g R x Hmx) in Hy.
  rewrite present_sweep. rewrite (Hc x y Hpx Hy). cbn [andb].
  apply memb_In. unfold mark in HR. apply mark_loop_closed in HR; [|intros ? ? []].
  destruct HR as [_ Hcl]. apply (Hcl x y); [apply memb_In; exact Hmx | exact Hy].
Qed.

Lemma mark_contains_start : forall g start R, mark g start = Some R -> incl start R.
Proof.
  intros g start R H x Hx. apply (mark_complete g start R H). apply reach_start. exact Hx.
Qed.

Lemma step_preserves : forall s e, Inv s -> Inv (step s e).
Proof.
  intros s e HI. pose proof HI as [Hc [Hr [Hn Hg]]]. destruct e as [h rs|h|r| | | |]; cbn [step].
  - (* SPut *)
    destruct (blocked s) eqn:Eb; [exact HI|].
    destruct (forallb (present (st_store s)) rs) eqn:Ers; [|exact HI].
    unfold Inv, gc_active. cbn [st_store st_root st_phase st_keeper st_marked st_novel].
    split; [apply closed_put; assumption|].
    split; [apply present_put_mono; exact Hr|].
    split.
    + intros x Hx. unfold note_novel in Hx. destruct (gc_active s).
      * destruct Hx as [Hx|Hx]; [subst; apply present_put_self | apply present_put_mono; apply Hn; exact Hx].
      * apply present_put_mono. apply Hn. exact Hx.
    + intros Ha. fold (gc_active s) in Ha. destruct (Hg Ha) as [H1 H2]. split.
      * apply in_marked_keep. exact H1.
      * intros x Hx. unfold note_novel in Hx. rewrite Ha in Hx. destruct Hx as [Hx|Hx].
        -- subst. unfold keep. rewrite Ha. apply in_or_app. right. left. reflexivity.
        -- apply in_marked_keep. apply H2. exact Hx.
  - (* SRead *)
    destruct (blocked s) eqn:Eb; [exact HI|].
    destruct (present (st_store s) h) eqn:Eh; [|exact HI].
    unfold Inv, gc_active. cbn [st_store st_root st_phase st_keeper st_marked st_novel].
    split; [exact Hc|]. split; [exact Hr|]. split.
    + intros x Hx. unfold note_novel in Hx. destruct (gc_active s).
      * destruct Hx as [Hx|Hx]; [subst; exact Eh | apply Hn; exact Hx].
      * apply Hn. exact Hx.
    + intros Ha. fold (gc_active s) in Ha. destruct (Hg Ha) as [H1 H2]. split.
      * apply in_marked_keep. exact H1.
      * intros x Hx. unfold note_novel in Hx. rewrite Ha in Hx. destruct Hx as [Hx|Hx].
        -- subst. unfold keep. rewrite Ha. apply in_or_app. right. left. reflexivity.
        -- apply in_marked_keep. apply H2. exact Hx.
  - (* SCommit *)
    destruct (blocked s) eqn:Eb; [exact HI|].
    destruct (present (st_store s) r) eqn:Er; [|exact HI].
    unfold Inv, gc_active. cbn [st_store st_root st_phase st_keeper st_marked st_novel].
    split; [exact Hc|]. split; [exact Er|]. split; [exact Hn|].
    intros Ha. fold (gc_active s) in Ha. destruct (Hg Ha) as [H1 H2]. split.
    + unfold keep. rewrite Ha. apply in_or_app. right. left. reflexivity.
    + intros x Hx. apply in_marked_keep. apply H2. exact Hx.
  - (* GBegin *)
    destruct (st_phase s) eqn:Ep; [|exact HI|exact HI].
    unfold Inv, gc_active. cbn [st_store st_root st_phase st_keeper st_marked st_novel].
    split; [exact Hc|]. split; [exact Hr|]. split; [intros x []|].
    intros _. split; [left; reflexivity | intros x []].
  - (* GMark *)
    destruct (gc_active s) eqn:Ea; [|exact HI].
    destruct (mark (st_store s) (st_marked s ++ st_keeper s)) as [m|] eqn:Em; [|exact HI].
    destruct (Hg eq_refl) as [H1 H2].
    pose proof (mark_contains_start _ _ _ Em) as Hi.
    unfold Inv. cbn [st_store st_root st_phase st_keeper st_marked st_novel].
    split; [exact Hc|]. split; [exact Hr|]. split; [exact Hn|].
    intros _. rewrite app_nil_r. split; [apply Hi; exact H1 | intros x Hx; apply Hi; apply H2; exact Hx].
  - (* GFinalize *)
    destruct (st_phase s) eqn:Ep; [exact HI| |exact HI].
    assert (Ha : gc_active s = true) by (unfold gc_active; rewrite Ep; reflexivity).
    unfold Inv, gc_active. cbn [st_store st_root st_phase st_keeper st_marked st_novel].
    split; [exact Hc|]. split; [exact Hr|]. split; [exact Hn|]. intros _. exact (Hg Ha).
  - (* GSwap *)
    destruct (st_phase s) eqn:Ep; [exact HI|exact HI|].
    assert (Ha : gc_active s = true) by (unfold gc_active; rewrite Ep; reflexivity).
    destruct (mark (st_store s) (st_marked s ++ st_keeper s)) as [m|] eqn:Em; [|exact HI].
    destruct (Hg Ha) as [H1 H2].
    pose proof (mark_contains_start _ _ _ Em) as Hi.
    unfold Inv, gc_active. cbn [st_store st_root st_phase st_keeper st_marked st_novel].
    split; [eapply swap_preserves; [exact Hc | exact Em]|].
    split.
    + rewrite present_sweep, Hr. cbn [andb]. apply memb_In. apply Hi. exact H1.
    + split.
      * intros x Hx. rewrite present_sweep, (Hn x Hx). cbn [andb]. apply memb_In. apply Hi. apply H2. exact Hx.
      * intros Hf. discriminate Hf.
Qed.

Lemma run_preserves : forall es s, Inv s -> Inv (run s es).
Proof.
  induction es as [|e es IH]; intros s H; [exact H|].
  unfold run. cbn [fold_left]. apply IH. apply step_preserves. exact H.
Qed.

Lemma Inv_root_complete : forall s, Inv s -> root_complete s.
Proof.
  intros s [Hc [Hr _]] x Hx. induction Hx as [x Hx | x y Hx IH Hy].
  - destruct Hx as [Hx|[]]. subst. exact Hr.
  - apply (Hc x y IH Hy).
Qed.

Lemma Inv_init : forall g root, closed g -> present g root = true -> Inv (init_state g root).
Proof.
  intros g root Hc Hr. unfold Inv, init_state, gc_active. cbn.
  split; [exact Hc|]. split; [exact Hr|]. split; [intros h []|]. intros H. discriminate H.
Qed.

(* headline: for every interleaving of session writes/reads/commits with the phases of any number of
   collections, everything reachable from the current store root is present *)
Theorem gc_safe_concurrent : forall g root es,
  closed g -> present g root = true -> root_complete (run (init_state g root) es).
Proof.
  intros g root es Hc Hr. apply Inv_root_complete. apply run_preserves. apply Inv_init; assumption.
Qed.

(* and everything written or read by a session since the last collection began is still present
   (so it can be committed afterwards) *)
Theorem novel_survives : forall g root es h,
  closed g -> present g root = true ->
  In h (st_novel (run (init_state g root) es)) -> present (st_store (run (init_state g root) es)) h = true.
Proof.
  intros g root es h Hc Hr Hin.
  destruct (run_preserves es (init_state g root) (Inv_init g root Hc Hr)) as [_ [_ [Hn _]]].
  apply Hn. exact Hin.
Qed.

(* a put during an active, not yet finalizing collection is recorded as novel *)
Lemma put_is_novel : forall s h rs,
  gc_active s = true -> blocked s = false -> forallb (present (st_store s)) rs = true ->
  In h (st_novel (step s (SPut h rs))).
Proof.
  intros s h rs Ha Hb Hrs. cbn [step]. rewrite Hb, Hrs. cbn [st_novel]. unfold note_novel. rewrite Ha. left. reflexivity.
Qed.

(* non-vacuity: a concrete history in which the collection drops garbage, keeps a chunk written while
   marking, and the later commit of that chunk is complete *)
Example concurrent_example :
  let g := [(1, [2]); (2, []); (9, [])] in
  let s := run (init_state g 1) [GBegin; GMark; SPut 5 [2]; SPut 6 [5]; GFinalize; SPut 7 []; GSwap; SCommit 6] in
  (st_root s, map fst (st_store s), st_phase s) = (6, [6; 5; 1; 2], Idle).
Proof. vm_compute. reflexivity. Qed.

(* the marked set is closed under the references of the graph it was computed on *)
Lemma mark_closed_refs : forall g start R,
  mark g start = Some R -> forall x y, In x R -> In y (refs g x) -> In y R.
Proof.
  intros g start R H. unfold mark in H. apply mark_loop_closed in H; [|intros ? ? []].
  exact (proj2 H).
Qed.

(* ---- the old-generation filter ---- *)
Lemma memb_app : forall a b x, memb x (a ++ b) = memb x a || memb x b.
Proof. intros a b x. unfold memb. apply existsb_app. Qed.

Lemma refs_gprune : forall g stop x, refs (gprune g stop) x = filter (gabsent stop) (refs g x).
Proof.
  induction g as [|[k rs] g' IH]; intros stop x; [reflexivity|].
  unfold gprune in *. cbn [map fst snd refs]. destruct (k =? x); [reflexivity | apply IH].
Qed.

(* a walk that stops at the members of a closed set still reaches everything *)
Theorem mark_pruned_complete : forall g stop start R,
  gclosed g stop -> mark_pruned g stop start = Some R ->
  forall x, reach g start x -> memb x (R ++ stop) = true.
Proof.
  intros g stop start R Hc Hn x Hr. unfold mark_pruned in Hn.
  induction Hr as [x Hx | x y Hr IH Hy]; rewrite memb_app in *.
  - destruct (memb x stop) eqn:E; [apply orb_true_r|]. apply orb_true_iff. left. apply memb_In.
    apply (mark_contains_start _ _ _ Hn). apply filter_In. split; [exact Hx|]. unfold gabsent. rewrite E. reflexivity.
  - destruct (memb y stop) eqn:Ey; [apply orb_true_r|]. apply orb_true_iff. left.
    apply orb_true_iff in IH. destruct IH as [IH|IH].
    + apply memb_In. apply memb_In in IH. apply (mark_closed_refs _ _ _ Hn x y IH).
      rewrite refs_gprune. apply filter_In. split; [exact Hy|]. unfold gabsent. rewrite Ey. reflexivity.
    + rewrite (Hc x y IH Hy) in Ey. discriminate Ey.
Qed.

(* and the set it was stopped at, extended by what was marked, is closed again *)
Theorem mark_pruned_closed : forall g stop start R,
  gclosed g stop -> mark_pruned g stop start = Some R -> gclosed g (R ++ stop).
Proof.
  intros g stop start R Hc Hn x y Hx Hy. unfold mark_pruned in Hn. rewrite memb_app in *.
  destruct (memb y stop) eqn:Ey; [apply orb_true_r|]. apply orb_true_iff. left.
  apply orb_true_iff in Hx. destruct Hx as [Hx|Hx].
  - apply memb_In. apply memb_In in Hx. apply (mark_closed_refs _ _ _ Hn x y Hx).
    rewrite refs_gprune. apply filter_In. split; [exact Hy|]. unfold gabsent. rewrite Ey. reflexivity.
  - rewrite (Hc x y Hx Hy) in Ey. discriminate Ey.
Qed.

Lemma reach_app_roots : forall g r1 r2 x, reach g (r1 ++ r2) x -> reach g r1 x \/ reach g r2 x.
Proof.
  intros g r1 r2 x H. induction H as [x Hx | x y Hr IH Hy].
  - apply in_app_or in Hx. destruct Hx as [Hx|Hx]; [left | right]; apply reach_start; exact Hx.
  - destruct IH as [IH|IH]; [left | right]; apply reach_step with (x := x); assumption.
Qed.

(* the generational (default) collection keeps everything reachable from either root class, provided the old
   generation was closed; and it hands a closed old generation to the next collection *)
Theorem gc_generational_safe : forall g old old_roots new_roots old' new',
  gclosed g old ->
  gc_generational g old old_roots new_roots = Some (old', new') ->
  (forall x, reach g (old_roots ++ new_roots) x -> memb x (new' ++ old') = true)
  /\ gclosed g old'.
Proof.
  intros g old old_roots new_roots old' new' Hc H. unfold gc_generational in H.
  destruct (mark_pruned g old old_roots) as [a|] eqn:Ea; [|discriminate H].
  destruct (mark_pruned g (a ++ old) new_roots) as [b|] eqn:Eb; [|discriminate H].
  injection H as <- <-.
  pose proof (mark_pruned_closed g old old_roots a Hc Ea) as Hc'.
  split; [|exact Hc'].
  intros x Hr. apply reach_app_roots in Hr. destruct Hr as [Hr|Hr].
  - rewrite memb_app. rewrite (mark_pruned_complete g old old_roots a Hc Ea x Hr). apply orb_true_r.
  - exact (mark_pruned_complete g (a ++ old) new_roots b Hc' Eb x Hr).
Qed.

Lemma gc_generational_total : forall g old old_roots new_roots, exists r, gc_generational g old old_roots new_roots = Some r.
Proof.
  intros g old o n. unfold gc_generational, mark_pruned.
  destruct (fuel_enough (gprune g old) (filter (gabsent old) o)) as [a Ha]. rewrite Ha.
  destruct (fuel_enough (gprune g (a ++ old)) (filter (gabsent (a ++ old)) n)) as [b Hb]. rewrite Hb.
  eexists. reflexivity.
Qed.

(* the filter is unsound for an old generation that is not closed: that hypothesis is what it rests on *)
Example oldgen_filter_needs_closed :
  let g := [(1, [2]); (2, [])] in
  gc_generational g [1] [1] [] = Some ([1], []) /\ reach g ([1] ++ []) 2 /\ memb 2 ([] ++ [1]) = false.
Proof.
  split; [vm_compute; reflexivity|]. split; [|reflexivity].
  apply reach_step with (x := 1); [apply reach_start; left; reflexivity | left; reflexivity].
Qed.

(* ---- the oracle holds of the model's own observation ---- *)
From Dolt Require Import C08.Corr.

Lemma sweep_all : forall g m, (forall p, In p g -> memb (fst p) m = true) -> sweep g m = g.
Proof.
  induction g as [|p g' IH]; intros m H; [reflexivity|].
  unfold sweep in *. cbn [filter]. rewrite (H p (or_introl eq_refl)). f_equal. apply IH.
  intros q Hq. apply H. right. exact Hq.
Qed.

Lemma lookup_unique : forall g p, NoDup (map fst g) -> In p g -> lookup g (fst p) = Some (snd p).
Proof.
  induction g as [|q g' IH]; intros p Hnd Hin; [destruct Hin|].
  cbn [map] in Hnd. inversion Hnd as [|? ? Hni Hnd']; subst.
  destruct Hin as [Hin|Hin].
  - subst q. unfold lookup. cbn [find]. rewrite N.eqb_refl. reflexivity.
  - specialize (IH p Hnd' Hin). unfold lookup in *. cbn [find].
    match goal with |- context [if ?c then _ else _] => destruct c eqn:E end.
    + apply N.eqb_eq in E. exfalso. apply Hni.
      exact (eq_ind_r (fun z => In z (map fst g')) (in_map fst g' p Hin) E).
    + exact IH.
Qed.

Lemma inclb_refl : forall l, inclb l l = true.
Proof.
  intros l. unfold inclb. rewrite forallb_forall. intros x Hx. apply memb_In. exact Hx.
Qed.

Theorem oracle_on_model : forall g root,
  NoDup (map fst g) ->
  (forall p r, In p g -> In r (snd p) -> present g r = true) ->      (* the exported graph has no dangling reference *)
  (forall p, In p g -> reach g [root] (fst p)) ->                    (* and holds exactly what is reachable from the root *)
  oracle (g, root) (model_obs (g, root)) = true.
Proof.
  intros g root Hnd Hcl Hall. unfold oracle, model_obs, gc_once.
  destruct (fuel_enough g [root]) as [m Hm]. rewrite Hm.
  assert (Hs : sweep g m = g).
  { apply sweep_all. intros p Hp. apply memb_In. apply (mark_complete g [root] m Hm). apply Hall. exact Hp. }
  rewrite Hs. cbn [o_kept o_fp_equal o_post_closed o_acked o_cont_ok]. rewrite !andb_true_r.
  apply andb_true_intro. split; [apply andb_true_intro; split|].
  - rewrite forallb_forall. intros p Hp. apply present_In. exists (snd p). destruct p. exact Hp.
  - rewrite forallb_forall. intros p Hp. rewrite (lookup_unique g p Hnd Hp). rewrite inclb_refl. reflexivity.
  - rewrite forallb_forall. intros p Hp. rewrite forallb_forall. intros r Hr. exact (Hcl p r Hp Hr).
Qed.
