(* C08 — correspondence.  Input: the chunk graph reachable from the store root before the collection, as
   reported by the REAL walker (addresses numbered), and the root.  Observation: what held of the
   implementation after `call dolt_gc(...)`. *)
From Coq Require Import NArith List Bool.
From Dolt Require Import C08.Model C08.Spec.
Import ListNotations.
Local Open Scope N_scope.

Record obs := { o_kept : bool;         (* every chunk reachable before is present after *)
                o_fp_equal : bool;     (* every read-back query over refs / working sets / stashes is unchanged *)
                o_post_closed : bool;  (* nothing reachable after the collection is missing *)
                o_acked : bool;        (* commits acknowledged to a concurrent session are readable *)
                o_cont_ok : bool }.    (* an in-progress operation can be continued after the collection *)

Definition input := (graph * addr)%type.
Definition case := (input * obs)%type.

Definition model_obs (i : input) : obs :=
  let '(g, root) := i in
  match gc_once g [root] with
  | Some g' =>
      {| o_kept := forallb (fun p => present g' (fst p)) g;
         o_fp_equal := forallb (fun p => match lookup g' (fst p) with Some rs => inclb rs (snd p) && inclb (snd p) rs | None => false end) g;
         o_post_closed := forallb (fun p => forallb (present g') (snd p)) g';
         o_acked := true; o_cont_ok := true |}
  | None => {| o_kept := false; o_fp_equal := false; o_post_closed := false; o_acked := false; o_cont_ok := false |}
  end.

Definition obs_eqb (a b : obs) : bool :=
  Bool.eqb (o_kept a) (o_kept b) && Bool.eqb (o_fp_equal a) (o_fp_equal b)
  && Bool.eqb (o_post_closed a) (o_post_closed b) && Bool.eqb (o_acked a) (o_acked b) && Bool.eqb (o_cont_ok a) (o_cont_ok b).

(* the property on the implementation's observation *)
Definition oracle (i : input) (o : obs) : bool :=
  o_kept o && o_fp_equal o && o_post_closed o && o_acked o && o_cont_ok o.

Definition check_case (c : case) : N :=
  (if obs_eqb (model_obs (fst c)) (snd c) then 0 else 1)
  + (if oracle (fst c) (snd c) then 0 else 2).
