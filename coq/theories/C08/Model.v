(* C08 — garbage collection.  Executable model of
     go/libraries/doltcore/doltdb/doltdb.go     DoltDB.GC: every dataset head is a root (the store root chunk
                                                holds the datasets map; C09's walker gives its references)
     go/store/types/value_store.go              ValueStore.GC / gc: BeginGC(keeper) .. SaveHashes(roots) ..
                                                readAndResetNewGenToVisit .. finalize (writes blocked) ..
                                                SaveHashes(final) .. Finalize/SwapChunksInStore .. EndGC
     go/store/nbs/store.go                      markAndSweeper.SaveHashes (level by level until no new hash),
                                                keeperFunc on Put / reads / Commit (gcAddChunk; blocks while finalizing),
                                                refCheck on Put (no dangling reference can be written)
   A store is a list of (address, references) pairs: the references are what SerialMessage.WalkAddrs
   reports for the chunk (C09).  No proofs here. *)
From Coq Require Import NArith List Bool.
Import ListNotations.
Local Open Scope N_scope.

Definition addr := N.
Definition graph := list (addr * list addr).

Definition memb (x : addr) (l : list addr) : bool := existsb (N.eqb x) l.

Fixpoint refs (g : graph) (h : addr) : list addr :=
  match g with
  | [] => []
  | (k, rs) :: g' => if k =? h then rs else refs g' h
  end.

Definition present (g : graph) (h : addr) : bool := existsb (fun p => fst p =? h) g.

(* add to [acc] the elements of [xs] that are neither in [seen] nor already in [acc] *)
Fixpoint add_new (seen acc xs : list addr) : list addr :=
  match xs with
  | [] => acc
  | x :: t => if memb x seen || memb x acc then add_new seen acc t else add_new seen (x :: acc) t
  end.

Definition next_frontier (g : graph) (seen frontier : list addr) : list addr :=
  add_new seen [] (flat_map (refs g) frontier).

(* SaveHashes: visit the frontier, collect the references of the visited chunks that were not seen,
   repeat until the frontier is empty.  Fuel = an upper bound on the number of rounds; None = out of fuel
   (excluded by fuel_enough). *)
Fixpoint mark_loop (fuel : nat) (g : graph) (seen frontier : list addr) : option (list addr) :=
  match frontier with
  | [] => Some seen
  | _ :: _ =>
    match fuel with
    | O => None
    | S f => let seen' := frontier ++ seen in
             mark_loop f g seen' (next_frontier g seen' frontier)
    end
  end.

(* every address that can ever be visited: the start set, the chunks, their references *)
Definition universe (g : graph) (start : list addr) : list addr :=
  start ++ flat_map (fun p => fst p :: snd p) g.

Definition mark (g : graph) (start : list addr) : option (list addr) :=
  mark_loop (S (length (universe g start))) g [] (add_new [] [] start).

(* the sweep copies the marked chunks into new table files and drops the rest *)
Definition sweep (g : graph) (marked : list addr) : graph :=
  filter (fun p => memb (fst p) marked) g.

Definition gc_once (g : graph) (roots : list addr) : option graph :=
  match mark g roots with Some m => Some (sweep g m) | None => None end.

(* ---- generations (go/store/types/value_store.go GC, GCMode_Default; nbs GenerationalNBS.OldGenGCFilter) ----
   The store is an old generation plus a new generation.  A default collection
     1. marks from the old-generation roots (branch, remote-tracking and internal refs) with the filter
        "already in the old generation": such a chunk is neither visited nor expanded; what is marked is copied
        into the old generation (AddChunksToStore);
     2. marks from all other roots (working sets, tags, stashes, the store root, what the keeper collected) with the
        filter "in the (extended) old generation"; what is marked becomes the new generation (SwapChunksInStore).
   GCMode_Full is the same with an empty filter in step 1. *)
Definition gabsent (s : list addr) (h : addr) : bool := negb (memb h s).
Definition gprune (g : graph) (stop : list addr) : graph :=
  map (fun p => (fst p, filter (gabsent stop) (snd p))) g.
Definition mark_pruned (g : graph) (stop start : list addr) : option (list addr) :=
  mark (gprune g stop) (filter (gabsent stop) start).

Definition gc_generational (g : graph) (old : list addr) (old_roots new_roots : list addr)
  : option (list addr * list addr) :=
  match mark_pruned g old old_roots with
  | Some a =>
      let old' := a ++ old in
      match mark_pruned g old' new_roots with
      | Some b => Some (old', b)
      | None => None
      end
  | None => None
  end.

(* ---- the collection running concurrently with sessions ---- *)
Inductive phase := Idle | Marking | Finalizing.

Record state := {
  st_store : graph;
  st_root : addr;                (* the store root (manifest root hash): datasets map chunk *)
  st_phase : phase;
  st_keeper : list addr;         (* gcNewAddrs: addresses reported through the keeper, not yet visited *)
  st_marked : list addr;         (* visited so far *)
  st_novel : list addr           (* ghost: chunks written or read by sessions since the collection began *)
}.

Inductive event :=
| SPut (h : addr) (rs : list addr)   (* a session writes a chunk *)
| SRead (h : addr)                   (* a session reads a chunk (takes a GC dependency on it) *)
| SCommit (r : addr)                 (* a session moves the store root (commit, branch create/delete, ...) *)
| GBegin                             (* BeginGC + safepoint controller BeginGC: keeper installed, roots snapshot *)
| GMark                              (* one SaveHashes call on everything pending (roots, keeper) *)
| GFinalize                          (* transitionToFinalizingGC: writers now block *)
| GSwap.                             (* final SaveHashes, Finalize, SwapChunksInStore, EndGC *)

Definition gc_active (s : state) : bool := match st_phase s with Idle => false | _ => true end.
Definition blocked (s : state) : bool := match st_phase s with Finalizing => true | _ => false end.

Definition keep (s : state) (h : addr) : list addr := if gc_active s then h :: st_keeper s else st_keeper s.
Definition note_novel (s : state) (h : addr) : list addr := if gc_active s then h :: st_novel s else st_novel s.

Definition step (s : state) (e : event) : state :=
  match e with
  | SPut h rs =>
      (* refCheck: all references must be present; keeperFunc: blocked while finalizing *)
      if blocked s then s
      else if forallb (present (st_store s)) rs then
        {| st_store := if present (st_store s) h then st_store s else (h, rs) :: st_store s;
           st_root := st_root s; st_phase := st_phase s;
           st_keeper := keep s h; st_marked := st_marked s; st_novel := note_novel s h |}
      else s
  | SRead h =>
      if blocked s then s
      else if present (st_store s) h then
        {| st_store := st_store s; st_root := st_root s; st_phase := st_phase s;
           st_keeper := keep s h; st_marked := st_marked s; st_novel := note_novel s h |}
      else s
  | SCommit r =>
      (* nbs.commit: keeperFunc(current) (blocks while finalizing); the root chunk must be present *)
      if blocked s then s
      else if present (st_store s) r then
        {| st_store := st_store s; st_root := r; st_phase := st_phase s;
           st_keeper := keep s r; st_marked := st_marked s; st_novel := st_novel s |}
      else s
  | GBegin =>
      match st_phase s with
      | Idle => {| st_store := st_store s; st_root := st_root s; st_phase := Marking;
                   st_keeper := [st_root s]; st_marked := []; st_novel := [] |}
      | _ => s
      end
  | GMark =>
      if gc_active s then
        match mark (st_store s) (st_marked s ++ st_keeper s) with
        | Some m => {| st_store := st_store s; st_root := st_root s; st_phase := st_phase s;
                       st_keeper := []; st_marked := m; st_novel := st_novel s |}
        | None => s
        end
      else s
  | GFinalize =>
      match st_phase s with
      | Marking => {| st_store := st_store s; st_root := st_root s; st_phase := Finalizing;
                      st_keeper := st_keeper s; st_marked := st_marked s; st_novel := st_novel s |}
      | _ => s
      end
  | GSwap =>
      match st_phase s with
      | Finalizing =>
        match mark (st_store s) (st_marked s ++ st_keeper s) with
        | Some m => {| st_store := sweep (st_store s) m; st_root := st_root s; st_phase := Idle;
                       st_keeper := []; st_marked := []; st_novel := st_novel s |}
        | None => s
        end
      | _ => s
      end
  end.

Definition run (s : state) (es : list event) : state := fold_left step es s.

Definition init_state (g : graph) (root : addr) : state :=
  {| st_store := g; st_root := root; st_phase := Idle; st_keeper := []; st_marked := []; st_novel := [] |}.
