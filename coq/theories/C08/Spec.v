(* C08 — the property, independent of the marking algorithm. *)
From Coq Require Import NArith List Bool.
From Dolt Require Import C08.Model.
Import ListNotations.
Local Open Scope N_scope.

(* reachability through the references the walker reports *)
Inductive reach (g : graph) (start : list addr) : addr -> Prop :=
| reach_start : forall x, In x start -> reach g start x
| reach_step : forall x y, reach g start x -> In y (refs g x) -> reach g start y.

(* a store without dangling references (C07) *)
Definition closed (g : graph) : Prop :=
  forall x y, present g x = true -> In y (refs g x) -> present g y = true.

(* a generation (set of addresses) closed under references *)
Definition gclosed (g : graph) (s : list addr) : Prop :=
  forall x y, memb x s = true -> In y (refs g x) -> memb y s = true.

Definition lookup (g : graph) (h : addr) : option (list addr) :=
  match find (fun p => fst p =? h) g with Some p => Some (snd p) | None => None end.

(* what a collection must preserve: everything reachable from the roots is still there, unchanged *)
Definition retains (before after : graph) (roots : list addr) : Prop :=
  forall x, reach before roots x -> present before x = true ->
            present after x = true /\ lookup after x = lookup before x.

(* every chunk reachable from the store root is present *)
Definition root_complete (s : state) : Prop :=
  forall x, reach (st_store s) [st_root s] x -> present (st_store s) x = true.

(* boolean form used on observations: sets of reachable addresses before/after *)
Definition inclb (a b : list addr) : bool := forallb (fun x => memb x b) a.
