(* Graph/CommitDag — commit histories as lists (definitions only; lemmas are in
   Graph/CommitDagFacts.v).

   A history is the list of the parent lists of the commits in creation order.
   The id of a commit is its position.  A history is well formed when every
   parent of commit c is an earlier position: the real code can only name a
   parent by the address of a commit that has already been written, so the
   graph is a DAG by construction.  Duplicate parents and any arity are allowed.

   ids and heights are [nat]: they are positions in / lengths of lists of the
   history itself (never data-sized numerals).  Corr files convert from N. *)
From Coq Require Import List Arith Bool.
Import ListNotations.

Definition hist := list (list nat).

Definition parents (h : hist) (c : nat) : list nat := nth c h [].

Definition wf_hist (h : hist) : Prop := forall c p, In p (parents h c) -> p < c.

Definition wf_histb (h : hist) : bool :=
  forallb (fun cp => forallb (fun p => p <? fst cp) (snd cp)) (combine (seq 0 (length h)) h).

(* [anc h a c]: a is a proper ancestor of c *)
Inductive anc (h : hist) : nat -> nat -> Prop :=
| anc_parent a c : In a (parents h c) -> anc h a c
| anc_step a p c : In p (parents h c) -> anc h a p -> anc h a c.

(* ancestor-or-self *)
Definition ancs (h : hist) (a c : nat) : Prop := a = c \/ anc h a c.

(* [chain h c n]: there is a path c = c1 -> c2 -> ... -> cn along parent edges
   with n commits on it.  The longest such path ends in a root. *)
Inductive chain (h : hist) : nat -> nat -> Prop :=
| chain_one c : chain h c 1
| chain_cons c p n : In p (parents h c) -> chain h p n -> chain h c (S n).

(* ---- incremental tables: one entry per commit, computed when the commit is
        appended from the entries already present (an append-only store) ---- *)
Section Build.
  Context {A : Type}.
  Variable f : list A -> list nat -> A.
  Definition build_step (s : list A) (ps : list nat) : list A := s ++ [f s ps].
  Definition build (h : hist) : list A := fold_left build_step h [].
End Build.

(* ---- small list utilities on nat ---- *)
Definition memb (x : nat) (l : list nat) : bool := existsb (Nat.eqb x) l.

Fixpoint dedup (l : list nat) : list nat :=
  match l with
  | [] => []
  | x :: r => if memb x r then dedup r else x :: dedup r
  end.

Definition max_of (l : list nat) : nat := fold_left Nat.max l 0.

(* ---- proper ancestors as a computable set: ancestors of c = its parents and
        their ancestors (declarative recursion over the history; used as the
        brute-force oracle) ---- *)
Definition anc_entry (tbl : list (list nat)) (ps : list nat) : list nat :=
  match ps with
  | [p] => p :: nth p tbl []            (* no duplicates possible: p is not its own ancestor *)
  | _ => dedup (flat_map (fun p => p :: nth p tbl []) ps)
  end.

Definition anc_table (h : hist) : list (list nat) := build anc_entry h.

Definition ancestors (h : hist) (c : nat) : list nat := nth c (anc_table h) [].

Definition is_anc (h : hist) (a c : nat) : bool := memb a (ancestors h c).
Definition is_ancs (h : hist) (a c : nat) : bool := (a =? c) || is_anc h a c.
