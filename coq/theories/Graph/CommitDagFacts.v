(* Graph/CommitDagFacts — lemmas about Graph/CommitDag. *)
From Coq Require Import List Arith Bool Lia.
From Dolt Require Import Graph.CommitDag.
Import ListNotations.

(* ---- memb / dedup / max_of ---- *)
Lemma memb_In x l : memb x l = true <-> In x l.
Proof.
  unfold memb. rewrite existsb_exists. split.
  - intros [y [Hy He]]. apply Nat.eqb_eq in He. subst. exact Hy.
  - intros Hx. exists x. split; [exact Hx | apply Nat.eqb_refl].
Qed.

Lemma memb_false x l : memb x l = false <-> ~ In x l.
Proof. rewrite <- memb_In. destruct (memb x l); split; intros H; congruence. Qed.

Lemma dedup_In x l : In x (dedup l) <-> In x l.
Proof.
  induction l as [|y r IH]; cbn [dedup]; [tauto|].
  destruct (memb y r) eqn:E.
  - rewrite IH. cbn [In]. apply memb_In in E. split; [tauto|]. intros [->|H]; tauto.
  - cbn [In]. rewrite IH. tauto.
Qed.

Lemma dedup_NoDup l : NoDup (dedup l).
Proof.
  induction l as [|y r IH]; cbn [dedup]; [constructor|].
  destruct (memb y r) eqn:E; [exact IH|].
  constructor; [|exact IH]. rewrite dedup_In. apply memb_false. exact E.
Qed.

Lemma fold_max_acc l a : fold_left Nat.max l a = Nat.max a (fold_left Nat.max l 0).
Proof.
  revert a. induction l as [|x r IH]; intros a; cbn [fold_left].
  - lia.
  - rewrite (IH (Nat.max a x)), (IH (Nat.max 0 x)). lia.
Qed.

Lemma max_of_nil : max_of [] = 0.
Proof. reflexivity. Qed.

Lemma max_of_cons x l : max_of (x :: l) = Nat.max x (max_of l).
Proof. unfold max_of. cbn [fold_left]. rewrite fold_max_acc. lia. Qed.

Lemma max_of_ge x l : In x l -> x <= max_of l.
Proof.
  induction l as [|y r IH]; [intros []|].
  rewrite max_of_cons. intros [->|H]; [lia|]. specialize (IH H). lia.
Qed.

Lemma max_of_in l : l <> [] -> In (max_of l) l.
Proof.
  induction l as [|y r IH]; [congruence|]. intros _.
  rewrite max_of_cons. destruct r as [|z r'].
  - rewrite max_of_nil. left. lia.
  - assert (H : In (max_of (z :: r')) (z :: r')) by (apply IH; congruence).
    destruct (Nat.max_spec y (max_of (z :: r'))) as [[_ ->]|[_ ->]]; [right; exact H | left; reflexivity].
Qed.

Lemma max_of_le l n : (forall x, In x l -> x <= n) -> max_of l <= n.
Proof.
  induction l as [|y r IH]; intros H; [rewrite max_of_nil; lia|].
  rewrite max_of_cons. assert (y <= n) by (apply H; left; reflexivity).
  assert (max_of r <= n) by (apply IH; intros x Hx; apply H; right; exact Hx). lia.
Qed.

Lemma max_of_app l1 l2 : max_of (l1 ++ l2) = Nat.max (max_of l1) (max_of l2).
Proof.
  induction l1 as [|x r IH]; cbn [app]; [rewrite max_of_nil; lia|].
  rewrite !max_of_cons, IH. lia.
Qed.

(* ---- incremental tables ---- *)
Section BuildFacts.
  Context {A : Type}.
  Variable f : list A -> list nat -> A.
  Variable d : A.

  Lemma build_snoc h ps : build f (h ++ [ps]) = build f h ++ [f (build f h) ps].
  Proof. unfold build. rewrite fold_left_app. reflexivity. Qed.

  Lemma fold_step_prefix e s : exists t, fold_left (build_step f) e s = s ++ t.
  Proof.
    revert s. induction e as [|ps e IH]; intros s; cbn [fold_left].
    - exists []. rewrite app_nil_r. reflexivity.
    - destruct (IH (build_step f s ps)) as [t Ht]. rewrite Ht. unfold build_step.
      exists ([f s ps] ++ t). rewrite app_assoc. reflexivity.
  Qed.

  Lemma fold_step_length e s : length (fold_left (build_step f) e s) = length s + length e.
  Proof.
    revert s. induction e as [|ps e IH]; intros s; cbn [fold_left length]; [lia|].
    rewrite IH. unfold build_step. rewrite app_length. cbn [length]. lia.
  Qed.

  Lemma build_length h : length (build f h) = length h.
  Proof. unfold build. rewrite fold_step_length. reflexivity. Qed.

  (* entries are never rewritten when the history grows *)
  Lemma build_app h e : exists t, build f (h ++ e) = build f h ++ t.
  Proof. unfold build. rewrite fold_left_app. apply fold_step_prefix. Qed.

  Lemma build_prefix_stable h e c :
    c < length h -> nth_error (build f (h ++ e)) c = nth_error (build f h) c.
  Proof.
    intros Hc. destruct (build_app h e) as [t ->].
    apply nth_error_app1. rewrite build_length. exact Hc.
  Qed.

  Lemma build_prefix_nth h e c :
    c < length h -> nth c (build f (h ++ e)) d = nth c (build f h) d.
  Proof.
    intros Hc. destruct (build_app h e) as [t ->].
    apply app_nth1. rewrite build_length. exact Hc.
  Qed.

  Lemma build_nth h c :
    c < length h -> nth c (build f h) d = f (build f (firstn c h)) (parents h c).
  Proof.
    intros Hc. unfold parents.
    assert (Hsplit : h = firstn c h ++ [nth c h []] ++ skipn (S c) h).
    { rewrite <- (firstn_skipn c h) at 1. f_equal.
      clear -Hc. revert c Hc. induction h as [|x r IH]; intros c Hc; [cbn in Hc; lia|].
      destruct c as [|c]; [reflexivity|]. cbn [skipn nth]. cbn [length] in Hc.
      rewrite (IH c) at 1 by lia. reflexivity. }
    rewrite Hsplit at 1. rewrite app_assoc.
    destruct (build_app (firstn c h ++ [nth c h []]) (skipn (S c) h)) as [t ->].
    rewrite build_snoc.
    assert (Hl : length (build f (firstn c h)) = c).
    { rewrite build_length, firstn_length. lia. }
    rewrite <- app_assoc. rewrite app_nth2 by lia. rewrite Hl, Nat.sub_diag. reflexivity.
  Qed.

  (* the new entry only looks at the entries of the parents *)
  Hypothesis f_local : forall s s' ps,
    (forall p, In p ps -> nth p s d = nth p s' d) -> f s ps = f s' ps.

  Lemma build_unfold h c :
    wf_hist h -> c < length h -> nth c (build f h) d = f (build f h) (parents h c).
  Proof.
    intros Hwf Hc. rewrite build_nth by exact Hc. apply f_local.
    intros p Hp. specialize (Hwf c p Hp).
    rewrite <- (firstn_skipn c h) at 2.
    symmetry. apply build_prefix_nth. rewrite firstn_length. lia.
  Qed.
End BuildFacts.

Lemma parents_out h c : length h <= c -> parents h c = [].
Proof. intros H. unfold parents. apply nth_overflow. exact H. Qed.

Lemma wf_parent_in_range h c p : In p (parents h c) -> c < length h.
Proof.
  intros H. destruct (Nat.lt_ge_cases c (length h)) as [L|G]; [exact L|].
  rewrite parents_out in H by exact G. destruct H.
Qed.

Lemma parents_app h e c : c < length h -> parents (h ++ e) c = parents h c.
Proof. intros H. unfold parents. apply app_nth1. exact H. Qed.

Lemma wf_histb_spec h : wf_histb h = true <-> wf_hist h.
Proof.
  unfold wf_histb, wf_hist. rewrite forallb_forall. split.
  - intros H c p Hp.
    assert (Hc : c < length h) by (eapply wf_parent_in_range; exact Hp).
    specialize (H (c, parents h c)).
    assert (Hin : In (c, parents h c) (combine (seq 0 (length h)) h)).
    { unfold parents.
      assert (Hn : nth c (combine (seq 0 (length h)) h) (0, []) = (c, nth c h [])).
      { rewrite combine_nth by (rewrite seq_length; reflexivity). rewrite seq_nth by exact Hc. reflexivity. }
      rewrite <- Hn. apply nth_In. rewrite combine_length, seq_length. lia. }
    specialize (H Hin). cbn [fst snd] in H. rewrite forallb_forall in H.
    apply Nat.ltb_lt. apply H. exact Hp.
  - intros H [c ps] Hin. cbn [fst snd]. rewrite forallb_forall. intros p Hp. apply Nat.ltb_lt.
    apply (In_nth _ _ (0, [])) in Hin. destruct Hin as [n [Hn Hnth]].
    rewrite combine_length, seq_length, Nat.min_id in Hn.
    rewrite combine_nth in Hnth by (rewrite seq_length; reflexivity).
    rewrite seq_nth in Hnth by exact Hn. cbn [plus] in Hnth. inversion Hnth; subst.
    apply H. exact Hp.
Qed.

(* ---- ancestors ---- *)
Lemma anc_lt h a c : wf_hist h -> anc h a c -> a < c.
Proof.
  intros Hwf H. induction H as [a c Hp | a p c Hp _ IH].
  - apply Hwf. exact Hp.
  - specialize (Hwf c p Hp). lia.
Qed.

Lemma anc_inv h a c : anc h a c <-> exists p, In p (parents h c) /\ ancs h a p.
Proof.
  split.
  - intros H. inversion H as [a' c' Hp | a' p c' Hp Ha]; subst.
    + exists a. split; [exact Hp | left; reflexivity].
    + exists p. split; [exact Hp | right; exact Ha].
  - intros [p [Hp [->|Ha]]]; [apply anc_parent; exact Hp | eapply anc_step; eassumption].
Qed.

Lemma anc_trans h a b c : anc h a b -> anc h b c -> anc h a c.
Proof.
  intros Hab Hbc. induction Hbc as [b c Hp | b p c Hp _ IH].
  - eapply anc_step; eassumption.
  - eapply anc_step; [exact Hp | apply IH; exact Hab].
Qed.

Lemma ancs_refl h a : ancs h a a.
Proof. left. reflexivity. Qed.

Lemma ancs_trans h a b c : ancs h a b -> ancs h b c -> ancs h a c.
Proof.
  intros [->|Hab] [->|Hbc]; try (left; reflexivity); try (right; assumption).
  right. eapply anc_trans; eassumption.
Qed.

Lemma ancs_le h a c : wf_hist h -> ancs h a c -> a <= c.
Proof. intros Hwf [->|H]; [lia | apply anc_lt in H; [lia | exact Hwf]]. Qed.

Lemma ancs_antisym h a c : wf_hist h -> ancs h a c -> ancs h c a -> a = c.
Proof. intros Hwf H1 H2. apply ancs_le in H1, H2; try exact Hwf. lia. Qed.

Lemma anc_in_range h a c : anc h a c -> c < length h.
Proof. intros H. apply anc_inv in H. destruct H as [p [Hp _]]. eapply wf_parent_in_range; exact Hp. Qed.

Lemma anc_entry_local s s' ps :
  (forall p, In p ps -> nth p s [] = nth p s' []) -> anc_entry s ps = anc_entry s' ps.
Proof.
  intros H. unfold anc_entry.
  assert (E : flat_map (fun p => p :: nth p s []) ps = flat_map (fun p => p :: nth p s' []) ps).
  { induction ps as [|p r IH]; [reflexivity|]. cbn [flat_map].
    rewrite (H p) by (left; reflexivity). rewrite IH; [reflexivity|].
    intros q Hq. apply H. right. exact Hq. }
  destruct ps as [|p [|q r]]; [reflexivity | | rewrite E; reflexivity].
  rewrite (H p) by (left; reflexivity). reflexivity.
Qed.

Lemma anc_entry_In tbl ps a :
  In a (anc_entry tbl ps) <-> exists p, In p ps /\ (a = p \/ In a (nth p tbl [])).
Proof.
  unfold anc_entry.
  assert (G : In a (dedup (flat_map (fun p => p :: nth p tbl []) ps)) <->
              exists p, In p ps /\ (a = p \/ In a (nth p tbl []))).
  { rewrite dedup_In, in_flat_map. split; intros [p [Hp Ha]]; exists p; (split; [exact Hp|]); cbn [In] in *; intuition congruence. }
  destruct ps as [|p [|q r]]; [exact G | | exact G].
  cbn [In]. split.
  - intros [<-|Ha]; exists p; (split; [left; reflexivity|]); [left; reflexivity | right; exact Ha].
  - intros [p' [[<-|[]] [->|Ha]]]; [left; reflexivity | right; exact Ha].
Qed.

Lemma ancestors_unfold h c :
  wf_hist h -> c < length h -> ancestors h c = anc_entry (anc_table h) (parents h c).
Proof.
  intros Hwf Hc. unfold ancestors at 1, anc_table.
  rewrite (build_unfold anc_entry [] anc_entry_local h c Hwf Hc). reflexivity.
Qed.

Lemma ancestors_out h c : length h <= c -> ancestors h c = [].
Proof. intros H. unfold ancestors. apply nth_overflow. unfold anc_table. rewrite build_length. exact H. Qed.

Theorem ancestors_spec h : wf_hist h -> forall c a, In a (ancestors h c) <-> anc h a c.
Proof.
  intros Hwf c. induction c as [c IH] using lt_wf_ind. intros a.
  destruct (Nat.lt_ge_cases c (length h)) as [Hc|Hc].
  - rewrite ancestors_unfold by assumption. rewrite anc_entry_In, anc_inv.
    split.
    + intros [p [Hp Hin]]. exists p. split; [exact Hp|].
      destruct Hin as [->|Hin]; [left; reflexivity|]. right. apply (IH p (Hwf c p Hp)). exact Hin.
    + intros [p [Hp Ha]]. exists p. split; [exact Hp|].
      destruct Ha as [->|Ha]; [left; reflexivity|]. right. apply (IH p (Hwf c p Hp)). exact Ha.
  - rewrite ancestors_out by exact Hc. split; [intros []|].
    intros H. apply anc_in_range in H. lia.
Qed.

Lemma ancestors_NoDup h c : wf_hist h -> NoDup (ancestors h c).
Proof.
  intros Hwf. induction c as [c IH] using lt_wf_ind.
  destruct (Nat.lt_ge_cases c (length h)) as [Hc|Hc].
  - rewrite ancestors_unfold by assumption. unfold anc_entry.
    destruct (parents h c) as [|p [|q r]] eqn:Ep; try apply dedup_NoDup.
    assert (Hp : In p (parents h c)) by (rewrite Ep; left; reflexivity).
    constructor; [|apply (IH p (Hwf c p Hp))].
    change (nth p (anc_table h) []) with (ancestors h p). rewrite ancestors_spec by exact Hwf.
    intros X. apply anc_lt in X; [lia | exact Hwf].
  - rewrite ancestors_out by exact Hc. constructor.
Qed.

Lemma is_anc_spec h a c : wf_hist h -> is_anc h a c = true <-> anc h a c.
Proof. intros Hwf. unfold is_anc. rewrite memb_In. apply ancestors_spec. exact Hwf. Qed.

Lemma is_ancs_spec h a c : wf_hist h -> is_ancs h a c = true <-> ancs h a c.
Proof.
  intros Hwf. unfold is_ancs, ancs. rewrite orb_true_iff, Nat.eqb_eq, is_anc_spec by exact Hwf. tauto.
Qed.

(* history growth does not change the ancestors of an existing commit *)
Lemma anc_app h e a c : wf_hist (h ++ e) -> c < length h -> (anc (h ++ e) a c <-> anc h a c).
Proof.
  intros Hwf. revert a. induction c as [c IH] using lt_wf_ind. intros a Hc.
  rewrite !anc_inv. rewrite parents_app by exact Hc.
  split; intros [p [Hp Ha]]; exists p; (split; [exact Hp|]).
  - assert (Hpc : p < c) by (apply Hwf; rewrite parents_app by exact Hc; exact Hp).
    destruct Ha as [->|Ha]; [left; reflexivity|]. right. apply IH; [exact Hpc | lia | exact Ha].
  - assert (Hpc : p < c) by (apply Hwf; rewrite parents_app by exact Hc; exact Hp).
    destruct Ha as [->|Ha]; [left; reflexivity|]. right. apply IH; [exact Hpc | lia | exact Ha].
Qed.
