(* Byte strings as lists of N (each < 256 in well-formed inputs) and a few
   executable string predicates shared by the string-level models. *)
From Coq Require Import NArith List Bool Lia.
Import ListNotations.
Local Open Scope N_scope.

Definition bytes := list N.

Fixpoint beq_bytes (a b : bytes) : bool :=
  match a, b with
  | [], [] => true
  | x :: a', y :: b' => (x =? y) && beq_bytes a' b'
  | _, _ => false
  end.

Lemma beq_bytes_spec a b : beq_bytes a b = true <-> a = b.
Proof.
  revert b; induction a as [|x a IH]; intros [|y b]; simpl; split; intro H;
    try discriminate; try reflexivity.
  - apply andb_true_iff in H as [H1 H2]. apply N.eqb_eq in H1. apply IH in H2. congruence.
  - inversion H; subst. rewrite N.eqb_refl. simpl. apply IH. reflexivity.
Qed.

Lemma beq_bytes_refl a : beq_bytes a a = true.
Proof. apply beq_bytes_spec; reflexivity. Qed.

(* [is_prefix p s] : p is a prefix of s *)
Fixpoint is_prefix (p s : bytes) : bool :=
  match p, s with
  | [], _ => true
  | x :: p', y :: s' => (x =? y) && is_prefix p' s'
  | _ :: _, [] => false
  end.

Lemma is_prefix_spec p s : is_prefix p s = true <-> exists t, s = p ++ t.
Proof.
  revert s; induction p as [|x p IH]; intros s; simpl.
  - split; [intros _; exists s; reflexivity | reflexivity].
  - destruct s as [|y s].
    + split; [discriminate | intros [t Ht]; discriminate].
    + rewrite andb_true_iff, N.eqb_eq, IH. split.
      * intros [-> [t ->]]. exists t. reflexivity.
      * intros [t Ht]. inversion Ht; subst. split; [reflexivity | exists t; reflexivity].
Qed.

(* [has_infix p s] : p occurs somewhere in s *)
Fixpoint has_infix (p s : bytes) : bool :=
  is_prefix p s ||
  match s with
  | [] => false
  | _ :: s' => has_infix p s'
  end.

Lemma has_infix_spec p s : has_infix p s = true <-> exists a b, s = a ++ p ++ b.
Proof.
  induction s as [|y s IH].
  - simpl. rewrite orb_false_r, is_prefix_spec. split.
    + intros [t Ht]. exists [], t. exact Ht.
    + intros [a [b H]]. destruct a; [exists b; exact H | discriminate].
  - cbn [has_infix]. rewrite orb_true_iff, is_prefix_spec, IH. split.
    + intros [[t Ht] | [a [b H]]].
      * exists [], t. exact Ht.
      * exists (y :: a), b. rewrite H. reflexivity.
    + intros [a [b H]]. destruct a as [|z a].
      * left. exists b. exact H.
      * right. inversion H; subst. exists a, b. reflexivity.
Qed.

Definition is_suffix (p s : bytes) : bool := is_prefix (rev p) (rev s).

Lemma is_suffix_spec p s : is_suffix p s = true <-> exists t, s = t ++ p.
Proof.
  unfold is_suffix. rewrite is_prefix_spec. split.
  - intros [t Ht]. exists (rev t).
    rewrite <- (rev_involutive s), Ht, rev_app_distr, rev_involutive. reflexivity.
  - intros [t ->]. exists (rev t). rewrite rev_app_distr. reflexivity.
Qed.

(* split on a separator byte; always returns at least one component *)
Fixpoint split_on (sep : N) (s : bytes) : list bytes :=
  match s with
  | [] => [[]]
  | c :: s' =>
    if c =? sep then [] :: split_on sep s'
    else match split_on sep s' with
         | [] => [[c]]            (* unreachable *)
         | x :: xs => (c :: x) :: xs
         end
  end.

Lemma split_on_nonempty sep s : split_on sep s <> [].
Proof. destruct s as [|c s]; simpl; [discriminate|]. destruct (c =? sep); [discriminate|]. destruct (split_on sep s); discriminate. Qed.

(* ASCII helpers *)
Definition is_digit (b : N) : bool := (48 <=? b) && (b <=? 57).
Definition is_space (b : N) : bool :=
  (* unicode.IsSpace restricted to single bytes that strings.TrimSpace strips when
     they are ASCII: \t \n \v \f \r and space.  (0x85 and 0xA0 are only spaces as
     the code points U+0085/U+00A0, which are two-byte sequences in UTF-8.) *)
  (b =? 9) || (b =? 10) || (b =? 11) || (b =? 12) || (b =? 13) || (b =? 32).
