(* C09 — proofs. *)
From Coq Require Import NArith PeanoNat List Bool String Lia.
From Dolt Require Import Gen.SchemaAddrs C09.Model C09.Spec C09.Corr.
Import ListNotations.
Local Open Scope N_scope.

(* ---- boolean forms ---- *)
Lemma memb_In : forall x l, memb x l = true <-> In x l.
Proof.
  intros x l. unfold memb. rewrite existsb_exists. split.
  - intros [y [Hy He]]. apply N.eqb_eq in He. subst. exact Hy.
  - intros H. exists x. split; [exact H | apply N.eqb_refl].
Qed.

Lemma inclb_spec : forall a b, inclb a b = true <-> incl a b.
Proof.
  intros a b. unfold inclb, incl. rewrite forallb_forall.
  split; intros H x Hx; specialize (H x Hx); apply memb_In; exact H.
Qed.

Lemma coversb_spec : forall r d, coversb r d = true <-> covers r d.
Proof. intros r d. unfold coversb, covers. apply inclb_spec. Qed.

(* ---- readers of nodes follow exactly the addresses message.WalkAddresses reports ---- *)
Lemma node_loads_walk : forall fl n, f_art_base fl = true -> node_loads n = walk_node fl n.
Proof. intros fl n H. destruct n; cbn [node_loads walk_node]; rewrite ?H; reflexivity. Qed.

Lemma opt_node_loads_walk : forall fl o, f_art_base fl = true -> opt_node_loads o = walk_opt_node fl o.
Proof. intros fl o H. destruct o as [n|]; [apply node_loads_walk; exact H | reflexivity]. Qed.

(* nodes that can be embedded in another message (address maps, prolly nodes, vector nodes) and every node but
   the artifact leaf: loads = walk for every walker version *)
Lemma node_loads_walk_any : forall fl n, incl (node_loads n) (walk_node fl n ++ (match n with NArtifacts _ _ meta => if f_art_base fl then [] else meta | _ => [] end)).
Proof.
  intros fl n. destruct n; cbn [node_loads walk_node]; rewrite ?app_nil_r; try apply incl_refl.
  destruct (f_art_base fl); intros x Hx; repeat (rewrite ?in_app_iff in *; cbn [In] in * ); tauto.
Qed.

Ltac inc :=
  unfold incl; let x := fresh "x" in let Hx := fresh "Hx" in
  intros x Hx; repeat (rewrite ?in_app_iff in *; cbn [In] in * ); tauto.

Lemma complete_all : forall fl, complete fl = true ->
  f_rebase_pre fl = true /\ f_rebase_onto fl = true /\ f_merge_prehead fl = true /\ f_merge_pending fl = true
  /\ f_art_base fl = true.
Proof.
  intros fl H. unfold complete in H.
  apply andb_prop in H. destruct H as [H He].
  apply andb_prop in H. destruct H as [H Hd].
  apply andb_prop in H. destruct H as [H Hc].
  apply andb_prop in H. destruct H as [Ha Hb]. auto.
Qed.

(* ---- headline 1: with a complete walker, everything a loader dereferences is reported ---- *)
Theorem walk_covers_loads_complete :
  forall fl, complete fl = true -> forall m, incl (loads m) (walk_addrs fl m).
Proof.
  intros fl Hc m. destruct (complete_all fl Hc) as [Ha [Hb [Hcc [Hd He]]]].
  destruct m as [am|am|r|sr hc|c|w st ms rs|t fk|sch cf viol art sec prim|ps r cl|k|n]; cbn [loads walk_addrs].
  - rewrite (opt_node_loads_walk fl _ He). apply incl_refl.
  - rewrite (opt_node_loads_walk fl _ He). apply incl_refl.
  - apply incl_refl.
  - apply incl_refl.
  - apply incl_refl.
  - unfold walk_merge_state, walk_rebase_state, merge_state_loads, rebase_state_loads.
    rewrite Ha, Hb, Hcc, Hd. destruct ms as [s|]; destruct rs as [r|]; inc.
  - rewrite (node_loads_walk fl _ He). apply incl_refl.
  - rewrite !(node_loads_walk fl _ He). apply incl_refl.
  - apply incl_refl.
  - apply incl_refl.
  - rewrite (node_loads_walk fl _ He). apply incl_refl.
Qed.

(* ---- headline 2 (holds for every walker version): the only addresses that can be missing are the
   working-set fields switched off in the flags ---- *)
Lemma node_any : forall fl n x, In x (node_loads n) -> In x (walk_node fl n) \/ In x (node_omitted fl n).
Proof.
  intros fl n x H. destruct n; cbn [node_loads walk_node node_omitted] in *; try (left; exact H).
  destruct (f_art_base fl); repeat (rewrite ?in_app_iff in *; cbn [In] in * ); tauto.
Qed.

Lemma opt_node_any : forall fl o x, In x (opt_node_loads o) -> In x (walk_opt_node fl o) \/ In x (opt_node_omitted fl o).
Proof. intros fl o x H. destruct o as [n|]; [apply node_any; exact H | destruct H]. Qed.

Theorem walk_covers_loads_partial :
  forall fl m, incl (loads m) (walk_addrs fl m ++ omitted fl m).
Proof.
  intros fl m.
  destruct m as [am|am|r|sr hc|c|w st ms rs|t fk|sch cf viol art sec prim|ps r cl|k|n]; cbn [loads walk_addrs omitted];
    rewrite ?app_nil_r; try apply incl_refl.
  - intros x Hx. apply in_or_app. apply opt_node_any. exact Hx.
  - intros x Hx. apply in_or_app. apply opt_node_any. exact Hx.
  - unfold walk_merge_state, walk_rebase_state, merge_state_loads, rebase_state_loads.
    destruct fl as [a b c d e]; cbn [f_rebase_pre f_rebase_onto f_merge_prehead f_merge_pending].
    destruct ms as [s|]; destruct rs as [r|]; destruct a, b, c, d; inc.
  - intros x Hx. pose proof (node_any fl t x) as Ht.
    repeat (rewrite ?in_app_iff in *; cbn [In] in * ). tauto.
  - intros x Hx. pose proof (node_any fl sec x) as Hs. pose proof (node_any fl prim x) as Hp.
    repeat (rewrite ?in_app_iff in *; cbn [In] in * ). tauto.
  - intros x Hx. apply in_or_app. apply node_any. exact Hx.
Qed.

Corollary walk_covers_loads_when_nothing_omitted :
  forall fl m, omitted fl m = [] -> incl (loads m) (walk_addrs fl m).
Proof.
  intros fl m H. pose proof (walk_covers_loads_partial fl m) as P. rewrite H, app_nil_r in P. exact P.
Qed.

(* ---- headline 3: an incomplete walker violates the property; one witness serves all versions:
   a working set with merge state (pre-merge head, one pending hash) and rebase state, all distinct ---- *)
Definition refutation_witness : msg :=
  MWorkingSet 1 (Some 2)
    (Some {| ms_pre_working := 3; ms_from_commit := 4; ms_pre_head := Some 5; ms_pending := [6] |})
    (Some {| rs_pre_working := 7; rs_onto := 8 |}).

(* a conflict-artifact leaf whose value records a base root-ish *)
Definition artifact_witness : msg := MNode (NArtifacts [] [1] [2]).

Theorem walk_covers_loads_refuted :
  forall fl, complete fl = false -> exists m, ~ incl (loads m) (walk_addrs fl m).
Proof.
  intros fl H. destruct fl as [a b c d e]. destruct e.
  - exists refutation_witness. intro Hi. apply inclb_spec in Hi.
    destruct a, b, c, d; try discriminate H; vm_compute in Hi; discriminate Hi.
  - exists artifact_witness. intro Hi. apply inclb_spec in Hi. vm_compute in Hi. discriminate Hi.
Qed.

(* the smaller, per-field witnesses that the harness replays on the real code *)
Definition witness_rebase : msg := MWorkingSet 1 (Some 2) None (Some {| rs_pre_working := 3; rs_onto := 4 |}).
Definition witness_merge : msg :=
  MWorkingSet 1 (Some 2) (Some {| ms_pre_working := 3; ms_from_commit := 4; ms_pre_head := Some 5; ms_pending := [6] |}) None.

Lemma witness_rebase_missing :
  forall fl, f_rebase_pre fl = false -> f_rebase_onto fl = false ->
  ~ In 3 (walk_addrs fl witness_rebase) /\ ~ In 4 (walk_addrs fl witness_rebase)
  /\ In 3 (loads witness_rebase) /\ In 4 (loads witness_rebase).
Proof.
  intros fl Ha Hb. cbn [walk_addrs witness_rebase loads]. unfold walk_rebase_state, rebase_state_loads.
  rewrite Ha, Hb. cbn. repeat split; try tauto; intros [H|[H|H]]; try discriminate H; exact H.
Qed.

(* ---- what holds of the source as it is now, whichever way the flags come out ---- *)
Theorem walk_covers_loads_today :
  if complete source_flags
  then (forall m, incl (loads m) (walk_addrs source_flags m))
  else (exists m, ~ incl (loads m) (walk_addrs source_flags m)).
Proof.
  destruct (complete source_flags) eqn:E.
  - apply walk_covers_loads_complete; exact E.
  - apply walk_covers_loads_refuted; exact E.
Qed.

(* ---- the regenerated schema against the hand model ---- *)
Lemma schema_classified_ok : schema_classified = true.
Proof. vm_compute. reflexivity. Qed.

Lemma walker_cases_pinned_ok : walker_cases_pinned = true.
Proof. vm_compute. reflexivity. Qed.

Definition field_walked (hf : hfield) : Prop :=
  forall fl m, h_flag hf fl = true -> incl (h_proj hf m) (walk_addrs fl m).
Definition field_loaded (hf : hfield) : Prop := forall m, incl (h_proj hf m) (loads m).

Ltac field_tac :=
  let fl := fresh "fl" in let m := fresh "m" in let Hf := fresh "Hf" in
  intros fl m Hf; cbn [h_proj h_flag ms_of rs_of nodata] in *;
  destruct m as [am|am|r|sr hc|c|w st ms rs|t fk|sch cf viol art sec prim|ps r cl|k|n];
  try (apply incl_nil_l);
  cbn [walk_addrs ms_of rs_of];
  try rewrite (opt_node_loads_walk fl _ Hf); try rewrite !(node_loads_walk fl _ Hf);
  try (destruct n; try apply incl_nil_l; cbn [walk_node]);
  try (destruct ms as [s|]; try apply incl_nil_l);
  try (destruct rs as [r|]; try apply incl_nil_l);
  unfold walk_merge_state, walk_rebase_state; try rewrite Hf;
  try (destruct (_ =? 0); try apply incl_nil_l);
  inc.

Lemma hand_fields_walked : Forall field_walked hand_fields.
Proof. unfold hand_fields. repeat (constructor; [unfold field_walked; field_tac|]). constructor. Qed.

Ltac loaded_tac :=
  let m := fresh "m" in
  intros m; cbn [h_proj ms_of rs_of nodata];
  destruct m as [am|am|r|sr hc|c|w st ms rs|t fk|sch cf viol art sec prim|ps r cl|k|n];
  try (apply incl_nil_l);
  cbn [loads ms_of rs_of];
  try (destruct n; try apply incl_nil_l; cbn [node_loads]);
  try (destruct ms as [s|]; try apply incl_nil_l);
  try (destruct rs as [r|]; try apply incl_nil_l);
  unfold merge_state_loads, rebase_state_loads;
  try (destruct (_ =? 0); try apply incl_nil_l);
  inc.

Lemma hand_fields_loaded : Forall field_loaded hand_fields.
Proof. unfold hand_fields. repeat (constructor; [unfold field_loaded; loaded_tac|]). constructor. Qed.

Lemma find_hand_In : forall t f hf, find_hand t f = Some hf -> In hf hand_fields.
Proof. intros t f hf H. unfold find_hand in H. apply find_some in H. exact (proj1 H). Qed.

(* headline 4: every vector field of the regenerated schema is known to the hand model with a class
   compatible with the .fbs convention; its addresses are dereferenced by a loader; and the walker
   reports them whenever the walker flag governing the field is on (always, for all fields but the
   four working-set fields of finding F2). *)
Theorem walk_covers_schema :
  forall t f k h, In (t, f, k, h) fbs_vec_fields ->
  exists hf, find_hand t f = Some hf /\ hint_ok h (h_class hf) = true
             /\ (forall m, incl (h_proj hf m) (loads m))
             /\ (forall fl m, h_flag hf fl = true -> incl (h_proj hf m) (walk_addrs fl m)).
Proof.
  intros t f k h Hin.
  pose proof schema_classified_ok as Hc. unfold schema_classified in Hc.
  rewrite forallb_forall in Hc. specialize (Hc _ Hin). cbn [schema_entry_ok] in Hc.
  destruct (find_hand t f) as [hf|] eqn:E; [|discriminate Hc].
  exists hf. split; [reflexivity|]. split; [exact Hc|].
  pose proof (find_hand_In t f hf E) as HI.
  split.
  - exact (proj1 (Forall_forall _ _) hand_fields_loaded hf HI).
  - exact (proj1 (Forall_forall _ _) hand_fields_walked hf HI).
Qed.

Corollary walk_covers_schema_complete :
  forall fl, complete fl = true ->
  forall t f k h, In (t, f, k, h) fbs_vec_fields ->
  exists hf, find_hand t f = Some hf /\ forall m, incl (h_proj hf m) (walk_addrs fl m).
Proof.
  intros fl Hc t f k h Hin.
  destruct (walk_covers_schema t f k h Hin) as [hf [E [_ [_ Hw]]]].
  exists hf. split; [exact E|]. intros m. apply Hw.
  destruct (complete_all fl Hc) as [Ha [Hb [Hcc [Hd He]]]].
  pose proof (find_hand_In t f hf E) as HI. unfold hand_fields in HI. cbn [In] in HI.
  repeat (destruct HI as [HI|HI]; [subst hf; cbn [h_flag always]; auto|]). contradiction.
Qed.

(* ---- the oracle on the model ---- *)
Lemma oracle_model_when_complete :
  complete source_flags = true -> forall ms, oracle ms (model_obs ms) = true.
Proof.
  intros Hc ms. unfold oracle, model_obs. cbn [o_objs o_stray].
  rewrite map_length, Nat.eqb_refl, andb_true_r. cbn. rewrite andb_true_r.
  rewrite forallb_forall. intros p Hp. apply in_map_iff in Hp. destruct Hp as [m [Hm _]]. subst p.
  cbn [fst snd]. apply coversb_spec. unfold covers. apply walk_covers_loads_complete. exact Hc.
Qed.

(* non-vacuity: both kinds of flags exist; today's source gives the incomplete kind or the complete kind *)
Example complete_flags_exist : complete {| f_rebase_pre := true; f_rebase_onto := true; f_merge_prehead := true; f_merge_pending := true; f_art_base := true |} = true.
Proof. reflexivity. Qed.
