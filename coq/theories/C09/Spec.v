(* C09 — the property, independent of the walker: the set of addresses reported for an object
   contains every address that loading the object may dereference.  Boolean forms for the oracle. *)
From Coq Require Import NArith List Bool.
Import ListNotations.
Local Open Scope N_scope.

Definition covers (reported dereferenced : list N) : Prop := incl dereferenced reported.

Definition memb (x : N) (l : list N) : bool := existsb (N.eqb x) l.
Definition inclb (a b : list N) : bool := forallb (fun x => memb x b) a.
Definition coversb (reported dereferenced : list N) : bool := inclb dereferenced reported.
Definition set_eqb (a b : list N) : bool := inclb a b && inclb b a.
