(* C09 — the reference walker.  Executable model of
     go/store/types/serial_message.go          SerialMessage.WalkAddrs      (walk_addrs)
     go/store/prolly/message/*.go              message.WalkAddresses        (walk_node)
   and of what the loaders dereference                                     (loads):
     go/libraries/doltcore/doltdb/workingset.go   newWorkingSet (+ revert/cherry-pick --continue
                                                   resolving pending_commit_hashes)
     go/libraries/doltcore/doltdb/commit.go       NewCommit / GetRootValue / GetParent / parent closure
     go/libraries/doltcore/doltdb/root_val.go     GetTable / GetForeignKeyCollection
     go/libraries/doltcore/doltdb/durable/table.go GetSchema / GetTableRows / GetIndexes / GetArtifacts / conflicts
     go/store/prolly/tree                         node children, out-of-band values
     go/store/datas/dataset.go                    tag, stash, stash list, store root (datasets map)
   Addresses are numbers; 0 stands for the empty hash (twenty zero bytes).
   The flatbuffer field lists and the accessors mentioned by each case block of
   WalkAddrs are regenerated from the source (Gen/SchemaAddrs.v).  No proofs here. *)
From Coq Require Import NArith List Bool String.
From Dolt Require Import Gen.SchemaAddrs.
Import ListNotations.
Local Open Scope string_scope.
Local Open Scope N_scope.

Definition addr := N.
Definition nonempty (a : addr) : list addr := if a =? 0 then [] else [a].     (* `if !addr.IsEmpty()` *)
Definition opt_list (o : option addr) : list addr := match o with Some a => [a] | None => [] end.

(* ---- which optional working-set addresses the WorkingSet case of WalkAddrs reports.
   Read off the regenerated accessor list of that case block, so that the model follows the
   source when the walker is extended. ---- *)
Record wflags := { f_rebase_pre : bool; f_rebase_onto : bool; f_merge_prehead : bool; f_merge_pending : bool;
                   f_art_base : bool }.   (* walkMergeArtifactAddresses reports the root-ish stored in the values' JSON *)

Definition complete (fl : wflags) : bool :=
  f_rebase_pre fl && f_rebase_onto fl && f_merge_prehead fl && f_merge_pending fl && f_art_base fl.

Definition case_accessors (fid : string) : list string :=
  match find (fun p => String.eqb (fst p) fid) walker_cases with Some p => snd p | None => [] end.
Definition mentions (fid acc : string) : bool := existsb (String.eqb acc) (case_accessors fid).
Definition mention_count (fid acc : string) : nat := List.length (filter (String.eqb acc) (case_accessors fid)).

Definition source_flags : wflags :=
  {| f_rebase_pre := mentions "WorkingSetFileID" "TryRebaseState"
                     && Nat.leb 2 (mention_count "WorkingSetFileID" "PreWorkingRootAddrBytes");
     f_rebase_onto := mentions "WorkingSetFileID" "TryRebaseState"
                      && mentions "WorkingSetFileID" "OntoCommitAddrBytes";
     f_merge_prehead := mentions "WorkingSetFileID" "PreMergeHeadCommitAddrBytes";
     f_merge_pending := mentions "WorkingSetFileID" "PendingCommitHashes";
     f_art_base := existsb (String.eqb "ValueItemsBytes") artifact_walker |}.

(* ---- messages ---- *)
Record merge_state := { ms_pre_working : addr; ms_from_commit : addr;
                        ms_pre_head : option addr;        (* pre_merge_head_commit_addr, optional *)
                        ms_pending : list addr }.         (* pending_commit_hashes, base32 strings of commit hashes *)
Record rebase_state := { rs_pre_working : addr; rs_onto : addr }.
Record conflicts := { cf_data : addr; cf_ours : addr; cf_theirs : addr; cf_anc : addr }.

(* prolly-ish nodes (go/store/prolly/message) *)
Inductive node :=
| NProlly (address_array : list addr) (value_addrs : list addr)   (* value_address_offsets into value_items *)
| NAddressMap (address_array : list addr)
| NArtifacts (address_array : list addr) (key_addrs : list addr)  (* key_address_offsets into key_items *)
             (meta_addrs : list addr)   (* conflict artifacts: ConflictMetadata.BaseRootIsh, JSON {"bc": hash} in value_items *)
| NBlob (address_array : list addr)
| NClosure (address_array : list addr) (level : N) (key_addrs : list addr)  (* keys are [height; commit address] *)
| NVector (address_array : list addr).

Inductive leaf_kind := LTableSchema | LForeignKeys | LTuple.

Inductive msg :=
| MStoreRoot (am : option node)              (* address_map: embedded AddressMap, absent when length 0 *)
| MStashList (am : option node)
| MStatistic (root : addr)
| MStash (stash_root head_commit : addr)
| MTag (commit : addr)
| MWorkingSet (working : addr) (staged : option addr) (ms : option merge_state) (rs : option rebase_state)
| MRootValue (tables : node) (fk : addr)
| MTable (schema : addr) (cf : conflicts) (violations artifacts : addr) (sec : node) (prim : node)
| MCommit (parents : list addr) (root : addr) (closure : addr)
| MLeaf (k : leaf_kind)
| MNode (n : node).

(* message.WalkAddresses: walkProllyMapAddresses, walkAddressMapAddresses, walkMergeArtifactAddresses,
   walkBlobAddresses, walkCommitClosureAddresses, walkVectorIndexAddresses.
   (walkProllyMapAddresses asserts that not both arrays are present; the serializer never writes both.) *)
Definition walk_node (fl : wflags) (n : node) : list addr :=
  match n with
  | NProlly aa va => aa ++ va
  | NAddressMap aa => aa
  | NArtifacts aa ka meta => aa ++ ka ++ (if f_art_base fl then meta else [])
  | NBlob aa => aa
  | NClosure aa lvl ka => aa ++ (if lvl =? 0 then ka else [])
  | NVector aa => aa
  end.

Definition walk_opt_node (fl : wflags) (o : option node) : list addr :=
  match o with Some n => walk_node fl n | None => [] end.

Definition walk_merge_state (fl : wflags) (s : merge_state) : list addr :=
  [ms_pre_working s; ms_from_commit s]
  ++ (if f_merge_prehead fl then opt_list (ms_pre_head s) else [])
  ++ (if f_merge_pending fl then ms_pending s else []).

Definition walk_rebase_state (fl : wflags) (r : rebase_state) : list addr :=
  (if f_rebase_pre fl then [rs_pre_working r] else [])
  ++ (if f_rebase_onto fl then [rs_onto r] else []).

(* SerialMessage.WalkAddrs, case by case.  A Table without the conflicts sub-table makes the real walker
   dereference nil; every writer (durable.serialTableFields.write) stores it, so it is mandatory here. *)
Definition walk_addrs (fl : wflags) (m : msg) : list addr :=
  match m with
  | MStoreRoot am => walk_opt_node fl am
  | MStashList am => walk_opt_node fl am
  | MStatistic r => [r]
  | MStash sr hc => [sr; hc]
  | MTag c => [c]
  | MWorkingSet w st ms rs =>
      [w] ++ opt_list st
      ++ match ms with Some s => walk_merge_state fl s | None => [] end
      ++ match rs with Some r => walk_rebase_state fl r | None => [] end
  | MRootValue t fk => walk_node fl t ++ nonempty fk
  | MTable sch cf viol art sec prim =>
      [sch] ++ nonempty (cf_data cf) ++ nonempty (cf_ours cf) ++ nonempty (cf_theirs cf) ++ nonempty (cf_anc cf)
      ++ nonempty viol ++ nonempty art ++ walk_node fl sec ++ walk_node fl prim
  | MCommit ps r cl => ps ++ [r] ++ nonempty cl
  | MLeaf _ => []
  | MNode n => walk_node fl n
  end.

(* ---- what loading the object may dereference ---- *)

(* a reader of a node follows child pointers (internal levels), address-map values, out-of-band value
   addresses of leaf tuples, the root-ish addresses in artifact keys and the commit addresses in
   closure leaf keys, and — when reading dolt_conflicts_<t> — the base root-ish recorded in the JSON value of
   every conflict artifact (conflicts_tables_prolly.go loadTableMaps, doltdb/table.go).  Vector index keys are addresses of values that the primary index also references
   (documented in vectorindexnode.fbs); they are not counted as loads of the vector node. *)
Definition node_loads (n : node) : list addr :=
  match n with
  | NProlly aa va => aa ++ va
  | NAddressMap aa => aa
  | NArtifacts aa ka meta => aa ++ ka ++ meta
  | NBlob aa => aa
  | NClosure aa lvl ka => aa ++ (if lvl =? 0 then ka else [])
  | NVector aa => aa
  end.

Definition opt_node_loads (o : option node) : list addr :=
  match o with Some n => node_loads n | None => [] end.

(* newWorkingSet: MustReadValue(working), MustReadValue(staged) when present; merge state:
   PreMergeWorkingAddr, FromCommit, PreMergeHeadCommit when present; the pending hashes are resolved by
   `--continue`; rebase state: PreRebaseWorkingAddr, OntoCommit. *)
Definition merge_state_loads (s : merge_state) : list addr :=
  [ms_pre_working s; ms_from_commit s] ++ opt_list (ms_pre_head s) ++ ms_pending s.
Definition rebase_state_loads (r : rebase_state) : list addr := [rs_pre_working r; rs_onto r].

Definition loads (m : msg) : list addr :=
  match m with
  | MStoreRoot am => opt_node_loads am                    (* dataset heads *)
  | MStashList am => opt_node_loads am                    (* stash entries *)
  | MStatistic r => [r]
  | MStash sr hc => [sr; hc]                              (* GetStashRootAndHeadCommitAtIdx *)
  | MTag c => [c]                                         (* ResolveTag -> commit *)
  | MWorkingSet w st ms rs =>
      [w] ++ opt_list st
      ++ match ms with Some s => merge_state_loads s | None => [] end
      ++ match rs with Some r => rebase_state_loads r | None => [] end
  | MRootValue t fk => node_loads t ++ nonempty fk        (* GetTable for each name, GetForeignKeyCollection *)
  | MTable sch cf viol art sec prim =>
      [sch] ++ nonempty (cf_data cf) ++ nonempty (cf_ours cf) ++ nonempty (cf_theirs cf) ++ nonempty (cf_anc cf)
      ++ nonempty viol ++ nonempty art ++ node_loads sec ++ node_loads prim
  | MCommit ps r cl => ps ++ [r] ++ nonempty cl
  | MLeaf _ => []
  | MNode n => node_loads n
  end.

(* the addresses that an incomplete walker omits, as a function of the flags *)
Definition node_omitted (fl : wflags) (n : node) : list addr :=
  match n with NArtifacts _ _ meta => if f_art_base fl then [] else meta | _ => [] end.
Definition opt_node_omitted (fl : wflags) (o : option node) : list addr :=
  match o with Some n => node_omitted fl n | None => [] end.

Definition omitted (fl : wflags) (m : msg) : list addr :=
  match m with
  | MStoreRoot am => opt_node_omitted fl am
  | MStashList am => opt_node_omitted fl am
  | MWorkingSet _ _ ms rs =>
      match ms with
      | Some s => (if f_merge_prehead fl then [] else opt_list (ms_pre_head s))
                  ++ (if f_merge_pending fl then [] else ms_pending s)
      | None => [] end
      ++ match rs with
         | Some r => (if f_rebase_pre fl then [] else [rs_pre_working r])
                     ++ (if f_rebase_onto fl then [] else [rs_onto r])
         | None => [] end
  | MRootValue t _ => node_omitted fl t
  | MTable _ _ _ _ sec prim => node_omitted fl sec ++ node_omitted fl prim
  | MNode n => node_omitted fl n
  | _ => []
  end.

(* ---- the hand classification of every vector field of the regenerated schema ---- *)
Inductive fclass :=
| FData            (* no addresses *)
| FAddr            (* one 20-byte address *)
| FAddrArray       (* concatenated addresses *)
| FEmbedded        (* an embedded message, walked recursively *)
| FInlineAddrs     (* items holding addresses, located by *_address_offsets or by the fixed key layout *)
| FHashStrings.    (* strings holding base32 hashes *)

Definition address_bearing (c : fclass) : bool := match c with FData => false | _ => true end.

Definition ms_of (m : msg) : option merge_state := match m with MWorkingSet _ _ ms _ => ms | _ => None end.
Definition rs_of (m : msg) : option rebase_state := match m with MWorkingSet _ _ _ rs => rs | _ => None end.
Definition node_of (m : msg) : option node := match m with MNode n => Some n | _ => None end.

(* (table, field, class, does a loader dereference it, which walker flag governs it, projection) *)
Record hfield := { h_table : string; h_field : string; h_class : fclass;
                   h_flag : wflags -> bool; h_proj : msg -> list addr }.
(* embedded messages are walked recursively; the message type lets any node kind be embedded, so their
   completeness is tied to the node walkers' (f_art_base) *)
Definition always (_ : wflags) := true.
Definition nodata (_ : msg) : list addr := [].

Definition hand_fields : list hfield :=
  [ {| h_table := "AddressMap"; h_field := "key_items"; h_class := FData; h_flag := always; h_proj := nodata |};
    {| h_table := "AddressMap"; h_field := "address_array"; h_class := FAddrArray; h_flag := always;
       h_proj := fun m => match m with MNode (NAddressMap aa) => aa | _ => [] end |};
    {| h_table := "AddressMap"; h_field := "subtree_counts"; h_class := FData; h_flag := always; h_proj := nodata |};
    {| h_table := "Blob"; h_field := "payload"; h_class := FData; h_flag := always; h_proj := nodata |};
    {| h_table := "Blob"; h_field := "address_array"; h_class := FAddrArray; h_flag := always;
       h_proj := fun m => match m with MNode (NBlob aa) => aa | _ => [] end |};
    {| h_table := "Blob"; h_field := "subtree_sizes"; h_class := FData; h_flag := always; h_proj := nodata |};
    {| h_table := "Commit"; h_field := "root"; h_class := FAddr; h_flag := always;
       h_proj := fun m => match m with MCommit _ r _ => [r] | _ => [] end |};
    {| h_table := "Commit"; h_field := "parent_addrs"; h_class := FAddrArray; h_flag := always;
       h_proj := fun m => match m with MCommit ps _ _ => ps | _ => [] end |};
    {| h_table := "Commit"; h_field := "parent_closure"; h_class := FAddr; h_flag := always;
       h_proj := fun m => match m with MCommit _ _ cl => nonempty cl | _ => [] end |};
    {| h_table := "CommitClosure"; h_field := "key_items"; h_class := FInlineAddrs; h_flag := always;
       h_proj := fun m => match m with MNode (NClosure _ lvl ka) => if lvl =? 0 then ka else [] | _ => [] end |};
    {| h_table := "CommitClosure"; h_field := "address_array"; h_class := FAddrArray; h_flag := always;
       h_proj := fun m => match m with MNode (NClosure aa _ _) => aa | _ => [] end |};
    {| h_table := "CommitClosure"; h_field := "subtree_counts"; h_class := FData; h_flag := always; h_proj := nodata |};
    {| h_table := "ForeignKey"; h_field := "unresolved_child_columns"; h_class := FData; h_flag := always; h_proj := nodata |};
    {| h_table := "ForeignKey"; h_field := "unresolved_parent_columns"; h_class := FData; h_flag := always; h_proj := nodata |};
    {| h_table := "ForeignKey"; h_field := "child_table_database_schema"; h_class := FData; h_flag := always; h_proj := nodata |};
    {| h_table := "ForeignKey"; h_field := "parent_table_database_schema"; h_class := FData; h_flag := always; h_proj := nodata |};
    {| h_table := "MergeArtifacts"; h_field := "key_items"; h_class := FInlineAddrs; h_flag := always;
       h_proj := fun m => match m with MNode (NArtifacts _ ka _) => ka | _ => [] end |};
    {| h_table := "MergeArtifacts"; h_field := "value_items"; h_class := FInlineAddrs; h_flag := f_art_base;
       h_proj := fun m => match m with MNode (NArtifacts _ _ meta) => meta | _ => [] end |};
    {| h_table := "MergeArtifacts"; h_field := "address_array"; h_class := FAddrArray; h_flag := always;
       h_proj := fun m => match m with MNode (NArtifacts aa _ _) => aa | _ => [] end |};
    {| h_table := "MergeArtifacts"; h_field := "subtree_counts"; h_class := FData; h_flag := always; h_proj := nodata |};
    {| h_table := "ProllyTreeNode"; h_field := "key_items"; h_class := FData; h_flag := always; h_proj := nodata |};
    {| h_table := "ProllyTreeNode"; h_field := "value_items"; h_class := FInlineAddrs; h_flag := always;
       h_proj := fun m => match m with MNode (NProlly _ va) => va | _ => [] end |};
    {| h_table := "ProllyTreeNode"; h_field := "address_array"; h_class := FAddrArray; h_flag := always;
       h_proj := fun m => match m with MNode (NProlly aa _) => aa | _ => [] end |};
    {| h_table := "ProllyTreeNode"; h_field := "subtree_counts"; h_class := FData; h_flag := always; h_proj := nodata |};
    {| h_table := "RootValue"; h_field := "tables"; h_class := FEmbedded; h_flag := f_art_base;
       h_proj := fun m => match m with MRootValue t _ => node_loads t | _ => [] end |};
    {| h_table := "RootValue"; h_field := "foreign_key_addr"; h_class := FAddr; h_flag := always;
       h_proj := fun m => match m with MRootValue _ fk => nonempty fk | _ => [] end |};
    {| h_table := "Stash"; h_field := "stash_root_addr"; h_class := FAddr; h_flag := always;
       h_proj := fun m => match m with MStash sr _ => [sr] | _ => [] end |};
    {| h_table := "Stash"; h_field := "head_commit_addr"; h_class := FAddr; h_flag := always;
       h_proj := fun m => match m with MStash _ hc => [hc] | _ => [] end |};
    {| h_table := "Stash"; h_field := "tables_to_stage"; h_class := FData; h_flag := always; h_proj := nodata |};
    {| h_table := "StashList"; h_field := "address_map"; h_class := FEmbedded; h_flag := f_art_base;
       h_proj := fun m => match m with MStashList am => opt_node_loads am | _ => [] end |};
    {| h_table := "Statistic"; h_field := "root"; h_class := FAddr; h_flag := always;
       h_proj := fun m => match m with MStatistic r => [r] | _ => [] end |};
    {| h_table := "StoreRoot"; h_field := "address_map"; h_class := FEmbedded; h_flag := f_art_base;
       h_proj := fun m => match m with MStoreRoot am => opt_node_loads am | _ => [] end |};
    {| h_table := "Table"; h_field := "schema"; h_class := FAddr; h_flag := always;
       h_proj := fun m => match m with MTable s _ _ _ _ _ => [s] | _ => [] end |};
    {| h_table := "Table"; h_field := "primary_index"; h_class := FEmbedded; h_flag := f_art_base;
       h_proj := fun m => match m with MTable _ _ _ _ _ p => node_loads p | _ => [] end |};
    {| h_table := "Table"; h_field := "secondary_indexes"; h_class := FEmbedded; h_flag := f_art_base;
       h_proj := fun m => match m with MTable _ _ _ _ s _ => node_loads s | _ => [] end |};
    {| h_table := "Table"; h_field := "violations"; h_class := FAddr; h_flag := always;
       h_proj := fun m => match m with MTable _ _ v _ _ _ => nonempty v | _ => [] end |};
    {| h_table := "Table"; h_field := "artifacts"; h_class := FAddr; h_flag := always;
       h_proj := fun m => match m with MTable _ _ _ a _ _ => nonempty a | _ => [] end |};
    {| h_table := "Conflicts"; h_field := "data"; h_class := FAddr; h_flag := always;
       h_proj := fun m => match m with MTable _ c _ _ _ _ => nonempty (cf_data c) | _ => [] end |};
    {| h_table := "Conflicts"; h_field := "our_schema"; h_class := FAddr; h_flag := always;
       h_proj := fun m => match m with MTable _ c _ _ _ _ => nonempty (cf_ours c) | _ => [] end |};
    {| h_table := "Conflicts"; h_field := "their_schema"; h_class := FAddr; h_flag := always;
       h_proj := fun m => match m with MTable _ c _ _ _ _ => nonempty (cf_theirs c) | _ => [] end |};
    {| h_table := "Conflicts"; h_field := "ancestor_schema"; h_class := FAddr; h_flag := always;
       h_proj := fun m => match m with MTable _ c _ _ _ _ => nonempty (cf_anc c) | _ => [] end |};
    {| h_table := "Tag"; h_field := "commit_addr"; h_class := FAddr; h_flag := always;
       h_proj := fun m => match m with MTag c => [c] | _ => [] end |};
    {| h_table := "Tuple"; h_field := "value"; h_class := FData; h_flag := always; h_proj := nodata |};
    {| h_table := "VectorIndexNode"; h_field := "key_items"; h_class := FData; h_flag := always; h_proj := nodata |};
    {| h_table := "VectorIndexNode"; h_field := "value_items"; h_class := FData; h_flag := always; h_proj := nodata |};
    {| h_table := "VectorIndexNode"; h_field := "address_array"; h_class := FAddrArray; h_flag := always;
       h_proj := fun m => match m with MNode (NVector aa) => aa | _ => [] end |};
    {| h_table := "VectorIndexNode"; h_field := "subtree_counts"; h_class := FData; h_flag := always; h_proj := nodata |};
    {| h_table := "WorkingSet"; h_field := "working_root_addr"; h_class := FAddr; h_flag := always;
       h_proj := fun m => match m with MWorkingSet w _ _ _ => [w] | _ => [] end |};
    {| h_table := "WorkingSet"; h_field := "staged_root_addr"; h_class := FAddr; h_flag := always;
       h_proj := fun m => match m with MWorkingSet _ st _ _ => opt_list st | _ => [] end |};
    {| h_table := "MergeState"; h_field := "pre_working_root_addr"; h_class := FAddr; h_flag := always;
       h_proj := fun m => match ms_of m with Some s => [ms_pre_working s] | None => [] end |};
    {| h_table := "MergeState"; h_field := "from_commit_addr"; h_class := FAddr; h_flag := always;
       h_proj := fun m => match ms_of m with Some s => [ms_from_commit s] | None => [] end |};
    {| h_table := "MergeState"; h_field := "unmergable_tables"; h_class := FData; h_flag := always; h_proj := nodata |};
    {| h_table := "MergeState"; h_field := "pre_merge_head_commit_addr"; h_class := FAddr; h_flag := f_merge_prehead;
       h_proj := fun m => match ms_of m with Some s => opt_list (ms_pre_head s) | None => [] end |};
    {| h_table := "MergeState"; h_field := "pending_commit_hashes"; h_class := FHashStrings; h_flag := f_merge_pending;
       h_proj := fun m => match ms_of m with Some s => ms_pending s | None => [] end |};
    {| h_table := "RebaseState"; h_field := "pre_working_root_addr"; h_class := FAddr; h_flag := f_rebase_pre;
       h_proj := fun m => match rs_of m with Some r => [rs_pre_working r] | None => [] end |};
    {| h_table := "RebaseState"; h_field := "branch"; h_class := FData; h_flag := always; h_proj := nodata |};
    {| h_table := "RebaseState"; h_field := "onto_commit_addr"; h_class := FAddr; h_flag := f_rebase_onto;
       h_proj := fun m => match rs_of m with Some r => [rs_onto r] | None => [] end |} ].

Definition find_hand (t f : string) : option hfield :=
  find (fun h => String.eqb (h_table h) t && String.eqb (h_field h) f) hand_fields.

(* every regenerated vector field is known to the hand model, and the .fbs naming/comment convention
   never calls something an address (or an embedded message) that the hand model treats as plain data *)
Definition hint_ok (h : hint) (c : fclass) : bool :=
  match h with
  | HAddr => address_bearing c
  | HEmbedded => match c with FEmbedded => true | _ => false end
  | HData => true
  end.

Definition schema_entry_ok (e : string * string * fkind * hint) : bool :=
  let '(t, f, _, h) := e in
  match find_hand t f with Some hf => hint_ok h (h_class hf) | None => false end.

Definition schema_classified : bool := forallb schema_entry_ok fbs_vec_fields.

(* expected accessor lists of the case blocks other than WorkingSet: a removed or added accessor in the
   walker source changes the regenerated list and breaks the pin lemma in Proofs.v *)
Definition expected_walker_cases : list (string * list string) :=
  [ ("StoreRootFileID", ["AddressMapBytes"]);
    ("StashListFileID", ["AddressMapBytes"]);
    ("StatisticFileID", ["RootBytes"]);
    ("StashFileID", ["StashRootAddrBytes"; "HeadCommitAddrBytes"]);
    ("TagFileID", ["CommitAddrBytes"]);
    ("RootValueFileID", ["TablesBytes"; "ForeignKeyAddrBytes"]);
    ("DoltgresRootValueFileID", ["DoltgresRootValueWalkAddrs"]);
    ("TableFileID", ["SchemaBytes"; "TryConflicts"; "DataBytes"; "OurSchemaBytes"; "TheirSchemaBytes"; "AncestorSchemaBytes";
                     "ViolationsBytes"; "ArtifactsBytes"; "SecondaryIndexesBytes"; "PrimaryIndexBytes"]);
    ("CommitFileID", ["RootBytes"; "ParentClosureBytes"; "SerialCommitParentAddrs"]);
    ("TableSchemaFileID", []);
    ("ForeignKeyCollectionFileID", []);
    ("TupleFileID", []);
    ("ProllyTreeNodeFileID", ["message.WalkAddresses"]);
    ("AddressMapFileID", ["message.WalkAddresses"]);
    ("MergeArtifactsFileID", ["message.WalkAddresses"]);
    ("BlobFileID", ["message.WalkAddresses"]);
    ("CommitClosureFileID", ["message.WalkAddresses"]);
    ("VectorIndexNodeFileID", ["message.WalkAddresses"]) ].

Definition str_list_eqb (a b : list string) : bool :=
  Nat.eqb (List.length a) (List.length b) && forallb (fun p => String.eqb (fst p) (snd p)) (combine a b).

Definition walker_cases_pinned : bool :=
  forallb (fun e => match find (fun p => String.eqb (fst p) (fst e)) walker_cases with
                    | Some p => str_list_eqb (snd p) (snd e) | None => false end) expected_walker_cases
  && Nat.eqb (List.length walker_cases) (S (List.length expected_walker_cases)).
