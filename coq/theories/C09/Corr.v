(* C09 — correspondence.  One case = the objects of one repository state (decoded by the harness into
   model messages, addresses numbered), with, for each object, the addresses the REAL walker reported
   and the addresses the REAL loader read among the object's own address fields; plus the number of
   chunk reads made while fully reading each table/commit-closure tree that fall outside the real
   walker's closure of that tree ("stray"). *)
From Coq Require Import NArith List Bool.
From Dolt Require Import Gen.SchemaAddrs C09.Model C09.Spec.
Import ListNotations.
Local Open Scope N_scope.

Record obs := { o_objs : list (list addr * list addr);   (* (walked, loaded) per object *)
                o_stray : N }.

Definition case := (list msg * obs)%type.

Definition model_obs (ms : list msg) : obs :=
  {| o_objs := map (fun m => (walk_addrs source_flags m, loads m)) ms; o_stray := 0 |}.

Fixpoint objs_eqb (a b : list (list addr * list addr)) : bool :=
  match a, b with
  | [], [] => true
  | (w1, l1) :: a', (w2, l2) :: b' => set_eqb w1 w2 && set_eqb l1 l2 && objs_eqb a' b'
  | _, _ => false
  end.

Definition obs_eqb (a b : obs) : bool := objs_eqb (o_objs a) (o_objs b) && (o_stray a =? o_stray b).

(* The property on what the implementation did: everything the loader read was reported by the walker,
   for every object; and no read of a whole-tree traversal left the walker's closure. *)
Definition oracle (ms : list msg) (o : obs) : bool :=
  forallb (fun p => coversb (fst p) (snd p)) (o_objs o) && (o_stray o =? 0)
  && Nat.eqb (length (o_objs o)) (length ms).

Definition check_case (c : case) : N :=
  (if obs_eqb (model_obs (fst c)) (snd c) then 0 else 1)
  + (if oracle (fst c) (snd c) then 0 else 2).
