(* C41 — correspondence: model observation, comparison with the observation of
   the real processes, and the executable statement of the property (oracle)
   evaluated on what the real processes returned.  Depends on Model/Spec only. *)
From Coq Require Import NArith List Bool.
From Dolt Require Import C41.Model C41.Spec.
Import ListNotations.
Local Open Scope N_scope.

(* input: the prepared directory (abstractly) and the schedule *)
Definition input := (dir * list (N * step))%type.

(* per step: result code, root id after the step (0 when none), mask of files whose
   content changed, nothing-at-all-changed flag (content, size, names, mtimes);
   [o_strace]: write-class system calls on the directory by a process that was
   read-only for the whole case (0 when not traced). *)
Record obs := mkObs { o_steps : list sobs; o_strace : N }.

Definition case := (input * obs)%type.

Fixpoint model_steps (s : sys) (sched : list (N * step)) : list sobs :=
  match sched with
  | [] => []
  | (p, st) :: r =>
    let o := do_step s p st in
    mkSO (o_code o) (o_root o) (dir_mask (s_dir s) (s_dir (o_sys o))) (pure_ops (o_fops o))
    :: model_steps (o_sys o) r
  end.

Definition model_obs (i : input) : obs :=
  mkObs (model_steps (init_sys (fst i)) (snd i)) 0.

(* [a] is the model's, [b] the implementation's.  "pure" is compared one way: when the
   model says nothing is touched the implementation must agree; when the model
   says an mtime changes (e.g. ftruncate to the same size) a coarse file-system
   clock may hide it. *)
Definition sobs_eqb (a b : sobs) : bool :=
  (so_code a =? so_code b) && (so_root a =? so_root b) && (so_mask a =? so_mask b)
  && implb (so_pure a) (so_pure b).

Definition obs_eqb (a b : obs) : bool :=
  list_eqb sobs_eqb (o_steps a) (o_steps b) && (o_strace a =? o_strace b).

(* The property on what the implementation did. *)
Definition oracle (i : input) (o : obs) : bool :=
  mon_run mon_init (snd i) (o_steps o) && (o_strace o =? 0).

Definition check_case (c : case) : N :=
  (if obs_eqb (model_obs (fst c)) (snd c) then 0 else 1)
  + (if oracle (fst c) (snd c) then 0 else 2).
