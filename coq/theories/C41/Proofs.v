(* C41 — proofs. *)
From Coq Require Import NArith List Bool Lia.
From Dolt Require Import Gen.C41Consts C41.Model C41.Spec C41.Corr.
Import ListNotations.
Local Open Scope N_scope.

(* The one constant of the Go source the model hard-codes (the number of novel
   lookups after which an index batch is sealed) is the one the source has now. *)
Lemma max_novel_pinned : max_novel = c41_journal_index_default_max_novel.
Proof. reflexivity. Qed.
Lemma lookup_rec_size_pinned : lookup_rec_size = c41_index_rec_type_size + c41_lookup_sz.
Proof. reflexivity. Qed.

(* ------------------------------------------------------------------ *)
(* 0. small facts                                                      *)
Lemma pure_ops_app (a b : list fop) : pure_ops (a ++ b) = pure_ops a && pure_ops b.
Proof. unfold pure_ops. apply forallb_app. Qed.

Lemma dir_eta (d : dir) :
  mkD (d_man d) (d_journal d) (d_idx d) (d_lock d) (d_oldgen d) (d_other d) = d.
Proof. destruct d; reflexivity. Qed.

(* ------------------------------------------------------------------ *)
(* 1. The read-only open path touches nothing, for every directory.    *)
Lemma load_index_ro (d : dir) (segs : list seg) :
  fst (fst (fst (load_index false d segs))) = d
  /\ pure_ops (snd (fst (fst (load_index false d segs)))) = true.
Proof.
  unfold load_index. destruct (d_idx d) as [i|]; [destruct (index_ok segs i)|]; cbn; auto.
Qed.

(* the in-memory result of reading the index does not depend on the access mode *)
Lemma load_index_mode (d : dir) (segs : list seg) :
  snd (fst (load_index false d segs)) = snd (fst (load_index true d segs))
  /\ snd (load_index false d segs) = snd (load_index true d segs).
Proof.
  unfold load_index. destruct (d_idx d) as [i|]; [destruct (index_ok segs i)|]; cbn; auto.
Qed.

Lemma load_index_man (c : bool) (d : dir) (segs : list seg) :
  d_man (fst (fst (fst (load_index c d segs)))) = d_man d.
Proof.
  unfold load_index. destruct (d_idx d) as [i|]; [destruct (index_ok segs i)|]; destruct c; cbn; auto.
Qed.

Lemma bootstrap_ro (d : dir) (j : journal) :
  r_dir (bootstrap false false d j) = d /\ pure_ops (r_ops (bootstrap false false d j)) = true.
Proof.
  unfold bootstrap.
  pose proof (load_index_ro d (j_segs j)) as [Hd Ho].
  destruct (load_index false d (j_segs j)) as [[[d1 o1] ix] ca]. cbn [fst snd] in Hd, Ho. subst d1.
  destruct (scan _ _ _ _ _) as [[root rpos] novel].
  cbn [andb].
  destruct (data_loss j).
  - cbn [r_dir r_ops]. split; [reflexivity|]. rewrite !pure_ops_app, Ho. reflexivity.
  - destruct (root =? 0); destruct (d_man d) as [[|r]|]; cbn [r_dir r_ops]; (split; [reflexivity|]);
      rewrite !pure_ops_app, Ho; reflexivity.
Qed.

Theorem ro_open_pure :
  forall d : dir,
    r_dir (open_load false d) = d /\ pure_ops (r_ops (open_load false d)) = true.
Proof.
  intros d. unfold open_load.
  assert (HB : forall j, r_dir (bootstrap false false d j) = d
               /\ pure_ops ([OpOpenRO FMan; OpRead FMan; OpStat FJournal] ++ r_ops (bootstrap false false d j)) = true).
  { intros j. pose proof (bootstrap_ro d j) as [Hd Ho]. rewrite pure_ops_app, Ho. auto. }
  destruct (d_man d) as [[|r]|]; [cbn; auto| |];
    (destruct (d_journal d) as [j|]; [cbn [r_dir r_ops]; apply HB | cbn; auto]).
Qed.

(* the read-only view is the read-write view of the same bytes *)
Lemma bootstrap_view (d : dir) (j : journal) :
  r_view (bootstrap false false d j) = r_view (bootstrap true false d j).
Proof.
  unfold bootstrap.
  pose proof (load_index_mode d (j_segs j)) as [Hi Hc].
  pose proof (load_index_man true d (j_segs j)) as Hm.
  pose proof (load_index_ro d (j_segs j)) as [Hd _].
  destruct (load_index false d (j_segs j)) as [[[d1 o1] ix] ca].
  destruct (load_index true d (j_segs j)) as [[[d1' o1'] ix'] ca'].
  cbn [fst snd] in Hi, Hc, Hm, Hd. subst ix' ca' d1.
  destruct (scan _ _ _ _ _) as [[root rpos] novel].
  destruct (data_loss j); [reflexivity|].
  cbn [andb].
  destruct (idx_buf_lookups <? novel); destruct (max_novel <? novel); cbn [set_journal set_idx d_man d_idx];
    rewrite ?Hm; destruct (root =? 0); destruct (d_man d) as [[|r]|]; reflexivity.
Qed.

Theorem ro_view_eq_rw_view :
  forall d : dir, r_view (open_load false d) = r_view (open_load true d).
Proof.
  intros d. unfold open_load.
  destruct (d_man d) as [[|r]|]; cbn; auto;
    (destruct (d_journal d) as [j|]; cbn; auto; apply bootstrap_view).
Qed.

(* ------------------------------------------------------------------ *)
(* 2. The open path, a write and a close never remove LOCK or oldgen.  *)
Definition same_meta (a b : dir) : Prop := d_lock a = d_lock b /\ d_oldgen a = d_oldgen b.

Lemma same_meta_refl d : same_meta d d.
Proof. split; reflexivity. Qed.

Lemma same_meta_trans a b c : same_meta a b -> same_meta b c -> same_meta a c.
Proof. intros [H1 H2] [H3 H4]. split; congruence. Qed.

Lemma load_index_meta (c : bool) (d : dir) (segs : list seg) :
  same_meta (fst (fst (fst (load_index c d segs)))) d.
Proof.
  unfold load_index. destruct (d_idx d) as [i|]; [destruct (index_ok segs i)|]; destruct c; cbn;
    split; reflexivity.
Qed.

Lemma bootstrap_meta (c cr : bool) (d : dir) (j : journal) :
  same_meta (r_dir (bootstrap c cr d j)) d.
Proof.
  unfold bootstrap.
  pose proof (load_index_meta c d (j_segs j)) as Hm.
  destruct (load_index c d (j_segs j)) as [[[d1 o1] ix] ca]. cbn [fst snd] in Hm.
  destruct (scan _ _ _ _ _) as [[root rpos] novel].
  assert (Hs : forall b : bool, same_meta (if b then set_idx d1 (match d_idx d1 with
                              | Some i => Some (mkI (i_batches i) 0 true false)
                              | None => None end) else d1) d).
  { intros [|]; [eapply same_meta_trans; [|exact Hm]; split; reflexivity | exact Hm]. }
  destruct (data_loss j); [apply Hs|].
  destruct c; cbn [andb].
  - pose proof (Hs (idx_buf_lookups <? novel)) as Hs1.
    destruct (idx_buf_lookups <? novel); destruct (max_novel <? novel); cbn [set_journal set_idx d_man];
      destruct (root =? 0); destruct (d_man d1) as [[|r]|]; cbn [r_dir];
      (eapply same_meta_trans; [|exact Hm]); split; reflexivity.
  - destruct (root =? 0); destruct (d_man d1) as [[|r]|]; cbn [r_dir]; exact Hm.
Qed.

Lemma open_load_meta (c : bool) (d : dir) : same_meta (r_dir (open_load c d)) d.
Proof.
  unfold open_load.
  destruct (d_man d) as [[|r]|]; [apply same_meta_refl| |];
    (destruct (d_journal d) as [j|]; cbn [r_dir]; [apply bootstrap_meta | apply same_meta_refl]).
Qed.

Lemma do_write_meta (d : dir) (w : wstate) (h : N) :
  same_meta (fst (fst (do_write d w h))) d.
Proof.
  unfold do_write.
  destruct (w_has_wr w).
  - destruct (d_journal d) as [j|]; cbn; split; reflexivity.
  - pose proof (bootstrap_meta true true (set_journal d (Some empty_journal)) empty_journal) as Hm.
    destruct (d_journal (r_dir _)) as [j|]; cbn [fst];
      (eapply same_meta_trans; [|eapply same_meta_trans; [exact Hm|split; reflexivity]]);
      split; reflexivity.
Qed.

Lemma close_rw_meta (d : dir) (w : wstate) : same_meta (fst (close_rw d w)) d.
Proof.
  unfold close_rw. destruct (w_has_wr w); [|apply same_meta_refl].
  destruct (d_idx d) as [i|]; cbn [fst]; [destruct (_ || _)|]; split; reflexivity.
Qed.

(* ------------------------------------------------------------------ *)
(* 3. Invariant of the lock protocol.                                  *)
Record inv (s : sys) : Prop := mkInv {
  inv_w : forall p, is_writer s p = true <-> s_lock s = Some p;
  inv_files : s_lock s <> None -> d_lock (s_dir s) = true /\ d_oldgen (s_dir s) = true
}.

Lemma inv_init (d : dir) : inv (init_sys d).
Proof.
  split.
  - intros p. cbn. split; discriminate.
  - cbn. congruence.
Qed.

Lemma is_writer_upd_same (d : dir) (l : option N) (f : N -> pstate) (p : N) (v : pstate) :
  is_writer (mkS d l (upd f p v)) p = match v with POpen true LNot | POpen true (LOk _) => true | _ => false end.
Proof. unfold is_writer, upd. cbn. rewrite N.eqb_refl. reflexivity. Qed.

Lemma is_writer_upd_other (d d' : dir) (l l' : option N) (f : N -> pstate) (p q : N) (v : pstate) :
  q <> p -> is_writer (mkS d l (upd f p v)) q = is_writer (mkS d' l' f) q.
Proof. intros H. unfold is_writer, upd. cbn. apply N.eqb_neq in H. rewrite H. reflexivity. Qed.

Lemma writer_state (s : sys) (p : N) :
  is_writer s p = true <-> (s_proc s p = POpen true LNot \/ exists w, s_proc s p = POpen true (LOk w)).
Proof.
  unfold is_writer. destruct (s_proc s p) as [|[|] [|w|]]; split; intros H; try discriminate; auto;
    try (destruct H as [H|[w' H]]; discriminate); eauto.
Qed.

(* generic preservation: process [p] moves to [v], the lock becomes [l'] *)
Lemma inv_update (s : sys) (p : N) (v : pstate) (d' : dir) (l' : option N) :
  inv s ->
  (l' <> None -> d_lock d' = true /\ d_oldgen d' = true) ->
  (* p's new state agrees with the new lock *)
  (match v with POpen true LNot | POpen true (LOk _) => l' = Some p | _ => l' <> Some p end) ->
  (* the others keep what they had *)
  (l' = s_lock s \/ (s_lock s = Some p /\ l' = None) \/ (s_lock s = None /\ l' = Some p)) ->
  inv (mkS d' l' (upd (s_proc s) p v)).
Proof.
  intros [Hw Hf] Hmeta Hp Hl. split.
  - intros q. destruct (N.eq_dec q p) as [->|Hne].
    + rewrite is_writer_upd_same.
      destruct v as [|[|] [|w|]]; cbn [s_lock]; split; intros H; try discriminate; try congruence; auto.
    + rewrite (is_writer_upd_other d' (s_dir s) l' (s_lock s) _ p q v Hne).
      replace (mkS (s_dir s) (s_lock s) (s_proc s)) with s by (destruct s; reflexivity).
      cbn [s_lock]. rewrite Hw.
      destruct Hl as [->|[[H1 ->]|[H1 ->]]]; [tauto| |]; split; intros H; try congruence.
  - exact Hmeta.
Qed.

Lemma meta_keep (s : sys) (d' : dir) (l' : option N) :
  inv s -> same_meta d' (s_dir s) -> (l' <> None -> s_lock s <> None) ->
  l' <> None -> d_lock d' = true /\ d_oldgen d' = true.
Proof.
  intros [_ Hf] [H1 H2] Hl Hn. rewrite H1, H2. apply Hf. apply Hl. exact Hn.
Qed.

(* a closed or read-only process is not the lock holder *)
Lemma not_holder (s : sys) (p : N) :
  inv s -> is_writer s p = false -> s_lock s <> Some p.
Proof. intros [Hw _] Hn Hl. apply Hw in Hl. congruence. Qed.

Lemma holder_of_writer (s : sys) (p : N) : inv s -> is_writer s p = true -> s_lock s = Some p.
Proof. intros [Hw _] H. apply Hw. exact H. Qed.

Lemma inv_same_procs (s : sys) (d' : dir) :
  inv s -> (s_lock s <> None -> d_lock d' = true /\ d_oldgen d' = true) ->
  inv (mkS d' (s_lock s) (s_proc s)).
Proof. intros [Hw Hf] H. split; [exact Hw | exact H]. Qed.

Lemma reader_not_writer (s : sys) (p : N) (l : lstate) :
  s_proc s p = POpen false l -> is_writer s p = false.
Proof. intros H. unfold is_writer. rewrite H. reflexivity. Qed.

Lemma closed_not_writer (s : sys) (p : N) : s_proc s p = PClosed -> is_writer s p = false.
Proof. intros H. unfold is_writer. rewrite H. reflexivity. Qed.

(* ensureLoad *)
Lemma do_load_spec (s : sys) (p : N) (rw : bool) :
  inv s -> s_proc s p = POpen rw LNot ->
  let s1 := fst (fst (do_load s p rw)) in
  let l1 := snd (fst (do_load s p rw)) in
  inv s1 /\ s_proc s1 p = POpen rw l1 /\ l1 <> LNot
  /\ same_meta (s_dir s1) (s_dir s)
  /\ s_dir s1 = r_dir (open_load rw (s_dir s))
  /\ snd (do_load s p rw) = r_ops (open_load rw (s_dir s)).
Proof.
  intros Hinv Hp. unfold do_load.
  pose proof (open_load_meta rw (s_dir s)) as Hm.
  assert (Hwr : rw = true -> s_lock s = Some p).
  { intros ->. apply holder_of_writer; [exact Hinv|]. unfold is_writer. rewrite Hp. reflexivity. }
  assert (Hro : rw = false -> s_lock s <> Some p).
  { intros ->. apply not_holder; [exact Hinv|]. eapply reader_not_writer; eauto. }
  destruct (r_view (open_load rw (s_dir s))) as [e|root n]; cbn [fst snd s_dir s_proc];
    (split; [|split; [unfold upd; rewrite N.eqb_refl; reflexivity|split; [discriminate|split; [exact Hm|split; reflexivity]]]]).
  - apply inv_update; [exact Hinv| | |].
    + destruct rw; [congruence|]. intros Hn. eapply meta_keep; eauto.
    + destruct rw; [discriminate|]. apply Hro. reflexivity.
    + destruct rw; [right; left; split; [apply Hwr|]; reflexivity | left; reflexivity].
  - apply inv_update; [exact Hinv| | |].
    + intros Hn. eapply meta_keep; eauto.
    + destruct rw; [apply Hwr; reflexivity | apply Hro; reflexivity].
    + left. reflexivity.
Qed.

Theorem inv_step (s : sys) (p : N) (st : step) : inv s -> inv (o_sys (do_step s p st)).
Proof.
  intros Hinv. unfold do_step.
  destruct st as [m| |h|]; destruct (s_proc s p) as [|rw l] eqn:Hp; cbn [o_sys]; try exact Hinv.
  - (* open *)
    pose proof (closed_not_writer s p Hp) as Hnw.
    destruct (s_lock s) as [q|] eqn:Hl.
    + destruct m; cbn [o_sys].
      * rewrite <- Hl. apply inv_same_procs; [exact Hinv|]. intros Hn. cbn.
        split; [reflexivity|]. apply (inv_files s Hinv Hn).
      * rewrite <- Hl. apply inv_update; [exact Hinv| | |].
        -- intros _. cbn. auto.
        -- apply not_holder; assumption.
        -- left. reflexivity.
    + cbn [o_sys]. apply inv_update; [exact Hinv| | |].
      * intros _. cbn. auto.
      * reflexivity.
      * right. right. auto.
  - (* load *)
    destruct l as [|w|].
    + pose proof (do_load_spec s p rw Hinv Hp) as (H1 & _).
      destruct (do_load s p rw) as [[s1 l1] ops]. cbn [fst snd] in H1.
      destruct l1; cbn [o_sys]; exact H1.
    + exact Hinv.
    + exact Hinv.
  - (* write *)
    assert (Hgen : forall s1 l1, inv s1 -> s_proc s1 p = POpen rw l1 ->
              forall ops, inv (o_sys (match l1 with
                          | LOk w => if rw then let '(d2, w2, o2) := do_write (s_dir s1) w h in
                                       mkO (mkS d2 (s_lock s1) (upd (s_proc s1) p (POpen true (LOk w2)))) c_ok h (ops ++ o2)
                                     else mkO s1 c_err_readonly 0 ops
                          | _ => mkO s1 c_err_load 0 ops end))).
    { intros s1 l1 H1 Hp1 ops. destruct l1 as [|w|]; cbn [o_sys]; try exact H1.
      destruct rw; cbn [o_sys]; [|exact H1].
      pose proof (do_write_meta (s_dir s1) w h) as Hm.
      destruct (do_write (s_dir s1) w h) as [[d2 w2] o2]. cbn [fst] in Hm. cbn [o_sys].
      assert (Hh : s_lock s1 = Some p).
      { apply holder_of_writer; [exact H1|]. unfold is_writer. rewrite Hp1. reflexivity. }
      apply inv_update; [exact H1| | |].
      - intros Hn. eapply meta_keep; eauto.
      - exact Hh.
      - left. reflexivity. }
    destruct l as [|w|].
    + pose proof (do_load_spec s p rw Hinv Hp) as (H1 & H2 & _).
      destruct (do_load s p rw) as [[s1 l1] ops]. cbn [fst snd] in H1, H2.
      apply Hgen; assumption.
    + apply (Hgen s (LOk w) Hinv Hp []).
    + apply (Hgen s LFail Hinv Hp []).
  - (* close *)
    assert (Hm : same_meta (fst (match rw, l with
                      | true, LOk w => close_rw (s_dir s) w
                      | false, LOk w => (s_dir s, if w_has_wr w then [OpFsync FJournal] else [])
                      | _, _ => (s_dir s, []) end)) (s_dir s)).
    { destruct rw; destruct l as [|w|]; try apply same_meta_refl. apply close_rw_meta. }
    destruct (match rw, l with
              | true, LOk w => close_rw (s_dir s) w
              | false, LOk w => (s_dir s, if w_has_wr w then [OpFsync FJournal] else [])
              | _, _ => (s_dir s, []) end) as [d1 ops]. cbn [fst] in Hm. cbn [o_sys].
    apply inv_update; [exact Hinv| | |].
    + intros Hn. eapply meta_keep; eauto.
      destruct (s_lock s) as [q|]; [discriminate|]. exact Hn.
    + destruct (s_lock s) as [q|]; [|discriminate].
      destruct (q =? p) eqn:E; [discriminate|]. apply N.eqb_neq in E. congruence.
    + destruct (s_lock s) as [q|]; [|left; reflexivity].
      destruct (q =? p) eqn:E; [|left; reflexivity]. apply N.eqb_eq in E. subst q.
      right. left. auto.
Qed.

Lemma inv_run (sched : list (N * step)) : forall s, inv s -> inv (run s sched).
Proof.
  induction sched as [|[p st] r IH]; intros s H; cbn [run]; [exact H|].
  apply IH. apply inv_step. exact H.
Qed.

(* ------------------------------------------------------------------ *)
(* 4. Headline theorems about the lock protocol.                       *)

(* For every schedule from a state in which nobody holds the lock, at every
   reachable state at most one process is in writer mode. *)
Theorem single_writer :
  forall (d : dir) (sched : list (N * step)), at_most_one_writer (run (init_sys d) sched).
Proof.
  intros d sched p q Hp Hq.
  pose proof (inv_run sched _ (inv_init d)) as H.
  apply (holder_of_writer _ _ H) in Hp. apply (holder_of_writer _ _ H) in Hq. congruence.
Qed.

Definition reachable (s : sys) : Prop := exists d sched, s = run (init_sys d) sched.

Lemma reachable_inv (s : sys) : reachable s -> inv s.
Proof. intros (d & sched & ->). apply inv_run. apply inv_init. Qed.

(* While a writer holds the directory, a second opener gets err_locked when it
   asked to fail fast and read-only otherwise; either way no file is touched. *)
Theorem second_opener :
  forall (s : sys) (q p : N),
    reachable s -> is_writer s q = true -> s_proc s p = PClosed ->
    (let o := do_step s p (SOpen MFailFast) in
     o_code o = c_err_locked /\ s_dir (o_sys o) = s_dir s /\ pure_ops (o_fops o) = true
     /\ s_proc (o_sys o) p = PClosed /\ is_writer (o_sys o) q = true)
    /\
    (let o := do_step s p (SOpen MFallback) in
     o_code o = c_ro /\ s_dir (o_sys o) = s_dir s /\ pure_ops (o_fops o) = true
     /\ is_reader (o_sys o) p = true /\ is_writer (o_sys o) q = true).
Proof.
  intros s q p Hr Hq Hp. pose proof (reachable_inv s Hr) as Hinv.
  pose proof (holder_of_writer s q Hinv Hq) as Hl.
  destruct (inv_files s Hinv) as [HL HO]; [congruence|].
  assert (Hqp : q <> p).
  { intros ->. rewrite (closed_not_writer s p Hp) in Hq. discriminate. }
  unfold do_step. rewrite Hp, Hl. cbn [o_code o_sys o_fops s_dir s_proc].
  unfold lock_open_ops, oldgen_ops. rewrite HL, HO.
  assert (Hd : set_oldgen (set_lock (s_dir s) true) true = s_dir s).
  { destruct (s_dir s); cbn in *; subst; reflexivity. }
  assert (Hd0 : set_lock (s_dir s) true = s_dir s).
  { destruct (s_dir s); cbn in *; subst; reflexivity. }
  split; cbn zeta.
  - repeat split; auto.
  - repeat split; auto.
    + unfold is_reader, upd. cbn. rewrite N.eqb_refl. reflexivity.
    + unfold is_writer, upd in *. cbn. apply N.eqb_neq in Hqp. rewrite Hqp. exact Hq.
Qed.

(* Every step of a process that was opened read-only — load over any directory
   content, write attempt, close — leaves the directory unchanged, issues no
   mutating file operation, and a write attempt fails. *)
Theorem ro_session_pure :
  forall (s : sys) (p : N) (st : step),
    is_reader s p = true ->
    let o := do_step s p st in
    s_dir (o_sys o) = s_dir s /\ pure_ops (o_fops o) = true
    /\ (forall h, st = SWrite h -> o_code o = c_err_readonly \/ o_code o = c_err_load)
    /\ is_writer (o_sys o) p = false.
Proof.
  intros s p st Hr. unfold is_reader in Hr.
  destruct (s_proc s p) as [|[|] l] eqn:Hp; try discriminate. clear Hr.
  assert (Hload : s_dir (fst (fst (do_load s p false))) = s_dir s
                  /\ pure_ops (snd (do_load s p false)) = true
                  /\ s_proc (fst (fst (do_load s p false))) p = POpen false (snd (fst (do_load s p false)))).
  { unfold do_load. pose proof (ro_open_pure (s_dir s)) as [Hd Ho].
    destruct (r_view (open_load false (s_dir s))); cbn [fst snd s_dir s_lock s_proc];
      unfold upd; rewrite N.eqb_refl; auto. }
  assert (Hself : is_writer s p = false) by (unfold is_writer; rewrite Hp; reflexivity).
  unfold do_step. rewrite Hp.
  destruct st as [m| |h|]; cbn zeta.
  - cbn; repeat split; auto; try discriminate.
  - destruct l as [|w|].
    + destruct Hload as (H1 & H2 & H4).
      destruct (do_load s p false) as [[s1 l1] ops]. cbn [fst snd] in *.
      destruct l1; cbn [o_sys o_fops o_code]; repeat split; auto; try discriminate;
        unfold is_writer; rewrite H4; reflexivity.
    + cbn; repeat split; auto; try discriminate.
    + cbn; repeat split; auto; try discriminate.
  - destruct l as [|w|].
    + destruct Hload as (H1 & H2 & H4).
      destruct (do_load s p false) as [[s1 l1] ops]. cbn [fst snd] in *.
      destruct l1; cbn [o_sys o_fops o_code]; repeat split; auto;
        unfold is_writer; rewrite H4; reflexivity.
    + cbn; repeat split; auto.
    + cbn; repeat split; auto.
  - destruct l as [|w|]; cbn [o_sys o_fops o_code s_dir];
      (repeat split; auto; try discriminate;
       [try (destruct (w_has_wr w); reflexivity) .. | unfold is_writer, upd; cbn; rewrite N.eqb_refl; reflexivity]).
Qed.

(* ------------------------------------------------------------------ *)
(* 5. The executable oracle accepts everything the model does:         *)
(*    the property monitor never fires on a model run.                 *)
Lemma list_eqb_refl {A} (e : A -> A -> bool) (l : list A) :
  (forall x, e x x = true) -> list_eqb e l l = true.
Proof. intros H. induction l as [|x l IH]; cbn; [reflexivity|]. rewrite H, IH. reflexivity. Qed.

Lemma dir_mask_refl (d : dir) : dir_mask d d = 0.
Proof.
  assert (Hs : forall x, seg_eqb x x = true) by (intros [n|h]; cbn; apply N.eqb_refl).
  assert (Hb : forall x, batch_eqb x x = true).
  { intros x. unfold batch_eqb. rewrite !N.eqb_refl, Bool.eqb_reflx. reflexivity. }
  unfold dir_mask.
  replace (opt_eqb man_eqb (d_man d) (d_man d)) with true
    by (destruct (d_man d) as [[|r]|]; cbn; rewrite ?N.eqb_refl; reflexivity).
  replace (opt_eqb journal_eqb (d_journal d) (d_journal d)) with true
    by (destruct (d_journal d) as [j|]; cbn; [unfold journal_eqb; rewrite (list_eqb_refl _ _ Hs), N.eqb_refl, Bool.eqb_reflx|]; reflexivity).
  replace (opt_eqb index_eqb (d_idx d) (d_idx d)) with true
    by (destruct (d_idx d) as [i|]; cbn; [unfold index_eqb; rewrite (list_eqb_refl _ _ Hb), N.eqb_refl, !Bool.eqb_reflx|]; reflexivity).
  rewrite !Bool.eqb_reflx, (list_eqb_refl _ _ N.eqb_refl). reflexivity.
Qed.

Definition abs (st : pstate) : tst :=
  match st with
  | PClosed => TClosed
  | POpen true LFail => TFailed
  | POpen true _ => TRW
  | POpen false _ => TRO
  end.

Definition agree (s : sys) (m : mon) : Prop :=
  (forall p, m_tr m p = abs (s_proc s p)) /\ m_holder m = s_lock s.

Lemma agree_upd (s : sys) (m : mon) (p : N) (v : pstate) (d : dir) (l : option N) (t : tst) (h : option N) :
  agree s m -> t = abs v -> h = l -> agree (mkS d l (upd (s_proc s) p v)) (mkM (tupd (m_tr m) p t) h).
Proof.
  intros [Ht Hh] -> ->. split; [|reflexivity].
  intros q. cbn. unfold tupd, upd. destruct (q =? p); [reflexivity | apply Ht].
Qed.

Lemma agree_keep (s : sys) (m : mon) (p : N) (v : pstate) (d : dir) :
  agree s m -> m_tr m p = abs v -> agree (mkS d (s_lock s) (upd (s_proc s) p v)) m.
Proof.
  intros [Ht Hh] Hv. split; [|exact Hh].
  intros q. cbn. unfold upd. destruct (q =? p) eqn:E; [|apply Ht].
  apply N.eqb_eq in E. subst q. exact Hv.
Qed.

Definition sobs_of (s : sys) (o : out) : sobs :=
  mkSO (o_code o) (o_root o) (dir_mask (s_dir s) (s_dir (o_sys o))) (pure_ops (o_fops o)).

Lemma quiet_of (s : sys) (o : out) :
  s_dir (o_sys o) = s_dir s -> pure_ops (o_fops o) = true -> quiet (sobs_of s o) = true.
Proof. intros Hd Ho. unfold quiet, sobs_of. cbn. rewrite Hd, dir_mask_refl, Ho. reflexivity. Qed.

Lemma release_model (s : sys) (p : N) :
  release (s_lock s) p = (if match s_lock s with Some q => q =? p | None => false end then None else s_lock s).
Proof. unfold release. destruct (s_lock s) as [q|]; [destruct (q =? p)|]; reflexivity. Qed.

Lemma mon_step_model (s : sys) (m : mon) (p : N) (st : step) :
  inv s -> agree s m ->
  let o := do_step s p st in
  fst (mon_step m p st (sobs_of s o)) = true /\ agree (o_sys o) (snd (mon_step m p st (sobs_of s o))).
Proof.
  intros Hinv Hag. pose proof Hag as [Ht Hh].
  destruct (s_proc s p) as [|rw l] eqn:Hp.
  - (* closed *)
    assert (Htp : m_tr m p = TClosed) by (rewrite Ht, Hp; reflexivity).
    destruct st as [md| |h|]; cbn zeta.
    2-4: (unfold do_step, mon_step; rewrite Hp, Htp; cbn; split; [reflexivity|exact Hag]).
    pose proof (closed_not_writer s p Hp) as Hnw.
    unfold mon_step. rewrite Htp, Hh. unfold do_step. rewrite Hp.
    destruct (s_lock s) as [q|] eqn:Hl.
    + assert (Hqp : (q =? p) = false).
      { apply N.eqb_neq. intros ->. apply (not_holder s p Hinv Hnw). exact Hl. }
      destruct (inv_files s Hinv) as [HL HO]; [congruence|].
      assert (Hd : set_oldgen (set_lock (s_dir s) true) true = s_dir s)
        by (destruct (s_dir s); cbn in *; subst; reflexivity).
      assert (Hd0 : set_lock (s_dir s) true = s_dir s)
        by (destruct (s_dir s); cbn in *; subst; reflexivity).
      rewrite Hqp. cbn [negb].
      destruct md; cbn [o_code o_sys sobs_of so_code fst snd c_err_locked c_ro N.eqb Pos.eqb andb].
      * split.
        -- rewrite ?Bool.andb_true_r. apply quiet_of; cbn [o_sys s_dir o_fops]; [exact Hd0|].
           unfold lock_open_ops. rewrite HL. reflexivity.
        -- split; [exact Ht | cbn; congruence].
      * split.
        -- rewrite ?Bool.andb_true_r. apply quiet_of; cbn [o_sys s_dir o_fops]; [exact Hd|].
           unfold lock_open_ops, oldgen_ops. rewrite HL, HO. reflexivity.
        -- rewrite <- Hl. apply agree_upd; auto.
    + cbn [o_code o_sys sobs_of so_code fst snd c_rw N.eqb Pos.eqb andb negb].
      split; [destruct md; reflexivity|]. apply agree_upd; auto.
  - (* open *)
    destruct rw.
    + (* lock holder or failed holder *)
      destruct l as [|w|].
      * assert (Htp : m_tr m p = TRW) by (rewrite Ht, Hp; reflexivity).
        assert (Hlk : s_lock s = Some p).
        { apply holder_of_writer; [exact Hinv|]. unfold is_writer. rewrite Hp. reflexivity. }
        destruct st as [md| |h|]; cbn zeta; unfold mon_step; rewrite Htp; unfold do_step; rewrite Hp.
        -- cbn. split; [reflexivity|exact Hag].
        -- unfold do_load. destruct (r_view (open_load true (s_dir s))) as [e|root n];
             cbn [o_code o_sys sobs_of so_code fst snd c_err_load c_ok N.eqb Pos.eqb];
             (split; [reflexivity|]).
           ++ apply agree_upd; auto. rewrite Hh, Hlk. cbn. rewrite N.eqb_refl. reflexivity.
           ++ apply agree_keep; [exact Hag | rewrite Htp; reflexivity].
        -- unfold do_load. destruct (r_view (open_load true (s_dir s))) as [e|root n].
           ++ cbn [o_code o_sys sobs_of so_code fst snd c_err_load N.eqb Pos.eqb].
              split; [reflexivity|]. apply agree_upd; auto. rewrite Hh, Hlk. cbn. rewrite N.eqb_refl. reflexivity.
           ++ destruct (do_write _ _ h) as [[d2 w2] o2].
              cbn [o_code o_sys sobs_of so_code fst snd c_ok N.eqb].
              split; [reflexivity|].
              assert (Hag1 : agree (mkS (r_dir (open_load true (s_dir s))) (s_lock s)
                                        (upd (s_proc s) p (POpen true (LOk (r_w (open_load true (s_dir s)))))))
                                   m).
              { split; [|exact Hh]. intros q. cbn. unfold upd. destruct (q =? p) eqn:E; [|apply Ht].
                apply N.eqb_eq in E. subst q. rewrite Htp. reflexivity. }
              destruct Hag1 as [Ht1 Hh1]. split; [|exact Hh1].
              intros q. cbn. unfold upd. destruct (q =? p) eqn:E; [|apply Ht].
              apply N.eqb_eq in E. subst q. rewrite Htp. reflexivity.
        -- cbn [o_code o_sys sobs_of so_code fst snd]. split; [reflexivity|].
           apply agree_upd; auto. rewrite Hh. apply release_model.
      * assert (Htp : m_tr m p = TRW) by (rewrite Ht, Hp; reflexivity).
        destruct st as [md| |h|]; cbn zeta; unfold mon_step; rewrite Htp; unfold do_step; rewrite Hp.
        -- cbn. split; [reflexivity|exact Hag].
        -- cbn. split; [reflexivity|exact Hag].
        -- destruct (do_write _ _ h) as [[d2 w2] o2].
           cbn [o_code o_sys sobs_of so_code fst snd c_ok N.eqb]. split; [reflexivity|].
           split; [|exact Hh]. intros q. cbn. unfold upd. destruct (q =? p) eqn:E; [|apply Ht].
           apply N.eqb_eq in E. subst q. rewrite Htp. reflexivity.
        -- destruct (close_rw (s_dir s) w) as [d1 ops].
           cbn [o_code o_sys sobs_of so_code fst snd]. split; [reflexivity|].
           apply agree_upd; auto. rewrite Hh. apply release_model.
      * assert (Htp : m_tr m p = TFailed) by (rewrite Ht, Hp; reflexivity).
        destruct st as [md| |h|]; cbn zeta; unfold mon_step; rewrite Htp; unfold do_step; rewrite Hp.
        -- cbn. split; [reflexivity|exact Hag].
        -- cbn. split; [reflexivity|exact Hag].
        -- cbn. split; [reflexivity|exact Hag].
        -- cbn [o_code o_sys sobs_of so_code fst snd]. split; [reflexivity|].
           apply agree_upd; auto. rewrite Hh. apply release_model.
    + (* read-only process *)
      assert (Htp : m_tr m p = TRO) by (rewrite Ht, Hp; destruct l; reflexivity).
      assert (Hrd : is_reader s p = true) by (unfold is_reader; rewrite Hp; reflexivity).
      pose proof (ro_session_pure s p st Hrd) as Hpure. cbn zeta in Hpure.
      destruct Hpure as (Hd & Ho & Hwr & _).
      pose proof (quiet_of s (do_step s p st) Hd Ho) as Hq.
      assert (Hnh : s_lock s <> Some p).
      { apply not_holder; [exact Hinv|]. eapply reader_not_writer; eauto. }
      cbn zeta. unfold mon_step. rewrite Htp.
      destruct st as [md| |h|].
      * unfold do_step. rewrite Hp. cbn. split; [reflexivity|exact Hag].
      * cbn [fst snd]. split; [exact Hq|].
        unfold do_step. rewrite Hp.
        destruct l as [|w|]; [|exact Hag|exact Hag].
        unfold do_load. destruct (r_view (open_load false (s_dir s))); cbn [o_sys];
          (split; [|exact Hh]); intros q; cbn; unfold upd; (destruct (q =? p) eqn:E; [|apply Ht]);
          apply N.eqb_eq in E; subst q; rewrite Htp; reflexivity.
      * cbn [fst snd]. split.
        -- rewrite Hq, Bool.andb_true_r.
           destruct (Hwr h eq_refl) as [E|E]; unfold sobs_of; cbn [so_code]; rewrite E; reflexivity.
        -- unfold do_step. rewrite Hp.
           destruct l as [|w|]; [|exact Hag|exact Hag].
           unfold do_load. destruct (r_view (open_load false (s_dir s))); cbn [o_sys];
             (split; [|exact Hh]); intros q; cbn; unfold upd; (destruct (q =? p) eqn:E; [|apply Ht]);
             apply N.eqb_eq in E; subst q; rewrite Htp; reflexivity.
      * cbn [fst snd]. split; [exact Hq|].
        unfold do_step. rewrite Hp. cbn [o_sys].
        destruct (match l with LOk w => (s_dir s, if w_has_wr w then [OpFsync FJournal] else []) | _ => (s_dir s, []) end) as [d1 ops] eqn:E1.
        assert (Hrel : (if match s_lock s with Some q => q =? p | None => false end then None else s_lock s) = s_lock s).
        { destruct (s_lock s) as [q|]; [|reflexivity]. destruct (q =? p) eqn:E; [|reflexivity].
          apply N.eqb_eq in E. congruence. }
        destruct l as [|w|]; cbn [o_sys]; rewrite Hrel; apply agree_upd; auto.
Qed.

Lemma mon_run_model (sched : list (N * step)) :
  forall (s : sys) (m : mon), inv s -> agree s m -> mon_run m sched (model_steps s sched) = true.
Proof.
  induction sched as [|[p st] r IH]; intros s m Hinv Hag; cbn [mon_run model_steps]; [reflexivity|].
  pose proof (mon_step_model s m p st Hinv Hag) as [H1 H2]. cbn zeta in H1, H2.
  unfold sobs_of in H1, H2.
  destruct (mon_step m p st _) as [ok m']. cbn [fst snd] in H1, H2. subst ok. cbn [andb].
  apply IH; [apply inv_step; exact Hinv | exact H2].
Qed.

(* For every directory and every schedule, the property monitor accepts the
   model's own run: what the oracle checks on the implementation is a
   consequence of the theorems above. *)
Theorem oracle_model : forall i : input, oracle i (model_obs i) = true.
Proof.
  intros [d sched]. unfold oracle, model_obs. cbn [fst snd o_steps o_strace].
  rewrite mon_run_model; [reflexivity | apply inv_init |].
  split; reflexivity.
Qed.

(* ------------------------------------------------------------------ *)
(* 6. Non-vacuity and sharpness.                                       *)
Definition ex_dir : dir :=
  mkD (Some (ManOk 2))
      (Some (mkJ [SChunks 1; SRoot 1; SChunks 1; SRoot 2; SChunks 1; SRoot 3] 13 false))   (* torn tail *)
      (Some (mkI [] 2 true false))                                                          (* stale, torn index *)
      true true [].

(* the same bytes opened read-write ARE modified (tail truncated, index rewound,
   manifest trued-up), so ro_open_pure is not true for trivial reasons *)
Example rw_open_repairs :
  dir_mask ex_dir (r_dir (open_load true ex_dir)) = 7
  /\ pure_ops (r_ops (open_load true ex_dir)) = false
  /\ r_view (open_load true ex_dir) = VOk 3 3
  /\ r_view (open_load false ex_dir) = VOk 3 3.
Proof. vm_compute. repeat split. Qed.

(* a schedule in which all three outcomes of a second open occur, a read-only
   write is refused, and the writer role moves after a close *)
Example schedule_outcomes :
  map (fun o => (so_code o, so_mask o, so_pure o))
      (model_steps (init_sys ex_dir)
         [(0, SOpen MFallback); (1, SOpen MFailFast); (1, SOpen MFallback); (1, SLoad); (1, SWrite 10);
          (1, SClose); (0, SWrite 11); (0, SClose); (1, SOpen MFailFast); (1, SLoad)])
  = [(1, 0, true); (3, 0, true); (2, 0, true); (0, 0, true); (4, 0, true);
     (0, 0, true); (0, 7, false); (0, 5, false); (1, 0, true); (0, 4, false)].
Proof. vm_compute. reflexivity. Qed.

(* the monitor is not trivially true: it rejects a second writer, a read-only
   fallback under fail-fast, an accepted read-only write and a read-only
   session that touched a file *)
Example monitor_rejects :
  mon_run mon_init [(0, SOpen MFallback); (1, SOpen MFallback)] [mkSO 1 0 0 true; mkSO 1 0 0 true] = false
  /\ mon_run mon_init [(0, SOpen MFallback); (1, SOpen MFailFast)] [mkSO 1 0 0 true; mkSO 2 0 0 true] = false
  /\ mon_run mon_init [(0, SOpen MFallback); (1, SOpen MFallback); (1, SWrite 5)]
                      [mkSO 1 0 0 true; mkSO 2 0 0 true; mkSO 0 5 2 false] = false
  /\ mon_run mon_init [(0, SOpen MFallback); (1, SOpen MFallback); (1, SLoad)]
                      [mkSO 1 0 0 true; mkSO 2 0 0 true; mkSO 0 3 4 false] = false
  /\ mon_run mon_init [(0, SOpen MFallback); (1, SOpen MFallback); (1, SLoad)]
                      [mkSO 1 0 0 true; mkSO 2 0 0 true; mkSO 0 3 0 false] = false.
Proof. vm_compute. repeat split. Qed.

(* Sharpness of the hypotheses of second_opener: purity of a refused or
   read-only open uses the invariant "the lock is held => LOCK and oldgen/
   exist" (the holder's own open created them).  In a state that no schedule
   reaches — lock held but oldgen/ missing — FileFactory.CreateDbNoCache does
   create oldgen/ on behalf of a read-only opener (os.Mkdir is not guarded by
   the access mode). *)
Example ro_open_mkdir_outside_invariant :
  exists s p, s_lock s = Some 0 /\ s_proc s p = PClosed
              /\ o_code (do_step s p (SOpen MFallback)) = c_ro
              /\ pure_ops (o_fops (do_step s p (SOpen MFallback))) = false.
Proof.
  exists (mkS (mkD None None None true false []) (Some 0) (fun q => if q =? 0 then POpen true LNot else PClosed)), 1.
  vm_compute. repeat split.
Qed.
