(* C41 — the property, written declaratively and independently of how the lock
   and the bootstrap are implemented, plus the boolean forms used by the
   executable oracle.  No proofs about the model here. *)
From Coq Require Import NArith List Bool.
From Dolt Require Import C41.Model.
Import ListNotations.
Local Open Scope N_scope.

(* (a) at most one process is in writer mode on the directory *)
Definition at_most_one_writer (s : sys) : Prop :=
  forall p q, is_writer s p = true -> is_writer s q = true -> p = q.

(* (b) a list of file operations that modifies nothing *)
Definition pure_ops (ops : list fop) : bool := forallb (fun o => negb (mutating o)) ops.

(* (c) equality of directory contents, file by file, and the mask of files that differ
       bit 1 manifest, 2 journal, 4 journal.idx, 8 LOCK, 16 anything else *)
Definition seg_eqb (a b : seg) : bool :=
  match a, b with
  | SChunks n, SChunks m => n =? m
  | SRoot h, SRoot k => h =? k
  | _, _ => false
  end.

Fixpoint list_eqb {A} (eqb : A -> A -> bool) (a b : list A) : bool :=
  match a, b with
  | [], [] => true
  | x :: a', y :: b' => eqb x y && list_eqb eqb a' b'
  | _, _ => false
  end.

Definition opt_eqb {A} (eqb : A -> A -> bool) (a b : option A) : bool :=
  match a, b with
  | None, None => true
  | Some x, Some y => eqb x y
  | _, _ => false
  end.

Definition journal_eqb (a b : journal) : bool :=
  list_eqb seg_eqb (j_segs a) (j_segs b) && (j_tail a =? j_tail b) && Bool.eqb (j_loss a) (j_loss b).

Definition batch_eqb (a b : batch) : bool :=
  (b_n a =? b_n b) && (b_start a =? b_start b) && (b_end a =? b_end b) && (b_root a =? b_root b)
  && Bool.eqb (b_crc_ok a) (b_crc_ok b).

Definition index_eqb (a b : index) : bool :=
  list_eqb batch_eqb (i_batches a) (i_batches b) && (i_trail a =? i_trail b)
  && Bool.eqb (i_partial a) (i_partial b) && Bool.eqb (i_badtag a) (i_badtag b).

Definition man_eqb (a b : manifest) : bool :=
  match a, b with
  | ManBad, ManBad => true
  | ManOk r, ManOk q => r =? q
  | _, _ => false
  end.

Definition dir_mask (a b : dir) : N :=
  (if opt_eqb man_eqb (d_man a) (d_man b) then 0 else 1)
  + (if opt_eqb journal_eqb (d_journal a) (d_journal b) then 0 else 2)
  + (if opt_eqb index_eqb (d_idx a) (d_idx b) then 0 else 4)
  + (if Bool.eqb (d_lock a) (d_lock b) then 0 else 8)
  + (if Bool.eqb (d_oldgen a) (d_oldgen b) && list_eqb N.eqb (d_other a) (d_other b) then 0 else 16).

(* (d) the property as a monitor over what each step returned.  The monitor
   only knows the answers: who was told "read-write", "read-only", "locked".
     - an opener that is told read-write while another process is a writer   => violation
     - while a writer exists: a fail-fast opener must get err_locked, a
       fallback opener must get read-only
     - fail-fast never yields read-only; fallback never yields err_locked
     - a write by a process that was told read-only must fail
     - every step of a process that was told read-only, and every refused
       open, leaves every file of the directory untouched ([quiet]) *)
Inductive tst := TClosed | TRW | TRO | TFailed.

Record sobs := mkSO { so_code : N; so_root : N; so_mask : N; so_pure : bool }.

Definition quiet (o : sobs) : bool := (so_mask o =? 0) && so_pure o.

Record mon := mkM { m_tr : N -> tst; m_holder : option N }.

Definition mon_init : mon := mkM (fun _ => TClosed) None.

Definition tupd (f : N -> tst) (p : N) (v : tst) : N -> tst := fun q => if q =? p then v else f q.

Definition release (h : option N) (p : N) : option N :=
  match h with Some q => if q =? p then None else h | None => None end.

Definition mon_step (m : mon) (p : N) (st : step) (o : sobs) : bool * mon :=
  let c := so_code o in
  match st, m_tr m p with
  | SOpen md, TClosed =>
    let w := match m_holder m with Some q => negb (q =? p) | None => false end in
    let ok :=
      (if w then match md with MFailFast => c =? 3 | MFallback => c =? 2 end else true)
      && (if c =? 1 then negb w else true)
      && (if c =? 2 then match md with MFallback => quiet o | MFailFast => false end else true)
      && (if c =? 3 then match md with MFailFast => quiet o | MFallback => false end else true) in
    (ok, if c =? 1 then mkM (tupd (m_tr m) p TRW) (Some p)
         else if c =? 2 then mkM (tupd (m_tr m) p TRO) (m_holder m)
         else m)
  | SLoad, TRO => (quiet o, m)
  | SLoad, TRW => (true, if c =? 5 then mkM (tupd (m_tr m) p TFailed) (release (m_holder m) p) else m)
  | SWrite _, TRO => (negb (c =? 0) && quiet o, m)
  | SWrite _, TRW => (true, if c =? 5 then mkM (tupd (m_tr m) p TFailed) (release (m_holder m) p) else m)
  | SClose, TRO => (quiet o, mkM (tupd (m_tr m) p TClosed) (m_holder m))
  | SClose, TClosed => (true, m)
  | SClose, _ => (true, mkM (tupd (m_tr m) p TClosed) (release (m_holder m) p))
  | _, _ => (true, m)
  end.

Fixpoint mon_run (m : mon) (sched : list (N * step)) (os : list sobs) : bool :=
  match sched, os with
  | [], [] => true
  | (p, st) :: r, o :: os' =>
    let '(ok, m') := mon_step m p st o in
    ok && mon_run m' r os'
  | _, _ => false              (* an observation per step *)
  end.
