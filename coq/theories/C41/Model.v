(* C41 — Only one process can write a database directory.  Executable model of
     go/store/nbs/journal.go          newJournalLock, newJournalManifest, newChunkJournal,
                                      bootstrapJournalWriter, trueUpBackingManifest,
                                      ChunkJournal.Persist/Update/Close, journalManifest.Close
     go/store/nbs/journal_writer.go   openJournalWriter, createJournalWriter, bootstrapJournal,
                                      loadJournalIndex, readJournalIndex, corruptIndexRecovery,
                                      commitRootHash, flushIndexRecord, journalWriter.Close
     go/store/nbs/journal_record.go   processJournalRecords (tryTruncate), possibleDataLossCheck
     go/store/nbs/journal_index_record.go  processIndexRecords
     go/store/nbs/store.go            NewLocalJournalingStoreWithOptions (lock first, lazy loadThunk),
                                      NomsBlockStore.ensureLoad/Commit/Close
     go/libraries/doltcore/dbfactory/file.go  FileFactory.CreateDbNoCache (options, oldgen mkdir)
     github.com/dolthub/fslock        Lock.open (O_CREATE|O_RDWR), TryLock / LockWithTimeout
   Two layers:
     (1) the open path as a function on directory contents: [open_load can_write d]
         returns the in-memory view, the directory afterwards and the list of file
         operations issued, every mutation guarded exactly as in the Go code;
     (2) the lock protocol: processes x steps {open(fail-fast | fallback), load
         (first access runs the lazy loadThunk), write (Put+Commit), close}.
   Journal and index contents are abstract (records, torn tail, index batches);
   byte-level parsing is the business of C03/C04/C10.  No proofs here. *)
From Coq Require Import NArith List Bool.
Import ListNotations.
Local Open Scope N_scope.

(* ------------------------------------------------------------------ *)
(* Directory contents                                                  *)

(* A journal is a sequence of valid records followed by [j_tail] bytes that do
   not parse as a record (torn record, garbage, zero padding).  Consecutive
   chunk records are run-length encoded.  Offsets into the journal are
   positions in [j_segs].  [j_loss]: possibleDataLossCheck finds a root record
   followed by another record inside the tail.  Hash 0 is the empty hash. *)
Inductive seg := SChunks (n : N) | SRoot (h : N).
Record journal := mkJ { j_segs : list seg; j_tail : N; j_loss : bool }.

(* journal.idx: sealed batches (lookups + meta record), then [i_trail] complete
   lookup records without a meta record, possibly a partially written record
   at the end, possibly a record with an unknown tag. *)
Record batch := mkB { b_n : N; b_start : N; b_end : N; b_root : N; b_crc_ok : bool }.
Record index := mkI { i_batches : list batch; i_trail : N; i_partial : bool; i_badtag : bool }.

Inductive manifest := ManBad | ManOk (root : N).

Record dir := mkD {
  d_man : option manifest;          (* "manifest" *)
  d_journal : option journal;       (* "vvvv…v" *)
  d_idx : option index;             (* "journal.idx" *)
  d_lock : bool;                    (* "LOCK" exists *)
  d_oldgen : bool;                  (* "oldgen/" exists *)
  d_other : list N                  (* table files etc.: never touched by the open path *)
}.

Definition empty_journal := mkJ [] 0 false.
Definition empty_index := mkI [] 0 false false.

Definition set_man (d : dir) (m : option manifest) := mkD m (d_journal d) (d_idx d) (d_lock d) (d_oldgen d) (d_other d).
Definition set_journal (d : dir) (j : option journal) := mkD (d_man d) j (d_idx d) (d_lock d) (d_oldgen d) (d_other d).
Definition set_idx (d : dir) (i : option index) := mkD (d_man d) (d_journal d) i (d_lock d) (d_oldgen d) (d_other d).
Definition set_lock (d : dir) (b : bool) := mkD (d_man d) (d_journal d) (d_idx d) b (d_oldgen d) (d_other d).
Definition set_oldgen (d : dir) (b : bool) := mkD (d_man d) (d_journal d) (d_idx d) (d_lock d) b (d_other d).

(* ------------------------------------------------------------------ *)
(* File operations issued by the code                                  *)
Inductive fname := FMan | FJournal | FIdx | FLock | FOldgen | FTmp | FDir.
Inductive fop :=
| OpStat (f : fname)
| OpOpenRO (f : fname)
| OpOpenRW (f : fname) (create existed : bool)     (* os.OpenFile(O_RDWR [|O_CREATE]) *)
| OpRead (f : fname)
| OpTruncate (f : fname)
| OpWrite (f : fname)
| OpFsync (f : fname)
| OpRename (src dst : fname)
| OpCreate (f : fname)
| OpRemove (f : fname)
| OpMkdir (f : fname).

(* does the operation change anything in the directory (content, size,
   existence, mtime)?  Opening read-write does not; O_CREATE does only when the
   file is missing. *)
Definition mutating (o : fop) : bool :=
  match o with
  | OpStat _ | OpOpenRO _ | OpRead _ | OpFsync _ => false
  | OpOpenRW _ create existed => create && negb existed
  | OpTruncate _ | OpWrite _ | OpRename _ _ | OpCreate _ | OpRemove _ | OpMkdir _ => true
  end.

(* ------------------------------------------------------------------ *)
(* journalIndexDefaultMaxNovel: number of novel lookups after which a batch is sealed;
   also the byte size of the bufio.Writer in front of journal.idx
   (bufio.NewWriterSize(wr.index, journalIndexDefaultMaxNovel)) *)
Definition max_novel : N := 16384.
(* indexRecTypeSize + lookupSz: bytes of one lookup record *)
Definition lookup_rec_size : N := 29.
(* more lookups than this written in one go overflow the bufio.Writer: part of
   them is on disk before Close (or an error) *)
Definition idx_buf_lookups : N := max_novel / lookup_rec_size.

(* peekRootHashAt *)
Definition root_at (segs : list seg) (pos h : N) : bool :=
  match nth_error segs (N.to_nat pos) with
  | Some (SRoot h') => h' =? h
  | _ => false
  end.

(* readJournalIndex callback: checksum, contiguity, root hash at batchEnd *)
Fixpoint batches_ok (segs : list seg) (prev : N) (bs : list batch) : bool :=
  match bs with
  | [] => true
  | b :: r => b_crc_ok b && (b_start b =? prev) && root_at segs (b_end b) (b_root b)
              && batches_ok segs (b_end b) r
  end.

Definition index_ok (segs : list seg) (i : index) : bool :=
  batches_ok segs 0 (i_batches i) && negb (i_badtag i).

Definition last_end (bs : list batch) : N := fold_left (fun _ b => b_end b) bs 0.
Definition cached_count (bs : list batch) : N := fold_left (fun a b => a + b_n b) bs 0.

(* processJournalRecords callback over the records from position [pos]:
   latest root, its position, number of chunk records *)
Fixpoint scan (l : list seg) (pos root rpos cnt : N) : N * N * N :=
  match l with
  | [] => (root, rpos, cnt)
  | SChunks n :: r => scan r (pos + 1) root rpos (cnt + n)
  | SRoot h :: r => scan r (pos + 1) h pos cnt
  end.

Definition data_loss (j : journal) : bool := (4 <=? j_tail j) && j_loss j.

(* ------------------------------------------------------------------ *)
(* The open path                                                       *)
Inductive err := ELoss | EManifest.
Inductive view := VErr (e : err) | VOk (root nchunks : N).

(* in-memory journal writer state of a loaded store *)
Record wstate := mkW {
  w_root : N;                 (* ChunkJournal.contents.root *)
  w_has_wr : bool;            (* j.wr != nil *)
  w_indexed : N;              (* wr.indexed *)
  w_novel : N;                (* wr.ranges.novelCount() *)
  w_pb : list batch;          (* sealed batches still (partly) in the bufio.Writer *)
  w_pt : N                    (* buffered lookups without meta *)
}.

Record res := mkR { r_view : view; r_dir : dir; r_ops : list fop; r_w : wstate }.

Definition no_w (root : N) := mkW root false 0 0 [] 0.

(* loadJournalIndex: returns directory, ops, indexed position, cached lookups *)
Definition load_index (can_write : bool) (d : dir) (segs : list seg) : dir * list fop * N * N :=
  match d_idx d with
  | None =>
    if can_write
    then (set_idx d (Some empty_index), [OpStat FIdx; OpOpenRW FIdx true false], 0, 0)
    else (d, [OpStat FIdx], 0, 0)
  | Some i =>
    let o1 := [OpStat FIdx; (if can_write then OpOpenRW FIdx false true else OpOpenRO FIdx); OpRead FIdx] in
    if index_ok segs i
    then (* rewind to the last safe point: only when we hold the lock *)
      if can_write
      then (set_idx d (Some (mkI (i_batches i) 0 false false)), o1 ++ [OpTruncate FIdx],
            last_end (i_batches i), cached_count (i_batches i))
      else (d, o1, last_end (i_batches i), cached_count (i_batches i))
    else (* corruptIndexRecovery *)
      if can_write
      then (set_idx d (Some empty_index), o1 ++ [OpTruncate FIdx], 0, 0)
      else (d, o1, 0, 0)
  end.

(* manifest Update by a lock holder: temp file, rename, directory fsync *)
Definition man_update_ops : list fop :=
  [OpCreate FTmp; OpWrite FTmp; OpFsync FTmp; OpRead FMan; OpRename FTmp FMan; OpFsync FDir].

(* bootstrapJournalWriter when the journal file exists ([created] = it was just
   created by createJournalWriter, which only a lock holder does) *)
Definition bootstrap (can_write created : bool) (d : dir) (j : journal) : res :=
  let o0 := [OpStat FJournal; OpOpenRW FJournal created (negb created)] in
  let segs := j_segs j in
  let '(d1, o1, indexed, cached) := load_index can_write d segs in
  let '(root, rpos, novel) := scan (skipn (N.to_nat indexed) segs) indexed 0 0 0 in
  (* re-indexing writes one lookup per chunk record into the bufio.Writer while the
     records are replayed (lock holders only): a long replay spills to disk, leaving
     an incomplete trailing batch there, before possible data loss is even detected *)
  let spill := can_write && (idx_buf_lookups <? novel) in
  let d1s := if spill
             then set_idx d1 (match d_idx d1 with
                              | Some i => Some (mkI (i_batches i) 0 true false)
                              | None => None end)
             else d1 in
  let o2 := o0 ++ o1 ++ [OpRead FJournal] ++ (if spill then [OpWrite FIdx] else []) in
  if data_loss j then mkR (VErr ELoss) d1s o2 (no_w 0)
  else
    (* tryTruncate *)
    let '(d2, o3) := if can_write
                     then (set_journal d1s (Some (mkJ segs 0 false)), o2 ++ [OpTruncate FJournal; OpFsync FJournal])
                     else (d1s, o2) in
    (* save bootstrap progress: flushIndexRecord (into the bufio.Writer) *)
    let seal := can_write && (max_novel <? novel) in
    let d3 := d2 in
    let o4 := o3 in
    let w0 := if seal
              then mkW root true rpos 0 [mkB novel indexed rpos root true] 0
              else mkW root true indexed novel [] (if can_write then novel else 0) in
    let nch := cached + novel in
    if root =? 0 then
      (* no root record yet: fall back to the manifest root *)
      match d_man d3 with
      | None => mkR (VOk 0 nch) d3 (o4 ++ [OpRead FMan]) w0
      | Some ManBad => mkR (VErr EManifest) d3 (o4 ++ [OpRead FMan]) (no_w 0)
      | Some (ManOk r) =>
        if can_write
        then mkR (VOk r nch) (set_journal d3 (Some (mkJ (segs ++ [SRoot r]) 0 false)))
                 (o4 ++ [OpRead FMan; OpWrite FJournal; OpFsync FJournal])
                 (mkW r true (w_indexed w0) (w_novel w0) (w_pb w0) (w_pt w0))
        else mkR (VOk r nch) d3 (o4 ++ [OpRead FMan]) (mkW r true (w_indexed w0) (w_novel w0) (w_pb w0) (w_pt w0))
      end
    else
      (* trueUpBackingManifest *)
      match d_man d3 with
      | None => mkR (VOk 0 nch) d3 (o4 ++ [OpRead FMan]) (mkW 0 true (w_indexed w0) (w_novel w0) (w_pb w0) (w_pt w0))
      | Some ManBad => mkR (VErr EManifest) d3 (o4 ++ [OpRead FMan]) (no_w 0)
      | Some (ManOk _) =>
        if can_write
        then mkR (VOk root nch) (set_man d3 (Some (ManOk root))) (o4 ++ [OpRead FMan] ++ man_update_ops) w0
        else mkR (VOk root nch) d3 (o4 ++ [OpRead FMan]) w0
      end.

(* the lazy loadThunk: newJournalManifest, newChunkJournal (bootstraps only when
   the journal file exists), rebase *)
Definition open_load (can_write : bool) (d : dir) : res :=
  match d_man d with
  | Some ManBad => mkR (VErr EManifest) d [OpOpenRO FMan; OpRead FMan] (no_w 0)
  | m =>
    let o0 := [OpOpenRO FMan; OpRead FMan; OpStat FJournal] in
    match d_journal d with
    | None =>
      let r := match m with Some (ManOk r) => r | _ => 0 end in
      mkR (VOk r 0) d o0 (no_w r)
    | Some j =>
      let b := bootstrap can_write false d j in
      mkR (r_view b) (r_dir b) (o0 ++ r_ops b) (r_w b)
    end
  end.

(* ------------------------------------------------------------------ *)
(* The lock protocol                                                   *)
Inductive omode := MFailFast | MFallback.
Inductive step := SOpen (m : omode) | SLoad | SWrite (h : N) | SClose.

Inductive lstate := LNot | LOk (w : wstate) | LFail.
Inductive pstate := PClosed | POpen (rw : bool) (l : lstate).

Record sys := mkS { s_dir : dir; s_lock : option N; s_proc : N -> pstate }.

Definition upd (f : N -> pstate) (p : N) (v : pstate) : N -> pstate :=
  fun q => if q =? p then v else f q.

(* result codes *)
Definition c_ok := 0.  Definition c_rw := 1.  Definition c_ro := 2.  Definition c_err_locked := 3.
Definition c_err_readonly := 4.  Definition c_err_load := 5.  Definition c_bad := 9.

Record out := mkO { o_sys : sys; o_code : N; o_root : N; o_fops : list fop }.

(* fslock.Lock.open: O_CREATE|O_RDWR on LOCK, whatever the outcome of flock *)
Definition lock_open_ops (d : dir) : list fop := [OpOpenRW FLock true (d_lock d)].
(* CreateDbNoCache: mkdir oldgen when missing — not guarded by the access mode *)
Definition oldgen_ops (d : dir) : list fop := if d_oldgen d then [OpStat FOldgen] else [OpStat FOldgen; OpMkdir FOldgen].

(* ensureLoad for a process that is open and not yet loaded *)
Definition do_load (s : sys) (p : N) (rw : bool) : sys * lstate * list fop :=
  let r := open_load rw (s_dir s) in
  match r_view r with
  | VErr _ =>
    (* a failed load closes the manifest: the lock (if held) is released *)
    (mkS (r_dir r) (if rw then None else s_lock s) (upd (s_proc s) p (POpen rw LFail)), LFail, r_ops r)
  | VOk _ _ =>
    (mkS (r_dir r) (s_lock s) (upd (s_proc s) p (POpen rw (LOk (r_w r)))), LOk (r_w r), r_ops r)
  end.

(* Put + Commit by a loaded lock holder *)
Definition do_write (d : dir) (w : wstate) (h : N) : dir * wstate * list fop :=
  (* maybeInit: create the journal on first write *)
  let '(d1, w1, o1, created) :=
    if w_has_wr w then (d, w, [], false)
    else let b := bootstrap true true (set_journal d (Some empty_journal)) empty_journal in
         (r_dir b, r_w b, r_ops b, true) in
  match d_journal d1 with
  | None => (d1, w1, o1)            (* unreachable: a holder's journal is never removed *)
  | Some j =>
    let pos := N.of_nat (length (j_segs j)) + 1 in      (* position of the new root record *)
    let d2 := set_journal d1 (Some (mkJ (j_segs j ++ [SChunks 1; SRoot h]) (j_tail j) (j_loss j))) in
    (* a new table-file set (the journal itself, first time) is flushed to the manifest *)
    let '(d3, o2) := if created then (set_man d2 (Some (ManOk h)), man_update_ops) else (d2, []) in
    let novel := w_novel w1 + 1 in
    let w2 := if max_novel <? novel
              then mkW h true pos 0 (w_pb w1 ++ [mkB (w_pt w1 + 1) (w_indexed w1) pos h true]) 0
              else mkW h true (w_indexed w1) novel (w_pb w1) (w_pt w1 + 1) in
    (d3, w2, o1 ++ o2 ++ [OpWrite FJournal; OpFsync FJournal])
  end.

(* ChunkJournal.Close of a lock holder: flush the index writer, flush the root to the manifest *)
Definition close_rw (d : dir) (w : wstate) : dir * list fop :=
  if w_has_wr w then
    let pending := negb (match w_pb w with [] => true | _ => false end) || negb (w_pt w =? 0) in
    let d1 := match d_idx d with
              | Some i => if pending
                          then set_idx d (Some (mkI (i_batches i ++ w_pb w)
                                                    ((match w_pb w with [] => i_trail i | _ => 0 end) + w_pt w)
                                                    false (i_badtag i)))
                          else d
              | None => d
              end in
    (set_man d1 (Some (ManOk (w_root w))),
     (if pending then [OpWrite FIdx] else []) ++ [OpFsync FJournal; OpRead FMan] ++ man_update_ops)
  else (d, []).

Definition do_step (s : sys) (p : N) (st : step) : out :=
  let d := s_dir s in
  match st, s_proc s p with
  | SOpen m, PClosed =>
    (* newJournalLock happens first, before anything is read *)
    let lops := lock_open_ops d in
    match s_lock s with
    | None =>
      let d1 := set_oldgen (set_lock d true) true in
      mkO (mkS d1 (Some p) (upd (s_proc s) p (POpen true LNot))) c_rw 0 (lops ++ oldgen_ops d)
    | Some _ =>
      let d0 := set_lock d true in
      match m with
      | MFailFast => mkO (mkS d0 (s_lock s) (s_proc s)) c_err_locked 0 lops
      | MFallback =>
        let d1 := set_oldgen d0 true in
        mkO (mkS d1 (s_lock s) (upd (s_proc s) p (POpen false LNot))) c_ro 0 (lops ++ oldgen_ops d)
      end
    end
  | SOpen _, POpen _ _ => mkO s c_bad 0 []
  | _, PClosed => mkO s c_bad 0 []
  | SLoad, POpen rw LNot =>
    let '(s1, l, ops) := do_load s p rw in
    match l with
    | LOk w => mkO s1 c_ok (w_root w) ops
    | _ => mkO s1 c_err_load 0 ops
    end
  | SLoad, POpen _ (LOk w) => mkO s c_ok (w_root w) []
  | SLoad, POpen _ LFail => mkO s c_err_load 0 []
  | SWrite h, POpen rw l =>
    let '(s1, l1, ops) := match l with LNot => do_load s p rw | _ => (s, l, []) end in
    match l1 with
    | LOk w =>
      if rw then
        let '(d2, w2, o2) := do_write (s_dir s1) w h in
        mkO (mkS d2 (s_lock s1) (upd (s_proc s1) p (POpen true (LOk w2)))) c_ok h (ops ++ o2)
      else mkO s1 c_err_readonly 0 ops                      (* errReadOnlyManifest *)
    | _ => mkO s1 c_err_load 0 ops
    end
  | SClose, POpen rw l =>
    let '(d1, ops) := match rw, l with
                      | true, LOk w => close_rw d w
                      | false, LOk w => (d, if w_has_wr w then [OpFsync FJournal] else [])
                      | _, _ => (d, [])
                      end in
    let holder := match s_lock s with Some q => q =? p | None => false end in
    mkO (mkS d1 (if holder then None else s_lock s) (upd (s_proc s) p PClosed)) c_ok 0 ops
  end.

Fixpoint run (s : sys) (sched : list (N * step)) : sys :=
  match sched with
  | [] => s
  | (p, st) :: r => run (o_sys (do_step s p st)) r
  end.

Definition init_sys (d : dir) : sys := mkS d None (fun _ => PClosed).

(* a process is in writer mode when its store reports Exclusive and can still act *)
Definition is_writer (s : sys) (p : N) : bool :=
  match s_proc s p with
  | POpen true LNot | POpen true (LOk _) => true
  | _ => false
  end.

Definition is_reader (s : sys) (p : N) : bool :=
  match s_proc s p with
  | POpen false _ => true
  | _ => false
  end.
