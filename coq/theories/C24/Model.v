(* C24 — Sql/Constraints: the transaction machine of C23 with declared constraints on
   t(pk, a, b): PRIMARY KEY(pk) (inherent in the key -> row map), UNIQUE KEY ua(a)
   (NULLs never collide), CHECK (a <= b) (NULL passes).  No proofs here.

   Mirrors:
     go-mysql-server statement-level enforcement, as an oracle: a statement whose
       result would violate a constraint is rejected and has no effect ("rejecting writer";
       sqle/writer/prolly_table_writer.go ValidateKeyViolations / checkForUniqueKeyErr);
     sqle/dsess/transactions.go doCommit: ff => install; else mergeRoots, then
       validateWorkingSetForCommit: conflicts => rollback + retryable error; constraint
       violations recorded by the merge (merge/merge_prolly_rows.go uniqValidator,
       checkValidator; violations_*.go) => rollback + ErrUnresolvedConstraintViolationsCommit
       (dolt_force_transaction_commit = 0).
   Abstracted: NOT NULL and FOREIGN KEY constraints (not declared on the case table),
   dolt_force_transaction_commit / disabled checks, branch merges (dolt_merge) that
   record violations in dolt_constraint_violations instead of rejecting. *)
From Coq Require Import NArith List Bool.
From Dolt Require Import C23.Model.
Import ListNotations.
Local Open Scope N_scope.

Definition check_ok (r : row) : bool :=
  match fst r, snd r with Some x, Some y => x <=? y | _, _ => true end.
Definition clash (r1 r2 : row) : bool :=
  match fst r1, fst r2 with Some x, Some y => x =? y | _, _ => false end.

Section Universe.
  Variable U : list N.

  (* all declared constraints hold in table t *)
  Definition valid (t : table) : bool :=
    forallb (fun k => match get U t k with
                      | None => true
                      | Some r => check_ok r &&
                                  forallb (fun k' => (k' =? k) || match get U t k' with
                                                                  | Some r' => negb (clash r r')
                                                                  | None => true
                                                                  end) U
                      end) U.

  (* rejecting writer *)
  Definition exec_c (st : stmt) (t : table) : sobs * table :=
    let '(o, t') := exec_dml U st t in
    if so_err o =? err_none then (if valid t' then (o, t') else (obs_err err_constraint, t))
    else (o, t).

  (* merge/merge_prolly_rows.go uniqValidator.validateDiff, as it is: the diffs are visited in
     primary-key order against a copy of the LEFT (persisted) unique index that only grows —
     insertRow adds the entry of a merged row, the old entry of a modified row is never
     removed, only a right-side DELETE removes its entry (removeRow).  A right add / modify
     whose non-NULL value has an entry under another primary key is recorded as a unique
     violation.  Consequence (observed on the engine, seed 2 of the generator): a transaction
     that moves a unique value from one row to another (row 3: a 0 -> 1, new row 1: a = 0) is
     refused with a constraint-violation error although the merged table is valid.
     E = entries (a, pk); l = persisted table; m = merged table. *)
  Definition collide (E : list (cell * N)) (a : cell) (k : N) : bool :=
    match a with
    | None => false
    | Some _ => existsb (fun e => cell_eqb (fst e) a && negb (snd e =? k)) E
    end.

  Fixpoint uscan (keys : list N) (l m : table) (E : list (cell * N)) : bool :=
    match keys with
    | [] => false
    | k :: ks =>
      if orow_eqb (get U l k) (get U m k) then uscan ks l m E          (* no right edit at k *)
      else match get U m k with
           | None =>                                                   (* DiffOpRightDelete *)
             uscan ks l m (filter (fun e => negb (snd e =? k)) E)
           | Some r =>                                                 (* RightAdd / RightModify / DivergentModifyResolved *)
             collide E (fst r) k || uscan ks l m ((fst r, k) :: E)
           end
    end.

  Definition entries_of (t : table) : list (cell * N) :=
    flat_map (fun k => match get U t k with Some r => [(fst r, k)] | None => [] end) U.

  (* doCommit with validateWorkingSetForCommit: new persisted state and error class.
     The whole merged table is re-validated as well ([valid m]): for uniqueness this is
     implied by [uscan] finding nothing (not proved here), for CHECK it is checkValidator. *)
  Definition commit_c (h s w : table) : table * N :=
    if table_eqb U h s then (w, err_none)
    else let '(m, c) := merge_tables U s h w in
         if c then (h, err_retry)
         else if uscan U h m (entries_of h) then (h, err_constraint)
         else if valid m then (m, err_none)
         else (h, err_constraint).

  Definition commit_sess_c (i : N) (w : world) : N * world :=
    let s := w_ss w i in
    let '(h', e) := commit_c (w_head w) (s_snap s) (s_work s) in
    (e, {| w_head := h'; w_ss := upd (w_ss w) i (s_end s) |}).

  Definition cstep (i : N) (st : stmt) (w : world) : sobs * world :=
    let s := w_ss w i in
    match st with
    | SCommit =>
      if s_active s then let '(e, w') := commit_sess_c i w in (if e =? err_none then obs_ok else obs_err e, w')
      else (obs_ok, w)
    | SRollback => (obs_ok, {| w_head := w_head w; w_ss := upd (w_ss w) i (s_end s) |})
    | SBegin =>
      if s_active s then
        let '(e, w') := commit_sess_c i w in
        if e =? err_none then (obs_ok, {| w_head := w_head w'; w_ss := upd (w_ss w') i (s_begin s (w_head w')) |})
        else (obs_err e, w')
      else (obs_ok, {| w_head := w_head w; w_ss := upd (w_ss w) i (s_begin s (w_head w)) |})
    | _ =>
      let implicit := negb (s_active s) in
      let s1 := ensure_txn s (w_head w) in
      let '(o, t') := exec_c st (s_work s1) in
      let w1 := {| w_head := w_head w; w_ss := upd (w_ss w) i (s_with_work s1 t') |} in
      if implicit && s_auto s then
        let '(e, w2) := commit_sess_c i w1 in (if e =? err_none then o else obs_err e, w2)
      else (o, w1)
    end.

  (* run, recording the committed table after every statement *)
  Fixpoint crun (sched : list (N * stmt)) (w : world) : list (sobs * list (N * cell * cell)) * world :=
    match sched with
    | [] => ([], w)
    | (i, st) :: rest =>
      let '(o, w1) := cstep i st w in
      let '(os, w2) := crun rest w1 in
      ((o, dump U (w_head w1)) :: os, w2)
    end.
End Universe.
