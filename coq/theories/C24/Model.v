(* C24 — Sql/Constraints: the transaction machine of C23 over a two-table database with
   declared constraints, and the branch merge that records violations.  No proofs here.

     p(pk PRIMARY KEY, a int NOT NULL, b int)
     t(pk PRIMARY KEY, a int, b int, UNIQUE KEY ua(a), CHECK (a <= b),
       FOREIGN KEY (b) REFERENCES p(pk))                       -- ON DELETE RESTRICT (default)

   Both tables live in one key -> row map: keys >= 100 are rows of p (pk = key - 100), keys
   below are rows of t.  PRIMARY KEY is inherent in the map.  NULLs never collide in the unique
   key, a NULL passes the CHECK, a NULL foreign key references nothing.

   Mirrors:
     statement-level enforcement (go-mysql-server + sqle/writer): NOT modelled as code; it is an
       explicit oracle [ex : session -> stmt -> table -> result * table] in the machine.  The
       correspondence instantiates it with the rejecting writer [exec_c] (a statement whose
       result would break a constraint is refused and has no effect).
     sqle/dsess/transactions.go doCommit / validateWorkingSetForCommit: ff => install; else merge
       (merge.MergeRoots); conflicts => rollback + retryable error; violations recorded by the
       merge => rollback + ErrUnresolvedConstraintViolationsCommit (dolt_force_transaction_commit = 0).
     merge/merge_prolly_rows.go uniqValidator.validateDiff / clearArtifact  [uscan, urec]
                                checkValidator / nullValidator.validateDiff [rowscan]
     merge/violations_fk.go RegisterForeignKeyViolations, violations_fk_prolly.go:
                                child diff base->merged (added / modified): parent must exist;
                                parent diff base->merged (removed): no child may reference it [fkscan]
     dolt_merge with @@dolt_force_transaction_commit = 1: the same validators, violations kept in
       dolt_constraint_violations_<table>                                                [recorded]

   Abstracted: ON DELETE / ON UPDATE CASCADE, SET NULL; several unique keys; schema changes
   (NOT NULL added on one branch); foreign_key_checks = 0 is outside the enforcement
   hypothesis (explicit exception in the theorem). *)
From Coq Require Import NArith List Bool.
From Dolt Require Import C23.Model.
Import ListNotations.
Local Open Scope N_scope.

Definition pbase : N := 100.
Definition is_parent (k : N) : bool := pbase <=? k.

Definition check_ok (r : row) : bool :=
  match fst r, snd r with Some x, Some y => x <=? y | _, _ => true end.
Definition notnull_ok (r : row) : bool := match fst r with Some _ => true | None => false end.
(* row-local constraints: CHECK for t, NOT NULL for p *)
Definition row_ok (k : N) (r : row) : bool := if is_parent k then notnull_ok r else check_ok r.
Definition clash (r1 r2 : row) : bool :=
  match fst r1, fst r2 with Some x, Some y => x =? y | _, _ => false end.

(* violation types of dolt_constraint_violations_<table>.violation_type *)
Definition vt_fk : N := 1.
Definition vt_unique : N := 2.
Definition vt_check : N := 3.
Definition vt_notnull : N := 4.

Section Universe.
  Variable U : list N.

  Definition fk_ok_row (t : table) (k : N) (r : row) : bool :=
    if is_parent k then true
    else match snd r with
         | None => true
         | Some x => match get U t (pbase + x) with Some _ => true | None => false end
         end.

  (* all declared constraints hold in database state t *)
  Definition valid (t : table) : bool :=
    forallb (fun k => match get U t k with
                      | None => true
                      | Some r =>
                        row_ok k r && fk_ok_row t k r &&
                        forallb (fun k' => (k' =? k) || is_parent k || is_parent k' ||
                                           match get U t k' with
                                           | Some r' => negb (clash r r')
                                           | None => true
                                           end) U
                      end) U.

  (* the rejecting writer: the instance of the enforcement oracle used by the correspondence *)
  Definition exec_c (i : N) (st : stmt) (t : table) : sobs * table :=
    let '(o, t') := exec_dml U st t in
    if so_err o =? err_none then (if valid t' then (o, t') else (obs_err err_constraint, t))
    else (o, t).

  (* ---------------------------------------------------------------- *)
  (* merge-time validators.  b = merge base, l = left (persisted / ours), m = merged rows *)

  (* uniqValidator.validateDiff, as it is: the diffs are visited in primary-key order against a
     copy of the LEFT unique index that only grows — insertRow adds the entry of a merged row,
     the old entry of a modified row is never removed (stale entry), only a right-side DELETE
     removes its entry.  A right add / modify whose non-NULL value has an entry under another
     primary key is a unique violation.  Documented quirk: a merge that moves a unique value from
     one row to another (row 3: a 0 -> 1, new row 1: a = 0) reports a violation although the
     merged table is valid. *)
  Definition collide (E : list (cell * N)) (a : cell) (k : N) : bool :=
    match a with
    | None => false
    | Some _ => existsb (fun e => cell_eqb (fst e) a && negb (snd e =? k)) E
    end.

  Fixpoint uscan (keys : list N) (l m : table) (E : list (cell * N)) : bool :=
    match keys with
    | [] => false
    | k :: ks =>
      if is_parent k then uscan ks l m E
      else if orow_eqb (get U l k) (get U m k) then uscan ks l m E      (* no right edit at k *)
      else match get U m k with
           | None => uscan ks l m (filter (fun e => negb (snd e =? k)) E)   (* DiffOpRightDelete *)
           | Some r => collide E (fst r) k || uscan ks l m ((fst r, k) :: E)
           end
    end.

  Definition entries_of (t : table) : list (cell * N) :=
    flat_map (fun k => if is_parent k then [] else
                       match get U t k with Some r => [(fst r, k)] | None => [] end) U.

  (* the same scan keeping the artifacts (keys with a recorded unique violation), including
     clearArtifact on a right-side delete and the re-validation of left-side edits *)
  Definition colliders (E : list (cell * N)) (a : cell) (k : N) : list N :=
    match a with
    | None => []
    | Some _ => map snd (filter (fun e => cell_eqb (fst e) a && negb (snd e =? k)) E)
    end.
  Definition memN (k : N) (l : list N) : bool := existsb (N.eqb k) l.
  Definition addN (k : N) (l : list N) : list N := if memN k l then l else k :: l.
  Definition delN (k : N) (l : list N) : list N := filter (fun x => negb (x =? k)) l.

  Fixpoint urec (keys : list N) (b l m : table) (E : list (cell * N)) (A : list N) : list N :=
    match keys with
    | [] => A
    | k :: ks =>
      if is_parent k then urec ks b l m E A
      else if orow_eqb (get U l k) (get U m k) then
        (* no right edit; a left add / modify is validated too *)
        match get U l k with
        | Some r =>
          if orow_eqb (get U b k) (get U l k) then urec ks b l m E A
          else let cs := colliders E (fst r) k in
               urec ks b l m E (match cs with [] => A | _ => fold_right addN (addN k A) cs end)
        | None => urec ks b l m E A
        end
      else match get U m k with
           | None =>
             let E' := filter (fun e => negb (snd e =? k)) E in
             let A' := if memN k A
                       then fold_right delN (delN k A)
                                       (colliders E' (match get U l k with Some r => fst r | None => None end) k)
                       else A in
             urec ks b l m E' A'
           | Some r =>
             let cs := colliders E (fst r) k in
             urec ks b l m ((fst r, k) :: E) (match cs with [] => A | _ => fold_right addN (addN k A) cs end)
           end
    end.

  (* merge.MergeTable short-circuit: a table unchanged on one side since the base is taken from
     the other side as a whole; the row validators (unique / check / not null) run only for a
     table changed on BOTH sides.  par = true: table p, false: table t. *)
  Definition tbl_same (par : bool) (x y : table) : bool :=
    forallb (fun k => negb (Bool.eqb (is_parent k) par) || orow_eqb (get U x k) (get U y k)) U.
  Definition both_changed (par : bool) (b l r : table) : bool :=
    negb (tbl_same par b l) && negb (tbl_same par b r).

  (* checkValidator / nullValidator: edited rows (relative to the base) that break a row-local constraint *)
  Definition row_bad (b m : table) (k : N) : bool :=
    negb (orow_eqb (get U b k) (get U m k)) &&
    match get U m k with Some r => negb (row_ok k r) | None => false end.
  Definition rowscan (b l r m : table) : bool :=
    existsb (fun k => both_changed (is_parent k) b l r && row_bad b m k) U.

  (* foreign key violations of the diff base -> merged: keys of child rows *)
  Definition fk_bad_child (b m : table) (k : N) : bool :=     (* child added / modified without a parent *)
    negb (is_parent k) && negb (orow_eqb (get U b k) (get U m k)) &&
    match get U m k with Some r => negb (fk_ok_row m k r) | None => false end.
  Definition parent_removed (b m : table) (pk : N) : bool :=
    is_parent pk && match get U b pk, get U m pk with Some _, None => true | _, _ => false end.
  Definition fk_bad_orphan (b m : table) (k : N) : bool :=    (* child of a removed parent *)
    negb (is_parent k) &&
    match get U m k with
    | Some r => match snd r with
                | Some x => parent_removed b m (pbase + x)
                | None => false
                end
    | None => false
    end.
  Definition fk_bad (b m : table) (k : N) : bool := fk_bad_child b m k || fk_bad_orphan b m k.
  Definition fkscan (b m : table) : bool := existsb (fk_bad b m) U.

  Definition uniq_b (t : table) : bool :=
    forallb (fun k => match get U t k with
                      | None => true
                      | Some r => forallb (fun k' => (k' =? k) || is_parent k || is_parent k' ||
                                                     match get U t k' with
                                                     | Some r' => negb (clash r r')
                                                     | None => true
                                                     end) U
                      end) U.
  Definition is_nil {A} (l : list A) : bool := match l with [] => true | _ => false end.

  (* doCommit with validateWorkingSetForCommit: new persisted state and error class.
     The unique validator's verdict is "artifacts left at the end of the scan" ([urec], with
     clearArtifact: a collision seen at a low key is forgotten when the colliding row is deleted
     at a higher key).  That an empty artifact set implies uniqueness of the merged table is NOT
     proved (see Proofs.v, urec_empty_unique: open); the model therefore also re-validates
     uniqueness of the merged table ([uniq_b m]) — on the implementation this second test has
     never decided a case (the correspondence would show it as a mismatch). *)
  Definition commit_c (h s w : table) : table * N :=
    if table_eqb U h s then (w, err_none)
    else let '(m, c) := merge_tables U s h w in
         if c then (h, err_retry)
         else if (both_changed false s h w && negb (is_nil (urec U s h m (entries_of h) [])))
                 || rowscan s h w m || fkscan s m || negb (uniq_b m)
              then (h, err_constraint)
         else (m, err_none).

  (* ---------------------------------------------------------------- *)
  (* the machine, generic in the statement-enforcement oracle          *)
  Section Machine.
    Variable ex : N -> stmt -> table -> sobs * table.

    Definition commit_sess_c (i : N) (w : world) : N * world :=
      let s := w_ss w i in
      let '(h', e) := commit_c (w_head w) (s_snap s) (s_work s) in
      (e, {| w_head := h'; w_ss := upd (w_ss w) i (s_end s) |}).

    Definition cstep (i : N) (st : stmt) (w : world) : sobs * world :=
      let s := w_ss w i in
      match st with
      | SCommit =>
        if s_active s then let '(e, w') := commit_sess_c i w in (if e =? err_none then obs_ok else obs_err e, w')
        else (obs_ok, w)
      | SRollback => (obs_ok, {| w_head := w_head w; w_ss := upd (w_ss w) i (s_end s) |})
      | SBegin =>
        if s_active s then
          let '(e, w') := commit_sess_c i w in
          if e =? err_none then (obs_ok, {| w_head := w_head w'; w_ss := upd (w_ss w') i (s_begin s (w_head w')) |})
          else (obs_err e, w')
        else (obs_ok, {| w_head := w_head w; w_ss := upd (w_ss w) i (s_begin s (w_head w)) |})
      | _ =>
        let implicit := negb (s_active s) in
        let s1 := ensure_txn s (w_head w) in
        let '(o, t') := ex i st (s_work s1) in
        let w1 := {| w_head := w_head w; w_ss := upd (w_ss w) i (s_with_work s1 t') |} in
        if implicit && s_auto s then
          let '(e, w2) := commit_sess_c i w1 in (if e =? err_none then o else obs_err e, w2)
        else (o, w1)
      end.

    (* run, recording the committed database after every statement *)
    Fixpoint crun (sched : list (N * stmt)) (w : world) : list (sobs * list (N * cell * cell)) * world :=
      match sched with
      | [] => ([], w)
      | (i, st) :: rest =>
        let '(o, w1) := cstep i st w in
        let '(os, w2) := crun rest w1 in
        ((o, dump U (w_head w1)) :: os, w2)
      end.
  End Machine.

  (* ---------------------------------------------------------------- *)
  (* dolt_merge with @@dolt_force_transaction_commit = 1: merged rows, "has conflicts", and the
     recorded violations (type, key), listed by type then in key order of U *)
  Definition recorded (b l r m : table) : list (N * N) :=
    let A := if both_changed false b l r then urec U b l m (entries_of l) [] else [] in
    map (fun k => (vt_fk, k)) (filter (fk_bad b m) U)
    ++ map (fun k => (vt_unique, k)) (filter (fun k => memN k A) U)
    ++ map (fun k => (vt_check, k)) (filter (fun k => negb (is_parent k) && both_changed false b l r && row_bad b m k) U)
    ++ map (fun k => (vt_notnull, k)) (filter (fun k => is_parent k && both_changed true b l r && row_bad b m k) U).

  Definition branch_merge (b l r : table) : table * bool * list (N * N) :=
    let '(m, c) := merge_tables U b l r in (m, c, recorded b l r m).

  (* a branch: the statements of one side applied in one session *)
  Fixpoint apply_stmts (sts : list stmt) (t : table) : list sobs * table :=
    match sts with
    | [] => ([], t)
    | st :: r => let '(o, t1) := exec_c 0 st t in
                 let '(os, t2) := apply_stmts r t1 in (o :: os, t2)
    end.
End Universe.
