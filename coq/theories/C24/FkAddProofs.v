(* C24 — proofs for the fkadd correspondence (C24/Corr2.v): the FOREIGN KEY t(b) -> p(b) references a
   non-pk column by VALUE and is new in the merge.  The model's violation set is exactly the set of child
   rows whose referenced value has no parent row carrying that value; a NULL reference references nothing. *)
From Coq Require Import NArith List Bool.
From Dolt Require Import C23.Model C23.Proofs C24.Model C24.Corr C24.Corr2.
Import ListNotations.
Local Open Scope N_scope.

Lemma has_parent_b_spec (rws : rows) (x : N) :
  has_parent_b rws x = true <-> exists pk pa, In (pk, pa, Some x) rws /\ is_parent pk = true.
Proof.
  unfold has_parent_b. rewrite existsb_exists. split.
  - intros [[[pk pa] pb] [Hin H]]. apply andb_true_iff in H as [Hp Hb].
    destruct (cell_eqb_spec pb (Some x)) as [->|]; [|discriminate].
    exists pk, pa. split; assumption.
  - intros [pk [pa [Hin Hp]]]. exists (pk, pa, Some x). split; [exact Hin|].
    rewrite Hp. cbn [andb]. destruct (cell_eqb_spec (Some x) (Some x)); congruence.
Qed.

(* (1) both inclusions: k is reported  <->  k is a child row whose non-NULL reference x has no parent row with b = x *)
Theorem fkadd_dangling_exact (rws : rows) (k : N) :
  In k (fkb_viols rws) <->
  exists a x, In (k, a, Some x) rws /\ is_parent k = false
              /\ ~ (exists pk pa, In (pk, pa, Some x) rws /\ is_parent pk = true).
Proof.
  unfold fkb_viols. rewrite in_flat_map. split.
  - intros [[[k' a] b] [Hin Hk]].
    destruct (is_parent k') eqn:Hp; [destruct Hk|].
    destruct b as [x|]; [|destruct Hk].
    destruct (has_parent_b rws x) eqn:Hh; [destruct Hk|].
    destruct Hk as [<-|[]]. exists a, x. split; [exact Hin|]. split; [exact Hp|].
    intros Hex. apply has_parent_b_spec in Hex. congruence.
  - intros [a [x [Hin [Hp Hno]]]]. exists (k, a, Some x). split; [exact Hin|].
    rewrite Hp. destruct (has_parent_b rws x) eqn:Hh.
    + exfalso. apply Hno. apply has_parent_b_spec. exact Hh.
    + left. reflexivity.
Qed.

(* a NULL reference is never reported, a parent row is never reported *)
Corollary fkadd_null_exempt (rws : rows) (k : N) :
  In k (fkb_viols rws) -> exists a x, In (k, a, Some x) rws /\ is_parent k = false.
Proof. intros H. apply fkadd_dangling_exact in H as [a [x [H1 [H2 _]]]]. exists a, x. split; assumption. Qed.

Lemma forallb_mem_self (l : list N) : forallb (fun k => existsb (N.eqb k) l) l = true.
Proof.
  apply forallb_forall. intros k Hin. apply existsb_exists. exists k. split; [exact Hin | apply N.eqb_refl].
Qed.

(* (2) the oracle accepts the model's own observation, for every input *)
Theorem fkadd_oracle_on_model (i : fk_input) : fk_oracle i (fk_model i) = true.
Proof.
  unfold fk_oracle, fk_model. cbn [fo_fk]. rewrite forallb_mem_self. apply orb_true_r.
Qed.

Lemma ns_eqb_refl (l : list N) : ns_eqb l l = true.
Proof. induction l as [|x l IH]; [reflexivity|]. cbn [ns_eqb]. rewrite N.eqb_refl, IH. reflexivity. Qed.

(* ... and the check of a case made of the model's own observation is 0 *)
Theorem fkadd_check_on_model (i : fk_input) : check_any (F2 (i, fk_model i)) = 0.
Proof.
  unfold check_any, fk_obs_eqb. rewrite ns_eqb_refl, orb_true_r, fkadd_oracle_on_model. reflexivity.
Qed.

(* (3) a non-empty dangling set: the other branch moved parent 101's referenced value 1 -> 3 and child 1 still
   references 1; child 2 references an existing value, child 3 references nothing (NULL) *)
Example ex_fkadd_dangling :
  fkb_viols [(1, Some 0, Some 1); (2, Some 1, Some 2); (3, None, None); (101, Some 0, Some 3); (102, Some 1, Some 2)] = [1].
Proof. vm_compute. reflexivity. Qed.
