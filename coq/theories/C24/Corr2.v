(* C24 — correspondence for merges in which the FOREIGN KEY (and the indexes it needs) is NEW in the merge:
   the base has no foreign key; one branch adds UNIQUE p(b) and FOREIGN KEY t(b) -> p(b) (a reference to a
   non-pk column), the other branch — not bound by it yet — changes parent and child rows.
   What a merge does to the ROWS is C29's subject: the merged rows are taken from the implementation; the
   model is the set of child rows of the merged data whose reference has no parent, which is what the merge
   has to record as foreign key violations (C24.Proofs.fk_bad_exact proves diff-wise detection = this set
   for the pk-referencing FK of the main model). *)
From Coq Require Import NArith List Bool.
From Dolt Require Import C23.Model C23.Corr C24.Model C24.Spec C24.Corr.
Import ListNotations.
Local Open Scope N_scope.

Definition rows := list (N * cell * cell).
Record fk_input := { f_merged : rows; f_merr : N }.
Record fk_obs := { fo_fk : list N }.          (* keys of rows recorded with violation type "foreign key" *)

Definition has_parent_b (rws : rows) (x : N) : bool :=
  existsb (fun r => let '(k, _, b) := r in is_parent k && cell_eqb b (Some x)) rws.
Definition fkb_viols (rws : rows) : list N :=
  flat_map (fun r => let '(k, _, b) := r in
                     if is_parent k then []
                     else match b with
                          | Some x => if has_parent_b rws x then [] else [k]
                          | None => []
                          end) rws.

Definition fk_model (i : fk_input) : fk_obs := {| fo_fk := fkb_viols (f_merged i) |}.

Fixpoint ns_eqb (x y : list N) : bool :=
  match x, y with [], [] => true | a :: x', b :: y' => (a =? b) && ns_eqb x' y' | _, _ => false end.
Definition fk_obs_eqb (x y : fk_obs) : bool := ns_eqb (fo_fk x) (fo_fk y).

(* every child row of the merged data without a parent is on record as a foreign key violation *)
Definition fk_oracle (i : fk_input) (o : fk_obs) : bool :=
  negb (f_merr i =? 0) || forallb (fun k => existsb (N.eqb k) (fo_fk o)) (fkb_viols (f_merged i)).

Inductive acase := F1 (c : C24.Corr.case) | F2 (c : fk_input * fk_obs).
Definition check_any (c : acase) : N :=
  match c with
  | F1 c => C24.Corr.check_case c
  | F2 (i, o) => (if negb (f_merr i =? 0) || fk_obs_eqb (fk_model i) o then 0 else 1) + (if fk_oracle i o then 0 else 2)
  end.
