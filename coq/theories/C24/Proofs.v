(* C24 — proofs: every committed state of every schedule satisfies the declared constraints,
   given the rejecting writer and the commit-time re-validation of merged states. *)
From Coq Require Import NArith List Bool Lia.
From Dolt Require Import C23.Model C24.Model C24.Spec.
Import ListNotations.
Local Open Scope N_scope.

Section P.
  Variable U : list N.

  Definition Inv (w : world) : Prop :=
    valid U (w_head w) = true /\
    forall i, s_active (w_ss w i) = true -> valid U (s_work (w_ss w i)) = true.

  Lemma exec_c_valid st t : valid U t = true -> valid U (snd (exec_c U st t)) = true.
  Proof.
    intros H. unfold exec_c. destruct (exec_dml U st t) as [o t'].
    destruct (so_err o =? err_none); [|exact H].
    destruct (valid U t') eqn:Hv; cbn [snd]; assumption.
  Qed.

  Lemma commit_c_valid h s w : valid U h = true -> valid U w = true -> valid U (fst (commit_c U h s w)) = true.
  Proof.
    intros Hh Hw. unfold commit_c. destruct (table_eqb U h s); [exact Hw|].
    destruct (merge_tables U s h w) as [m c]. destruct c; [exact Hh|].
    destruct (uscan U U h m (entries_of U h)); [exact Hh|].
    destruct (valid U m) eqn:Hm; cbn [fst]; assumption.
  Qed.

  (* a refused commit (conflict or constraint violation) leaves the committed state as it was *)
  Theorem failed_commit_keeps_committed_state h s w :
    snd (commit_c U h s w) <> err_none -> fst (commit_c U h s w) = h.
  Proof.
    unfold commit_c. destruct (table_eqb U h s); cbn [fst snd]; [congruence|].
    destruct (merge_tables U s h w) as [m c]. destruct c; [reflexivity|].
    destruct (uscan U U h m (entries_of U h)); [reflexivity|].
    destruct (valid U m); cbn [fst snd]; [congruence | reflexivity].
  Qed.

  Lemma upd_same {A} (f : N -> A) i v : upd f i v i = v.
  Proof. unfold upd. rewrite N.eqb_refl. reflexivity. Qed.

  Lemma set_sess_inv w i s' :
    Inv w -> (s_active s' = true -> valid U (s_work s') = true) ->
    Inv {| w_head := w_head w; w_ss := upd (w_ss w) i s' |}.
  Proof.
    intros [Hh Hs] Hn. split; [exact Hh|]. cbn [w_ss]. intros j Hj. unfold upd in *.
    destruct (j =? i); [apply Hn, Hj | apply Hs, Hj].
  Qed.

  Lemma commit_sess_c_inv i w :
    Inv w -> s_active (w_ss w i) = true -> Inv (snd (commit_sess_c U i w)).
  Proof.
    intros [Hh Hs] Ha. unfold commit_sess_c.
    pose proof (commit_c_valid (w_head w) (s_snap (w_ss w i)) (s_work (w_ss w i)) Hh (Hs i Ha)) as Hc.
    destruct (commit_c U (w_head w) (s_snap (w_ss w i)) (s_work (w_ss w i))) as [h' e]. cbn [fst snd] in *.
    split; [exact Hc|]. cbn [w_ss]. intros j Hj. unfold upd in *.
    destruct (j =? i); [cbn in Hj; discriminate | apply Hs, Hj].
  Qed.

  Lemma cstep_inv i st w : Inv w -> Inv (snd (cstep U i st w)).
  Proof.
    intros HI. pose proof HI as [Hh Hs]. unfold cstep.
    assert (Hens : valid U (s_work (ensure_txn (w_ss w i) (w_head w))) = true).
    { unfold ensure_txn. destruct (s_active (w_ss w i)) eqn:Ha; [apply Hs, Ha | exact Hh]. }
    assert (Hact : s_active (ensure_txn (w_ss w i) (w_head w)) = true).
    { unfold ensure_txn. destruct (s_active (w_ss w i)) eqn:Ha; [exact Ha | reflexivity]. }
    assert (Hdml : forall st',
      Inv (snd (let '(o, t') := exec_c U st' (s_work (ensure_txn (w_ss w i) (w_head w))) in
                let w1 := {| w_head := w_head w;
                             w_ss := upd (w_ss w) i (s_with_work (ensure_txn (w_ss w i) (w_head w)) t') |} in
                if negb (s_active (w_ss w i)) && s_auto (w_ss w i)
                then let '(e, w2) := commit_sess_c U i w1 in (if e =? err_none then o else obs_err e, w2)
                else (o, w1)))).
    { intros st'. pose proof (exec_c_valid st' _ Hens) as Hv.
      destruct (exec_c U st' (s_work (ensure_txn (w_ss w i) (w_head w)))) as [o t']. cbn [snd] in Hv. cbv zeta.
      set (w1 := {| w_head := w_head w; w_ss := upd (w_ss w) i (s_with_work (ensure_txn (w_ss w i) (w_head w)) t') |}).
      assert (HI1 : Inv w1) by (apply set_sess_inv; [exact HI | intros _; exact Hv]).
      destruct (negb (s_active (w_ss w i)) && s_auto (w_ss w i)); [|exact HI1].
      pose proof (commit_sess_c_inv i w1 HI1) as Hc.
      destruct (commit_sess_c U i w1) as [e w2]. cbn [snd] in *. apply Hc.
      unfold w1. cbn [w_ss]. rewrite upd_same. exact Hact. }
    destruct st; try apply Hdml.
    - (* BEGIN *)
      destruct (s_active (w_ss w i)) eqn:Ha.
      + pose proof (commit_sess_c_inv i w HI Ha) as Hc.
        destruct (commit_sess_c U i w) as [e w']. cbn [snd] in Hc.
        destruct (e =? err_none); cbn [snd]; [|exact Hc].
        apply set_sess_inv; [exact Hc | intros _; exact (proj1 Hc)].
      + cbn [snd]. apply set_sess_inv; [exact HI | intros _; exact Hh].
    - (* COMMIT *)
      destruct (s_active (w_ss w i)) eqn:Ha; [|exact HI].
      pose proof (commit_sess_c_inv i w HI Ha) as Hc.
      destruct (commit_sess_c U i w) as [e w']. cbn [snd] in *. exact Hc.
    - (* ROLLBACK *)
      cbn [snd]. apply set_sess_inv; [exact HI | cbn; discriminate].
  Qed.

  Lemma crun_inv sched : forall w, Inv w -> Inv (snd (crun U sched w)).
  Proof.
    induction sched as [|[i st] rest IH]; intros w HI; [exact HI|].
    cbn [crun]. pose proof (cstep_inv i st w HI) as H1.
    destruct (cstep U i st w) as [o w1]. cbn [snd] in H1. specialize (IH w1 H1).
    destruct (crun U rest w1) as [os w2]. exact IH.
  Qed.

  (* Full statement (C24): every committed working set and every Dolt commit satisfies PRIMARY KEY,
     UNIQUE, FOREIGN KEY, NOT NULL and CHECK unless checks are disabled, and violations produced by
     merges are recorded.  Proved part: PRIMARY KEY / UNIQUE / CHECK of one table, transaction
     commits (fast-forward and merge); the statement-level enforcement is the rejecting writer
     (engine oracle).  Missing: FOREIGN KEY, NOT NULL, branch merges recording violations. *)
  Theorem committed_consistent_partial sched w :
    valid U (w_head w) = true ->
    (forall i, s_active (w_ss w i) = true -> valid U (s_work (w_ss w i)) = true) ->
    valid U (w_head (snd (crun U sched w))) = true.
  Proof. intros Hh Hs. exact (proj1 (crun_inv sched w (conj Hh Hs))). Qed.
End P.

(* non-vacuity: two valid transactions whose combination violates UNIQUE / CHECK are refused *)
Example ex_unique :
  let w := world0 [(1, Some 0, Some 0); (2, Some 1, Some 2)] [] in
  map (fun x => so_err (fst x))
      (fst (crun [1; 2; 3; 4] [(0, SInsert 3 (Some 2) (Some 2)); (1, SInsert 4 (Some 2) (Some 2)); (0, SCommit); (1, SCommit)] w))
  = [0; 0; 0; 2].
Proof. vm_compute. reflexivity. Qed.

Example ex_check :
  let w := world0 [(1, Some 1, Some 2)] [] in
  map (fun x => so_err (fst x))
      (fst (crun [1] [(0, SUpdate 1 0 (Some 2)); (1, SUpdate 1 1 (Some 1)); (0, SCommit); (1, SCommit)] w))
  = [0; 0; 0; 2].
Proof. vm_compute. reflexivity. Qed.
