(* C24 — proofs.
   1. the rejecting writer meets the enforcement hypothesis;
   2. the commit-time validators are sound: they find nothing => the merged database is valid;
   3. committed_consistent: every committed database of every schedule is valid, given the
      enforcement oracle hypothesis (sessions with disabled checks are outside it);
   4. the unique validator's collision scan: nothing found => unique (stale entries only make it stricter);
   5. recorded violations of a merge: CHECK / NOT NULL / FOREIGN KEY exact, UNIQUE refuted. *)
From Coq Require Import NArith List Bool Lia.
From Dolt Require Import C23.Model C23.Spec C23.Proofs C24.Model C24.Spec.
Import ListNotations.
Local Open Scope N_scope.

Lemma overlay_right_base (b l : option row) : overlay_row b l b = l.
Proof.
  destruct b as [[? ?]|], l as [[? ?]|];
    unfold overlay_row, overlay_cell, cv, getcol, ocell_eqb; cbn [fst snd N.eqb];
    decide_cells; try reflexivity; congruence.
Qed.

Section P.
  Variable U : list N.
  Notation get := (get U).

  (* ---------------------------------------------------------------- *)
  (* 1. boolean validity is sound; the rejecting writer enforces       *)
  Lemma get_some_inU t k r : get t k = Some r -> In k U.
  Proof.
    unfold Model.get. destruct (inU U k) eqn:Hk; [|discriminate]. intros _. apply inU_In. exact Hk.
  Qed.

  Lemma uniq_b_sound t : uniq_b U t = true -> Uniq U t.
  Proof.
    unfold uniq_b. rewrite forallb_forall. intros H k1 k2 r1 r2 H1 H2 Hne Hp1 Hp2.
    specialize (H k1 (get_some_inU _ _ _ H1)). rewrite H1 in H.
    rewrite forallb_forall in H. specialize (H k2 (get_some_inU _ _ _ H2)).
    rewrite H2, Hp1, Hp2 in H. destruct (N.eqb_spec k2 k1); [congruence|].
    cbn [orb] in H. destruct (clash r1 r2); [discriminate | reflexivity].
  Qed.

  Lemma valid_sound t : valid U t = true -> Valid U t.
  Proof.
    unfold valid. rewrite forallb_forall. intros H. repeat split.
    - intros k r Hk. specialize (H k (get_some_inU _ _ _ Hk)). rewrite Hk in H.
      apply andb_true_iff in H as [H _]. apply andb_true_iff in H as [H _]. exact H.
    - intros k r Hk. specialize (H k (get_some_inU _ _ _ Hk)). rewrite Hk in H.
      apply andb_true_iff in H as [H _]. apply andb_true_iff in H as [_ H]. exact H.
    - apply uniq_b_sound. unfold uniq_b. apply forallb_forall. intros k Hin.
      specialize (H k Hin). destruct (get t k); [|reflexivity].
      apply andb_true_iff in H as [_ H]. exact H.
  Qed.

  Theorem exec_c_enforces i st t : Valid U t -> Valid U (snd (exec_c U i st t)).
  Proof.
    intros H. unfold exec_c. destruct (exec_dml U st t) as [o t'].
    destruct (so_err o =? err_none); [|exact H].
    destruct (valid U t') eqn:Hv; cbn [snd]; [apply valid_sound, Hv | exact H].
  Qed.

  (* ---------------------------------------------------------------- *)
  (* 2. validators                                                     *)
  Lemma existsb_false {A} (f : A -> bool) l x : existsb f l = false -> In x l -> f x = false.
  Proof.
    intros H Hin. destruct (f x) eqn:Hf; [|reflexivity].
    assert (existsb f l = true) by (apply existsb_exists; exists x; split; assumption). congruence.
  Qed.

  Lemma tbl_same_get par x y k : tbl_same U par x y = true -> is_parent k = par -> get x k = get y k.
  Proof.
    unfold tbl_same. rewrite forallb_forall. intros H Hp.
    destruct (inU U k) eqn:Hk.
    - apply inU_In in Hk. specialize (H k Hk). rewrite Hp in H.
      rewrite Bool.eqb_reflx in H. cbn [negb orb] in H.
      destruct (orow_eqb_spec (get x k) (get y k)); congruence.
    - rewrite !get_out by exact Hk. reflexivity.
  Qed.

  (* a merged row of a table that is not changed on both sides is a row of one side *)
  Lemma not_both_changed b l r m k :
    (forall k, get m k = overlay_row (get b k) (get l k) (get r k)) ->
    both_changed U (is_parent k) b l r = false -> get m k = get l k \/ get m k = get r k.
  Proof.
    intros Hm Hb. unfold both_changed in Hb. rewrite Hm.
    destruct (tbl_same U (is_parent k) b l) eqn:Hl.
    - right. rewrite <- (tbl_same_get _ _ _ k Hl eq_refl).
      destruct (overlay_same_base (get b k) (get r k)) as [H _]. exact H.
    - destruct (tbl_same U (is_parent k) b r) eqn:Hr; [|discriminate].
      left. rewrite <- (tbl_same_get _ _ _ k Hr eq_refl). apply overlay_right_base.
  Qed.

  Lemma rowscan_sound b l r m :
    (forall k, get m k = overlay_row (get b k) (get l k) (get r k)) ->
    RowsOk U b -> RowsOk U l -> RowsOk U r -> rowscan U b l r m = false -> RowsOk U m.
  Proof.
    intros Hm Hb Hl Hr Hs k x Hk.
    pose proof (existsb_false _ _ k Hs (get_some_inU _ _ _ Hk)) as Hf. cbn beta in Hf.
    destruct (both_changed U (is_parent k) b l r) eqn:Hbc.
    - cbn [andb] in Hf. unfold row_bad in Hf. rewrite Hk in Hf.
      destruct (orow_eqb_spec (get b k) (Some x)) as [He|Hne]; cbn [negb andb] in Hf.
      + apply (Hb k x He).
      + destruct (row_ok k x); [reflexivity | discriminate].
    - destruct (not_both_changed b l r m k Hm Hbc) as [He|He]; rewrite He in Hk.
      + exact (Hl k x Hk).
      + exact (Hr k x Hk).
  Qed.

  Lemma is_parent_pbase x : is_parent (pbase + x) = true.
  Proof. unfold is_parent, pbase. apply N.leb_le. lia. Qed.

  (* fk_bad is exactly "row of the merged data without its parent", given a valid base *)
  Lemma fk_bad_exact b m k :
    FkOk U b ->
    (fk_bad U b m k = true <-> exists x, get m k = Some x /\ fk_ok_row U m k x = false).
  Proof.
    intros Hb. split.
    - intros H. unfold fk_bad in H. apply orb_true_iff in H as [H|H].
      + unfold fk_bad_child in H. apply andb_true_iff in H as [_ H3].
        destruct (get m k) as [x|]; [|discriminate]. exists x. split; [reflexivity|].
        destruct (fk_ok_row U m k x); [discriminate | reflexivity].
      + unfold fk_bad_orphan, parent_removed in H. apply andb_true_iff in H as [H1 H2].
        destruct (get m k) as [x|]; [|discriminate]. exists x. split; [reflexivity|].
        unfold fk_ok_row. destruct (is_parent k); [discriminate|].
        destruct (snd x) as [y|]; [|discriminate].
        rewrite is_parent_pbase in H2. cbn [andb] in H2.
        destruct (get b (pbase + y)); [|discriminate]. destruct (get m (pbase + y)); [discriminate | reflexivity].
    - intros [x [Hk Hf]]. unfold fk_bad, fk_bad_child, fk_bad_orphan, parent_removed. rewrite Hk, Hf.
      unfold fk_ok_row in Hf.
      destruct (is_parent k) eqn:Hp; [discriminate|]. cbn [negb andb].
      destruct (snd x) as [y|] eqn:Hy; [|discriminate].
      destruct (get m (pbase + y)) eqn:Hpm; [discriminate|].
      destruct (orow_eqb_spec (get b k) (Some x)) as [He|Hne]; cbn [negb andb orb].
      + (* unchanged child: its parent existed in the base and is gone *)
        specialize (Hb k x He). unfold fk_ok_row in Hb. rewrite Hp, Hy in Hb.
        rewrite is_parent_pbase. destruct (get b (pbase + y)); [reflexivity | discriminate].
      + reflexivity.
  Qed.

  Lemma fkscan_sound b m : FkOk U b -> fkscan U b m = false -> FkOk U m.
  Proof.
    intros Hb Hs k x Hk.
    pose proof (existsb_false _ _ k Hs (get_some_inU _ _ _ Hk)) as Hf.
    destruct (fk_ok_row U m k x) eqn:E; [reflexivity|].
    assert (fk_bad U b m k = true) by (apply fk_bad_exact; [exact Hb | exists x; split; assumption]).
    congruence.
  Qed.

  Theorem validators_sound b l r m :
    (forall k, get m k = overlay_row (get b k) (get l k) (get r k)) ->
    Valid U b -> Valid U l -> Valid U r ->
    rowscan U b l r m = false -> fkscan U b m = false -> uniq_b U m = true ->
    Valid U m.
  Proof.
    intros Hm [Hb1 [Hb2 _]] [Hl1 _] [Hr1 _] H1 H2 H3. repeat split.
    - exact (rowscan_sound b l r m Hm Hb1 Hl1 Hr1 H1).
    - exact (fkscan_sound b m Hb2 H2).
    - exact (uniq_b_sound m H3).
  Qed.

  (* cell-wise merging cannot put a NULL into a NOT NULL column that is non-NULL on both sides *)
  Theorem merge_keeps_notnull (b l r : option row) x :
    row_conflict_b b l r = false -> overlay_row b l r = Some x ->
    (forall y, l = Some y -> notnull_ok y = true) -> (forall y, r = Some y -> notnull_ok y = true) ->
    notnull_ok x = true.
  Proof.
    intros Hc Ho Hl Hr.
    destruct b as [[ba bb]|], l as [[la lb]|], r as [[ra rb]|];
      try specialize (Hl _ eq_refl); try specialize (Hr _ eq_refl);
      unfold row_conflict_b, cell_conflict_b, overlay_row, overlay_cell, cv, getcol, ocell_eqb, notnull_ok in *;
      cbn [fst snd N.eqb negb andb orb] in *; decide_cells; cbn [negb andb orb fst snd] in *;
      try discriminate; inversion Ho; subst; cbn [fst]; assumption.
  Qed.

  (* ---------------------------------------------------------------- *)
  (* 3. the machine                                                    *)
  Lemma commit_c_valid h s w :
    Valid U h -> Valid U s -> Valid U w -> Valid U (fst (commit_c U h s w)).
  Proof.
    intros Hh Hs Hw. unfold commit_c. destruct (table_eqb U h s); [exact Hw|].
    pose proof (merge_tables_conflict U s h w) as Hc.
    pose proof (merge_tables_overlay U s h w) as Ho.
    destruct (merge_tables U s h w) as [m c]. cbn [fst snd] in *. destruct c; [exact Hh|].
    symmetry in Hc. specialize (Ho Hc).
    destruct (both_changed U false s h w && negb (is_nil (urec U U s h m (entries_of U h) []))); [exact Hh|].
    cbn [orb]. destruct (rowscan U s h w m) eqn:H1; [exact Hh|].
    destruct (fkscan U s m) eqn:H2; [exact Hh|].
    destruct (uniq_b U m) eqn:H3; cbn [negb orb fst]; [|exact Hh].
    apply (validators_sound s h w m); try assumption.
    intros k. rewrite (Ho k). apply get_overlay.
  Qed.

  (* a refused commit (conflict or constraint violation) leaves the committed state as it was *)
  Theorem failed_commit_keeps_committed_state h s w :
    snd (commit_c U h s w) <> err_none -> fst (commit_c U h s w) = h.
  Proof.
    unfold commit_c. destruct (table_eqb U h s); cbn [fst snd]; [congruence|].
    destruct (merge_tables U s h w) as [m c]. destruct c; [reflexivity|].
    match goal with |- context [if ?c then _ else _] => destruct c end; cbn [fst snd]; [reflexivity | congruence].
  Qed.

  Section Machine.
    (* statement-level enforcement: an oracle.  [enabled i]: session i has not disabled constraint
       checks (foreign_key_checks = 0 puts a session outside the hypothesis). *)
    Variable ex : N -> stmt -> table -> sobs * table.
    Variable enabled : N -> bool.
    Hypothesis ex_enforces : forall i st t, enabled i = true -> Valid U t -> Valid U (snd (ex i st t)).

    Definition Inv (w : world) : Prop :=
      Valid U (w_head w) /\
      forall i, s_active (w_ss w i) = true -> Valid U (s_work (w_ss w i)) /\ Valid U (s_snap (w_ss w i)).

    Lemma upd_same {A} (f : N -> A) i v : upd f i v i = v.
    Proof. unfold upd. rewrite N.eqb_refl. reflexivity. Qed.

    Lemma set_sess_inv w i s' :
      Inv w -> (s_active s' = true -> Valid U (s_work s') /\ Valid U (s_snap s')) ->
      Inv {| w_head := w_head w; w_ss := upd (w_ss w) i s' |}.
    Proof.
      intros [Hh Hs] Hn. split; [exact Hh|]. cbn [w_ss]. intros j Hj. unfold upd in *.
      destruct (j =? i); [apply Hn, Hj | apply Hs, Hj].
    Qed.

    Lemma commit_sess_c_inv i w :
      Inv w -> s_active (w_ss w i) = true -> Inv (snd (commit_sess_c U i w)).
    Proof.
      intros [Hh Hs] Ha. unfold commit_sess_c. destruct (Hs i Ha) as [Hw Hsn].
      pose proof (commit_c_valid (w_head w) (s_snap (w_ss w i)) (s_work (w_ss w i)) Hh Hsn Hw) as Hc.
      destruct (commit_c U (w_head w) (s_snap (w_ss w i)) (s_work (w_ss w i))) as [h' e]. cbn [fst snd] in *.
      split; [exact Hc|]. cbn [w_ss]. intros j Hj. unfold upd in *.
      destruct (j =? i); [cbn in Hj; discriminate | apply Hs, Hj].
    Qed.

    Lemma cstep_inv i st w : enabled i = true -> Inv w -> Inv (snd (cstep U ex i st w)).
    Proof.
      intros Hen HI. pose proof HI as [Hh Hs]. unfold cstep.
      assert (Hens : Valid U (s_work (ensure_txn (w_ss w i) (w_head w))) /\
                     Valid U (s_snap (ensure_txn (w_ss w i) (w_head w)))).
      { unfold ensure_txn. destruct (s_active (w_ss w i)) eqn:Ha; [apply Hs, Ha | split; exact Hh]. }
      assert (Hact : s_active (ensure_txn (w_ss w i) (w_head w)) = true).
      { unfold ensure_txn. destruct (s_active (w_ss w i)) eqn:Ha; [exact Ha | reflexivity]. }
      assert (Hdml : forall st',
        Inv (snd (let '(o, t') := ex i st' (s_work (ensure_txn (w_ss w i) (w_head w))) in
                  let w1 := {| w_head := w_head w;
                               w_ss := upd (w_ss w) i (s_with_work (ensure_txn (w_ss w i) (w_head w)) t') |} in
                  if negb (s_active (w_ss w i)) && s_auto (w_ss w i)
                  then let '(e, w2) := commit_sess_c U i w1 in (if e =? err_none then o else obs_err e, w2)
                  else (o, w1)))).
      { intros st'. pose proof (ex_enforces i st' _ Hen (proj1 Hens)) as Hv.
        destruct (ex i st' (s_work (ensure_txn (w_ss w i) (w_head w)))) as [o t']. cbn [snd] in Hv. cbv zeta.
        set (w1 := {| w_head := w_head w; w_ss := upd (w_ss w) i (s_with_work (ensure_txn (w_ss w i) (w_head w)) t') |}).
        assert (HI1 : Inv w1) by (apply set_sess_inv; [exact HI | intros _; split; [exact Hv | exact (proj2 Hens)]]).
        destruct (negb (s_active (w_ss w i)) && s_auto (w_ss w i)); [|exact HI1].
        pose proof (commit_sess_c_inv i w1 HI1) as Hc.
        destruct (commit_sess_c U i w1) as [e w2]. cbn [snd] in *. apply Hc.
        unfold w1. cbn [w_ss]. rewrite upd_same. exact Hact. }
      destruct st; try apply Hdml.
      - (* BEGIN *)
        destruct (s_active (w_ss w i)) eqn:Ha.
        + pose proof (commit_sess_c_inv i w HI Ha) as Hc.
          destruct (commit_sess_c U i w) as [e w']. cbn [snd] in Hc.
          destruct (e =? err_none); cbn [snd]; [|exact Hc].
          apply set_sess_inv; [exact Hc | intros _; split; exact (proj1 Hc)].
        + cbn [snd]. apply set_sess_inv; [exact HI | intros _; split; exact Hh].
      - (* COMMIT *)
        destruct (s_active (w_ss w i)) eqn:Ha; [|exact HI].
        pose proof (commit_sess_c_inv i w HI Ha) as Hc.
        destruct (commit_sess_c U i w) as [e w']. cbn [snd] in *. exact Hc.
      - (* ROLLBACK *)
        cbn [snd]. apply set_sess_inv; [exact HI | cbn; discriminate].
    Qed.

    Lemma crun_inv sched : forall w,
      (forall i st, In (i, st) sched -> enabled i = true) -> Inv w -> Inv (snd (crun U ex sched w)).
    Proof.
      induction sched as [|[i st] rest IH]; intros w Hen HI; [exact HI|].
      cbn [crun]. pose proof (cstep_inv i st w (Hen i st (or_introl eq_refl)) HI) as H1.
      destruct (cstep U ex i st w) as [o w1]. cbn [snd] in H1.
      specialize (IH w1 (fun j s Hin => Hen j s (or_intror Hin)) H1).
      destruct (crun U ex rest w1) as [os w2]. exact IH.
    Qed.

    (* C24: every committed database of every schedule satisfies PRIMARY KEY (inherent), NOT NULL,
       CHECK, UNIQUE and FOREIGN KEY — given the statement-level enforcement oracle for the sessions
       of the schedule (explicit exception: sessions that disabled the checks), and the commit-time
       validation modelled above.  Every prefix of a schedule is a schedule, so this covers every
       intermediate committed state. *)
    Theorem committed_consistent sched w :
      (forall i st, In (i, st) sched -> enabled i = true) ->
      Valid U (w_head w) ->
      (forall i, s_active (w_ss w i) = true -> Valid U (s_work (w_ss w i)) /\ Valid U (s_snap (w_ss w i))) ->
      Valid U (w_head (snd (crun U ex sched w))).
    Proof. intros Hen Hh Hs. exact (proj1 (crun_inv sched w Hen (conj Hh Hs))). Qed.
  End Machine.

  (* ---------------------------------------------------------------- *)
  (* 4. the unique validator's collision scan                          *)
  (* cur P : rows after the keys in P have been visited *)
  Definition cur (l m : table) (P : list N) (k : N) : option row :=
    if existsb (N.eqb k) P then get m k else get l k.

  Definition UInv (l m : table) (P : list N) (E : list (cell * N)) : Prop :=
    (forall k x, is_parent k = false -> cur l m P k = Some x -> In (fst x, k) E) /\
    (forall k1 k2 x1 x2, cur l m P k1 = Some x1 -> cur l m P k2 = Some x2 -> k1 <> k2 ->
                         is_parent k1 = false -> is_parent k2 = false -> clash x1 x2 = false).

  Lemma cur_cons_other l m P k k' : k' <> k -> cur l m (k :: P) k' = cur l m P k'.
  Proof. intros H. unfold cur. cbn [existsb]. destruct (N.eqb_spec k' k); [congruence | reflexivity]. Qed.

  Lemma cur_cons_same l m P k : cur l m (k :: P) k = get m k.
  Proof. unfold cur. cbn [existsb]. rewrite N.eqb_refl. reflexivity. Qed.

  Lemma collide_false E a k x k' :
    collide E (Some a) k = false -> In (x, k') E -> k' <> k -> x <> Some a.
  Proof.
    unfold collide. intros H Hin Hne Heq. subst x.
    pose proof (existsb_false _ _ (Some a, k') H Hin) as Hf. cbn [fst snd] in Hf.
    destruct (cell_eqb_spec (Some a) (Some a)); [|congruence].
    destruct (N.eqb_spec k' k); [congruence | discriminate].
  Qed.

  Lemma uscan_step l m ks : forall P E,
    UInv l m P E -> uscan U ks l m E = false -> exists E', UInv l m (rev ks ++ P) E'.
  Proof.
    induction ks as [|k ks IH]; intros P E HI Hs; [exists E; exact HI|].
    cbn [rev]. rewrite <- app_assoc. cbn [app]. cbn [uscan] in Hs.
    destruct HI as [Ha Hu].
    destruct (is_parent k) eqn:Hp.
    { (* parent key: not part of the unique index *)
      apply (IH (k :: P) E); [|exact Hs]. split.
      - intros k' x Hp' Hc. destruct (N.eq_dec k' k) as [->|Hne]; [congruence|].
        rewrite cur_cons_other in Hc by exact Hne. exact (Ha k' x Hp' Hc).
      - intros k1 k2 x1 x2 H1 H2 Hne Hp1 Hp2.
        destruct (N.eq_dec k1 k) as [->|Hn1]; [congruence|]. destruct (N.eq_dec k2 k) as [->|Hn2]; [congruence|].
        rewrite cur_cons_other in H1, H2 by assumption. exact (Hu k1 k2 x1 x2 H1 H2 Hne Hp1 Hp2). }
    destruct (orow_eqb_spec (get l k) (get m k)) as [Heq|Hneq].
    { (* no right edit: the row stays *)
      assert (Hsame : forall k', cur l m (k :: P) k' = cur l m P k').
      { intros k'. destruct (N.eq_dec k' k) as [->|Hne]; [|apply cur_cons_other; exact Hne].
        rewrite cur_cons_same. unfold cur. destruct (existsb (N.eqb k) P); congruence. }
      apply (IH (k :: P) E); [|exact Hs]. split.
      - intros k' x Hp' Hc. rewrite Hsame in Hc. exact (Ha k' x Hp' Hc).
      - intros k1 k2 x1 x2 H1 H2. rewrite Hsame in H1, H2. exact (Hu k1 k2 x1 x2 H1 H2). }
    destruct (get m k) as [x|] eqn:Hm.
    - (* right add / modify *)
      apply orb_false_iff in Hs as [Hcol Hs].
      apply (IH (k :: P) ((fst x, k) :: E)); [|exact Hs]. split.
      + intros k' y Hp' Hc. destruct (N.eq_dec k' k) as [->|Hne].
        * rewrite cur_cons_same, Hm in Hc. inversion Hc; subst. left. reflexivity.
        * rewrite cur_cons_other in Hc by exact Hne. right. exact (Ha k' y Hp' Hc).
      + intros k1 k2 x1 x2 H1 H2 Hne Hp1 Hp2.
        destruct (N.eq_dec k1 k) as [->|Hn1]; destruct (N.eq_dec k2 k) as [->|Hn2]; try congruence.
        * rewrite cur_cons_same, Hm in H1. inversion H1; subst x1.
          rewrite cur_cons_other in H2 by exact Hn2.
          unfold clash. destruct (fst x) as [a|] eqn:Hfa; [|reflexivity].
          destruct (fst x2) as [a2|] eqn:Hf2; [|reflexivity].
          pose proof (collide_false E a k (fst x2) k2 Hcol (Ha k2 x2 Hp2 H2) Hn2) as Hd.
          rewrite Hf2 in Hd. destruct (N.eqb_spec a a2); [subst; congruence | reflexivity].
        * rewrite cur_cons_same, Hm in H2. inversion H2; subst x2.
          rewrite cur_cons_other in H1 by exact Hn1.
          unfold clash. destruct (fst x1) as [a1|] eqn:Hf1; [|reflexivity].
          destruct (fst x) as [a|] eqn:Hfa; [|reflexivity].
          pose proof (collide_false E a k (fst x1) k1 Hcol (Ha k1 x1 Hp1 H1) Hn1) as Hd.
          rewrite Hf1 in Hd. destruct (N.eqb_spec a1 a); [subst; congruence | reflexivity].
        * rewrite cur_cons_other in H1, H2 by assumption. exact (Hu k1 k2 x1 x2 H1 H2 Hne Hp1 Hp2).
    - (* right delete *)
      apply (IH (k :: P) (filter (fun e => negb (snd e =? k)) E)); [|exact Hs]. split.
      + intros k' y Hp' Hc. destruct (N.eq_dec k' k) as [->|Hne].
        * rewrite cur_cons_same, Hm in Hc. discriminate.
        * rewrite cur_cons_other in Hc by exact Hne. apply filter_In. split; [exact (Ha k' y Hp' Hc)|].
          cbn [snd]. destruct (N.eqb_spec k' k); [congruence | reflexivity].
      + intros k1 k2 x1 x2 H1 H2 Hne Hp1 Hp2.
        destruct (N.eq_dec k1 k) as [->|Hn1]; [rewrite cur_cons_same, Hm in H1; discriminate|].
        destruct (N.eq_dec k2 k) as [->|Hn2]; [rewrite cur_cons_same, Hm in H2; discriminate|].
        rewrite cur_cons_other in H1, H2 by assumption. exact (Hu k1 k2 x1 x2 H1 H2 Hne Hp1 Hp2).
  Qed.

  (* The collision scan of uniqValidator (left unique index that only grows: stale entries of
     modified rows stay) finds nothing => the merged table has no duplicate unique value.
     The converse is false (stale entries: see uniq_violations_exact_refuted). *)
  Theorem uscan_nothing_unique l m :
    Uniq U l -> uscan U U l m (entries_of U l) = false -> Uniq U m.
  Proof.
    intros Hl Hs.
    assert (H0 : UInv l m [] (entries_of U l)).
    { split.
      - intros k x Hp Hc. unfold cur in Hc. cbn [existsb] in Hc. unfold entries_of.
        apply in_flat_map. exists k. split; [exact (get_some_inU _ _ _ Hc)|].
        rewrite Hp, Hc. left. reflexivity.
      - intros k1 k2 x1 x2 H1 H2. unfold cur in H1, H2. cbn [existsb] in H1, H2. exact (Hl k1 k2 x1 x2 H1 H2). }
    destruct (uscan_step l m U [] _ H0 Hs) as [E' [_ Hu]]. rewrite app_nil_r in Hu.
    assert (Hcur : forall k, cur l m (rev U) k = get m k).
    { intros k. unfold cur. destruct (existsb (N.eqb k) (rev U)) eqn:He; [reflexivity|].
      assert (inU U k = false) as Hk.
      { unfold inU. destruct (existsb (N.eqb k) U) eqn:E; [|reflexivity].
        apply existsb_exists in E as [y [Hy Hy2]].
        assert (existsb (N.eqb k) (rev U) = true) by (apply existsb_exists; exists y; split; [apply -> in_rev; exact Hy | exact Hy2]).
        congruence. }
      rewrite !get_out by exact Hk. reflexivity. }
    intros k1 k2 x1 x2 H1 H2. rewrite <- Hcur in H1, H2. exact (Hu k1 k2 x1 x2 H1 H2).
  Qed.

  (* Open (not proved): urec_empty_unique —
       Valid l -> Valid r -> merged = overlay -> urec U b l m (entries_of l) [] = [] -> Uniq m.
     i.e. that clearArtifact never forgets a collision between two rows that both survive.  The
     machine re-validates uniqueness of the merged table for that reason (commit_c, uniq_b). *)

  (* ---------------------------------------------------------------- *)
  (* 5. recorded violations of a merge                                 *)
  Lemma row_bad_exact b l r m k :
    (forall k, get m k = overlay_row (get b k) (get l k) (get r k)) ->
    RowsOk U b -> RowsOk U l -> RowsOk U r ->
    (both_changed U (is_parent k) b l r && row_bad U b m k = true
     <-> exists x, get m k = Some x /\ row_ok k x = false).
  Proof.
    intros Hm Hb Hl Hr. split.
    - intros H. apply andb_true_iff in H as [_ H]. unfold row_bad in H.
      apply andb_true_iff in H as [_ H]. destruct (get m k) as [x|]; [|discriminate].
      exists x. split; [reflexivity|]. destruct (row_ok k x); [discriminate | reflexivity].
    - intros [x [Hk Hf]].
      destruct (both_changed U (is_parent k) b l r) eqn:Hbc.
      + cbn [andb]. unfold row_bad. rewrite Hk, Hf. cbn [negb andb].
        destruct (orow_eqb_spec (get b k) (Some x)) as [He|Hne]; [|reflexivity].
        rewrite (Hb k x He) in Hf. discriminate.
      + destruct (not_both_changed b l r m k Hm Hbc) as [He|He]; rewrite He in Hk.
        * rewrite (Hl k x Hk) in Hf. discriminate.
        * rewrite (Hr k x Hk) in Hf. discriminate.
  Qed.

  Lemma in_map_filter (ty : N) (f : N -> bool) k :
    In (ty, k) (map (fun k => (ty, k)) (filter f U)) <-> In k U /\ f k = true.
  Proof.
    rewrite in_map_iff. split.
    - intros [k' [He Hin]]. inversion He; subst. apply filter_In. exact Hin.
    - intros H. exists k. split; [reflexivity | apply filter_In; exact H].
  Qed.

  Lemma in_map_ty (ty ty' : N) (f : N -> bool) k :
    ty <> ty' -> ~ In (ty, k) (map (fun k => (ty', k)) (filter f U)).
  Proof. intros Hne Hin. apply in_map_iff in Hin as [k' [He _]]. inversion He. congruence. Qed.

  (* After a merge, the recorded FOREIGN KEY / CHECK / NOT NULL violations are exactly the rows of
     the merged data that break the constraint.
     Full statement (violations_exact): the same for UNIQUE.  It is FALSE on the faithful model
     (uniq_violations_exact_refuted below): stale entries record rows that violate nothing; and the
     other direction for UNIQUE (every duplicate is recorded, after clearArtifact) is not proved. *)
  Theorem violations_exact_partial b l r m k :
    (forall k, get m k = overlay_row (get b k) (get l k) (get r k)) ->
    Valid U b -> Valid U l -> Valid U r ->
    (In (vt_fk, k) (recorded U b l r m) <-> exists x, get m k = Some x /\ fk_ok_row U m k x = false) /\
    (In (vt_check, k) (recorded U b l r m) <-> is_parent k = false /\ exists x, get m k = Some x /\ row_ok k x = false) /\
    (In (vt_notnull, k) (recorded U b l r m) <-> is_parent k = true /\ exists x, get m k = Some x /\ row_ok k x = false).
  Proof.
    intros Hm [Hb1 [Hb2 _]] [Hl1 _] [Hr1 _]. unfold recorded, vt_fk, vt_unique, vt_check, vt_notnull.
    repeat split.
    - intros H. repeat (apply in_app_or in H as [H|H]);
        try (exfalso; revert H; apply in_map_ty; discriminate).
      apply in_map_filter in H as [_ H]. apply (fk_bad_exact b m k Hb2). exact H.
    - intros [x [Hk Hf]]. apply in_or_app. left. apply in_map_filter.
      split; [exact (get_some_inU _ _ _ Hk)|]. apply (fk_bad_exact b m k Hb2). exists x. split; assumption.
    - apply in_app_or in H as [H|H]; [exfalso; revert H; apply in_map_ty; discriminate|].
      apply in_app_or in H as [H|H]; [exfalso; revert H; apply in_map_ty; discriminate|].
      apply in_app_or in H as [H|H]; [|exfalso; revert H; apply in_map_ty; discriminate].
      apply in_map_filter in H as [_ H]. apply andb_true_iff in H as [H _]. apply andb_true_iff in H as [H _].
      destruct (is_parent k); [discriminate | reflexivity].
    - apply in_app_or in H as [H|H]; [exfalso; revert H; apply in_map_ty; discriminate|].
      apply in_app_or in H as [H|H]; [exfalso; revert H; apply in_map_ty; discriminate|].
      apply in_app_or in H as [H|H]; [|exfalso; revert H; apply in_map_ty; discriminate].
      apply in_map_filter in H as [_ H]. rewrite <- andb_assoc in H. apply andb_true_iff in H as [Hp H].
      destruct (is_parent k) eqn:Hpk; [discriminate|].
      apply (row_bad_exact b l r m k Hm Hb1 Hl1 Hr1). rewrite Hpk. exact H.
    - intros [Hp [x [Hk Hf]]]. apply in_or_app. right. apply in_or_app. right. apply in_or_app. left.
      apply in_map_filter. split; [exact (get_some_inU _ _ _ Hk)|].
      rewrite <- andb_assoc, Hp. cbn [negb andb]. rewrite <- Hp.
      apply (row_bad_exact b l r m k Hm Hb1 Hl1 Hr1). exists x. split; assumption.
    - apply in_app_or in H as [H|H]; [exfalso; revert H; apply in_map_ty; discriminate|].
      apply in_app_or in H as [H|H]; [exfalso; revert H; apply in_map_ty; discriminate|].
      apply in_app_or in H as [H|H]; [exfalso; revert H; apply in_map_ty; discriminate|].
      apply in_map_filter in H as [_ H]. apply andb_true_iff in H as [H _]. apply andb_true_iff in H as [H _]. exact H.
    - apply in_app_or in H as [H|H]; [exfalso; revert H; apply in_map_ty; discriminate|].
      apply in_app_or in H as [H|H]; [exfalso; revert H; apply in_map_ty; discriminate|].
      apply in_app_or in H as [H|H]; [exfalso; revert H; apply in_map_ty; discriminate|].
      apply in_map_filter in H as [_ H]. rewrite <- andb_assoc in H. apply andb_true_iff in H as [Hp H].
      apply (row_bad_exact b l r m k Hm Hb1 Hl1 Hr1). rewrite Hp. exact H.
    - intros [Hp [x [Hk Hf]]]. apply in_or_app. right. apply in_or_app. right. apply in_or_app. right.
      apply in_map_filter. split; [exact (get_some_inU _ _ _ Hk)|].
      rewrite <- andb_assoc, Hp. cbn [andb].
      pose proof (proj2 (row_bad_exact b l r m k Hm Hb1 Hl1 Hr1) (ex_intro _ x (conj Hk Hf))) as HH.
      rewrite Hp in HH. exact HH.
  Qed.
End P.

(* ------------------------------------------------------------------ *)
(* UNIQUE exactness is false on the faithful model: the right branch moves the unique value 0 from
   row 3 to the new row 1 while the left branch adds row 4; rows 1 and 3 are recorded as unique
   violations although the merged table has no duplicate.  (Replayed on the implementation by the
   fixed merge case of props/c24.py: it records the same two rows.) *)
Definition rf_U : list N := [1; 3; 4; 101; 102].
Definition rf_base : table := table_of [(101, Some 0, Some 0); (102, Some 1, Some 2); (3, Some 0, Some 1)].
Definition rf_left : table := snd (apply_stmts rf_U [SInsert 4 (Some 2) (Some 2)] rf_base).
Definition rf_right : table := snd (apply_stmts rf_U [SUpdate 3 0 (Some 1); SInsert 1 (Some 0) (Some 1)] rf_base).

Theorem uniq_violations_exact_refuted :
  let '(m, c, v) := branch_merge rf_U rf_base rf_left rf_right in
  c = false /\ valid rf_U rf_left = true /\ valid rf_U rf_right = true /\ valid rf_U m = true
  /\ existsb (fun p => fst p =? vt_unique) v = true.
Proof. vm_compute. repeat split; reflexivity. Qed.

(* non-vacuity: two valid transactions whose combination violates UNIQUE / CHECK / FOREIGN KEY are refused *)
Example ex_unique :
  let w := world0 [(101, Some 0, Some 0); (102, Some 1, Some 2); (1, Some 0, Some 1)] [] in
  map (fun x => so_err (fst x))
      (fst (crun [1; 3; 4; 101; 102] (exec_c [1; 3; 4; 101; 102])
                 [(0, SInsert 3 (Some 2) (Some 2)); (1, SInsert 4 (Some 2) (Some 2)); (0, SCommit); (1, SCommit)] w))
  = [0; 0; 0; 2].
Proof. vm_compute. reflexivity. Qed.

Example ex_fk :
  let w := world0 [(101, Some 0, Some 0); (102, Some 1, Some 1); (1, Some 0, Some 1)] [] in
  map (fun x => so_err (fst x))
      (fst (crun [1; 2; 101; 102] (exec_c [1; 2; 101; 102])
                 [(0, SDelete 102); (1, SInsert 2 (Some 1) (Some 2)); (0, SCommit); (1, SCommit)] w))
  = [0; 0; 0; 2].
Proof. vm_compute. reflexivity. Qed.
