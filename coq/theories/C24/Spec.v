(* C24 — the property: every committed state satisfies the declared constraints.
   Independent evaluator over a dumped table (list of rows). *)
From Coq Require Import NArith List Bool.
From Dolt Require Import C23.Model C24.Model.
Import ListNotations.
Local Open Scope N_scope.

Fixpoint pk_unique (rows : list (N * cell * cell)) : bool :=
  match rows with
  | [] => true
  | (k, _, _) :: r => negb (existsb (fun x => fst (fst x) =? k) r) && pk_unique r
  end.

Fixpoint a_unique (rows : list (N * cell * cell)) : bool :=
  match rows with
  | [] => true
  | (_, a, b) :: r => negb (existsb (fun x => clash (a, b) (snd (fst x), snd x)) r) && a_unique r
  end.

Definition rows_valid (rows : list (N * cell * cell)) : bool :=
  pk_unique rows && a_unique rows && forallb (fun x => check_ok (snd (fst x), snd x)) rows.
