(* C24 — the property, declaratively: a database state satisfies PRIMARY KEY (inherent),
   NOT NULL, CHECK, UNIQUE and FOREIGN KEY; and an independent evaluator over dumped rows. *)
From Coq Require Import NArith List Bool.
From Dolt Require Import C23.Model C24.Model.
Import ListNotations.
Local Open Scope N_scope.

Section Universe.
  Variable U : list N.

  Definition RowsOk (t : table) : Prop := forall k r, get U t k = Some r -> row_ok k r = true.
  Definition FkOk (t : table) : Prop := forall k r, get U t k = Some r -> fk_ok_row U t k r = true.
  Definition Uniq (t : table) : Prop :=
    forall k1 k2 r1 r2, get U t k1 = Some r1 -> get U t k2 = Some r2 -> k1 <> k2 ->
                        is_parent k1 = false -> is_parent k2 = false -> clash r1 r2 = false.
  Definition Valid (t : table) : Prop := RowsOk t /\ FkOk t /\ Uniq t.
End Universe.

(* independent evaluator over a dump (rows of both tables, keys of p shifted by 100):
   the (violation type, key) pairs of the rows that break a constraint *)
Fixpoint pk_unique (rows : list (N * cell * cell)) : bool :=
  match rows with
  | [] => true
  | (k, _, _) :: r => negb (existsb (fun x => fst (fst x) =? k) r) && pk_unique r
  end.

Definition has_key (rows : list (N * cell * cell)) (k : N) : bool := existsb (fun x => fst (fst x) =? k) rows.

Definition row_viols (rows : list (N * cell * cell)) (x : N * cell * cell) : list (N * N) :=
  let '(k, a, b) := x in
  if is_parent k then (if notnull_ok (a, b) then [] else [(vt_notnull, k)])
  else
    (match b with
     | Some y => if has_key rows (pbase + y) then [] else [(vt_fk, k)]
     | None => []
     end)
    ++ (if existsb (fun y => let '(k', a', b') := y in negb (k' =? k) && negb (is_parent k') && clash (a, b) (a', b')) rows
        then [(vt_unique, k)] else [])
    ++ (if check_ok (a, b) then [] else [(vt_check, k)]).

Definition viols_of_rows (rows : list (N * cell * cell)) : list (N * N) := flat_map (row_viols rows) rows.
Definition rows_valid (rows : list (N * cell * cell)) : bool :=
  pk_unique rows && match viols_of_rows rows with [] => true | _ => false end.
