(* C24 — correspondence. Two kinds of cases: transaction schedules (committed database dumped
   after every statement) and branch merges with forced commit (recorded violations). *)
From Coq Require Import NArith List Bool.
From Dolt Require Import C23.Model C23.Corr C24.Model C24.Spec.
Import ListNotations.
Local Open Scope N_scope.

Record input := {
  i_base : C23.Corr.input;       (* key universe, initial rows, autocommit sessions, schedule *)
  i_merge : bool;                (* branch-merge case? *)
  i_left : list stmt;            (* statements on main *)
  i_right : list stmt            (* statements on the other branch *)
}.

Record obs := {
  o_steps : list (sobs * list (N * cell * cell) * N);   (* result, committed dump, #violation rows *)
  o_merr : N;                                            (* merge: 0 ok, 5 conflicts, else error *)
  o_merged : list (N * cell * cell);
  o_vrows : list (N * N)                                 (* recorded (violation type, key) *)
}.
Definition case := (input * obs)%type.

Definition model_obs (i : input) : obs :=
  let b := i_base i in
  let U := i_U b in
  if i_merge i then
    let t0 := table_of (i_init b) in
    let '(ol, tl) := apply_stmts U (i_left i) t0 in
    let '(orr, tr) := apply_stmts U (i_right i) t0 in
    let '(m, c, v) := branch_merge U t0 tl tr in
    {| o_steps := map (fun o => (o, [], 0)) (ol ++ orr);
       o_merr := if c then 5 else 0; o_merged := dump U m; o_vrows := v |}
  else
    {| o_steps := map (fun x => (fst x, snd x, 0)) (fst (crun U (exec_c U) (i_sched b) (world0 (i_init b) (i_autos b))));
       o_merr := 0; o_merged := []; o_vrows := [] |}.

Fixpoint steps_eqb (x y : list (sobs * list (N * cell * cell) * N)) : bool :=
  match x, y with
  | [], [] => true
  | (o, c, v) :: x', (o', c', v') :: y' => sobs_eqb o o' && rows_eqb c c' && (v =? v') && steps_eqb x' y'
  | _, _ => false
  end.
Fixpoint pairs_eqb (x y : list (N * N)) : bool :=
  match x, y with
  | [], [] => true
  | (a, b) :: x', (a', b') :: y' => (a =? a') && (b =? b') && pairs_eqb x' y'
  | _, _ => false
  end.
Definition obs_eqb (x y : obs) : bool :=
  steps_eqb (o_steps x) (o_steps y) && (o_merr x =? o_merr y)
  && rows_eqb (o_merged x) (o_merged y) && pairs_eqb (o_vrows x) (o_vrows y).

Definition mem_pair (p : N * N) (l : list (N * N)) : bool :=
  existsb (fun q => (fst q =? fst p) && (snd q =? snd p)) l.

(* The property on the implementation's observations.
   Transactions: every committed database the implementation exposed satisfies PRIMARY KEY,
   NOT NULL, CHECK, UNIQUE, FOREIGN KEY (independent evaluation of the dump), or violations are on record.
   Merge (forced commit, no conflicts): every row of the merged database that breaks a constraint is
   listed with that violation type in dolt_constraint_violations_<table> (recorded, not silently kept),
   and the merged rows are the cell-wise merge of the two branches (nothing silently dropped). *)
Definition oracle (i : input) (o : obs) : bool :=
  if i_merge i then
    if o_merr o =? 0 then
      pk_unique (o_merged o)
      && forallb (fun v => mem_pair v (o_vrows o)) (viols_of_rows (o_merged o))
      && rows_eqb (o_merged o) (o_merged (model_obs i))
    else true
  else
    Nat.eqb (length (o_steps o)) (length (i_sched (i_base i)))
    && forallb (fun x => let '(_, c, v) := x in rows_valid c || (0 <? v)) (o_steps o).

Definition check_case (c : case) : N :=
  (if obs_eqb (model_obs (fst c)) (snd c) then 0 else 1)
  + (if oracle (fst c) (snd c) then 0 else 2).
