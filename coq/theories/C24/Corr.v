(* C24 — correspondence. *)
From Coq Require Import NArith List Bool.
From Dolt Require Import C23.Model C23.Corr C24.Model C24.Spec.
Import ListNotations.
Local Open Scope N_scope.

Definition input := C23.Corr.input.
(* per step: statement result, committed table right after it, number of rows in dolt_constraint_violations *)
Record obs := { o_steps : list (sobs * list (N * cell * cell) * N) }.
Definition case := (input * obs)%type.

Definition model_obs (i : input) : obs :=
  {| o_steps := map (fun x => (fst x, snd x, 0)) (fst (crun (i_U i) (i_sched i) (world0 (i_init i) (i_autos i)))) |}.

Fixpoint steps_eqb (x y : list (sobs * list (N * cell * cell) * N)) : bool :=
  match x, y with
  | [], [] => true
  | (o, c, v) :: x', (o', c', v') :: y' => sobs_eqb o o' && rows_eqb c c' && (v =? v') && steps_eqb x' y'
  | _, _ => false
  end.
Definition obs_eqb (x y : obs) : bool := steps_eqb (o_steps x) (o_steps y).

(* every committed state the implementation exposed satisfies PRIMARY KEY, UNIQUE and CHECK
   (independent evaluation of the dumped rows), or violations are on record *)
Definition oracle (i : input) (o : obs) : bool :=
  Nat.eqb (length (o_steps o)) (length (i_sched i))
  && forallb (fun x => let '(_, c, v) := x in rows_valid c || (0 <? v)) (o_steps o).

Definition check_case (c : case) : N :=
  (if obs_eqb (model_obs (fst c)) (snd c) then 0 else 1)
  + (if oracle (fst c) (snd c) then 0 else 2).
