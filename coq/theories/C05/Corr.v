(* C05 — correspondence: model observation, comparison with what the implementation did, and the
   executable statement of the property evaluated on the implementation's observation. *)
From Coq Require Import NArith List Bool.
From Dolt Require Import Base.Str Gen.C05Consts C05.Model C05.Spec.
Import ListNotations.
Local Open Scope N_scope.

(* ---- equality tests ---- *)
Definition spec_eqb (a b : spec) : bool := hash_eqb (sp_name a) (sp_name b) && (sp_cnt a =? sp_cnt b).
Fixpoint list_eqb {A} (f : A -> A -> bool) (a b : list A) : bool :=
  match a, b with
  | [], [] => true
  | x :: a', y :: b' => f x y && list_eqb f a' b'
  | _, _ => false
  end.
Definition manifest_eqb (a b : manifest) : bool :=
  beq_bytes (m_vers a) (m_vers b) && beq_bytes (m_nbf a) (m_nbf b) && hash_eqb (m_lock a) (m_lock b)
  && hash_eqb (m_root a) (m_root b) && hash_eqb (m_gcgen a) (m_gcgen b)
  && list_eqb spec_eqb (m_specs a) (m_specs b) && list_eqb spec_eqb (m_appendix a) (m_appendix b).
Definition presult_eqb (a b : presult) : bool :=
  match a, b with
  | POk x, POk y => manifest_eqb x y
  | PErrEOF, PErrEOF | PCorrupt, PCorrupt | PUnknownVersion, PUnknownVersion | PBadSpecName, PBadSpecName
  | PBadCount, PBadCount | PBadLock, PBadLock | PBadGcGen, PBadGcGen | PBadRoot, PBadRoot => true
  | _, _ => false
  end.
Definition opt_eqb {A} (f : A -> A -> bool) (a b : option A) : bool :=
  match a, b with Some x, Some y => f x y | None, None => true | _, _ => false end.
Definition cname_eqb (a b : cname) : bool :=
  match a, b with
  | CTable h x, CTable k y => hash_eqb h k && Bool.eqb x y
  | CTmpTable i, CTmpTable j => i =? j
  | CTmpManifest i, CTmpManifest j => i =? j
  | _, _ => false
  end.
Definition cand_eqb (a b : cand) : bool := cname_eqb (fst a) (fst b) && stamp_eqb (snd a) (snd b).

(* ---- directory snapshots (what the harness can list) ---- *)
Definition snap := (option (bytes * N) * list cand)%type.
Definition snap_of (d : dir) : snap :=
  (d_manifest d,
   sort_cands (map (fun e => (CTable (fst (fst e)) (snd (fst e)), snd e)) (d_tables d)
               ++ map (fun e => (CTmpTable (fst e), snd e)) (d_tmpt d)
               ++ map (fun e => (CTmpManifest (fst (fst e)), snd e)) (d_tmpm d))).
Definition snap_eqb (a b : snap) : bool :=
  opt_eqb (fun x y => beq_bytes (fst x) (fst y) && (snd x =? snd y)) (fst a) (fst b) && list_eqb cand_eqb (snd a) (snd b).

Definition snap_table_exists (s : snap) (h : hash) : bool :=
  existsb (fun c => match fst c with CTable k _ => hash_eqb h k | _ => false end) (snd s).
(* Inv on a listed directory *)
Definition snap_inv_b (s : snap) : bool :=
  match fst s with
  | None => true
  | Some (t, _) => match parse_manifest t with
                   | POk m => forallb (snap_table_exists s) (names m)
                   | _ => false
                   end
  end.

(* ---- cases ---- *)
Inductive tstep := TS (s : step) | TUnlinkAll.     (* TUnlinkAll: PUnlink until the pruner lets go of the LOCK *)
Definition tres := (N * N * hash * option snap)%type.   (* code, aux (files deleted), returned lock, listing *)

Inductive input := IWrite (m : manifest) | IParse (t : bytes) | ITrace (steps : list tstep)
  | IConj (up : manifest) (cj : list hash) (c : spec).   (* conjoinOperation.updateManifest, first proposal *)
Inductive obs :=
| OWrite (t : option bytes) (p : option presult)   (* writeManifest output, parseManifest of that output *)
| OParse (p : presult)
| OTrace (l : list tres)
| OConj (new_specs : option (list spec)).            (* None: cannot apply, nothing proposed *)
Definition case := (input * obs)%type.

Definition empty_dir : dir := {| d_manifest := None; d_tables := []; d_tmpt := []; d_tmpm := []; d_other := [] |}.

Definition norm_code (c : N) : N := if c =? r_mismatch then r_ok else c.   (* Update returns err = nil in both cases *)

Fixpoint unlink_all (fuel : nat) (st : sys) (deleted : N) : sys * N * N :=
  match fuel with
  | O => (st, r_noop, deleted)
  | S f =>
    match sy_p st with
    | PLocked _ _ =>
      let '(st', code, _) := sys_step_r st PUnlink in
      if (code =? r_done) || (code =? r_changed) then (st', code, deleted)
      else unlink_all f st' (if code =? r_ok then deleted + 1 else deleted)
    | _ => (st, r_noop, deleted)
    end
  end.

Definition run_tstep (st : sys) (a : tstep) : sys * tres :=
  match a with
  | TS s => let '(st', code, lk) := sys_step_r st s in (st', (norm_code code, 0, lk, Some (snap_of (sy_dir st'))))
  | TUnlinkAll =>
    let fuel := match sy_p st with PLocked cs _ => S (length cs) | _ => 1%nat end in
    let '(st', code, n) := unlink_all fuel st 0 in (st', (code, n, [], Some (snap_of (sy_dir st'))))
  end.

Fixpoint run_trace (st : sys) (l : list tstep) : list tres :=
  match l with
  | [] => []
  | a :: r => let '(st', o) := run_tstep st a in o :: run_trace st' r
  end.

Definition model_obs (i : input) : obs :=
  match i with
  | IWrite m => let t := write_manifest m in OWrite t (match t with Some x => Some (parse_manifest x) | None => None end)
  | IParse t => OParse (parse_manifest t)
  | ITrace steps => OTrace (run_trace (sys_init empty_dir) steps)
  | IConj up cj c => OConj (if conj_can_apply up cj then Some (m_specs (conjoin_new up cj c zero_hash)) else None)
  end.

(* the implementation does not list the directory after every sub-step: compare listings where it did *)
Definition tres_eqb (m i : tres) : bool :=
  let '(mc, ma, ml, ms) := m in
  let '(ic, ia, il, is_) := i in
  (mc =? ic) && (ma =? ia) && hash_eqb ml il
  && match is_, ms with Some x, Some y => snap_eqb x y | None, _ => true | Some _, None => false end.

Definition obs_eqb (a b : obs) : bool :=
  match a, b with
  | OWrite t p, OWrite t' p' => opt_eqb beq_bytes t t' && opt_eqb presult_eqb p p'
  | OParse p, OParse p' => presult_eqb p p'
  | OTrace l, OTrace l' => list_eqb tres_eqb l l'
  | OConj a, OConj b => opt_eqb (list_eqb spec_eqb) a b
  | _, _ => false
  end.

(* ---- the property on what the implementation did ----
   codec:   a well-formed manifest is written and read back as itself (as persisted: version "5", no appendix);
            writeManifest refuses an empty format version / empty lock;
   trace:   in every listing the manifest parses and every table file / archive it names is listed (Inv), and a
            manifest text that differs from the previous listing's is exactly the serialisation of the contents
            proposed by the update in flight (the complete new one), installed by its final step. *)
Fixpoint trace_ok (steps : list tstep) (rs : list tres) (prev : option bytes) (pending : option manifest) : bool :=
  match steps, rs with
  | [], [] => true
  | a :: steps', (code, _, _, osn) :: rs' =>
    let pending' := match a with TS (ULock _ _ new) => if code =? r_ok then Some new else pending | _ => pending end in
    match osn with
    | None => trace_ok steps' rs' prev pending'
    | Some sn =>
      let cur := match fst sn with Some (t, _) => Some t | None => None end in
      snap_inv_b sn
      && (opt_eqb beq_bytes cur prev
          || match a, pending' with
             | TS UFinish, Some new => opt_eqb beq_bytes cur (write_manifest new) && wf_manifest_b new
             | _, _ => false
             end)
      && trace_ok steps' rs' cur pending'
    end
  | _, _ => false
  end.

Definition oracle (i : input) (o : obs) : bool :=
  match i, o with
  | IWrite m, OWrite t p =>
    if wf_manifest_b m
    then match t, p with Some _, Some r => presult_eqb r (POk (persisted_view m)) | _, _ => false end
    else if match m_nbf m with [] => true | _ => false end || hash_is_empty (m_lock m)
         then match t with None => true | Some _ => false end
         else true
  | IParse _, OParse _ => true
  | ITrace steps, OTrace rs => trace_ok steps rs None None
  | IConj up cj c, OConj o =>      (* a conjoin only shrinks: it proposes upstream's tables and the conjoined one, nothing else *)
    match o with
    | None => true
    | Some l => forallb (fun s => spec_eqb s c || existsb (spec_eqb s) (m_specs up)) l
    end
  | _, _ => false
  end.

Definition check_case (c : case) : N :=
  (if obs_eqb (model_obs (fst c)) (snd c) then 0 else 1)
  + (if oracle (fst c) (snd c) then 0 else 2).
