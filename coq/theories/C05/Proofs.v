(* C05 — proofs: the manifest codec round trip, the directory invariant over all schedules,
   and old-or-new atomicity of every step. *)
From Coq Require Import NArith List Bool Lia ZifyN ZifyNat ZifyBool.
From Dolt Require Import Base.Str Gen.C05Consts C05.Model C05.Spec.
Import ListNotations.
Local Open Scope N_scope.

(* ------------------------------------------------------------------ *)
(* constants the hand model relies on, pinned to the regenerated ones  *)
(* ------------------------------------------------------------------ *)
Lemma consts_pinned :
  c05_storage_version = [53] /\ c05_storage_version4 = [52] /\ c05_prefix_len = 5 /\ c05_hash_string_len = 32
  /\ c05_manifest_file_name = [109; 97; 110; 105; 102; 101; 115; 116]
  /\ c05_archive_file_suffix = [46; 100; 97; 114; 99].
Proof. repeat split; reflexivity. Qed.

(* ------------------------------------------------------------------ *)
(* Part (a): codec                                                     *)
(* ------------------------------------------------------------------ *)
Lemma b32_roundtrip d : d < 32 -> b32_val (b32_char d) = Some d.
Proof.
  intros H. unfold b32_val, b32_char. destruct (d <? 10) eqn:E.
  - apply N.ltb_lt in E.
    replace ((48 <=? 48 + d) && (48 + d <=? 57)) with true by lia.
    f_equal; lia.
  - apply N.ltb_ge in E.
    replace ((48 <=? 87 + d) && (87 + d <=? 57)) with false by lia.
    replace ((97 <=? 87 + d) && (87 + d <=? 118)) with true by lia.
    f_equal; lia.
Qed.

Lemma b32_char_not_colon d : d < 32 -> b32_char d <> c_colon.
Proof. intros H. unfold b32_char, c_colon. destruct (d <? 10) eqn:E; lia. Qed.

Lemma map_opt_b32 h : Forall (fun d => d < 32) h -> map_opt b32_val (map b32_char h) = Some h.
Proof.
  induction h as [|d h IH]; intros H; [reflexivity|].
  inversion H as [|? ? Hd Hh]; subst. cbn [map map_opt]. rewrite (b32_roundtrip d Hd), (IH Hh). reflexivity.
Qed.

Lemma maybe_parse_hash_str h : wf_hash h -> maybe_parse (hash_str h) = Some h.
Proof.
  intros [Hlen Hall]. unfold maybe_parse, hash_str. rewrite map_length, Hlen.
  change (N.of_nat 32 =? c05_hash_string_len) with true. cbn iota. apply map_opt_b32; exact Hall.
Qed.

Lemma hash_str_no_colon h : wf_hash h -> Forall (fun b => b <> c_colon) (hash_str h).
Proof.
  intros [_ Hall]. unfold hash_str. apply Forall_map. eapply Forall_impl; [|exact Hall].
  intros d Hd. apply b32_char_not_colon; exact Hd.
Qed.

Lemma split_on_nosep c x : Forall (fun b => b <> c) x -> split_on c x = [x].
Proof.
  induction x as [|a x IH]; intros H; [reflexivity|].
  inversion H as [|? ? Ha Hx]; subst. cbn [split_on].
  destruct (a =? c) eqn:E; [apply N.eqb_eq in E; contradiction|]. rewrite (IH Hx). reflexivity.
Qed.

Lemma split_on_app c x r : Forall (fun b => b <> c) x -> split_on c (x ++ c :: r) = x :: split_on c r.
Proof.
  induction x as [|a x IH]; intros H.
  - cbn [app split_on]. rewrite N.eqb_refl. reflexivity.
  - inversion H as [|? ? Ha Hx]; subst. cbn [app split_on].
    destruct (a =? c) eqn:E; [apply N.eqb_eq in E; contradiction|]. rewrite (IH Hx). reflexivity.
Qed.

Lemma split_join c l :
  l <> [] -> Forall (fun x => Forall (fun b => b <> c) x) l -> split_on c (join c l) = l.
Proof.
  induction l as [|x r IH]; intros Hne H; [contradiction|].
  inversion H as [|? ? Hx Hr]; subst.
  destruct r as [|y r'].
  - cbn [join]. apply split_on_nosep; exact Hx.
  - change (join c (x :: y :: r')) with (x ++ c :: join c (y :: r')).
    rewrite split_on_app by exact Hx. rewrite IH; [reflexivity|discriminate|exact Hr].
Qed.

(* decimal *)
Lemma dec_digits_spec fuel : forall n, n < 10 ^ N.of_nat fuel -> (0 < fuel)%nat ->
  Forall (fun d => d < 10) (dec_digits_le fuel n)
  /\ fold_right (fun d a => 10 * a + d) 0 (dec_digits_le fuel n) = n
  /\ dec_digits_le fuel n <> [].
Proof.
  induction fuel as [|f IH]; intros n Hn Hf; [lia|].
  cbn [dec_digits_le]. destruct (n <? 10) eqn:E.
  - apply N.ltb_lt in E. split; [|split]; [constructor; [exact E|constructor] | cbn; lia | discriminate].
  - apply N.ltb_ge in E.
    assert (Hpow : 10 ^ N.of_nat (S f) = 10 * 10 ^ N.of_nat f).
    { rewrite Nat2N.inj_succ, N.pow_succ_r'. reflexivity. }
    assert (Hf0 : (0 < f)%nat).
    { destruct f; [|lia]. cbn in Hn. lia. }
    assert (Hdiv : n / 10 < 10 ^ N.of_nat f).
    { apply N.div_lt_upper_bound; [lia|]. rewrite <- Hpow. exact Hn. }
    destruct (IH (n / 10) Hdiv Hf0) as [Hall [Hval Hne]].
    assert (Hmod : n mod 10 < 10) by (apply N.mod_lt; lia).
    split; [|split].
    + constructor; assumption.
    + cbn [fold_right]. rewrite Hval. pose proof (N.div_mod' n 10). lia.
    + discriminate.
Qed.

Lemma parse_digits_map ds : forall acc, Forall (fun d => d < 10) ds ->
  parse_digits (map (fun d => 48 + d) ds) acc = Some (fold_left (fun a d => 10 * a + d) ds acc).
Proof.
  induction ds as [|d ds IH]; intros acc H; [reflexivity|].
  inversion H as [|? ? Hd Hds]; subst. cbn [map parse_digits fold_left].
  replace (is_digit (48 + d)) with true by (unfold is_digit; lia).
  replace (48 + d - 48) with d by lia. apply IH; exact Hds.
Qed.

Lemma pow40 : 4294967296 < 10 ^ N.of_nat 40.
Proof. vm_compute. reflexivity. Qed.

Lemma parse_format_uint n : n < 4294967296 -> parse_u32 (format_uint n) = Some n.
Proof.
  intros Hn.
  destruct (dec_digits_spec 40 n) as [Hall [Hval Hne]]; [pose proof pow40; lia | lia |].
  unfold format_uint.
  assert (Hpd : parse_digits (map (fun d => 48 + d) (rev (dec_digits_le 40 n))) 0 = Some n).
  { rewrite parse_digits_map by (apply Forall_rev; exact Hall).
    f_equal. rewrite <- Hval at 2.
    rewrite <- (rev_involutive (dec_digits_le 40 n)) at 2.
    rewrite fold_left_rev_right. reflexivity. }
  unfold parse_u32.
  destruct (map (fun d => 48 + d) (rev (dec_digits_le 40 n))) as [|b l] eqn:E.
  - exfalso. apply map_eq_nil in E. apply (f_equal (@rev N)) in E. rewrite rev_involutive in E. cbn in E. contradiction.
  - rewrite Hpd. replace (n <? 4294967296) with true by lia. reflexivity.
Qed.

Lemma format_uint_no_colon n : n < 4294967296 -> Forall (fun b => b <> c_colon) (format_uint n).
Proof.
  intros Hn.
  destruct (dec_digits_spec 40 n) as [Hall _]; [pose proof pow40; lia | lia |].
  unfold format_uint. apply Forall_map. apply Forall_rev. eapply Forall_impl; [|exact Hall].
  intros d Hd. cbv beta in *. unfold c_colon. lia.
Qed.

Lemma parse_format_specs ss : Forall wf_spec ss -> parse_specs (format_specs ss) = SpOk ss.
Proof.
  induction ss as [|s ss IH]; intros H; [reflexivity|].
  inversion H as [|? ? [Hh Hc] Hss]; subst. cbn [format_specs parse_specs].
  rewrite (maybe_parse_hash_str _ Hh), (parse_format_uint _ Hc), (IH Hss). destruct s; reflexivity.
Qed.

Lemma format_specs_no_colon ss : Forall wf_spec ss ->
  Forall (fun x => Forall (fun b => b <> c_colon) x) (format_specs ss).
Proof.
  induction ss as [|s ss IH]; intros H; [constructor|].
  inversion H as [|? ? [Hh Hc] Hss]; subst. cbn [format_specs].
  constructor; [apply hash_str_no_colon; exact Hh|]. constructor; [apply format_uint_no_colon; exact Hc|]. apply IH; exact Hss.
Qed.

Lemma length_format_specs ss : length (format_specs ss) = (2 * length ss)%nat.
Proof. induction ss as [|s ss IH]; [reflexivity|]. cbn [format_specs length]. rewrite IH. lia. Qed.

Definition fields (m : manifest) : list bytes :=
  m_nbf m :: hash_str (m_lock m) :: hash_str (m_root m) :: hash_str (m_gcgen m) :: format_specs (m_specs m).

Lemma parse_v5_fields m : wf_manifest m -> parse_v5 (join c_colon (fields m)) = POk (persisted_view m).
Proof.
  intros [Hne [Hnbf [Hl [Hr [Hg [_ Hss]]]]]].
  unfold parse_v5. rewrite split_join.
  - unfold fields at 1 2.
    assert (Hlen : N.of_nat (length (fields m)) = 2 * N.of_nat (2 + length (m_specs m))).
    { unfold fields. cbn [length]. rewrite length_format_specs. lia. }
    unfold even_len. fold (fields m). rewrite Hlen, N.even_mul. cbn [N.even orb negb].
    replace (2 * N.of_nat (2 + length (m_specs m)) <? c05_prefix_len - 1) with false
      by (change (c05_prefix_len - 1) with 4; lia).
    cbn [orb]. unfold fields.
    rewrite (parse_format_specs _ Hss), (maybe_parse_hash_str _ Hl), (maybe_parse_hash_str _ Hg), (maybe_parse_hash_str _ Hr).
    reflexivity.
  - discriminate.
  - unfold fields. repeat constructor; try (apply hash_str_no_colon; assumption); try exact Hnbf.
    apply format_specs_no_colon; exact Hss.
Qed.

Lemma write_manifest_wf m : wf_manifest m ->
  write_manifest m = Some (c05_storage_version ++ c_colon :: join c_colon (fields m)).
Proof.
  intros [Hne [_ [_ [_ [_ [Hle _]]]]]]. unfold write_manifest. rewrite Hle.
  destruct (m_nbf m) as [|b nb] eqn:E; [contradiction|]. unfold fields. rewrite E. reflexivity.
Qed.

(* manifest_codec: every well-formed manifest is written, and the text reads back as that manifest
   (as persisted: storage version "5"; the appendix is not part of the file format). *)
Theorem manifest_codec m : wf_manifest m ->
  exists t, write_manifest m = Some t /\ parse_manifest t = POk (persisted_view m).
Proof.
  intros H. eexists. split; [apply write_manifest_wf; exact H|].
  unfold parse_manifest. change c05_storage_version with [53].
  change (read_version 8 ([53] ++ c_colon :: join c_colon (fields m)) []) with (VOk [53] (join c_colon (fields m))).
  cbn iota. change (beq_bytes [53] c05_storage_version4) with false. change (beq_bytes [53] [53]) with true. cbn iota.
  apply parse_v5_fields; exact H.
Qed.

Corollary manifest_codec_exact m : wf_manifest m -> m_vers m = c05_storage_version -> m_appendix m = [] ->
  exists t, write_manifest m = Some t /\ parse_manifest t = POk m.
Proof.
  intros H Hv Ha. destruct (manifest_codec m H) as [t [Hw Hp]]. exists t. split; [exact Hw|].
  rewrite Hp. f_equal. unfold persisted_view. destruct m; cbn in *; subst; reflexivity.
Qed.

(* writeManifest refuses an empty format version or an empty lock, and nothing else *)
Lemma write_manifest_none m :
  write_manifest m = None <-> (m_nbf m = [] \/ hash_is_empty (m_lock m) = true).
Proof.
  unfold write_manifest. destruct (m_nbf m) as [|b nb]; [split; [left; reflexivity | reflexivity]|].
  destruct (hash_is_empty (m_lock m)); split; intros H; try discriminate; try reflexivity.
  - right; reflexivity.
  - destruct H as [H|H]; discriminate.
Qed.

(* ------------------------------------------------------------------ *)
(* Part (b): the directory protocol                                    *)
(* ------------------------------------------------------------------ *)
Lemma hash_eqb_eq a b : hash_eqb a b = true <-> a = b.
Proof. apply beq_bytes_spec. Qed.

Lemma mem_hash_In h l : mem_hash h l = true <-> In h l.
Proof.
  unfold mem_hash. rewrite existsb_exists. split.
  - intros [x [Hin He]]. apply hash_eqb_eq in He. subst. exact Hin.
  - intros Hin. exists h. split; [exact Hin | apply hash_eqb_eq; reflexivity].
Qed.

Definition te (tbl : list (hash * bool * stamp)) (h : hash) : bool :=
  existsb (fun e => hash_eqb h (fst (fst e))) tbl.

Lemma te_cons e tbl h : te tbl h = true -> te (e :: tbl) h = true.
Proof. unfold te. cbn [existsb]. intros ->. apply orb_true_r. Qed.

Lemma te_remove k tbl h : te tbl h = true -> h <> fst k -> te (remove_table k tbl) h = true.
Proof.
  unfold te, remove_table. rewrite !existsb_exists. intros [e [Hin He]] Hne.
  exists e. split; [|exact He]. apply filter_In. split; [exact Hin|].
  unfold tkey_eqb. destruct (hash_eqb (fst k) (fst (fst e))) eqn:E; [|reflexivity].
  apply hash_eqb_eq in E. apply hash_eqb_eq in He. congruence.
Qed.

Lemma te_land h a sp tbl k : te tbl k = true -> te ((h, a, sp) :: remove_table (h, a) tbl) k = true.
Proof.
  intros H. destruct (hash_eqb k h) eqn:E.
  - unfold te. cbn [existsb fst]. rewrite E. reflexivity.
  - apply te_cons. apply te_remove; [exact H|]. cbn [fst]. intros ->. unfold hash_eqb in E. rewrite beq_bytes_refl in E. discriminate.
Qed.

Definition disk_parsed (d : dir) (m : manifest) : Prop :=
  exists t mt, d_manifest d = Some (t, mt) /\ parse_manifest t = POk m.

Lemma disk_parsed_fun d m m' : disk_parsed d m -> disk_parsed d m' -> m = m'.
Proof. intros [t [mt [H1 H2]]] [t' [mt' [H1' H2']]]. rewrite H1 in H1'. inversion H1'; subst. congruence. Qed.

Lemma Inv_alt d : Inv d <-> (forall m, disk_parsed d m -> forall h, In h (names m) -> table_exists d h = true)
                           /\ (forall t mt, d_manifest d = Some (t, mt) -> exists m, parse_manifest t = POk m).
Proof.
  unfold Inv. destruct (d_manifest d) as [[t mt]|] eqn:E.
  - split.
    + intros [m [Hp Hall]]. split.
      * intros m' [t' [mt' [H1 H2]]]. unfold disk_parsed in *. rewrite E in H1. inversion H1; subst. rewrite Hp in H2. inversion H2; subst. exact Hall.
      * intros t' mt' H1. inversion H1; subst. exists m. exact Hp.
    + intros [H1 H2]. destruct (H2 t mt eq_refl) as [m Hp]. exists m. split; [exact Hp|].
      apply H1. exists t, mt. rewrite E. split; [reflexivity|exact Hp].
  - split; [|trivial]. intros _. split.
    + intros m [t [mt [H1 _]]]. rewrite E in H1. discriminate.
    + intros t mt H. discriminate.
Qed.

(* the three parts of the system invariant *)
Definition PartA (st : sys) : Prop :=
  Inv (sy_dir st)
  /\ (forall m h, disk_parsed (sy_dir st) m -> In h (names m) -> In h (s_open (sy_s st)))
  /\ (forall m, disk_parsed (sy_dir st) m -> exists u, s_up (sy_s st) = Some u /\ forall h, In h (names m) -> In h (names u)).

Definition PartP (st : sys) : Prop :=
  match sy_p st with
  | PLocked _ keep => sy_lock st = Some APruner /\ forall m h, disk_parsed (sy_dir st) m -> In h (names m) -> In h keep
  | _ => sy_lock st <> Some APruner
  end.

Definition PartU (st : sys) : Prop :=
  match s_upd (sy_s st) with
  | Some u => sy_lock st = Some AStore /\ rep_manifest_b (u_new u) = true
              /\ (forall h, In h (names (u_new u)) -> In h (s_open (sy_s st)))
              /\ (forall id t sp, u_tmp u = Some id -> lookup_tmpm id (d_tmpm (sy_dir st)) = Some (t, sp) ->
                                  write_manifest (u_new u) = Some t)
  | None => sy_lock st <> Some AStore
  end.

Definition SysInv (st : sys) : Prop := PartA st /\ PartP st /\ PartU st.

Lemma A_frame st st' :
  d_manifest (sy_dir st') = d_manifest (sy_dir st) ->
  (forall h, table_exists (sy_dir st) h = true -> table_exists (sy_dir st') h = true) ->
  (forall h, In h (s_open (sy_s st)) -> In h (s_open (sy_s st'))) ->
  s_up (sy_s st') = s_up (sy_s st) ->
  PartA st -> PartA st'.
Proof.
  intros Hm Ht Ho Hu [Hinv [Hopen Hup]].
  assert (Hdp : forall m, disk_parsed (sy_dir st') m -> disk_parsed (sy_dir st) m).
  { intros m [t [mt [H1 H2]]]. exists t, mt. rewrite <- Hm. split; assumption. }
  split; [|split].
  - apply Inv_alt. apply Inv_alt in Hinv. destruct Hinv as [H1 H2]. split.
    + intros m Hd h Hin. apply Ht. eapply H1; [apply Hdp; exact Hd|exact Hin].
    + intros t mt H. rewrite Hm in H. eapply H2; exact H.
  - intros m h Hd Hin. apply Ho. eapply Hopen; [apply Hdp; exact Hd|exact Hin].
  - intros m Hd. rewrite Hu. apply Hup. apply Hdp; exact Hd.
Qed.

Lemma P_frame st st' :
  sy_p st' = sy_p st -> sy_lock st' = sy_lock st -> d_manifest (sy_dir st') = d_manifest (sy_dir st) ->
  PartP st -> PartP st'.
Proof.
  intros Hp Hl Hm H. unfold PartP in *. rewrite Hp, Hl. destruct (sy_p st); try exact H.
  destruct H as [H1 H2]. split; [exact H1|]. intros m h [t [mt [Ha Hb]]]. apply H2. exists t, mt. rewrite <- Hm. split; assumption.
Qed.

Lemma U_frame st st' :
  s_upd (sy_s st') = s_upd (sy_s st) -> sy_lock st' = sy_lock st ->
  (forall h, In h (s_open (sy_s st)) -> In h (s_open (sy_s st'))) ->
  (forall id x, lookup_tmpm id (d_tmpm (sy_dir st')) = Some x -> lookup_tmpm id (d_tmpm (sy_dir st)) = Some x) ->
  PartU st -> PartU st'.
Proof.
  intros Hu Hl Ho Ht H. unfold PartU in *. rewrite Hu, Hl. destruct (s_upd (sy_s st)) as [u|]; [|exact H].
  destruct H as [H1 [H2 [H3 H4]]]. repeat split; try assumption.
  - intros h Hin. apply Ho. apply H3. exact Hin.
  - intros id t sp Hid Hl'. eapply H4; [exact Hid|]. apply Ht. exact Hl'.
Qed.

(* (re)opening the directory establishes part A *)
Lemma A_init st : Inv (sy_dir st) -> sy_s st = s_init (sy_dir st) -> PartA st.
Proof.
  intros Hinv Hs. split; [exact Hinv|].
  assert (H : forall m, disk_parsed (sy_dir st) m -> sy_s st = {| s_open := names m; s_up := Some m; s_upd := None |}).
  { intros m [t [mt [H1 H2]]]. rewrite Hs. unfold s_init, parsed_manifest. rewrite H1, H2. reflexivity. }
  split.
  - intros m h Hd Hin. rewrite (H m Hd). exact Hin.
  - intros m Hd. rewrite (H m Hd). exists m. split; [reflexivity|auto].
Qed.

Lemma s_init_upd d : s_upd (s_init d) = None.
Proof. unfold s_init. destruct (parsed_manifest d) as [[]|]; reflexivity. Qed.

Theorem sysinv_init d : Inv d -> SysInv (sys_init d).
Proof.
  intros H. split; [|split].
  - apply A_init; [exact H|reflexivity].
  - cbn. discriminate.
  - unfold PartU. cbn [sys_init sy_s]. rewrite s_init_upd. cbn. discriminate.
Qed.

Lemma release_spec st a :
  release st a = (if holds st a then None else sy_lock st).
Proof. reflexivity. Qed.

Lemma holds_iff st a : holds st a = true <-> sy_lock st = Some a.
Proof.
  unfold holds. destruct (sy_lock st) as [b|]; [|split; discriminate].
  destruct a, b; cbn; split; intros H; try discriminate; try reflexivity; inversion H.
Qed.

Lemma lookup_tmpm_remove id id' l x :
  lookup_tmpm id (remove_tmpm id' l) = Some x -> lookup_tmpm id l = Some x.
Proof.
  unfold lookup_tmpm, remove_tmpm. induction l as [|[[i c] s] l IH]; cbn [filter map lookup_n fst snd]; [discriminate|].
  destruct (i =? id') eqn:E; cbn [negb].
  - intros H. destruct (i =? id) eqn:E2.
    + apply N.eqb_eq in E, E2. subst.
      exfalso. clear IH. induction l as [|[[j c'] s'] l IHl]; cbn [filter map lookup_n fst snd] in H; [discriminate|].
      destruct (j =? id) eqn:E3; cbn [negb] in H; [apply IHl; exact H|].
      cbn [map lookup_n fst snd] in H. rewrite E3 in H. apply IHl; exact H.
    + apply IH; exact H.
  - cbn [map lookup_n fst snd]. destruct (i =? id); [auto|exact IH].
Qed.

Lemma update_verdict_seen d u c up :
  update_verdict d u = VFail c (Some up) -> forall m, disk_parsed d m -> m = up.
Proof.
  unfold update_verdict, parsed_manifest. intros H m [t [mt [H1 H2]]]. rewrite H1, H2 in H.
  repeat match type of H with (if ?b then _ else _) = _ => destruct b end; inversion H; reflexivity.
Qed.

Lemma update_verdict_swap d u :
  Inv d -> update_verdict d u = VSwap -> forall h, In h (names (u_new u)) -> table_exists d h = true.
Proof.
  intros Hinv H h Hin. apply Inv_alt in Hinv. destruct Hinv as [Hi _].
  unfold update_verdict, parsed_manifest in H.
  assert (Hgo : forall up, (forall k, In k (names up) -> table_exists d k = true) ->
                           new_specs_present d up (u_new u) = true -> table_exists d h = true).
  { intros up Hup Hn. unfold new_specs_present in Hn. rewrite forallb_forall in Hn. specialize (Hn h Hin).
    apply orb_true_iff in Hn. destruct Hn as [Hn|Hn]; [|exact Hn]. apply Hup. apply mem_hash_In. exact Hn. }
  destruct (d_manifest d) as [[t mt]|] eqn:E.
  - destruct (parse_manifest t) as [up| | | | | | | |] eqn:Ep; try discriminate.
    apply (Hgo up).
    + apply Hi. exists t, mt. split; [exact E|exact Ep].
    + repeat match type of H with (if ?b then _ else _) = _ => destruct b eqn:? end; try discriminate; first [assumption|reflexivity].
  - apply (Hgo zero_manifest).
    + intros k Hk. destruct Hk.
    + repeat match type of H with (if ?b then _ else _) = _ => destruct b eqn:? end; try discriminate; first [assumption|reflexivity].
Qed.

Lemma rep_write_wf m t : rep_manifest_b m = true -> write_manifest m = Some t -> wf_manifest m.
Proof.
  unfold rep_manifest_b, write_manifest. intros Hr Hw.
  repeat (apply andb_true_iff in Hr; destruct Hr as [Hr ?]).
  assert (Hh : forall h, rep_hash_b h = true -> wf_hash h).
  { intros h Hh. unfold rep_hash_b in Hh. apply andb_true_iff in Hh. destruct Hh as [Hl Hf]. split; [lia|].
    apply Forall_forall. intros x Hx. rewrite forallb_forall in Hf. specialize (Hf x Hx). lia. }
  destruct (m_nbf m) as [|b nb] eqn:E; [discriminate|].
  destruct (hash_is_empty (m_lock m)) eqn:El; [discriminate|].
  unfold wf_manifest. rewrite E. repeat split; try (apply Hh; assumption); try discriminate.
  - apply Forall_forall. intros x Hx. rewrite forallb_forall in Hr. specialize (Hr x Hx). unfold c_colon in *. lia.
  - exact El.
  - apply Forall_forall. intros s Hs. match goal with H : forallb rep_spec_b (m_specs m) = true |- _ => rewrite forallb_forall in H; specialize (H s Hs); unfold rep_spec_b in H; apply andb_true_iff in H; destruct H as [Ha Hb] end.
    split; [apply Hh; exact Ha | lia].
Qed.

Lemma names_persisted_view m h : In h (names (persisted_view m)) -> In h (names m).
Proof. unfold names, persisted_view. cbn. rewrite app_nil_r, map_app. intros H. apply in_or_app. left. exact H. Qed.

Ltac simp := cbn [fst snd sy_dir sy_lock sy_s sy_p set_d set_s set_manifest set_tables set_tmpt set_tmpm set_other
                  d_manifest d_tables d_tmpt d_tmpm d_other s_open s_up s_upd u_new u_tmp u_gc u_last] in *.
Ltac frames HA HP HU :=
  split; [eapply A_frame; [| | | |exact HA] | split; [eapply P_frame; [| | |exact HP] | eapply U_frame; [| | | |exact HU]]];
  simp; unfold table_exists; simp; try reflexivity; auto using in_cons.

Lemma table_exists_te d h : table_exists d h = te (d_tables d) h.
Proof. reflexivity. Qed.

(* the lock cannot be held by both *)
Lemma upd_not_plocked st : PartP st -> PartU st -> s_upd (sy_s st) <> None ->
  match sy_p st with PLocked _ _ => False | _ => True end.
Proof.
  unfold PartP, PartU. intros HP HU Hn. destruct (sy_p st); try exact I.
  destruct (s_upd (sy_s st)); [|contradiction]. destruct HP as [HP _]. destruct HU as [HU _]. congruence.
Qed.

Lemma step_store_simple st a :
  match a with STmpTable _ _ _ | SLand _ _ _ | SOpen _ | SUnlinkTmp _ | ETouch _ _ => True | _ => False end ->
  SysInv st -> SysInv (sys_step st a).
Proof.
  intros Ha [HA [HP HU]]. unfold sys_step, sys_step_r. destruct a; try contradiction.
  - destruct (lookup_n id (d_tmpt (sy_dir st))); [exact (conj HA (conj HP HU))|]. frames HA HP HU.
  - destruct (lookup_n id (d_tmpt (sy_dir st))); [|exact (conj HA (conj HP HU))]. frames HA HP HU.
    intros k Hk. apply te_land. exact Hk.
  - destruct (table_exists (sy_dir st) h); [|exact (conj HA (conj HP HU))]. frames HA HP HU.
  - frames HA HP HU.
  - frames HA HP HU.
Qed.

Lemma step_sclose st h : SysInv st -> SysInv (sys_step st (SClose h)).
Proof.
  intros [HA [HP HU]]. unfold sys_step, sys_step_r.
  destruct (s_upd (sy_s st)) eqn:Eu; [exact (conj HA (conj HP HU))|].
  destruct (match s_up (sy_s st) with Some m => mem_hash h (names m) | None => false end) eqn:Em; [exact (conj HA (conj HP HU))|].
  simp. split; [|split].
  - destruct HA as [Hinv [Hopen Hup]]. split; [exact Hinv|split]; simp.
    + intros m k Hd Hin. apply filter_In. split; [eapply Hopen; eassumption|].
      destruct (Hup m Hd) as [u [Hu Hsub]]. rewrite Hu in Em.
      destruct (hash_eqb h k) eqn:E; [|reflexivity]. apply hash_eqb_eq in E. subst k.
      apply Hsub in Hin. apply mem_hash_In in Hin. congruence.
    + exact Hup.
  - exact HP.
  - unfold PartU in *. simp. rewrite Eu in HU. exact HU.
Qed.

Lemma step_sunlink st h arch : SysInv st -> SysInv (sys_step st (SUnlink h arch)).
Proof.
  intros [HA [HP HU]]. unfold sys_step, sys_step_r.
  destruct (mem_hash h (s_open (sy_s st))) eqn:Em; [exact (conj HA (conj HP HU))|].
  simp. split; [|split].
  - destruct HA as [Hinv [Hopen Hup]]. split; [|split]; simp; try assumption.
    apply Inv_alt. apply Inv_alt in Hinv. destruct Hinv as [H1 H2]. split; simp; [|exact H2].
    intros m Hd k Hin. rewrite table_exists_te. simp. apply te_remove.
    + rewrite <- table_exists_te. eapply H1; eassumption.
    + simp. intros ->. apply (Hopen m h Hd) in Hin. apply mem_hash_In in Hin. congruence.
  - exact HP.
  - exact HU.
Qed.

Lemma forallb_mem_In l o : forallb (fun h => mem_hash h o) l = true -> forall h, In h l -> In h o.
Proof. intros H h Hin. rewrite forallb_forall in H. apply mem_hash_In. apply H. exact Hin. Qed.

Lemma step_ulock st gc last new : SysInv st -> SysInv (sys_step st (ULock gc last new)).
Proof.
  intros [HA [HP HU]]. unfold sys_step, sys_step_r.
  destruct (s_upd (sy_s st)) eqn:Eu; [exact (conj HA (conj HP HU))|].
  destruct (rep_manifest_b new && forallb (fun h => mem_hash h (s_open (sy_s st))) (names new)) eqn:Eg;
    [|exact (conj HA (conj HP HU))]. cbn [negb].
  destruct (sy_lock st) eqn:El; [exact (conj HA (conj HP HU))|].
  apply andb_true_iff in Eg. destruct Eg as [Er Ef]. simp. split; [|split].
  - eapply A_frame; [| | | |exact HA]; simp; auto.
  - unfold PartP in *. simp. destruct (sy_p st); try discriminate. destruct HP as [HP _]. congruence.
  - unfold PartU. simp. repeat split; try assumption.
    + apply forallb_mem_In. exact Ef.
    + intros id t sp H. discriminate.
Qed.

(* when the store process lets go of the LOCK *)
Lemma P_after_store_release st st' :
  PartP st -> sy_lock st = Some AStore -> sy_p st' = sy_p st -> sy_lock st' = None -> PartP st'.
Proof.
  unfold PartP. intros HP Hl Hp Hl'. rewrite Hp, Hl'. destruct (sy_p st); try discriminate.
  destruct HP as [HP _]. congruence.
Qed.

Lemma step_utemp st id mt : SysInv st -> SysInv (sys_step st (UTemp id mt)).
Proof.
  intros [HA [HP HU]]. unfold sys_step, sys_step_r.
  destruct (s_upd (sy_s st)) as [u|] eqn:Eu; [|exact (conj HA (conj HP HU))].
  destruct (u_tmp u) eqn:Et; [exact (conj HA (conj HP HU))|].
  destruct (lookup_tmpm id (d_tmpm (sy_dir st))) eqn:El; [exact (conj HA (conj HP HU))|].
  assert (HU' := HU). unfold PartU in HU'. rewrite Eu in HU'. destruct HU' as [Hlk [Hrep [Hnames _]]].
  destruct (write_manifest (u_new u)) as [t|] eqn:Ew; simp.
  - split; [|split].
    + eapply A_frame; [| | | |exact HA]; simp; auto.
    + eapply P_frame; [| | |exact HP]; simp; auto.
    + unfold PartU. simp. repeat split; try assumption.
      intros id' t' sp' Hid Hl'. inversion Hid; subst id'. unfold lookup_tmpm in Hl'. cbn [map lookup_n fst snd] in Hl'.
      rewrite N.eqb_refl in Hl'. inversion Hl'; subst. exact Ew.
  - assert (Hrel : release st AStore = None).
    { rewrite release_spec. replace (holds st AStore) with true; [reflexivity|]. symmetry. apply holds_iff. exact Hlk. }
    rewrite Hrel. split; [|split].
    + eapply A_frame; [| | | |exact HA]; simp; auto.
    + eapply P_after_store_release; [exact HP|exact Hlk|reflexivity|reflexivity].
    + unfold PartU. simp. discriminate.
Qed.

Lemma Inv_same_disk d d' :
  d_manifest d' = d_manifest d -> d_tables d' = d_tables d -> Inv d -> Inv d'.
Proof. unfold Inv, table_exists. intros -> ->. auto. Qed.

Lemma step_utemppartial st id mt k : SysInv st -> SysInv (sys_step st (UTempPartial id mt k)).
Proof.
  intros [HA [HP HU]]. unfold sys_step, sys_step_r.
  destruct (s_upd (sy_s st)) as [u|] eqn:Eu; [|exact (conj HA (conj HP HU))].
  destruct (u_tmp u) eqn:Et; [exact (conj HA (conj HP HU))|].
  destruct (lookup_tmpm id (d_tmpm (sy_dir st))) eqn:El; [exact (conj HA (conj HP HU))|].
  destruct (write_manifest (u_new u)) as [t|] eqn:Ew; [|exact (conj HA (conj HP HU))].
  assert (HU' := HU). unfold PartU in HU'. rewrite Eu in HU'. destruct HU' as [Hlk _].
  assert (Hrel : release st AStore = None).
  { rewrite release_spec. replace (holds st AStore) with true; [reflexivity|]. symmetry. apply holds_iff. exact Hlk. }
  rewrite Hrel. simp. split; [|split].
  - apply A_init; simp; [|reflexivity]. eapply Inv_same_disk; [| |exact (proj1 HA)]; reflexivity.
  - eapply P_after_store_release; [exact HP|exact Hlk|reflexivity|reflexivity].
  - unfold PartU. simp. rewrite s_init_upd. discriminate.
Qed.

Lemma step_uabort st : SysInv st -> SysInv (sys_step st UAbort).
Proof.
  intros [HA [HP HU]]. unfold sys_step, sys_step_r.
  destruct (s_upd (sy_s st)) as [u|] eqn:Eu; [|exact (conj HA (conj HP HU))].
  destruct (u_tmp u) eqn:Et; [|exact (conj HA (conj HP HU))].
  assert (HU' := HU). unfold PartU in HU'. rewrite Eu in HU'. destruct HU' as [Hlk _].
  assert (Hrel : release st AStore = None).
  { rewrite release_spec. replace (holds st AStore) with true; [reflexivity|]. symmetry. apply holds_iff. exact Hlk. }
  rewrite Hrel. simp. split; [|split].
  - eapply A_frame; [| | | |exact HA]; simp; auto.
  - eapply P_after_store_release; [exact HP|exact Hlk|reflexivity|reflexivity].
  - unfold PartU. simp. discriminate.
Qed.

Lemma step_ufinish st : SysInv st -> SysInv (sys_step st UFinish).
Proof.
  intros [HA [HP HU]]. unfold sys_step, sys_step_r.
  destruct (s_upd (sy_s st)) as [u|] eqn:Eu; [|exact (conj HA (conj HP HU))].
  destruct (u_tmp u) as [id|] eqn:Et; [|exact (conj HA (conj HP HU))].
  assert (HU' := HU). unfold PartU in HU'. rewrite Eu in HU'. destruct HU' as [Hlk [Hrep [Hnames Htmp]]].
  assert (Hrel : release st AStore = None).
  { rewrite release_spec. replace (holds st AStore) with true; [reflexivity|]. symmetry. apply holds_iff. exact Hlk. }
  rewrite Hrel.
  assert (Hfail : forall s', s_open s' = s_open (sy_s st) -> s_upd s' = None ->
            (forall m, disk_parsed (sy_dir st) m -> exists u0, s_up s' = Some u0 /\ forall h, In h (names m) -> In h (names u0)) ->
            SysInv {| sy_dir := set_tmpm (sy_dir st) (remove_tmpm id (d_tmpm (sy_dir st))); sy_lock := None; sy_s := s'; sy_p := sy_p st |}).
  { intros s' Ho Hu Hup'. destruct HA as [Hinv [Hopen Hup]]. split; [|split].
    - split; [|split]; simp.
      + eapply Inv_same_disk; [| |exact Hinv]; reflexivity.
      + intros m h Hd Hin. rewrite Ho. eapply Hopen; [|exact Hin]. exact Hd.
      + intros m Hd. apply Hup'. exact Hd.
    - eapply P_after_store_release; [exact HP|exact Hlk|reflexivity|reflexivity].
    - unfold PartU. simp. rewrite Hu. discriminate. }
  destruct (update_verdict (sy_dir st) u) as [|code seen] eqn:Ev; simp.
  - destruct (lookup_tmpm id (d_tmpm (sy_dir st))) as [[t sp]|] eqn:El; simp.
    + (* the swap *)
      pose proof (Htmp id t sp Et El) as Hw.
      pose proof (rep_write_wf _ _ Hrep Hw) as Hwf.
      destruct (manifest_codec _ Hwf) as [t' [Hw' Hp]]. rewrite Hw in Hw'. inversion Hw'; subst t'.
      assert (Hdp : forall m, disk_parsed (set_manifest (set_tmpm (sy_dir st) (remove_tmpm id (d_tmpm (sy_dir st)))) (Some (t, fst sp))) m ->
                              m = persisted_view (u_new u)).
      { intros m [t0 [mt0 [H1 H2]]]. simp. inversion H1; subst. congruence. }
      split; [|split].
      * split; [|split]; simp.
        -- apply Inv_alt. split; simp.
           ++ intros m Hd h Hin. rewrite (Hdp m Hd) in Hin. apply names_persisted_view in Hin.
              pose proof (update_verdict_swap _ _ (proj1 HA) Ev h Hin) as He. exact He.
           ++ intros t0 mt0 H. inversion H; subst. eexists. exact Hp.
        -- intros m h Hd Hin. rewrite (Hdp m Hd) in Hin. apply Hnames. apply names_persisted_view. exact Hin.
        -- intros m Hd. eexists. split; [reflexivity|]. intros h Hin. rewrite (Hdp m Hd) in Hin. apply names_persisted_view. exact Hin.
      * unfold PartP. simp. pose proof (upd_not_plocked st HP HU) as Hn. rewrite Eu in Hn.
        destruct (sy_p st); try discriminate. exfalso. apply Hn. discriminate.
      * unfold PartU. simp. discriminate.
    + apply Hfail; simp; try reflexivity. exact (proj2 (proj2 HA)).
  - apply Hfail; simp; try reflexivity.
    destruct seen as [up|]; simp; [|exact (proj2 (proj2 HA))].
    intros m Hd. exists up. split; [reflexivity|]. rewrite (update_verdict_seen _ _ _ _ Ev m Hd). auto.
Qed.

Lemma step_scrash st : SysInv st -> SysInv (sys_step st SCrash).
Proof.
  intros [HA [HP HU]]. unfold sys_step, sys_step_r. simp. split; [|split].
  - apply A_init; simp; [exact (proj1 HA)|reflexivity].
  - unfold PartP in *. simp. rewrite release_spec. destruct (holds st AStore) eqn:Eh.
    + apply holds_iff in Eh. destruct (sy_p st); try discriminate. destruct HP as [HP _]. congruence.
    + exact HP.
  - unfold PartU. simp. rewrite s_init_upd. rewrite release_spec. destruct (holds st AStore) eqn:Eh; [discriminate|].
    intros H. apply holds_iff in H. congruence.
Qed.

Lemma U_when_pruner_holds st : PartU st -> sy_lock st = Some APruner -> s_upd (sy_s st) = None.
Proof. unfold PartU. intros HU Hl. destruct (s_upd (sy_s st)); [destruct HU as [HU _]; congruence|reflexivity]. Qed.

Lemma step_pscan st g p : SysInv st -> SysInv (sys_step st (PScan g p)).
Proof.
  intros [HA [HP HU]]. unfold sys_step, sys_step_r.
  destruct (sy_p st) eqn:Ep; try exact (conj HA (conj HP HU)).
  destruct (p <? newest_mtime (sy_dir st) + g); [exact (conj HA (conj HP HU))|].
  destruct (scan_candidates (sy_dir st)); [exact (conj HA (conj HP HU))|]. simp. split; [|split].
  - eapply A_frame; [| | | |exact HA]; simp; auto.
  - unfold PartP in *. simp. rewrite Ep in HP. exact HP.
  - eapply U_frame; [| | | |exact HU]; simp; auto.
Qed.

Lemma step_plock st extra : SysInv st -> SysInv (sys_step st (PLock extra)).
Proof.
  intros [HA [HP HU]]. unfold sys_step, sys_step_r.
  destruct (sy_p st) as [|cs mm|] eqn:Ep; try exact (conj HA (conj HP HU)).
  assert (Hidle : SysInv {| sy_dir := sy_dir st; sy_lock := sy_lock st; sy_s := sy_s st; sy_p := PIdle |}).
  { split; [|split].
    - eapply A_frame; [| | | |exact HA]; simp; auto.
    - unfold PartP in *. simp. rewrite Ep in HP. exact HP.
    - eapply U_frame; [| | | |exact HU]; simp; auto. }
  destruct (sy_lock st) eqn:El; [exact Hidle|].
  assert (Hlocked : forall keep, (forall m h, disk_parsed (sy_dir st) m -> In h (names m) -> In h keep) ->
            SysInv {| sy_dir := sy_dir st; sy_lock := Some APruner; sy_s := sy_s st; sy_p := PLocked cs keep |}).
  { intros keep Hk. split; [|split].
    - eapply A_frame; [| | | |exact HA]; simp; auto.
    - unfold PartP. simp. split; [reflexivity|exact Hk].
    - unfold PartU in *. simp. destruct (s_upd (sy_s st)); [destruct HU as [HU _]; congruence|discriminate]. }
  unfold parsed_manifest. destruct (d_manifest (sy_dir st)) as [[t mt]|] eqn:Em.
  - destruct (parse_manifest t) as [m| | | | | | | |] eqn:Epm; try exact Hidle.
    destruct (optN_eqb mm (manifest_mtime (sy_dir st))); [|exact Hidle].
    apply Hlocked. intros m' h Hd Hin.
    assert (m' = m). { apply (disk_parsed_fun (sy_dir st)); [exact Hd|]. exists t, mt. split; assumption. }
    subst m'. apply in_or_app. right. exact Hin.
  - destruct (optN_eqb mm None); [|exact Hidle].
    apply Hlocked. intros m' h [t [mt [H1 _]]]. rewrite Em in H1. discriminate.
Qed.

Lemma step_punlink st : SysInv st -> SysInv (sys_step st PUnlink).
Proof.
  intros [HA [HP HU]]. unfold sys_step, sys_step_r.
  destruct (sy_p st) as [| |cs keep] eqn:Ep; try exact (conj HA (conj HP HU)).
  assert (HP' := HP). unfold PartP in HP'. rewrite Ep in HP'. destruct HP' as [Hlk Hkeep].
  assert (Hnu : s_upd (sy_s st) = None) by (apply U_when_pruner_holds; assumption).
  assert (Hrel : release st APruner = None).
  { rewrite release_spec. replace (holds st APruner) with true; [reflexivity|]. symmetry. apply holds_iff. exact Hlk. }
  assert (Hdone : SysInv {| sy_dir := sy_dir st; sy_lock := None; sy_s := sy_s st; sy_p := PIdle |}).
  { split; [|split].
    - eapply A_frame; [| | | |exact HA]; simp; auto.
    - unfold PartP. simp. discriminate.
    - unfold PartU. simp. rewrite Hnu. discriminate. }
  assert (Hnext : forall rest d', d_manifest d' = d_manifest (sy_dir st) ->
            (forall m h, disk_parsed (sy_dir st) m -> In h (names m) -> table_exists d' h = true) ->
            SysInv {| sy_dir := d'; sy_lock := sy_lock st; sy_s := sy_s st; sy_p := PLocked rest keep |}).
  { intros rest d' Hm Ht. destruct HA as [Hinv [Hopen Hup]].
    assert (Hdp : forall m, disk_parsed d' m -> disk_parsed (sy_dir st) m).
    { intros m [t [mt [H1 H2]]]. exists t, mt. rewrite <- Hm. split; assumption. }
    split; [|split].
    - split; [|split]; simp.
      + apply Inv_alt. apply Inv_alt in Hinv. destruct Hinv as [H1 H2]. split.
        * intros m Hd h Hin. eapply Ht; [apply Hdp; exact Hd|exact Hin].
        * intros t mt H. rewrite Hm in H. eapply H2; exact H.
      + intros m h Hd Hin. eapply Hopen; [apply Hdp; exact Hd|exact Hin].
      + intros m Hd. apply Hup. apply Hdp; exact Hd.
    - unfold PartP. simp. split; [exact Hlk|]. intros m h Hd Hin. eapply Hkeep; [apply Hdp; exact Hd|exact Hin].
    - unfold PartU. simp. rewrite Hnu. rewrite Hlk. discriminate. }
  assert (Hsame : forall rest, SysInv {| sy_dir := sy_dir st; sy_lock := sy_lock st; sy_s := sy_s st; sy_p := PLocked rest keep |}).
  { intros rest. apply Hnext; [reflexivity|]. intros m h Hd Hin. pose proof (proj1 HA) as Hinv0. apply Inv_alt in Hinv0. eapply (proj1 Hinv0); eassumption. }
  destruct cs as [|[c sp] rest]; [rewrite Hrel; exact Hdone|].
  destruct (match c with CTable h _ => mem_hash h keep | _ => false end) eqn:Ek; [apply Hsame|].
  destruct (cand_stat (sy_dir st) c) as [sp'|]; [|apply Hsame].
  destruct (stamp_eqb sp sp'); [|rewrite Hrel; exact Hdone].
  simp. apply Hnext.
  - destruct c; reflexivity.
  - intros m h Hd Hin. pose proof (proj1 HA) as Hinv. apply Inv_alt in Hinv.
    pose proof (proj1 Hinv m Hd h Hin) as He.
    destruct c as [k a| |]; simp; try exact He.
    rewrite table_exists_te. simp. apply te_remove; [exact He|]. simp. intros ->.
    pose proof (Hkeep m k Hd Hin) as Hk. apply mem_hash_In in Hk. congruence.
Qed.

Lemma step_pcrash st : SysInv st -> SysInv (sys_step st PCrash).
Proof.
  intros [HA [HP HU]]. unfold sys_step, sys_step_r. simp. split; [|split].
  - eapply A_frame; [| | | |exact HA]; simp; auto.
  - unfold PartP. simp. rewrite release_spec. destruct (holds st APruner) eqn:Eh; [discriminate|].
    intros H. apply holds_iff in H. congruence.
  - unfold PartU in *. simp. rewrite release_spec. destruct (holds st APruner) eqn:Eh; [|exact HU].
    apply holds_iff in Eh. destruct (s_upd (sy_s st)); [destruct HU as [HU _]; congruence|discriminate].
Qed.

(* every step of every actor preserves the system invariant *)
Theorem sysinv_step st a : SysInv st -> SysInv (sys_step st a).
Proof.
  intros H. destruct a.
  - apply step_store_simple; [exact I|exact H].
  - apply step_store_simple; [exact I|exact H].
  - apply step_store_simple; [exact I|exact H].
  - apply step_sclose; exact H.
  - apply step_sunlink; exact H.
  - apply step_store_simple; [exact I|exact H].
  - apply step_ulock; exact H.
  - apply step_utemp; exact H.
  - apply step_utemppartial; exact H.
  - apply step_uabort; exact H.
  - apply step_ufinish; exact H.
  - apply step_scrash; exact H.
  - apply step_pscan; exact H.
  - apply step_plock; exact H.
  - apply step_punlink; exact H.
  - apply step_pcrash; exact H.
  - apply step_store_simple; [exact I|exact H].
Qed.

Theorem sysinv_reachable sched : forall st, SysInv st -> SysInv (fold_left sys_step sched st).
Proof. induction sched as [|a r IH]; intros st H; [exact H|]. cbn [fold_left]. apply IH. apply sysinv_step. exact H. Qed.

(* inv_step: one step of any actor from a state satisfying the coupling invariant keeps Inv *)
Theorem inv_step st a : SysInv st -> Inv (sy_dir (sys_step st a)).
Proof. intros H. exact (proj1 (proj1 (sysinv_step st a H))). Qed.

(* inv_reachable — all interleavings, all crash points (SCrash / PCrash / UTempPartial steps anywhere in the schedule):
   starting from any directory that satisfies Inv, opened by the store process, every reachable directory satisfies Inv. *)
Theorem inv_reachable : forall (sched : list step) (d0 : dir),
  Inv d0 -> Inv (sy_dir (fold_left sys_step sched (sys_init d0))).
Proof. intros sched d0 H. exact (proj1 (proj1 (sysinv_reachable sched _ (sysinv_init d0 H)))). Qed.

(* ------------------------------------------------------------------ *)
(* atomic replacement                                                  *)
(* ------------------------------------------------------------------ *)
Ltac destruct_matches :=
  repeat match goal with
         | |- context [match ?x with _ => _ end] => destruct x
         end.

Lemma manifest_text_other_steps st a :
  a <> UFinish -> manifest_text (sy_dir (sys_step st a)) = manifest_text (sy_dir st).
Proof.
  intros Ha. unfold sys_step, sys_step_r. destruct a; try contradiction; try reflexivity;
    try (destruct_matches; reflexivity).
  destruct (sy_p st) as [| |cs keep]; try reflexivity. destruct cs as [|[c sp] rest]; [reflexivity|].
  destruct (match c with CTable h _ => mem_hash h keep | _ => false end); [reflexivity|].
  destruct (cand_stat (sy_dir st) c); [|reflexivity]. destruct (stamp_eqb sp s); [|reflexivity].
  destruct c; reflexivity.
Qed.

(* update_atomic: at every step of every actor, the persisted manifest afterwards is the complete old one
   or the complete serialisation of the contents proposed by the update in flight (which reads back as them). *)
Theorem update_atomic st a : SysInv st -> old_or_new st (sys_step st a).
Proof.
  intros HS. destruct (match a with UFinish => true | _ => false end) eqn:Ea.
  2:{ left. apply manifest_text_other_steps. intros ->. discriminate. }
  destruct a; try discriminate. clear Ea.
  destruct HS as [HA [HP HU]]. unfold old_or_new, sys_step, sys_step_r, pending_new.
  destruct (s_upd (sy_s st)) as [u|] eqn:Eu; [|left; reflexivity].
  destruct (u_tmp u) as [id|] eqn:Et; [|left; reflexivity].
  unfold PartU in HU. rewrite Eu in HU. destruct HU as [Hlk [Hrep [Hnames Htmp]]].
  destruct (update_verdict (sy_dir st) u) as [|code seen] eqn:Ev; [|left; reflexivity].
  destruct (lookup_tmpm id (d_tmpm (sy_dir st))) as [[t sp]|] eqn:El; [|left; reflexivity].
  right. exists (u_new u).
  pose proof (Htmp id t sp Et El) as Hw. pose proof (rep_write_wf _ _ Hrep Hw) as Hwf.
  split; [reflexivity|]. split; [exact Hwf|]. split.
  - simp. unfold manifest_text. simp. symmetry. exact Hw.
  - intros t0 Ht0. destruct (manifest_codec _ Hwf) as [t1 [H1 H2]]. congruence.
Qed.

Theorem update_atomic_reachable : forall (sched : list step) (d0 : dir) (a : step),
  Inv d0 -> let st := fold_left sys_step sched (sys_init d0) in old_or_new st (sys_step st a).
Proof. intros sched d0 a H st. apply update_atomic. apply sysinv_reachable. apply sysinv_init. exact H. Qed.

(* an update that does not reach the swap (stale lock, failed check, missing table file, hook error, crash)
   leaves the persisted manifest exactly as it was *)
Theorem failed_update_changes_nothing st u :
  s_upd (sy_s st) = Some u -> update_verdict (sy_dir st) u <> VSwap ->
  manifest_text (sy_dir (sys_step st UFinish)) = manifest_text (sy_dir st).
Proof.
  intros Hu Hv. unfold sys_step, sys_step_r. rewrite Hu. destruct (u_tmp u); [|reflexivity].
  destruct (update_verdict (sy_dir st) u); [contradiction|reflexivity].
Qed.

(* ------------------------------------------------------------------ *)
(* the codec oracle holds of the model                                  *)
(* ------------------------------------------------------------------ *)
From Dolt Require Import C05.Corr.

Lemma wf_manifest_b_true m : wf_manifest_b m = true -> wf_manifest m.
Proof.
  unfold wf_manifest_b. intros H.
  repeat (apply andb_true_iff in H; destruct H as [H ?]).
  assert (Hh : forall h, rep_hash_b h = true -> wf_hash h).
  { intros h Hh. unfold rep_hash_b in Hh. apply andb_true_iff in Hh. destruct Hh as [Hl Hf]. split; [lia|].
    apply Forall_forall. intros x Hx. rewrite forallb_forall in Hf. specialize (Hf x Hx). lia. }
  unfold wf_manifest. repeat split; try (apply Hh; assumption).
  - destruct (m_nbf m); [discriminate|discriminate].
  - apply Forall_forall. intros x Hx.
    match goal with H : forallb (fun c => negb (c =? c_colon)) (m_nbf m) = true |- _ => rewrite forallb_forall in H; specialize (H x Hx) end.
    unfold c_colon in *. lia.
  - match goal with H : negb (hash_is_empty (m_lock m)) = true |- _ => apply negb_true_iff in H; exact H end.
  - apply Forall_forall. intros s Hs.
    match goal with H : forallb rep_spec_b (m_specs m) = true |- _ => rewrite forallb_forall in H; specialize (H s Hs); unfold rep_spec_b in H; apply andb_true_iff in H; destruct H as [Ha Hb] end.
    split; [apply Hh; exact Ha | lia].
Qed.

Lemma spec_eqb_refl s : spec_eqb s s = true.
Proof. unfold spec_eqb, hash_eqb. rewrite beq_bytes_refl, N.eqb_refl. reflexivity. Qed.

Lemma list_eqb_refl {A} (f : A -> A -> bool) l : (forall x, f x x = true) -> list_eqb f l l = true.
Proof. intros Hf. induction l as [|x l IH]; [reflexivity|]. cbn [list_eqb]. rewrite Hf, IH. reflexivity. Qed.

Lemma manifest_eqb_refl m : manifest_eqb m m = true.
Proof.
  unfold manifest_eqb, hash_eqb. rewrite !beq_bytes_refl, !(list_eqb_refl spec_eqb) by apply spec_eqb_refl. reflexivity.
Qed.

Theorem oracle_on_model_codec m : oracle (IWrite m) (model_obs (IWrite m)) = true.
Proof.
  cbn [model_obs oracle]. destruct (wf_manifest_b m) eqn:Ew.
  - apply wf_manifest_b_true in Ew. destruct (manifest_codec m Ew) as [t [Hw Hp]]. rewrite Hw, Hp.
    cbn [presult_eqb]. apply manifest_eqb_refl.
  - destruct (match m_nbf m with [] => true | _ :: _ => false end || hash_is_empty (m_lock m)) eqn:E; [|reflexivity].
    replace (write_manifest m) with (@None bytes); [reflexivity|]. symmetry. apply write_manifest_none.
    apply orb_true_iff in E. destruct E as [E|E]; [left; destruct (m_nbf m); [reflexivity|discriminate] | right; exact E].
Qed.

(* ------------------------------------------------------------------ *)
(* non-vacuity                                                          *)
(* ------------------------------------------------------------------ *)
Definition ex_h1 : hash := repeat 1 32.
Definition ex_h2 : hash := repeat 2 32.
Definition ex_lock : hash := repeat 7 32.
Definition ex_m : manifest :=
  {| m_vers := [53]; m_nbf := [95; 95; 68; 79; 76; 84; 95; 95]; m_lock := ex_lock; m_root := ex_h2; m_gcgen := zero_hash;
     m_specs := [{| sp_name := ex_h1; sp_cnt := 3 |}]; m_appendix := [] |}.

Example ex_wf : wf_manifest ex_m.
Proof. apply wf_manifest_b_true. vm_compute. reflexivity. Qed.

Example ex_codec : exists t, write_manifest ex_m = Some t /\ parse_manifest t = POk ex_m.
Proof. apply manifest_codec_exact; [exact ex_wf|reflexivity|reflexivity]. Qed.

(* a writer lands two tables and publishes the first; a pruner in another process scans, takes the LOCK and
   unlinks the unreferenced one; the store process then crashes inside its next update *)
Definition ex_sched : list step :=
  [STmpTable 1 10 5; SLand 1 ex_h1 false; STmpTable 2 11 5; SLand 2 ex_h2 true;
   ULock false zero_hash ex_m; UTemp 1 20; UFinish;
   PScan 10 100; PLock []; PUnlink; PUnlink; PUnlink;
   ULock false ex_lock ex_m; UTempPartial 2 30 17].

Definition ex_empty : dir := {| d_manifest := None; d_tables := []; d_tmpt := []; d_tmpm := []; d_other := [] |}.

Example ex_run :
  let d := sy_dir (fold_left sys_step ex_sched (sys_init ex_empty)) in
  inv_b d = true /\ table_exists d ex_h1 = true /\ table_exists d ex_h2 = false
  /\ manifest_text d = write_manifest ex_m /\ length (d_tmpm d) = 1%nat.
Proof. vm_compute. repeat split; reflexivity. Qed.

Example ex_inv_start : Inv ex_empty.
Proof. exact I. Qed.

(* the oracle is not vacuous: it rejects a listing whose manifest names a missing table file, and a torn manifest *)
Definition ex_text : bytes := match write_manifest ex_m with Some t => t | None => [] end.
Definition ex_steps : list tstep := [TS (ULock false zero_hash ex_m); TS (UTemp 1 20); TS UFinish].
Example oracle_rejects_missing_table :
  oracle (ITrace ex_steps) (OTrace [(0, 0, [], None); (0, 0, [], None); (0, 0, ex_lock, Some (Some (ex_text, 20), []))]) = false.
Proof. vm_compute. reflexivity. Qed.
Example oracle_rejects_torn_manifest :
  oracle (ITrace ex_steps)
         (OTrace [(0, 0, [], None); (0, 0, [], None);
                  (0, 0, ex_lock, Some (Some (firstn 60 ex_text, 20), [(CTable ex_h1 false, (10, 5))]))]) = false.
Proof. vm_compute. reflexivity. Qed.
Example oracle_accepts_good_listing :
  oracle (ITrace ex_steps)
         (OTrace [(0, 0, [], None); (0, 0, [], None);
                  (0, 0, ex_lock, Some (Some (ex_text, 20), [(CTable ex_h1 true, (10, 5))]))]) = true.
Proof. vm_compute. reflexivity. Qed.

(* ------------------------------------------------------------------ *)
(* no_live_unlink                                                       *)
(* ------------------------------------------------------------------ *)
(* no_live_unlink: in every reachable state of every interleaving, a step of the pruner never removes a table
   file or archive that the persisted manifest names at that moment.  (What protects a file that a writer has
   landed but not yet published is only the grace period: that case ends in ErrManifestSpecMissingTableFile for
   the writer, see inv_reachable / r_missing; it is not claimed here.) *)
Theorem no_live_unlink_step st a :
  SysInv st -> step_actor a = Some APruner ->
  forall m h, disk_parsed (sy_dir st) m -> In h (names m) -> table_exists (sy_dir (sys_step st a)) h = true.
Proof.
  intros HS Ha m h [t [mt [H1 H2]]] Hin.
  assert (Hne : a <> UFinish) by (intros ->; discriminate).
  pose proof (manifest_text_other_steps st a Hne) as Ht.
  pose proof (inv_step st a HS) as Hinv. apply Inv_alt in Hinv. destruct Hinv as [Hi _].
  unfold manifest_text in Ht. rewrite H1 in Ht.
  destruct (d_manifest (sy_dir (sys_step st a))) as [[t' mt']|] eqn:E; [|discriminate].
  inversion Ht; subst t'. apply (Hi m); [|exact Hin]. exists t, mt'. split; [exact E|exact H2].
Qed.

Theorem no_live_unlink : forall (sched : list step) (d0 : dir) (a : step),
  Inv d0 -> step_actor a = Some APruner ->
  let st := fold_left sys_step sched (sys_init d0) in
  forall m h, disk_parsed (sy_dir st) m -> In h (names m) -> table_exists (sy_dir (sys_step st a)) h = true.
Proof. intros sched d0 a H Ha st. apply no_live_unlink_step; [|exact Ha]. apply sysinv_reachable. apply sysinv_init. exact H. Qed.

(* the candidate actually unlinked is not named: the keep set taken under the LOCK covers the manifest *)
Theorem no_live_unlink_candidate st h arch sp rest keep :
  SysInv st -> sy_p st = PLocked ((CTable h arch, sp) :: rest) keep ->
  snd (fst (sys_step_r st PUnlink)) = r_ok ->
  forall m, disk_parsed (sy_dir st) m -> ~ In h (names m).
Proof.
  intros [_ [HP _]] Hp Hc m Hd Hin. unfold PartP in HP. rewrite Hp in HP. destruct HP as [_ Hk].
  pose proof (Hk m h Hd Hin) as Hkeep. apply mem_hash_In in Hkeep.
  unfold sys_step_r in Hc. rewrite Hp in Hc. rewrite Hkeep in Hc. cbn in Hc. discriminate.
Qed.

(* ------------------------------------------------------------------ *)
(* the trace oracle holds of the model                                  *)
(* ------------------------------------------------------------------ *)
Lemma existsb_insert_cand f c l : existsb f (insert_cand c l) = f c || existsb f l.
Proof.
  induction l as [|x l IH]; [reflexivity|]. cbn [insert_cand].
  destruct (bytes_leb (cname_bytes (fst c)) (cname_bytes (fst x))); cbn [existsb]; [reflexivity|].
  rewrite IH. destruct (f c), (f x); reflexivity.
Qed.

Lemma existsb_sort_cands f l : existsb f (sort_cands l) = existsb f l.
Proof.
  induction l as [|x l IH]; [reflexivity|]. unfold sort_cands in *. cbn [fold_right existsb].
  rewrite existsb_insert_cand, IH. reflexivity.
Qed.

Lemma existsb_map_c {A B} (f : B -> bool) (g : A -> B) l : existsb f (map g l) = existsb (fun x => f (g x)) l.
Proof. induction l as [|x l IH]; [reflexivity|]. cbn [map existsb]. rewrite IH. reflexivity. Qed.

Lemma existsb_all_false {A} (f : A -> bool) l : (forall x, f x = false) -> existsb f l = false.
Proof. intros H. induction l as [|x l IH]; [reflexivity|]. cbn [existsb]. rewrite H, IH. reflexivity. Qed.

Lemma snap_table_exists_of d h : snap_table_exists (snap_of d) h = table_exists d h.
Proof.
  unfold snap_table_exists, snap_of, table_exists. cbn [snd].
  rewrite existsb_sort_cands, !existsb_app, !existsb_map_c. cbn [fst].
  rewrite (existsb_all_false _ (d_tmpt d)) by reflexivity.
  rewrite (existsb_all_false _ (d_tmpm d)) by reflexivity.
  rewrite !orb_false_r. reflexivity.
Qed.

Lemma forallb_ext_c {A} (f g : A -> bool) l : (forall x, f x = g x) -> forallb f l = forallb g l.
Proof. intros H. induction l as [|x l IH]; [reflexivity|]. cbn [forallb]. rewrite H, IH. reflexivity. Qed.

Lemma snap_inv_b_of d : snap_inv_b (snap_of d) = inv_b d.
Proof.
  unfold snap_inv_b, inv_b. change (fst (snap_of d)) with (d_manifest d).
  destruct (d_manifest d) as [[t mt]|]; [|reflexivity].
  destruct (parse_manifest t); try reflexivity. apply forallb_ext_c. intros h. apply snap_table_exists_of.
Qed.

Lemma Inv_inv_b d : Inv d -> inv_b d = true.
Proof.
  unfold Inv, inv_b. destruct (d_manifest d) as [[t mt]|]; [|reflexivity].
  intros [m [Hp Hall]]. rewrite Hp. apply forallb_forall. exact Hall.
Qed.

Lemma wf_manifest_b_complete m : wf_manifest m -> wf_manifest_b m = true.
Proof.
  intros [Hne [Hnbf [Hl [Hr [Hg [Hle Hss]]]]]].
  assert (Hh : forall h, wf_hash h -> rep_hash_b h = true).
  { intros h [Hlen Hall]. unfold rep_hash_b. rewrite Hlen. cbn [N.of_nat]. apply andb_true_iff. split; [reflexivity|].
    apply forallb_forall. intros x Hx. rewrite Forall_forall in Hall. specialize (Hall x Hx). lia. }
  assert (Hc : forallb (fun c => negb (c =? c_colon)) (m_nbf m) = true).
  { apply forallb_forall. intros x Hx. rewrite Forall_forall in Hnbf. specialize (Hnbf x Hx). unfold c_colon in *. lia. }
  assert (Hs : forallb rep_spec_b (m_specs m) = true).
  { apply forallb_forall. intros s Hs. rewrite Forall_forall in Hss. destruct (Hss s Hs) as [Ha Hb].
    unfold rep_spec_b. rewrite (Hh _ Ha). cbn [andb]. lia. }
  unfold wf_manifest_b. rewrite (Hh _ Hl), (Hh _ Hr), (Hh _ Hg), Hle, Hc, Hs.
  destruct (m_nbf m); [contradiction|reflexivity].
Qed.

Lemma opt_eqb_bytes_refl o : opt_eqb beq_bytes o o = true.
Proof. destruct o; [apply beq_bytes_refl|reflexivity]. Qed.

Definition coherent (st : sys) (prev : option bytes) (pending : option manifest) : Prop :=
  prev = manifest_text (sy_dir st) /\ forall u, s_upd (sy_s st) = Some u -> pending = Some (u_new u).

(* a step other than ULock never starts an update: the proposed contents of an update in flight do not change *)
Ltac fin H := (eexists; split; [exact H|reflexivity]).

Lemma upd_preserved st s u' :
  (forall gc l n, s <> ULock gc l n) ->
  s_upd (sy_s (sys_step st s)) = Some u' -> exists u, s_upd (sy_s st) = Some u /\ u_new u' = u_new u.
Proof.
  intros Hs. unfold sys_step, sys_step_r. destruct s; try (exfalso; eapply Hs; reflexivity).
  - destruct (lookup_n id (d_tmpt (sy_dir st))); simp; intros H; fin H.
  - destruct (lookup_n id (d_tmpt (sy_dir st))); simp; intros H; fin H.
  - destruct (table_exists (sy_dir st) h); simp; intros H; fin H.
  - destruct (s_upd (sy_s st)) eqn:E; simp; [intros H; rewrite E in H; fin H|].
    destruct (match s_up (sy_s st) with Some m => mem_hash h (names m) | None => false end); simp; intros H; [rewrite E in H|]; discriminate.
  - destruct (mem_hash h (s_open (sy_s st))); simp; intros H; fin H.
  - simp. intros H; fin H.
  - destruct (s_upd (sy_s st)) as [u|] eqn:E; simp; [|intros H; rewrite E in H; discriminate].
    destruct (u_tmp u); [simp; intros H; rewrite E in H; fin H|].
    destruct (lookup_tmpm id (d_tmpm (sy_dir st))); [simp; intros H; rewrite E in H; fin H|].
    destruct (write_manifest (u_new u)); simp; intros H; [|discriminate].
    inversion H; subst u'. (eexists; split; reflexivity).
  - destruct (s_upd (sy_s st)) as [u|] eqn:E; simp; [|intros H; rewrite E in H; discriminate].
    destruct (u_tmp u); [simp; intros H; rewrite E in H; fin H|].
    destruct (lookup_tmpm id (d_tmpm (sy_dir st))); [simp; intros H; rewrite E in H; fin H|].
    destruct (write_manifest (u_new u)); simp; intros H; [rewrite s_init_upd in H; discriminate|].
    rewrite E in H. fin H.
  - destruct (s_upd (sy_s st)) as [u|] eqn:E; simp; [|intros H; rewrite E in H; discriminate].
    destruct (u_tmp u); simp; intros H; [discriminate|]. rewrite E in H. fin H.
  - destruct (s_upd (sy_s st)) as [u|] eqn:E; simp; [|intros H; rewrite E in H; discriminate].
    destruct (u_tmp u); simp; [|intros H; rewrite E in H; fin H].
    destruct (update_verdict (sy_dir st) u); simp; [destruct (lookup_tmpm n (d_tmpm (sy_dir st))) as [[? ?]|]; simp|]; intros H; discriminate.
  - simp. rewrite s_init_upd. discriminate.
  - destruct (sy_p st); simp; try (intros H; fin H).
    destruct (probe - 0 <? 0); destruct (probe <? newest_mtime (sy_dir st) + grace); simp; try (intros H; fin H);
      destruct (scan_candidates (sy_dir st)); simp; intros H; eexists; split; try exact H; reflexivity.
  - destruct (sy_p st); simp; try (intros H; fin H).
    destruct (sy_lock st); simp; [intros H; fin H|].
    destruct (parsed_manifest (sy_dir st)) as [[]|]; simp;
      try (intros H; fin H);
      match goal with |- context [optN_eqb ?a ?b] => destruct (optN_eqb a b) end; simp; intros H; eexists; split; try exact H; reflexivity.
  - destruct (sy_p st) as [| |cs keep]; simp; try (intros H; fin H).
    destruct cs as [|[c sp] rest]; simp; [intros H; fin H|].
    destruct (match c with CTable h _ => mem_hash h keep | _ => false end); simp; [intros H; fin H|].
    destruct (cand_stat (sy_dir st) c); simp; [|intros H; fin H].
    destruct (stamp_eqb sp s); simp; intros H; eexists; split; try exact H; reflexivity.
  - simp. intros H; fin H.
  - simp. intros H; fin H.
Qed.

Lemma snap_text d : match fst (snap_of d) with Some (t, _) => Some t | None => None end = manifest_text d.
Proof. reflexivity. Qed.

Lemma unlink_all_spec fuel : forall st n st' c n',
  unlink_all fuel st n = (st', c, n') -> SysInv st ->
  SysInv st' /\ manifest_text (sy_dir st') = manifest_text (sy_dir st) /\ s_upd (sy_s st') = s_upd (sy_s st).
Proof.
  induction fuel as [|f IH]; intros st n st' c n' H HS.
  - cbn in H. inversion H; subst. auto.
  - cbn [unlink_all] in H.
    destruct (sy_p st) as [| |cs keep] eqn:Ep; [inversion H; subst; auto | inversion H; subst; auto |].
    destruct (sys_step_r st PUnlink) as [[st1 code] lk] eqn:Es.
    assert (Hst1 : st1 = sys_step st PUnlink) by (unfold sys_step; rewrite Es; reflexivity).
    assert (HS1 : SysInv st1) by (rewrite Hst1; apply sysinv_step; exact HS).
    assert (Ht1 : manifest_text (sy_dir st1) = manifest_text (sy_dir st))
      by (rewrite Hst1; apply manifest_text_other_steps; discriminate).
    assert (Hu1 : s_upd (sy_s st1) = s_upd (sy_s st)).
    { destruct HS as [_ [HP HU]]. pose proof (U_when_pruner_holds st HU) as Hn.
      unfold PartP in HP. rewrite Ep in HP. rewrite (Hn (proj1 HP)).
      destruct (s_upd (sy_s st1)) as [u1|] eqn:E1; [|reflexivity].
      rewrite Hst1 in E1. destruct (upd_preserved st PUnlink u1) as [u [Hu0 _]]; [intros; discriminate|exact E1|].
      rewrite (Hn (proj1 HP)) in Hu0. discriminate. }
    destruct ((code =? r_done) || (code =? r_changed)).
    + inversion H; subst. auto.
    + destruct (IH _ _ _ _ _ H HS1) as [Ha [Hb Hc]]. split; [exact Ha|]. split; congruence.
Qed.

Lemma trace_ok_run : forall steps st prev pending,
  SysInv st -> coherent st prev pending -> trace_ok steps (run_trace st steps) prev pending = true.
Proof.
  induction steps as [|a r IH]; intros st prev pending HS [Hprev Hpend]; [reflexivity|].
  cbn [run_trace]. destruct (run_tstep st a) as [st' o] eqn:Er. destruct a as [s|].
  - (* one model step *)
    unfold run_tstep in Er. destruct (sys_step_r st s) as [[st1 code] lk] eqn:Es. inversion Er; subst st' o. clear Er.
    assert (Hst1 : st1 = sys_step st s) by (unfold sys_step; rewrite Es; reflexivity).
    assert (HS1 : SysInv st1) by (rewrite Hst1; apply sysinv_step; exact HS).
    cbn [trace_ok]. rewrite snap_inv_b_of, (Inv_inv_b _ (proj1 (proj1 HS1))), snap_text. cbn [andb].
    set (pending' := match s with ULock _ _ new => if norm_code code =? r_ok then Some new else pending | _ => pending end).
    assert (Hcoh : coherent st1 (manifest_text (sy_dir st1)) pending').
    { split; [reflexivity|]. intros u1 Hu1. subst pending'.
      destruct (match s with ULock _ _ _ => true | _ => false end) eqn:Eul.
      - destruct s; try discriminate. unfold sys_step_r in Es.
        destruct (s_upd (sy_s st)) as [u0|] eqn:E0.
        { inversion Es as [[Ha Hb Hc]]. try rewrite <- Hb. cbn. apply Hpend. congruence. }
        destruct (negb (rep_manifest_b new && forallb (fun h => mem_hash h (s_open (sy_s st))) (names new))).
        { inversion Es as [[Ha Hb Hc]]. congruence. }
        destruct (sy_lock st).
        { inversion Es as [[Ha Hb Hc]]. congruence. }
        inversion Es as [[Ha Hb Hc]]. rewrite <- Ha in Hu1. cbn in Hu1. inversion Hu1. try rewrite <- Hb. reflexivity.
      - rewrite Hst1 in Hu1. destruct (upd_preserved st s u1) as [u [Hu0 Hn]]; [intros gc l n ->; discriminate|exact Hu1|].
        rewrite Hn. destruct s; try discriminate; apply Hpend; exact Hu0. }
    replace (opt_eqb beq_bytes (manifest_text (sy_dir st1)) prev
             || match TS s with
                | TS UFinish => match pending' with
                                | Some new => opt_eqb beq_bytes (manifest_text (sy_dir st1)) (write_manifest new) && wf_manifest_b new
                                | None => false
                                end
                | _ => false
                end) with true.
    + cbn [andb]. apply IH; assumption.
    + symmetry. pose proof (update_atomic st s HS) as Hat. rewrite <- Hst1 in Hat. destruct Hat as [Hsame | [new [Hpn [Hwf [Htxt _]]]]].
      * rewrite Hsame, <- Hprev, opt_eqb_bytes_refl. reflexivity.
      * destruct (match s with UFinish => true | _ => false end) eqn:Ef.
        -- destruct s; try discriminate. subst pending'. unfold pending_new in Hpn.
           destruct (s_upd (sy_s st)) as [u|] eqn:Eu; [|discriminate]. inversion Hpn; subst new.
           rewrite (Hpend u eq_refl), Htxt, opt_eqb_bytes_refl, (wf_manifest_b_complete _ Hwf). apply orb_true_r.
        -- assert (Hne : s <> UFinish) by (intros ->; discriminate).
           rewrite Hst1, (manifest_text_other_steps st s Hne), <- Hprev, opt_eqb_bytes_refl. reflexivity.
  - (* the pruner's whole unlink pass *)
    unfold run_tstep in Er.
    destruct (unlink_all (match sy_p st with PLocked cs _ => S (length cs) | _ => 1%nat end) st 0) as [[st1 code] n] eqn:Eu.
    inversion Er; subst st' o. clear Er.
    destruct (unlink_all_spec _ _ _ _ _ _ Eu HS) as [HS1 [Ht1 Hu1]].
    cbn [trace_ok]. rewrite snap_inv_b_of, (Inv_inv_b _ (proj1 (proj1 HS1))), snap_text, Ht1, <- Hprev, opt_eqb_bytes_refl.
    cbn [andb orb]. apply IH; [exact HS1|]. split; [congruence|]. intros u Hu. apply Hpend. congruence.
Qed.

Lemma sysinv_empty : SysInv (sys_init empty_dir).
Proof. apply sysinv_init. exact I. Qed.

(* oracle_on_model_trace: for every schedule of model steps (and whole-pass unlink macro steps), the executable
   statement of the property is true of the model's own observation *)
Theorem oracle_on_model_trace steps : oracle (ITrace steps) (model_obs (ITrace steps)) = true.
Proof.
  cbn [model_obs oracle]. apply trace_ok_run; [apply sysinv_empty|]. split; [reflexivity|].
  intros u Hu. cbn in Hu. discriminate.
Qed.


(* a conjoin proposes only tables of upstream plus the conjoined one *)
Lemma conj_loop_sub specs : forall i na cj c s, In s (conj_loop specs i na cj c) -> s = c \/ In s specs.
Proof.
  induction specs as [|x r IH]; intros i na cj c s H; [destruct H|].
  cbn [conj_loop] in H. apply in_app_or in H. destruct H as [H|H].
  - destruct (mem_hash (sp_name x) cj); [destruct H|]. destruct H as [<-|[]]. right. left. reflexivity.
  - apply in_app_or in H. destruct H as [H|H].
    + destruct (Nat.eqb i na); [|destruct H]. destruct H as [<-|[]]. left. reflexivity.
    + destruct (IH _ _ _ _ _ H) as [->|Hin]; [left; reflexivity|right; right; exact Hin].
Qed.

Theorem oracle_on_model_conj up cj c : oracle (IConj up cj c) (model_obs (IConj up cj c)) = true.
Proof.
  cbn [model_obs oracle]. destruct (conj_can_apply up cj); [|reflexivity].
  apply forallb_forall. intros s Hs. cbn [conjoin_new m_specs] in Hs.
  destruct (conj_loop_sub _ _ _ _ _ _ Hs) as [->|Hin].
  - rewrite spec_eqb_refl. reflexivity.
  - apply orb_true_iff. right. apply existsb_exists. exists s. split; [exact Hin|apply spec_eqb_refl].
Qed.

Theorem oracle_on_model i : oracle i (model_obs i) = true.
Proof. destruct i; [apply oracle_on_model_codec|reflexivity|apply oracle_on_model_trace|apply oracle_on_model_conj]. Qed.
