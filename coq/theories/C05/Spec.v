(* C05 — the property, stated declaratively (independent of the update / prune algorithms). *)
From Coq Require Import NArith List Bool.
From Dolt Require Import Base.Str Gen.C05Consts C05.Model.
Import ListNotations.
Local Open Scope N_scope.

(* ---- well-formed manifest contents (what writeManifest is given by its callers) ---- *)
Definition wf_hash (h : hash) : Prop := length h = 32%nat /\ Forall (fun d => d < 32) h.
Definition wf_spec (s : spec) : Prop := wf_hash (sp_name s) /\ sp_cnt s < 4294967296.
Definition wf_manifest (m : manifest) : Prop :=
  m_nbf m <> [] /\ Forall (fun c => c <> c_colon) (m_nbf m) /\
  wf_hash (m_lock m) /\ wf_hash (m_root m) /\ wf_hash (m_gcgen m) /\
  hash_is_empty (m_lock m) = false /\ Forall wf_spec (m_specs m).

Definition wf_manifest_b (m : manifest) : bool :=
  negb (match m_nbf m with [] => true | _ => false end) && forallb (fun c => negb (c =? c_colon)) (m_nbf m)
  && rep_hash_b (m_lock m) && rep_hash_b (m_root m) && rep_hash_b (m_gcgen m)
  && negb (hash_is_empty (m_lock m)) && forallb rep_spec_b (m_specs m).

(* ---- the directory invariant: the persisted manifest parses and every table file or archive it names exists.
        A directory without a manifest is an empty store (parseIfExists: exists = false). ---- *)
Definition Inv (d : dir) : Prop :=
  match d_manifest d with
  | None => True
  | Some (t, _) => exists m, parse_manifest t = POk m /\ forall h, In h (names m) -> table_exists d h = true
  end.

Definition inv_b (d : dir) : bool :=
  match d_manifest d with
  | None => true
  | Some (t, _) => match parse_manifest t with
                   | POk m => forallb (table_exists d) (names m)
                   | _ => false
                   end
  end.

Definition manifest_text (d : dir) : option bytes :=
  match d_manifest d with Some (t, _) => Some t | None => None end.

(* ---- atomic replacement: one step leaves the persisted manifest as it was, or installs the complete
        serialisation of the contents the in-flight update proposed ---- *)
Definition pending_new (st : sys) : option manifest :=
  match s_upd (sy_s st) with Some u => Some (u_new u) | None => None end.

Definition old_or_new (st st' : sys) : Prop :=
  manifest_text (sy_dir st') = manifest_text (sy_dir st)
  \/ exists new, pending_new st = Some new /\ wf_manifest new
                 /\ manifest_text (sy_dir st') = write_manifest new
                 /\ (forall t, write_manifest new = Some t -> parse_manifest t = POk (persisted_view new)).

(* every step's actor (a schedule `list step` is a `list (actor * step)`) *)
Definition step_actor (a : step) : option actor :=
  match a with
  | PScan _ _ | PLock _ | PUnlink | PCrash => Some APruner
  | ETouch _ _ => None
  | _ => Some AStore
  end.
