(* C05 — the manifest is replaced atomically and never names a missing table file.
   Executable model of
     go/store/nbs/file_manifest.go   parseManifest, parseV5Manifest, parseV4Manifest, writeManifest,
                                      fileManifest.Update / UpdateGCGen / LockManifest, updateWithChecker,
                                      checkNewSpecsPresent, tableFileOrArchiveExists
     go/store/nbs/manifest.go        parseSpecs, formatSpecs
     go/store/hash/hash.go           MaybeParse, Parse, String (a hash is modelled as its 32 base-32 digits)
     go/store/nbs/prune_grace.go     pruneDirAsOf, classifyPruneCandidate, unlinkUnderManifestLock,
                                      unlinkCandidates, manifestMtimeChanged
     go/store/nbs/file_table_persister.go  writeAndProtect, PruneTableFiles, ConjoinAll cleanup (unlink of unprotected files)
   Constants are regenerated from the source (Gen/C05Consts.v).  No proofs here. *)
From Coq Require Import NArith List Bool.
From Dolt Require Import Base.Str Gen.C05Consts.
Import ListNotations.
Local Open Scope N_scope.

(* ------------------------------------------------------------------ *)
(* Part (a): the manifest text codec                                   *)
(* ------------------------------------------------------------------ *)

Definition c_colon : N := 58.

(* hash.Hash as the 32 base-32 digits (each < 32) of its String() form;
   alphabet "0123456789abcdefghijklmnopqrstuv" (hash.go: encoding) *)
Definition hash := list N.
Definition b32_char (d : N) : N := if d <? 10 then 48 + d else 87 + d.
Definition b32_val (c : N) : option N :=
  if (48 <=? c) && (c <=? 57) then Some (c - 48)
  else if (97 <=? c) && (c <=? 118) then Some (c - 87)
  else None.
Definition hash_str (h : hash) : bytes := map b32_char h.      (* Hash.String *)
Fixpoint map_opt {A B} (f : A -> option B) (l : list A) : option (list B) :=
  match l with
  | [] => Some []
  | x :: r => match f x, map_opt f r with Some y, Some ys => Some (y :: ys) | _, _ => None end
  end.
(* hash.MaybeParse: regexp ^([0-9a-v]{32})$ *)
Definition maybe_parse (s : bytes) : option hash :=
  if N.of_nat (length s) =? c05_hash_string_len then map_opt b32_val s else None.
Definition zero_hash : hash := repeat 0 32.
Definition hash_eqb (a b : hash) : bool := beq_bytes a b.
Definition hash_is_empty (h : hash) : bool := hash_eqb h zero_hash.     (* Hash.IsEmpty *)

(* strconv.FormatUint(_, 10) / strconv.ParseUint(_, 10, 32) *)
Fixpoint dec_digits_le (fuel : nat) (n : N) : list N :=
  match fuel with
  | O => []
  | S f => if n <? 10 then [n] else (n mod 10) :: dec_digits_le f (n / 10)
  end.
Definition format_uint (n : N) : bytes := map (fun d => 48 + d) (rev (dec_digits_le 40 n)).
Fixpoint parse_digits (s : bytes) (acc : N) : option N :=
  match s with
  | [] => Some acc
  | c :: s' => if is_digit c then parse_digits s' (10 * acc + (c - 48)) else None
  end.
Definition parse_u32 (s : bytes) : option N :=
  match s with
  | [] => None                                        (* ErrSyntax *)
  | _ => match parse_digits s 0 with
         | Some v => if v <? 4294967296 then Some v else None   (* ErrRange *)
         | None => None
         end
  end.

Record spec := { sp_name : hash; sp_cnt : N }.
Record manifest := {
  m_vers : bytes; m_nbf : bytes; m_lock : hash; m_root : hash; m_gcgen : hash;
  m_specs : list spec; m_appendix : list spec }.

(* values the Go types can hold: a hash.Hash is 20 bytes = 32 base-32 digits, a chunk count is a uint32.
   The format-version string never contains ':' (it is one of the constants of go/store/constants). *)
Definition rep_hash_b (h : hash) : bool := (N.of_nat (length h) =? 32) && forallb (fun d => d <? 32) h.
Definition rep_spec_b (s : spec) : bool := rep_hash_b (sp_name s) && (sp_cnt s <? 4294967296).
Definition rep_manifest_b (m : manifest) : bool :=
  forallb (fun c => negb (c =? c_colon)) (m_nbf m)
  && rep_hash_b (m_lock m) && rep_hash_b (m_root m) && rep_hash_b (m_gcgen m)
  && forallb rep_spec_b (m_specs m) && forallb rep_spec_b (m_appendix m).

Inductive presult :=
| POk (m : manifest)
| PErrEOF            (* read error before the first ':' *)
| PCorrupt           (* ErrCorruptManifest *)
| PUnknownVersion
| PBadSpecName       (* "invalid table file name" *)
| PBadCount          (* strconv error *)
| PBadLock           (* "Could not parse lock hash" *)
| PBadGcGen          (* "Could not parse GC generation hash" *)
| PBadRoot.          (* "Could not parse root hash" (hash.MaybeParse on the root; checked last) *)

(* parseManifest: version prefix, at most 8 one-byte reads *)
Inductive vresult := VOk (v rest : bytes) | VEof | VCorrupt.
Fixpoint read_version (fuel : nat) (s acc : bytes) : vresult :=
  match fuel with
  | O => VCorrupt
  | S f => match s with
           | [] => VEof
           | c :: s' => if c =? c_colon then VOk (rev acc) s' else read_version f s' (c :: acc)
           end
  end.

Inductive sresult := SpOk (l : list spec) | SpBadName | SpBadCount.
(* parseSpecs: len(tableInfo)/2 specs; an odd trailing element is ignored by the caller's parity check *)
Fixpoint parse_specs (l : list bytes) : sresult :=
  match l with
  | n :: c :: r =>
    match maybe_parse n with
    | None => SpBadName
    | Some h => match parse_u32 c with
                | None => SpBadCount
                | Some k => match parse_specs r with
                            | SpOk ss => SpOk ({| sp_name := h; sp_cnt := k |} :: ss)
                            | e => e
                            end
                end
    end
  | _ => SpOk []
  end.

Definition even_len {A} (l : list A) : bool := N.even (N.of_nat (length l)).

Definition parse_v5 (rest : bytes) : presult :=
  let sl := split_on c_colon rest in
  if (N.of_nat (length sl) <? c05_prefix_len - 1) || negb (even_len sl) then PCorrupt else
  match sl with
  | nbf :: lk :: rt :: gg :: tl =>
    match parse_specs tl with
    | SpBadName => PBadSpecName
    | SpBadCount => PBadCount
    | SpOk ss =>
      match maybe_parse lk with
      | None => PBadLock
      | Some l => match maybe_parse gg with
                  | None => PBadGcGen
                  | Some g => match maybe_parse rt with
                              | None => PBadRoot
                              | Some r => POk {| m_vers := c05_storage_version; m_nbf := nbf; m_lock := l; m_root := r;
                                                 m_gcgen := g; m_specs := ss; m_appendix := [] |}
                              end
                  end
      end
    end
  | _ => PCorrupt
  end.

Definition parse_v4 (rest : bytes) : presult :=
  let sl := split_on c_colon rest in
  if (N.of_nat (length sl) <? 3) || even_len sl then PCorrupt else
  match sl with
  | nbf :: lk :: rt :: tl =>
    match parse_specs tl with
    | SpBadName => PBadSpecName
    | SpBadCount => PBadCount
    | SpOk ss =>
      match maybe_parse lk with
      | None => PBadLock
      | Some l => match maybe_parse rt with
                  | None => PBadRoot
                  | Some r => POk {| m_vers := c05_storage_version4; m_nbf := nbf; m_lock := l; m_root := r;
                                     m_gcgen := zero_hash; m_specs := ss; m_appendix := [] |}
                  end
      end
    end
  | _ => PCorrupt
  end.

Definition parse_manifest (text : bytes) : presult :=
  match read_version 8 text [] with
  | VEof => PErrEOF
  | VCorrupt => PCorrupt
  | VOk v rest =>
    if beq_bytes v c05_storage_version4 then parse_v4 rest
    else if beq_bytes v c05_storage_version then parse_v5 rest
    else PUnknownVersion
  end.

Fixpoint join (sep : N) (l : list bytes) : bytes :=       (* strings.Join *)
  match l with
  | [] => []
  | [x] => x
  | x :: r => x ++ sep :: join sep r
  end.

Fixpoint format_specs (l : list spec) : list bytes :=
  match l with
  | [] => []
  | s :: r => hash_str (sp_name s) :: format_uint (sp_cnt s) :: format_specs r
  end.

(* writeManifest: None = "runtime error" (empty format version or empty lock).  The appendix is not written. *)
Definition write_manifest (m : manifest) : option bytes :=
  match m_nbf m with
  | [] => None
  | _ => if hash_is_empty (m_lock m) then None
         else Some (join c_colon (c05_storage_version :: m_nbf m :: hash_str (m_lock m) :: hash_str (m_root m)
                                  :: hash_str (m_gcgen m) :: format_specs (m_specs m)))
  end.

(* what a reader of the file gets back *)
Definition persisted_view (m : manifest) : manifest :=
  {| m_vers := c05_storage_version; m_nbf := m_nbf m; m_lock := m_lock m; m_root := m_root m;
     m_gcgen := m_gcgen m; m_specs := m_specs m; m_appendix := [] |}.

(* ------------------------------------------------------------------ *)
(* Part (b): the directory and its actors                              *)
(* ------------------------------------------------------------------ *)

Definition stamp := (N * N)%type.                     (* mtime, size *)
Definition stamp_eqb (a b : stamp) : bool := (fst a =? fst b) && (snd a =? snd b).

Record dir := {
  d_manifest : option (bytes * N);                    (* text, mtime *)
  d_tables : list (hash * bool * stamp);              (* table file <addr> / archive <addr>.darc *)
  d_tmpt : list (N * stamp);                          (* nbs_table_<id> *)
  d_tmpm : list (N * bytes * stamp);                  (* nbs_manifest_<id> *)
  d_other : list (N * N) }.                           (* anything else (LOCK, foreign files): id, mtime *)

Definition tkey_eqb (a b : hash * bool) : bool := hash_eqb (fst a) (fst b) && Bool.eqb (snd a) (snd b).
Fixpoint lookup_table (k : hash * bool) (l : list (hash * bool * stamp)) : option stamp :=
  match l with [] => None | (k', s) :: r => if tkey_eqb k k' then Some s else lookup_table k r end.
Definition remove_table (k : hash * bool) (l : list (hash * bool * stamp)) :=
  filter (fun e => negb (tkey_eqb k (fst e))) l.
(* tableFileOrArchiveExists *)
Definition table_exists (d : dir) (h : hash) : bool :=
  existsb (fun e => hash_eqb h (fst (fst e))) (d_tables d).
Fixpoint lookup_n {A} (id : N) (l : list (N * A)) : option A :=
  match l with [] => None | (i, a) :: r => if i =? id then Some a else lookup_n id r end.
Definition remove_n {A} (id : N) (l : list (N * A)) := filter (fun e => negb (fst e =? id)) l.
Definition lookup_tmpm (id : N) (l : list (N * bytes * stamp)) : option (bytes * stamp) :=
  lookup_n id (map (fun e => (fst (fst e), (snd (fst e), snd e))) l).
Definition remove_tmpm (id : N) (l : list (N * bytes * stamp)) := filter (fun e => negb (fst (fst e) =? id)) l.

Definition mem_hash (h : hash) (l : list hash) : bool := existsb (hash_eqb h) l.
Definition names (m : manifest) : list hash := map sp_name (m_specs m ++ m_appendix m).

Definition set_manifest d x := {| d_manifest := x; d_tables := d_tables d; d_tmpt := d_tmpt d; d_tmpm := d_tmpm d; d_other := d_other d |}.
Definition set_tables d x := {| d_manifest := d_manifest d; d_tables := x; d_tmpt := d_tmpt d; d_tmpm := d_tmpm d; d_other := d_other d |}.
Definition set_tmpt d x := {| d_manifest := d_manifest d; d_tables := d_tables d; d_tmpt := x; d_tmpm := d_tmpm d; d_other := d_other d |}.
Definition set_tmpm d x := {| d_manifest := d_manifest d; d_tables := d_tables d; d_tmpt := d_tmpt d; d_tmpm := x; d_other := d_other d |}.
Definition set_other d x := {| d_manifest := d_manifest d; d_tables := d_tables d; d_tmpt := d_tmpt d; d_tmpm := d_tmpm d; d_other := x |}.

(* --- the store process: writer, conjoiner and GC share nbs.mu and the persister's protected set --- *)
Record upd := { u_gc : bool; u_last : hash; u_new : manifest; u_tmp : option N }.
Record sstate := {
  s_open : list hash;            (* fsTablePersister.protected: tables this process holds open / pending *)
  s_up : option manifest;        (* nbs.upstream *)
  s_upd : option upd }.          (* manifest update in flight (inside fileManifest.Update) *)

(* --- the grace pruner, another process --- *)
Inductive cname := CTable (h : hash) (arch : bool) | CTmpTable (id : N) | CTmpManifest (id : N).
Definition cand := (cname * stamp)%type.
Inductive pphase :=
| PIdle
| PScanned (cs : list cand) (mm : option N)          (* snapshot taken; manifest mtime at scan *)
| PLocked (cs : list cand) (keep : list hash).       (* holds the manifest LOCK *)

Inductive actor := AStore | APruner.
Definition actor_eqb a b := match a, b with AStore, AStore => true | APruner, APruner => true | _, _ => false end.

Record sys := { sy_dir : dir; sy_lock : option actor; sy_s : sstate; sy_p : pphase }.

Inductive step :=
(* store process *)
| STmpTable (id mt sz : N)                     (* writeAndProtect: temp table file written *)
| SLand (id : N) (h : hash) (arch : bool)      (* rename into place; addPending / Open protect it *)
| SOpen (h : hash)                             (* Open of an existing table file *)
| SClose (h : hash)                            (* last reference dropped (table no longer in nbs.tables) *)
| SUnlink (h : hash) (arch : bool)             (* PruneTableFiles / conjoin cleanup: unlink if not protected *)
| SUnlinkTmp (id : N)                          (* PruneTableFiles: temp table files *)
| ULock (gc : bool) (last : hash) (new : manifest)   (* Update / UpdateGCGen: tryFileLock *)
| UTemp (id mt : N)                            (* temp manifest written and synced *)
| UTempPartial (id mt : N) (k : nat)           (* crash while writing the temp manifest: a prefix stays behind *)
| UAbort                                       (* writeHook error: temp removed, lock released *)
| UFinish                                      (* read upstream, compare lock, validate, rename, release *)
| SCrash                                       (* process dies anywhere: LOCK released by the OS; then reopened *)
(* pruner process *)
| PScan (grace probe : N)
| PLock (extra : list hash)                    (* lockKeepers: LockManifest + own references *)
| PUnlink                                      (* next candidate, or release when none is left *)
| PCrash
(* environment *)
| ETouch (id mt : N).                          (* some other file appears / is modified *)

(* result codes (compared with the implementation) *)
Definition r_ok : N := 0.        Definition r_mismatch : N := 1.  Definition r_gcgen : N := 2.
Definition r_missing : N := 3.   Definition r_nbf : N := 4.       Definition r_nonzero : N := 5.
Definition r_parse : N := 6.     Definition r_gcroot : N := 7.    Definition r_busy : N := 8.
Definition r_noop : N := 9.      Definition r_write : N := 11.    Definition r_rename : N := 12.
Definition r_notquiet : N := 20. Definition r_nocand : N := 21.   Definition r_mchanged : N := 22.
Definition r_done : N := 23.     Definition r_kept : N := 24.     Definition r_gone : N := 25.
Definition r_changed : N := 26.

Definition parsed_manifest (d : dir) : option presult :=
  match d_manifest d with None => None | Some (t, _) => Some (parse_manifest t) end.

(* (re)open of the directory by the store process *)
Definition s_init (d : dir) : sstate :=
  match parsed_manifest d with
  | Some (POk m) => {| s_open := names m; s_up := Some m; s_upd := None |}
  | _ => {| s_open := []; s_up := None; s_upd := None |}
  end.
Definition sys_init (d : dir) : sys := {| sy_dir := d; sy_lock := None; sy_s := s_init d; sy_p := PIdle |}.

Definition zero_manifest : manifest :=
  {| m_vers := []; m_nbf := []; m_lock := zero_hash; m_root := zero_hash; m_gcgen := zero_hash; m_specs := []; m_appendix := [] |}.

(* checkNewSpecsPresent *)
Definition new_specs_present (d : dir) (up new : manifest) : bool :=
  forallb (fun h => mem_hash h (names up) || table_exists d h) (names new).

Inductive verdict := VSwap | VFail (code : N) (seen : option manifest).
(* updateWithChecker after the temp file exists: what it decides *)
Definition update_verdict (d : dir) (u : upd) : verdict :=
  let new := u_new u in
  let go (up : manifest) (exists_ : bool) :=
    if exists_ && negb (beq_bytes (m_nbf new) (m_nbf up)) then VFail r_nbf None
    else if negb exists_ && negb (hash_is_empty (u_last u)) then VFail r_nonzero None
    else if negb (hash_eqb (u_last u) (m_lock up)) then VFail r_mismatch (Some up)
    else if (if u_gc u then negb (hash_eqb (m_root new) (m_root up)) else false) then VFail r_gcroot None
    else if (if u_gc u then false else negb (hash_eqb (m_gcgen new) (m_gcgen up))) then VFail r_gcgen None
    else if new_specs_present d up new then VSwap else VFail r_missing None in
  match parsed_manifest d with
  | None => go zero_manifest false
  | Some (POk up) => go up true
  | Some _ => VFail r_parse None
  end.

Definition set_s (st : sys) (s : sstate) := {| sy_dir := sy_dir st; sy_lock := sy_lock st; sy_s := s; sy_p := sy_p st |}.
Definition set_d (st : sys) (d : dir) := {| sy_dir := d; sy_lock := sy_lock st; sy_s := sy_s st; sy_p := sy_p st |}.
Definition holds (st : sys) (a : actor) : bool := match sy_lock st with Some b => actor_eqb a b | None => false end.

(* file names, for the order in which os.ReadDir lists the candidates *)
Definition cname_bytes (c : cname) : bytes :=
  match c with
  | CTable h false => hash_str h
  | CTable h true => hash_str h ++ c05_archive_file_suffix
  | CTmpTable id => c05_temp_table_prefix ++ format_uint id
  | CTmpManifest id => c05_temp_manifest_prefix ++ format_uint id
  end.
Fixpoint bytes_leb (a b : bytes) : bool :=
  match a, b with
  | [], _ => true
  | _ :: _, [] => false
  | x :: a', y :: b' => if x <? y then true else if y <? x then false else bytes_leb a' b'
  end.
Fixpoint insert_cand (c : cand) (l : list cand) : list cand :=
  match l with
  | [] => [c]
  | x :: r => if bytes_leb (cname_bytes (fst c)) (cname_bytes (fst x)) then c :: l else x :: insert_cand c r
  end.
Definition sort_cands (l : list cand) : list cand := fold_right insert_cand [] l.

(* chunkJournalName = "vvvv…v" is a valid address but never a candidate *)
Definition journal_addr : hash := repeat 31 32.
Definition scan_candidates (d : dir) : list cand :=
  sort_cands
    (map (fun e => (CTable (fst (fst e)) (snd (fst e)), snd e))
         (filter (fun e => negb (hash_eqb (fst (fst e)) journal_addr && negb (snd (fst e)))) (d_tables d))
     ++ map (fun e => (CTmpTable (fst e), snd e)) (d_tmpt d)
     ++ map (fun e => (CTmpManifest (fst (fst e)), snd e)) (d_tmpm d)).
Definition newest_mtime (d : dir) : N :=
  fold_right N.max 0
    ((match d_manifest d with Some (_, mt) => [mt] | None => [] end)
     ++ map (fun e => fst (snd e)) (d_tables d) ++ map (fun e => fst (snd e)) (d_tmpt d)
     ++ map (fun e => fst (snd e)) (d_tmpm d) ++ map snd (d_other d)).
Definition manifest_mtime (d : dir) : option N := match d_manifest d with Some (_, mt) => Some mt | None => None end.
Definition optN_eqb (a b : option N) : bool :=
  match a, b with Some x, Some y => x =? y | None, None => true | _, _ => false end.

Definition cand_stat (d : dir) (c : cname) : option stamp :=
  match c with
  | CTable h a => lookup_table (h, a) (d_tables d)
  | CTmpTable id => lookup_n id (d_tmpt d)
  | CTmpManifest id => match lookup_tmpm id (d_tmpm d) with Some (_, s) => Some s | None => None end
  end.
Definition cand_unlink (d : dir) (c : cname) : dir :=
  match c with
  | CTable h a => set_tables d (remove_table (h, a) (d_tables d))
  | CTmpTable id => set_tmpt d (remove_n id (d_tmpt d))
  | CTmpManifest id => set_tmpm d (remove_tmpm id (d_tmpm d))
  end.

Definition release (st : sys) (a : actor) : option actor := if holds st a then None else sy_lock st.

(* one step of the system; returns the new state, a result code and (for updates) the lock of the returned contents *)
Definition sys_step_r (st : sys) (a : step) : sys * N * hash :=
  let d := sy_dir st in
  let s := sy_s st in
  let noop := (st, r_noop, []) in
  match a with
  | STmpTable id mt sz =>
    match lookup_n id (d_tmpt d) with
    | Some _ => noop                                   (* CreateTemp never reuses a name *)
    | None => (set_d st (set_tmpt d ((id, (mt, sz)) :: d_tmpt d)), r_ok, [])
    end
  | SLand id h arch =>
    match lookup_n id (d_tmpt d) with
    | None => noop
    | Some sp =>
      let d1 := set_tmpt d (remove_n id (d_tmpt d)) in
      let d2 := set_tables d1 ((h, arch, sp) :: remove_table (h, arch) (d_tables d1)) in
      ({| sy_dir := d2; sy_lock := sy_lock st;
          sy_s := {| s_open := h :: s_open s; s_up := s_up s; s_upd := s_upd s |}; sy_p := sy_p st |}, r_ok, [])
    end
  | SOpen h =>
    if table_exists d h
    then (set_s st {| s_open := h :: s_open s; s_up := s_up s; s_upd := s_upd s |}, r_ok, [])
    else noop
  | SClose h =>
    match s_upd s with
    | Some _ => noop
    | None =>
      if match s_up s with Some m => mem_hash h (names m) | None => false end then noop
      else (set_s st {| s_open := filter (fun x => negb (hash_eqb h x)) (s_open s); s_up := s_up s; s_upd := None |}, r_ok, [])
    end
  | SUnlink h arch =>
    if mem_hash h (s_open s) then (st, r_kept, [])
    else (set_d st (set_tables d (remove_table (h, arch) (d_tables d))), r_ok, [])
  | SUnlinkTmp id => (set_d st (set_tmpt d (remove_n id (d_tmpt d))), r_ok, [])
  | ULock gc last new =>
    match s_upd s with
    | Some _ => noop
    | None =>
      if negb (rep_manifest_b new && forallb (fun h => mem_hash h (s_open s)) (names new)) then noop
      else match sy_lock st with
           | Some _ => (st, r_busy, [])                (* tryFileLock times out *)
           | None => ({| sy_dir := d; sy_lock := Some AStore;
                         sy_s := {| s_open := s_open s; s_up := s_up s;
                                    s_upd := Some {| u_gc := gc; u_last := last; u_new := new; u_tmp := None |} |};
                         sy_p := sy_p st |}, r_ok, [])
           end
    end
  | UTemp id mt =>
    match s_upd s with
    | Some u =>
      match u_tmp u, lookup_tmpm id (d_tmpm d) with
      | None, None =>
        match write_manifest (u_new u) with
        | None =>   (* writeManifest fails: the (empty) temp file is left behind, Update returns the error *)
          ({| sy_dir := set_tmpm d ((id, [], (mt, 0)) :: d_tmpm d); sy_lock := release st AStore;
              sy_s := {| s_open := s_open s; s_up := s_up s; s_upd := None |}; sy_p := sy_p st |}, r_write, [])
        | Some t =>
          ({| sy_dir := set_tmpm d ((id, t, (mt, N.of_nat (length t))) :: d_tmpm d); sy_lock := sy_lock st;
              sy_s := {| s_open := s_open s; s_up := s_up s;
                         s_upd := Some {| u_gc := u_gc u; u_last := u_last u; u_new := u_new u; u_tmp := Some id |} |};
              sy_p := sy_p st |}, r_ok, [])
        end
      | _, _ => noop
      end
    | None => noop
    end
  | UTempPartial id mt k =>
    match s_upd s with
    | Some u =>
      match u_tmp u, lookup_tmpm id (d_tmpm d), write_manifest (u_new u) with
      | None, None, Some t =>
        let t' := firstn k t in
        let d1 := set_tmpm d ((id, t', (mt, N.of_nat (length t'))) :: d_tmpm d) in
        ({| sy_dir := d1; sy_lock := release st AStore; sy_s := s_init d1; sy_p := sy_p st |}, r_ok, [])
      | _, _, _ => noop
      end
    | None => noop
    end
  | UAbort =>
    match s_upd s with
    | Some u =>
      match u_tmp u with
      | Some id =>
        ({| sy_dir := set_tmpm d (remove_tmpm id (d_tmpm d)); sy_lock := release st AStore;
            sy_s := {| s_open := s_open s; s_up := s_up s; s_upd := None |}; sy_p := sy_p st |}, r_ok, [])
      | None => noop
      end
    | None => noop
    end
  | UFinish =>
    match s_upd s with
    | Some u =>
      match u_tmp u with
      | Some id =>
        let d1 := set_tmpm d (remove_tmpm id (d_tmpm d)) in     (* deferred file.Remove / consumed by the rename *)
        let fail code s' := ({| sy_dir := d1; sy_lock := release st AStore; sy_s := s'; sy_p := sy_p st |}, code) in
        match update_verdict d u with
        | VFail code seen =>
          let s' := {| s_open := s_open s; s_up := match seen with Some up => Some up | None => s_up s end; s_upd := None |} in
          (fail code s', match seen with Some up => m_lock up | None => [] end)
        | VSwap =>
          match lookup_tmpm id (d_tmpm d) with
          | None => (fail r_rename {| s_open := s_open s; s_up := s_up s; s_upd := None |}, [])
          | Some (t, sp) =>
            ({| sy_dir := set_manifest d1 (Some (t, fst sp)); sy_lock := release st AStore;
                sy_s := {| s_open := s_open s; s_up := Some (u_new u); s_upd := None |}; sy_p := sy_p st |},
             r_ok, m_lock (u_new u))
          end
        end
      | None => noop
      end
    | None => noop
    end
  | SCrash =>
    ({| sy_dir := d; sy_lock := release st AStore; sy_s := s_init d; sy_p := sy_p st |}, r_ok, [])
  | PScan grace probe =>
    match sy_p st with
    | PIdle =>
      let cs := scan_candidates d in
      if probe <? newest_mtime d + grace then (st, r_notquiet, [])     (* newest.After(probe - grace) *)
      else match cs with
           | [] => (st, r_nocand, [])
           | _ => ({| sy_dir := d; sy_lock := sy_lock st; sy_s := s; sy_p := PScanned cs (manifest_mtime d) |}, r_ok, [])
           end
    | _ => noop
    end
  | PLock extra =>
    match sy_p st with
    | PScanned cs mm =>
      let idle code := ({| sy_dir := d; sy_lock := sy_lock st; sy_s := s; sy_p := PIdle |}, code, []) in
      match sy_lock st with
      | Some _ => idle r_busy
      | None =>
        match parsed_manifest d with
        | Some (POk m) =>
          if optN_eqb mm (manifest_mtime d)
          then ({| sy_dir := d; sy_lock := Some APruner; sy_s := s; sy_p := PLocked cs (extra ++ names m) |}, r_ok, [])
          else idle r_mchanged
        | None =>
          if optN_eqb mm None
          then ({| sy_dir := d; sy_lock := Some APruner; sy_s := s; sy_p := PLocked cs extra |}, r_ok, [])
          else idle r_mchanged
        | Some _ => idle r_parse
        end
      end
    | _ => noop
    end
  | PUnlink =>
    match sy_p st with
    | PLocked cs keep =>
      match cs with
      | [] => ({| sy_dir := d; sy_lock := release st APruner; sy_s := s; sy_p := PIdle |}, r_done, [])
      | (c, sp) :: rest =>
        let next d' code := ({| sy_dir := d'; sy_lock := sy_lock st; sy_s := s; sy_p := PLocked rest keep |}, code, []) in
        if match c with CTable h _ => mem_hash h keep | _ => false end then next d r_kept
        else match cand_stat d c with
             | None => next d r_gone
             | Some sp' =>
               if stamp_eqb sp sp' then next (cand_unlink d c) r_ok
               else ({| sy_dir := d; sy_lock := release st APruner; sy_s := s; sy_p := PIdle |}, r_changed, [])
             end
      end
    | _ => noop
    end
  | PCrash => ({| sy_dir := d; sy_lock := release st APruner; sy_s := s; sy_p := PIdle |}, r_ok, [])
  | ETouch id mt => (set_d st (set_other d ((id, mt) :: remove_n id (d_other d))), r_ok, [])
  end.

Definition sys_step (st : sys) (a : step) : sys := fst (fst (sys_step_r st a)).

(* ------------------------------------------------------------------ *)
(* conjoiner.go conjoinOperation.updateManifest: the contents it proposes *)
(* ------------------------------------------------------------------ *)
(* canApply: every conjoinee is still in upstream.specs *)
Definition conj_can_apply (up : manifest) (cj : list hash) : bool :=
  forallb (fun h => mem_hash h (map sp_name (m_specs up))) cj.
(* newSpecs: upstream.specs without the conjoinees, the conjoined table inserted right after position
   len(upstream.appendix).  (The Go slice has a fixed length len(specs) - |conjoinees| + 1; it coincides with
   this list when spec names are distinct and the appendix is shorter than specs — always so for a manifest
   read from a file, whose appendix is empty.) *)
Fixpoint conj_loop (specs : list spec) (i na : nat) (cj : list hash) (c : spec) : list spec :=
  match specs with
  | [] => []
  | s :: r => (if mem_hash (sp_name s) cj then [] else [s]) ++ (if Nat.eqb i na then [c] else []) ++ conj_loop r (S i) na cj c
  end.
(* the lock (generateLockHash: SHA-512 of root and names) is supplied by the caller *)
Definition conjoin_new (up : manifest) (cj : list hash) (c : spec) (lock : hash) : manifest :=
  {| m_vers := []; m_nbf := m_nbf up; m_lock := lock; m_root := m_root up; m_gcgen := m_gcgen up;
     m_specs := conj_loop (m_specs up) 0 (length (m_appendix up)) cj c; m_appendix := m_appendix up |}.
