(* C38 — the property, declaratively: SQL LIKE on sort orders, which rules match a
   request, longest-pattern-wins with union among equals, and the namespace rule.
   Independent of folding, of the state-set matchers and of the table structure. *)
From Coq Require Import NArith ZArith List Bool.
From Dolt Require Import Base.Str C38.Model.
Import ListNotations.
Local Open Scope Z_scope.

(* SQL LIKE: a pattern is a list of tokens (t_one = '_' one character, t_any = '%' any
   run, anything else the sort order of a literal character — escapes have been
   resolved by [parse]); the subject is the list of sort orders of a plain string. *)
Fixpoint like (p : list Z) (s : list Z) {struct p} : bool :=
  match p with
  | [] => match s with [] => true | _ => false end
  | t :: p' =>
    if t =? t_any then
      (fix any (s : list Z) : bool := like p' s || match s with [] => false | _ :: s' => any s' end) s
    else
      match s with
      | [] => false
      | x :: s' => ((t =? t_one) || (x =? t)) && like p' s'
      end
  end.

(* a pattern STRING against a plain STRING under a collation *)
Definition like_str (so : N -> Z) (p s : str) : bool := like (parse so false p) (map so s).

(* folded form: no '%' directly followed by '%' or '_' *)
Fixpoint normal (p : list Z) : bool :=
  match p with
  | [] => true
  | t :: p' =>
    (if t =? t_any then match p' with y :: _ => negb ((y =? t_any) || (y =? t_one)) | [] => true end else true)
    && normal p'
  end.

(* ---- which rules match; longest pattern wins; equal lengths are united ---- *)
Definition rule_matches (t : ctab) (r : rule) (q : req) : bool :=
  like_str (so_ci t) (r_d r) (q_d q) && like_str (so_ci t) (r_b r) (q_b q)
  && like_str (so_bin t) (r_u r) (q_u q) && like_str (so_ci t) (r_h r) (q_h q).

(* length of a rule's pattern: its tokens over the four columns (and the four column starts) *)
Definition rule_len (t : ctab) (r : rule) : N := N.of_nat (length (rule_toks t r)).

Definition spec_access (t : ctab) (rules : list rule) (q : req) : bool * N :=
  let ms := filter (fun r => rule_matches t r q) rules in
  let top := fold_right (fun r acc => N.max (rule_len t r) acc) 0%N ms in
  let perms := fold_right (fun r acc => if (rule_len t r =? top)%N then N.lor (r_perm r) acc else acc) 0%N ms in
  (negb (Nat.eqb (length ms) 0), expand_perms perms).

(* ---- namespace ---- *)
Definition spec_can_create (t : ctab) (rules : list rule) (q : req) : bool :=
  let ms := filter (fun r => like_str (so_ci t) (r_d r) (q_d q) && like_str (so_ci t) (r_b r) (q_b q)) rules in
  let top := fold_right (fun r acc => N.max (utf8_len (r_b r)) acc) 0%N ms in
  Nat.eqb (length ms) 0                                   (* unrestricted for this database and branch *)
  || existsb (fun r => (utf8_len (r_b r) =? top)%N          (* a longest matching rule ... *)
                       && like_str (so_bin t) (r_u r) (q_u q) && like_str (so_ci t) (r_h r) (q_h q)) ms.   (* ... names user and host *)

(* probe strings for comparing two patterns extensionally in the oracle: all strings of
   length <= 3 over a small alphabet *)
Definition probes (alpha : list Z) : list (list Z) :=
  let l1 := map (fun a => [a]) alpha in
  let l2 := flat_map (fun a => map (fun s => a :: s) l1) alpha in
  let l3 := flat_map (fun a => map (fun s => a :: s) l2) alpha in
  [] :: l1 ++ l2 ++ l3.
