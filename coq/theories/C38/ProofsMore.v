(* C38 — further proofs: the fixed point of folding is in normal form; the namespace rule. *)
From Coq Require Import NArith ZArith PeanoNat List Bool Lia.
From Dolt Require Import Base.Str C38.Model C38.Spec C38.Corr C38.Proofs.
Import ListNotations.
Local Open Scope Z_scope.

(* ------------------------------------------------------------------ *)
(* fold_normal                                                          *)

Lemma fold_pass_len st s : (length (fold_pass st s) <= length s + match st with FCons => 1 | _ => 0 end)%nat.
Proof.
  revert st. induction s as [|r s IH]; intros st; [destruct st; cbn [fold_pass length]; lia|].
  pose proof (IH FN) as H1. pose proof (IH FSkip) as H2. pose proof (IH FCons) as H3. cbn match in H1, H2, H3.
  destruct st; cbn [fold_pass].
  - destruct (r =? c_bs)%N; [cbn [length]; lia|]. destruct (r =? c_pct)%N; cbn [length]; lia.
  - cbn [length]. lia.
  - destruct (r =? c_bs)%N; [cbn [length]; lia|]. destruct (r =? c_us)%N; [cbn [length]; lia|].
    destruct (r =? c_pct)%N; cbn [length]; lia.
Qed.

Lemma normal_lit t p : (t =? t_any) = false -> normal (t :: p) = normal p.
Proof. intros H. cbn [normal]. rewrite H. reflexivity. Qed.

Section FoldNormal.
  Variable so : N -> Z.
  Hypothesis so_nonneg : forall c, 0 <= so c.

  Lemma so_not_any c : (so c =? t_any) = false.
  Proof. apply Z.eqb_neq. pose proof (so_nonneg c). unfold t_any. lia. Qed.
  Lemma so_not_one c : (so c =? t_one) = false.
  Proof. apply Z.eqb_neq. pose proof (so_nonneg c). unfold t_one. lia. Qed.

  Lemma fold_fix_all s :
    (fold_pass FN s = s -> normal (parse so false s) = true)
    /\ (fold_pass FSkip s = s -> normal (parse so true s) = true)
    /\ (fold_pass FCons s = c_pct :: s -> normal (t_any :: parse so false s) = true).
  Proof.
    induction s as [|r s [IH1 [IH2 IH3]]]; [repeat split; reflexivity|].
    split; [|split].
    - cbn [fold_pass parse]. destruct (r =? c_bs)%N eqn:Eb.
      + intros H. injection H as H'. apply IH2. exact H'.
      + destruct (r =? c_pct)%N eqn:Ep.
        * apply N.eqb_eq in Ep. subst r. apply IH3.
        * intros H. injection H as H'. destruct (r =? c_us)%N.
          -- rewrite normal_lit by reflexivity. apply IH1. exact H'.
          -- rewrite normal_lit by apply so_not_any. apply IH1. exact H'.
    - cbn [fold_pass parse]. intros H. injection H as H'. rewrite normal_lit by apply so_not_any. apply IH1. exact H'.
    - cbn [fold_pass]. destruct (r =? c_bs)%N eqn:Eb.
      + apply N.eqb_eq in Eb. subst r. intros H. injection H as H'.
        cbn [parse N.eqb c_bs c_pct c_us Pos.eqb]. specialize (IH2 H').
        cbn [normal]. change (t_any =? t_any) with true. cbn match.
        destruct s as [|c s']; [reflexivity|]. cbn [parse] in *. rewrite so_not_any, so_not_one. cbn [orb negb andb]. exact IH2.
      + destruct (r =? c_us)%N eqn:Eu.
        * apply N.eqb_eq in Eu. subst r. intros H. inversion H.
        * destruct (r =? c_pct)%N eqn:Ep.
          -- apply N.eqb_eq in Ep. subst r. intros H. injection H as H'.
             pose proof (fold_pass_len FN s) as Hl. rewrite H' in Hl. cbn [length] in Hl. lia.
          -- intros H. injection H as H'. cbn [parse]. rewrite Eb, Ep, Eu. specialize (IH1 H').
             cbn [normal]. change (t_any =? t_any) with true. cbn match.
             rewrite so_not_any, so_not_one. cbn [orb negb andb]. exact IH1.
  Qed.

  (* a fixed point of the folding pass has no "%" followed by "%" or "_" *)
  Theorem fold_fixpoint_normal s : fold_pass FN s = s -> normal (parse so false s) = true.
  Proof. apply fold_fix_all. Qed.

  (* fold_normal.  FULL statement: forall p, normal (parse so false (fold p)) = true.
     Proved: whenever the loop has reached its fixed point within the model's fuel
     (2*|p|+2 passes; FoldExpression itself loops until the fixed point); that the fuel
     always suffices is not proved — the correspondence run compares fold with
     FoldExpression on every generated expression and the oracle checks normality. *)
  Theorem fold_normal_partial p : fold_pass FN (fold p) = fold p -> normal (parse so false (fold p)) = true.
  Proof. apply fold_fixpoint_normal. Qed.
End FoldNormal.

(* the fuel suffices on the expressions one can write with up to three special characters in a row *)
Example fold_reaches_fixpoint :
  forallb (fun p => beq_bytes (fold_pass FN (fold p)) (fold p))
          [[37;37;95;97;37;95;37;92;37;37]; [37;95;95]; [37;37;37]; [37;95;37;95;37;95]; [92]; [37;92]; []]%N = true.
Proof. vm_compute. reflexivity. Qed.

(* ------------------------------------------------------------------ *)
(* namespace_spec                                                       *)

Lemma filter_filter {A} (f g : A -> bool) l : filter f (filter g l) = filter (fun x => g x && f x) l.
Proof. induction l as [|a l IH]; [reflexivity|]. cbn [filter]. destruct (g a); cbn [filter andb]; [destruct (f a); rewrite IH; reflexivity | exact IH]. Qed.

Lemma max_ub (f : rule -> N) l r : In r l -> (f r <= fold_right (fun r acc => N.max (f r) acc) 0%N l)%N.
Proof. induction l as [|a l IH]; [intros []|]. cbn [fold_right]. intros [->|H]; [lia | specialize (IH H); lia]. Qed.

Lemma existsb_ext_in' {A} (f g : A -> bool) l : (forall a, In a l -> f a = g a) -> existsb f l = existsb g l.
Proof.
  induction l as [|a l IH]; intros H; [reflexivity|]. cbn [existsb].
  rewrite (H a (or_introl eq_refl)), IH; [reflexivity | intros b Hb; apply H; right; exact Hb].
Qed.

Lemma nonempty_filter_existsb {A} (P : A -> bool) l : negb (Nat.eqb (length (filter P l)) 0) = existsb P l.
Proof. induction l as [|a l IH]; [reflexivity|]. cbn [filter existsb]. destruct (P a); [reflexivity | exact IH]. Qed.

Lemma ns_tail (len : rule -> N) (u h : rule -> bool) ms :
  negb (Nat.eqb (length (filter h (filter u (filter (fun r => (fold_right (fun r acc => N.max (len r) acc) 0 ms <=? len r)%N) ms)))) 0)
  = existsb (fun r => (len r =? fold_right (fun r acc => N.max (len r) acc) 0 ms)%N && u r && h r) ms.
Proof.
  rewrite !filter_filter, nonempty_filter_existsb. apply existsb_ext_in'. intros r Hr.
  pose proof (max_ub len ms r Hr) as Hub.
  assert (E : (fold_right (fun r acc => N.max (len r) acc) 0 ms <=? len r)%N
              = (len r =? fold_right (fun r acc => N.max (len r) acc) 0 ms)%N)
    by (apply eq_true_iff_eq; rewrite N.leb_le, N.eqb_eq; lia).
  rewrite E. destruct (len r =? _)%N, (u r), (h r); reflexivity.
Qed.

Section Namespace.
  Variable t : ctab.
  (* sort orders are non-negative *)
  Hypothesis ci_nonneg : forall c, 0 <= so_ci t c.
  Hypothesis bin_nonneg : forall c, 0 <= so_bin t c.

  Lemma map_nonneg (so : N -> Z) (H : forall c, 0 <= so c) s : Forall (fun x => 0 <= x) (map so s).
  Proof. induction s; constructor; [apply H | assumption]. Qed.

  Definition rule_normal (r : rule) : Prop :=
    normal (parse (so_ci t) false (r_d r)) = true /\ normal (parse (so_ci t) false (r_b r)) = true
    /\ normal (parse (so_bin t) false (r_u r)) = true /\ normal (parse (so_ci t) false (r_h r)) = true.

  (* namespace_spec: for every namespace table whose expressions are folded and every request
     with non-empty database, branch, user and host, CanCreate is the rule "unrestricted, or a
     longest matching branch expression names the user and host".  (An empty request string is
     the class of match1_empty_refuted.) *)
  Theorem namespace_spec rules q :
    Forall rule_normal rules ->
    q_d q <> [] -> q_b q <> [] -> q_u q <> [] -> q_h q <> [] ->
    can_create t rules q = spec_can_create t rules q.
  Proof.
    intros Hn Hd Hb Hu Hh. unfold can_create, spec_can_create. cbv zeta.
    assert (Mci : forall p s, normal (parse (so_ci t) false p) = true -> s <> [] ->
                    match1 (phantom_ci t) (parse (so_ci t) false p) (map (so_ci t) s) = like_str (so_ci t) p s).
    { intros p s Hp Hs. apply match1_nonempty_is_like; [exact Hp | apply map_nonneg; exact ci_nonneg |].
      destruct s; [contradiction | discriminate]. }
    assert (Mbin : forall p s, normal (parse (so_bin t) false p) = true -> s <> [] ->
                    match1 (phantom_bin t) (parse (so_bin t) false p) (map (so_bin t) s) = like_str (so_bin t) p s).
    { intros p s Hp Hs. apply match1_nonempty_is_like; [exact Hp | apply map_nonneg; exact bin_nonneg |].
      destruct s; [contradiction | discriminate]. }
    rewrite Forall_forall in Hn.
    remember (filter (fun r => like_str (so_ci t) (r_d r) (q_d q) && like_str (so_ci t) (r_b r) (q_b q)) rules) as ms eqn:Hms.
    remember (filter (fun r => like_str (so_ci t) (r_d r) (q_d q)) rules) as D eqn:HD.
    assert (E1 : filter (fun r => match1 (phantom_ci t) (parse (so_ci t) false (r_d r)) (map (so_ci t) (q_d q))) rules = D).
    { rewrite HD. apply filter_ext_in. intros r Hr. destruct (Hn r Hr) as [H1 _]. apply Mci; assumption. }
    rewrite E1.
    assert (E2 : filter (fun r => match1 (phantom_ci t) (parse (so_ci t) false (r_b r)) (map (so_ci t) (q_b q))) D = ms).
    { transitivity (filter (fun r => like_str (so_ci t) (r_b r) (q_b q)) D).
      - apply filter_ext_in. intros r Hr. rewrite HD in Hr. apply filter_In in Hr as [Hr _].
        destruct (Hn r Hr) as [_ [H2 _]]. apply Mci; assumption.
      - rewrite HD, Hms, filter_filter. reflexivity. }
    rewrite E2.
    destruct D as [|d0 D'].
    { cbn [filter] in E2. rewrite <- E2. reflexivity. }
    destruct ms as [|m0 ms']; [reflexivity|].
    cbn [length Nat.eqb orb].
    rewrite ns_tail. apply existsb_ext_in'. intros r Hr.
    assert (Hin : In r rules) by (rewrite Hms in Hr; apply filter_In in Hr; apply Hr).
    destruct (Hn r Hin) as [_ [_ [H3 H4]]]. rewrite Mbin by assumption. rewrite Mci by assumption. reflexivity.
  Qed.
End Namespace.
