(* C38 — proofs. *)
From Coq Require Import NArith ZArith PeanoNat List Bool Lia Permutation.
From Dolt Require Import Base.Str C38.Model C38.Spec C38.Corr.
Import ListNotations.
Local Open Scope Z_scope.

(* ------------------------------------------------------------------ *)
(* 1. LIKE: unfolding lemmas and the two rewrite rules folding uses    *)

Definition leq (p q : list Z) : Prop := forall s, like p s = like q s.

Lemma leq_refl p : leq p p. Proof. intros s; reflexivity. Qed.
Lemma leq_sym p q : leq p q -> leq q p. Proof. intros H s; symmetry; apply H. Qed.
Lemma leq_trans p q r : leq p q -> leq q r -> leq p r. Proof. intros H1 H2 s; rewrite H1; apply H2. Qed.

Lemma like_any p s :
  like (t_any :: p) s = like p s || match s with [] => false | _ :: s' => like (t_any :: p) s' end.
Proof. destruct s; reflexivity. Qed.

Lemma like_tok t p s :
  (t =? t_any) = false ->
  like (t :: p) s = match s with [] => false | x :: s' => ((t =? t_one) || (x =? t)) && like p s' end.
Proof. intros H. cbn [like]. rewrite H. reflexivity. Qed.

Lemma leq_cons t p q : leq p q -> leq (t :: p) (t :: q).
Proof.
  intros H. destruct (t =? t_any) eqn:E.
  - apply Z.eqb_eq in E. subst t. intros s. induction s as [|x s IH].
    + rewrite !like_any, H. reflexivity.
    + rewrite (like_any p), (like_any q), H, IH. reflexivity.
  - intros s. rewrite !like_tok by exact E. destruct s; [reflexivity | rewrite H; reflexivity].
Qed.

Lemma like_any_any p : leq (t_any :: t_any :: p) (t_any :: p).
Proof.
  intros s. induction s as [|x s IH].
  - rewrite (like_any (t_any :: p)). apply orb_false_r.
  - rewrite (like_any (t_any :: p)), IH. rewrite (like_any p (x :: s)).
    destruct (like p (x :: s)), (like (t_any :: p) s); reflexivity.
Qed.

Lemma like_any_one p : leq (t_any :: t_one :: p) (t_one :: t_any :: p).
Proof.
  assert (Hone : (t_one =? t_any) = false) by reflexivity.
  intros s. induction s as [|x s IH].
  - rewrite like_any, !like_tok by exact Hone. reflexivity.
  - rewrite like_any, IH. rewrite (like_tok t_one p) by exact Hone.
    rewrite (like_tok t_one (t_any :: p) (x :: s)) by exact Hone.
    rewrite (like_tok t_one (t_any :: p) s) by exact Hone.
    change (t_one =? t_one) with true. cbn [orb andb]. rewrite (like_any p s).
    destruct s; [rewrite orb_false_r|]; reflexivity.
Qed.

(* ------------------------------------------------------------------ *)
(* 2. one pass of FoldExpression preserves what the expression matches *)

Lemma fold_pass_sem_all so s :
  leq (parse so false (fold_pass FN s)) (parse so false s)
  /\ leq (parse so true (fold_pass FSkip s)) (parse so true s)
  /\ leq (parse so false (fold_pass FCons s)) (t_any :: parse so false s).
Proof.
  induction s as [|r s [IH1 [IH2 IH3]]].
  - repeat split; apply leq_refl.
  - repeat split.
    + (* FN *)
      cbn [fold_pass]. destruct (r =? c_bs)%N eqn:Eb.
      * cbn [parse]. rewrite Eb. exact IH2.
      * destruct (r =? c_pct)%N eqn:Ep.
        -- cbn [parse]. rewrite Eb, Ep. exact IH3.
        -- cbn [parse]. rewrite Eb, Ep. destruct (r =? c_us)%N; apply leq_cons; exact IH1.
    + (* FSkip *)
      cbn [fold_pass parse]. apply leq_cons. exact IH1.
    + (* FCons *)
      cbn [fold_pass]. destruct (r =? c_bs)%N eqn:Eb.
      * apply N.eqb_eq in Eb. subst r. cbn [parse N.eqb c_pct c_bs c_us Pos.eqb]. apply leq_cons. exact IH2.
      * destruct (r =? c_us)%N eqn:Eu.
        -- apply N.eqb_eq in Eu. subst r. cbn [parse N.eqb c_pct c_bs c_us Pos.eqb].
           eapply leq_trans; [|apply leq_sym; apply like_any_one].
           apply leq_cons. apply leq_cons. exact IH1.
        -- destruct (r =? c_pct)%N eqn:Ep.
           ++ apply N.eqb_eq in Ep. subst r. cbn [parse N.eqb c_pct c_bs c_us Pos.eqb].
              eapply leq_trans; [|apply leq_sym; apply like_any_any].
              apply leq_cons. exact IH1.
           ++ cbn [parse N.eqb c_pct c_bs c_us Pos.eqb]. rewrite Eb, Ep, Eu.
              apply leq_cons. apply leq_cons. exact IH1.
Qed.

Theorem fold_pass_sem so s x : like (parse so false (fold_pass FN s)) x = like (parse so false s) x.
Proof. apply (proj1 (fold_pass_sem_all so s)). Qed.

Lemma fold_iter_sem so fuel s : leq (parse so false (fold_iter fuel s)) (parse so false s).
Proof.
  revert s. induction fuel as [|k IH]; intros s; [apply leq_refl|].
  cbn [fold_iter]. destruct (beq_bytes (fold_pass FN s) s); [apply leq_refl|].
  eapply leq_trans; [apply IH | intros x; apply fold_pass_sem].
Qed.

(* FoldExpression preserves LIKE: for every collation, expression and subject *)
Theorem fold_sem so p s : like (parse so false (fold p)) s = like (parse so false p) s.
Proof. apply fold_iter_sem. Qed.

Corollary fold_sem_str so p s : like_str so (fold p) s = like_str so p s.
Proof. apply fold_sem. Qed.

(* ------------------------------------------------------------------ *)
(* 3. the state-set matcher accepts exactly LIKE on folded expressions  *)

Fixpoint nfa1 (p : list Z) (s : list Z) {struct s} : bool :=
  match s with
  | [] => is_at_end p
  | x :: s' => existsb (fun p' => nfa1 p' s') (step1 p x)
  end.

Lemma existsb_flat_map {A B} (f : B -> bool) (g : A -> list B) l :
  existsb f (flat_map g l) = existsb (fun a => existsb f (g a)) l.
Proof. induction l as [|a l IH]; [reflexivity|]. cbn [flat_map existsb]. rewrite existsb_app, IH. reflexivity. Qed.

Lemma run1_nfa1 s sts : existsb is_at_end (run1 sts s) = existsb (fun p => nfa1 p s) sts.
Proof.
  revert sts. induction s as [|x s IH]; intros sts; [reflexivity|].
  unfold run1 in *. cbn [fold_left]. rewrite IH, existsb_flat_map. reflexivity.
Qed.

Lemma normal_tail t p : normal (t :: p) = true -> normal p = true.
Proof. cbn [normal]. intros H. apply andb_true_iff in H as [_ H]. exact H. Qed.

Lemma normal_any_next y r : normal (t_any :: y :: r) = true -> (y =? t_any) = false /\ (y =? t_one) = false.
Proof.
  cbn [normal]. change (t_any =? t_any) with true. cbn match. intros H. apply andb_true_iff in H as [H _].
  apply negb_true_iff in H. apply orb_false_iff in H. exact H.
Qed.

Lemma nfa1_like s : forall p, normal p = true -> Forall (fun x => 0 <= x) s -> nfa1 p s = like p s.
Proof.
  induction s as [|x s IH]; intros p Hn Hs.
  - cbn [nfa1]. destruct p as [|t [|y r]]; [reflexivity| |].
    + cbn [is_at_end]. destruct (t =? t_any) eqn:E.
      * apply Z.eqb_eq in E. subst t. reflexivity.
      * rewrite like_tok by exact E. reflexivity.
    + cbn [is_at_end]. destruct (t =? t_any) eqn:E.
      * apply Z.eqb_eq in E. subst t. destruct (normal_any_next _ _ Hn) as [Ha _].
        rewrite like_any, like_tok by exact Ha. reflexivity.
      * rewrite like_tok by exact E. reflexivity.
  - inversion Hs as [|? ? Hx Hs']; subst. cbn [nfa1]. destruct p as [|t r]; [reflexivity|].
    pose proof (normal_tail _ _ Hn) as Hr. unfold step1.
    destruct (t =? t_one) eqn:E1.
    + apply Z.eqb_eq in E1. subst t. assert ((x <? t_one) = false) as -> by (apply Z.ltb_ge; unfold t_one; lia).
      cbn [existsb]. rewrite orb_false_r, IH by assumption. rewrite like_tok by reflexivity. reflexivity.
    + destruct (t =? t_any) eqn:E2.
      * apply Z.eqb_eq in E2. subst t. rewrite (like_any r (x :: s)). cbn [existsb].
        rewrite IH by assumption. rewrite orb_comm. f_equal.
        destruct r as [|y r'].
        -- reflexivity.
        -- destruct (normal_any_next _ _ Hn) as [Ha Ho]. rewrite like_tok by exact Ha. rewrite Ho. cbn [orb].
           rewrite (Z.eqb_sym x y). destruct (y =? x); cbn [existsb andb]; [|reflexivity].
           rewrite orb_false_r. apply IH; [|assumption]. apply (normal_tail _ _ Hr).
      * rewrite like_tok by exact E2. rewrite E1. cbn [orb].
        destruct (x =? t); cbn [existsb andb]; [|reflexivity]. rewrite orb_false_r. apply IH; assumption.
Qed.

(* MatchExpression.Matches / IsAtEnd iterated over a subject = LIKE, for every folded
   expression and every subject made of sort orders (which are non-negative) *)
Theorem nfa_eq_like p s :
  normal p = true -> Forall (fun x => 0 <= x) s -> nfa_accepts p s = like p s.
Proof.
  intros Hn Hs. unfold nfa_accepts. rewrite run1_nfa1. cbn [existsb]. rewrite orb_false_r. apply nfa1_like; assumption.
Qed.

(* the branching rule needs the folded form: "%_" unfolded never matches *)
Example nfa_needs_folding : nfa_accepts [t_any; t_one] [5] = false /\ like [t_any; t_one] [5] = true.
Proof. split; reflexivity. Qed.

(* Match() on a non-empty subject is LIKE *)
Theorem match1_nonempty_is_like ph p s :
  normal p = true -> Forall (fun x => 0 <= x) s -> s <> [] -> match1 ph p s = like p s.
Proof.
  intros Hn Hs Hne. unfold match1. destruct s as [|x s]; [contradiction|]. apply nfa_eq_like; assumption.
Qed.

(* Refuted for the empty subject: it is processed as the one-rune string U+FFFD, so "_"
   matches it and the empty expression does not.  Reproduced on the implementation. *)
Theorem match1_empty_refuted :
  exists ph p, 0 <= ph /\ normal p = true /\ match1 ph p [] = true /\ like p [] = false.
Proof. exists 65533, [t_one]. repeat split; try reflexivity. lia. Qed.

Theorem match1_empty_refuted2 :
  exists ph, 0 <= ph /\ match1 ph [] [] = false /\ like [] [] = true.
Proof. exists 65533. repeat split; try reflexivity. lia. Qed.

(* ------------------------------------------------------------------ *)
(* 4. the longest-match loop                                            *)

Local Open Scope N_scope.

Definition top_len (rs : list (N * N)) : N := fold_right (fun r acc => N.max (snd r) acc) 0 rs.
Definition perms_at (L : N) (rs : list (N * N)) : N :=
  fold_right (fun r acc => if snd r =? L then N.lor (fst r) acc else acc) 0 rs.

Lemma longest_loop_gen rs : forall P L,
  fold_left (fun acc res =>
               let '(perms, len) := acc in let '(p, n) := res in
               if len <? n then (p, n) else if n =? len then (N.lor perms p, len) else acc) rs (P, L)
  = (N.lor (if L =? N.max L (top_len rs) then P else 0) (perms_at (N.max L (top_len rs)) rs), N.max L (top_len rs)).
Proof.
  induction rs as [|[p n] rs IH]; intros P L.
  - cbn [fold_left top_len perms_at fold_right]. rewrite N.max_0_r, N.eqb_refl, N.lor_0_r. reflexivity.
  - cbn [fold_left]. cbn [top_len perms_at fold_right snd fst]. fold (top_len rs).
    fold (perms_at (N.max L (N.max n (top_len rs))) rs).
    destruct (L <? n) eqn:E1.
    + apply N.ltb_lt in E1. rewrite IH.
      assert (N.max L (N.max n (top_len rs)) = N.max n (top_len rs)) as -> by lia.
      assert ((L =? N.max n (top_len rs)) = false) as -> by (apply N.eqb_neq; lia).
      f_equal. rewrite N.lor_0_l. destruct (n =? N.max n (top_len rs)); [reflexivity | apply N.lor_0_l].
    + apply N.ltb_ge in E1. destruct (n =? L) eqn:E2.
      * apply N.eqb_eq in E2. subst n. rewrite IH.
        assert (N.max L (N.max L (top_len rs)) = N.max L (top_len rs)) as -> by lia.
        f_equal. destruct (L =? N.max L (top_len rs)); [symmetry; apply N.lor_assoc | reflexivity].
      * apply N.eqb_neq in E2. rewrite IH.
        assert (N.max L (N.max n (top_len rs)) = N.max L (top_len rs)) as -> by lia.
        assert ((n =? N.max L (top_len rs)) = false) as -> by (apply N.eqb_neq; lia).
        reflexivity.
Qed.

(* MatchIgnoringRow's loop computes: the maximal length, and the union of the permissions
   of exactly the results of that length *)
Theorem longest_loop_spec rs : longest_loop rs = (perms_at (top_len rs) rs, top_len rs).
Proof.
  unfold longest_loop. rewrite longest_loop_gen. rewrite N.max_0_l.
  destruct (0 =? top_len rs); rewrite N.lor_0_l; reflexivity.
Qed.

Lemma top_len_perm rs rs' : Permutation rs rs' -> top_len rs = top_len rs'.
Proof.
  induction 1 as [|x l l' _ IH|x y l|l l' l'' _ IH1 _ IH2].
  - reflexivity.
  - cbn [top_len fold_right]. fold (top_len l). fold (top_len l'). rewrite IH. reflexivity.
  - cbn [top_len fold_right]. fold (top_len l). lia.
  - congruence.
Qed.

Lemma perms_at_perm L rs rs' : Permutation rs rs' -> perms_at L rs = perms_at L rs'.
Proof.
  induction 1 as [|x l l' _ IH|x y l|l l' l'' _ IH1 _ IH2]; cbn [perms_at fold_right] in *.
  - reflexivity.
  - fold (perms_at L l) in *. fold (perms_at L l') in *. rewrite IH. reflexivity.
  - fold (perms_at L l). destruct (snd y =? L), (snd x =? L); try reflexivity.
    rewrite !N.lor_assoc, (N.lor_comm (fst y)). reflexivity.
  - congruence.
Qed.

(* The decision is a function of the rule SET: any reordering of the rules (hence any
   order of inserts and deletes that leaves the same rules) gives the same answer.
   PARTIAL: proved for the rule-level model of the table; the statement for the trie
   (MatchNode.Add / Remove in any order yield a trie whose Match returns these results)
   rests on the correspondence run. *)
Theorem access_match_perm_invariant_partial t rules rules' q :
  Permutation rules rules' -> access_match t rules q = access_match t rules' q.
Proof.
  intros HP. unfold access_match.
  assert (HR : Permutation (match_results t rules q) (match_results t rules' q)).
  { unfold match_results. apply Permutation_flat_map. exact HP. }
  rewrite (Permutation_length HR). rewrite !longest_loop_spec. cbn [fst].
  rewrite (top_len_perm _ _ HR), (perms_at_perm _ _ _ HR). reflexivity.
Qed.

Local Open Scope Z_scope.

(* Refuted: the access matcher parses the REQUEST with the expression parser.  With the
   single rule (db, feature\_x, u, h, write) the branch feature_x of user u@h on db is not
   matched, although LIKE matches it.  Reproduced on the implementation (API and SQL). *)
Local Open Scope N_scope.
Definition w_tab : ctab :=
  map (fun c => (c, {| ci_so := Z.of_N c; ci_bin := Z.of_N c; ci_lower := c |}))
      [92; 95; 97; 98; 100; 101; 102; 104; 114; 116; 117; 120].
Definition w_rule := mk_rule [100; 98] [102; 101; 97; 116; 117; 114; 101; 92; 95; 120] [117] [104] 2.
Definition w_req := mk_req [100; 98] [102; 101; 97; 116; 117; 114; 101; 95; 120] [117] [104].

Theorem access_request_parsed_refuted :
  exists t r q, norm_rule t r = r /\ spec_access t [r] q = (true, 14%N) /\ access_match t [r] q = (false, 0%N).
Proof. exists w_tab, w_rule, w_req. vm_compute. repeat split; reflexivity. Qed.

(* non-vacuity: ties are united, the longest rule wins, on the rule-level model *)
Example access_tie_and_longest :
  let r1 := mk_rule [100; 98] [97; 37] [117] [104] 4 in     (* db  a%  u h  merge *)
  let r2 := mk_rule [100; 98] [37; 98] [117] [104] 8 in     (* db  %b  u h  read  *)
  let r3 := mk_rule [100; 98] [37] [117] [104] 1 in         (* db  %   u h  admin *)
  access_match w_tab [r1; r2; r3] (mk_req [100; 98] [97; 98] [117] [104]) = (true, 12%N)
  /\ spec_access w_tab [r1; r2; r3] (mk_req [100; 98] [97; 98] [117] [104]) = (true, 12%N)
  /\ access_match w_tab [r3] (mk_req [100; 98] [97; 98] [117] [104]) = (true, 15%N).
Proof. vm_compute. repeat split; reflexivity. Qed.
